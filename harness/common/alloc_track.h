// Allocation registry + fault injector.  Include in exactly one TU (the property TU).
// Replaces global operator new/delete by malloc/free (still seen by ASan) and
// records every block; blocks allocated *while a library call was executing*
// (LibScope) are attributed to the library.  The registry's own storage never
// goes through operator new.  Single-threaded use only.
#pragma once
#include <cerrno>
#include <cstdint>
#include <cstdio>
#include <cstdlib>
#include <cstring>
#include <new>
#include "verif.h"

// With -Wl,--wrap=malloc,--wrap=calloc,--wrap=realloc,--wrap=free (added by the driver for every harness that includes this header) the
// C allocator calls made by code compiled into this translation unit - string_theory is header-only - go through the same registry and the
// same fault injector as operator new: an implementation that keeps its storage with malloc/realloc/free is tracked, leak-checked and
// fault-injected exactly like one that uses new[]/delete[].  The registry itself and operator new use the real functions.
#ifdef VERIF_WRAP_MALLOC
extern "C" void *__real_malloc(size_t);
extern "C" void *__real_calloc(size_t, size_t);
extern "C" void *__real_realloc(void *, size_t);
extern "C" void __real_free(void *);
#define VA_MALLOC __real_malloc
#define VA_CALLOC __real_calloc
#define VA_FREE __real_free
#else
#define VA_MALLOC malloc
#define VA_CALLOC calloc
#define VA_FREE free
#endif

namespace verif { namespace alloc {

struct Entry { void *p; size_t n; bool lib; };
struct Registry {
    Entry *tab = nullptr; size_t cap = 0, used = 0, live = 0, live_lib = 0;   // open addressing, p==(void*)1 is a tombstone
    int lib_depth = 0;
    long scope_allocs = 0;        // allocations made inside LibScope since reset()
    long fail_at = 0;             // k>0: the k-th LibScope allocation (counted from arm_fault) throws bad_alloc
    long fault_counter = 0;
    bool fault_fired = false;
    long total_allocs = 0;
    char error[200] = {0};
    static size_t h(void *p) { uint64_t x = (uint64_t)p; x ^= x >> 33; x *= 0xff51afd7ed558ccdull; x ^= x >> 29; return (size_t)x; }
    void grow() {
        size_t ncap = 1024; while (ncap < (live + 1) * 4) ncap *= 2;   // sized by live entries: tombstones are dropped
        Entry *nt = (Entry *)VA_CALLOC(ncap, sizeof(Entry));
        for (size_t i = 0; i < cap; i++) if (tab[i].p > (void *)1) { size_t j = h(tab[i].p) & (ncap - 1); while (nt[j].p) j = (j + 1) & (ncap - 1); nt[j] = tab[i]; }
        VA_FREE(tab); tab = nt; cap = ncap; used = live;
    }
    void add(void *p, size_t n, bool lib) {
        if ((used + 1) * 2 > cap) grow();
        size_t j = h(p) & (cap - 1); while (tab[j].p > (void *)1) j = (j + 1) & (cap - 1);
        if (!tab[j].p) used++;
        tab[j].p = p; tab[j].n = n; tab[j].lib = lib; live++; if (lib) live_lib++;
    }
    Entry *find(const void *p) {
        if (!cap) return nullptr;
        size_t j = h((void *)p) & (cap - 1);
        while (tab[j].p) { if (tab[j].p == p) return &tab[j]; j = (j + 1) & (cap - 1); }
        return nullptr;
    }
    bool remove(void *p) { Entry *e = find(p); if (!e) return false; e->p = (void *)1; live--; if (e->lib) live_lib--; return true; }
    // forget library attribution of whatever is still live (start of a case)
    void forget_lib() { if (live_lib) for (size_t i = 0; i < cap; i++) if (tab[i].p > (void *)1) tab[i].lib = false; live_lib = 0; }
};
inline Registry &reg() { static Registry r; return r; }

// start of a case
inline void reset() { Registry &r = reg(); r.forget_lib(); r.scope_allocs = 0; r.fail_at = 0; r.fault_counter = 0; r.fault_fired = false; r.total_allocs = 0; r.error[0] = 0; r.lib_depth = 0; }
inline size_t live_blocks() { return reg().live_lib; }   // live blocks attributed to the library
inline const char *error() { return reg().error[0] ? reg().error : nullptr; }
inline void clear_error() { reg().error[0] = 0; }
// is p the start of a live library block of at least min_bytes?
inline bool owns(const void *p, size_t min_bytes) { Entry *e = reg().find(p); return e && e->lib && e->n >= min_bytes; }
inline size_t block_size(const void *p) { Entry *e = reg().find(p); return e ? e->n : 0; }
// live block that contains address p (linear scan; used only when diagnosing)
inline bool inside_any_block(const void *p) {
    Registry &r = reg();
    for (size_t i = 0; i < r.cap; i++) if (r.tab[i].p > (void *)1 && r.tab[i].lib) { const char *b = (const char *)r.tab[i].p; if ((const char *)p >= b && (const char *)p < b + r.tab[i].n) return true; }
    return false;
}
inline long scope_allocs() { return reg().scope_allocs; }
inline void arm_fault(long k) { Registry &r = reg(); r.fail_at = k; r.fault_counter = 0; r.fault_fired = false; }
inline bool fault_fired() { return reg().fault_fired; }
inline long fault_counter() { return reg().fault_counter; }

struct LibScope {
    LibScope() { reg().lib_depth++; }
    ~LibScope() { reg().lib_depth--; }
};
// suspend attribution (harness work inside a callback from the library)
struct HarnessScope {
    int saved; HarnessScope() { saved = reg().lib_depth; reg().lib_depth = 0; } ~HarnessScope() { reg().lib_depth = saved; }
};

inline void *do_new(size_t n) {
    Registry &r = reg();
    if (r.lib_depth > 0) {
        if (n > (1ull << 30)) throw budget_exceeded{"single allocation larger than 1 GiB requested"};
        if (++r.total_allocs > 1000000) throw budget_exceeded{"more than 10^6 allocations in one case"};
        r.scope_allocs++;
        if (r.fail_at > 0 && ++r.fault_counter == r.fail_at) { r.fault_fired = true; throw std::bad_alloc(); }
    }
    void *p = VA_MALLOC(n ? n : 1);
    if (!p) throw std::bad_alloc();
    r.add(p, n, r.lib_depth > 0);
    return p;
}
inline void do_delete(void *p) {
    if (!p) return;
    Registry &r = reg();
    bool known = r.remove(p);
    if (!known) {
        // every block handed out by operator new is registered, so this pointer was never
        // obtained from it or was already released: record (attributed to the library only
        // inside a library call) and do not pass it to free(), so the case can finish
        if (r.lib_depth > 0 && !r.error[0]) snprintf(r.error, sizeof r.error, "invalid or double free of %p inside a library call", p);
        if (r.lib_depth > 0) return;
    }
    VA_FREE(p);
}
}}  // namespace verif::alloc

#ifdef VERIF_WRAP_MALLOC
// C allocator entry points of this translation unit.  Outside a library call they pass straight through (harness code); inside one they are
// counted, may be made to fail (return NULL with ENOMEM - the old block of a failed realloc stays valid, as the C standard says), and the
// blocks are registered as the library's so that ownership and leak checks see them.
namespace verif { namespace alloc {
inline bool c_fault(Registry &r, size_t n) {
    if (n > (1ull << 30)) throw budget_exceeded{"single allocation larger than 1 GiB requested"};
    if (++r.total_allocs > 1000000) throw budget_exceeded{"more than 10^6 allocations in one case"};
    r.scope_allocs++;
    if (r.fail_at > 0 && ++r.fault_counter == r.fail_at) { r.fault_fired = true; errno = ENOMEM; return true; }
    return false;
}
}}
extern "C" void *__wrap_malloc(size_t n) {
    verif::alloc::Registry &r = verif::alloc::reg();
    if (r.lib_depth <= 0) return __real_malloc(n);
    if (verif::alloc::c_fault(r, n)) return nullptr;
    void *p = __real_malloc(n ? n : 1);
    if (p) r.add(p, n, true);
    return p;
}
extern "C" void *__wrap_calloc(size_t a, size_t b) {
    verif::alloc::Registry &r = verif::alloc::reg();
    if (r.lib_depth <= 0) return __real_calloc(a, b);
    if (verif::alloc::c_fault(r, a * b)) return nullptr;
    void *p = __real_calloc(a ? a : 1, b ? b : 1);
    if (p) r.add(p, a * b, true);
    return p;
}
extern "C" void *__wrap_realloc(void *old, size_t n) {
    verif::alloc::Registry &r = verif::alloc::reg();
    if (r.lib_depth <= 0) { if (old) r.remove(old); return __real_realloc(old, n); }
    if (verif::alloc::c_fault(r, n)) return nullptr;
    bool known = !old || r.find(old);
    if (!known && !r.error[0]) snprintf(r.error, sizeof r.error, "realloc of %p, which is not a live block, inside a library call", old);
    if (!known) return nullptr;
    if (old) r.remove(old);
    void *p = __real_realloc(old, n ? n : 1);
    if (p) r.add(p, n, true);
    return p;
}
extern "C" void __wrap_free(void *p) {
    if (!p) return;
    verif::alloc::Registry &r = verif::alloc::reg();
    r.remove(p);          // harness blocks allocated outside a library call were never registered: nothing to remove, plain free
    __real_free(p);
}
#endif

void *operator new(size_t n) { return verif::alloc::do_new(n); }
void *operator new[](size_t n) { return verif::alloc::do_new(n); }
void *operator new(size_t n, const std::nothrow_t &) noexcept { try { return verif::alloc::do_new(n); } catch (...) { return nullptr; } }
void *operator new[](size_t n, const std::nothrow_t &) noexcept { try { return verif::alloc::do_new(n); } catch (...) { return nullptr; } }
void operator delete(void *p) noexcept { verif::alloc::do_delete(p); }
void operator delete[](void *p) noexcept { verif::alloc::do_delete(p); }
void operator delete(void *p, size_t) noexcept { verif::alloc::do_delete(p); }
void operator delete[](void *p, size_t) noexcept { verif::alloc::do_delete(p); }
void operator delete(void *p, const std::nothrow_t &) noexcept { verif::alloc::do_delete(p); }
void operator delete[](void *p, const std::nothrow_t &) noexcept { verif::alloc::do_delete(p); }
