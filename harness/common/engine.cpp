// Engine around verif_case(): rapidcheck byte-vector generation + shrinking,
// replay of a saved case, sharded enumeration.  Compiled once (setup); the
// property TU is linked against it.  All random choices are rapidcheck's.
#include <rapidcheck.h>

#include <csignal>
#include <cstdio>
#include <cstdlib>
#include <cstring>
#include <ctime>
#include <fstream>
#include <string>
#include <sys/time.h>
#include <unistd.h>
#include <unordered_set>
#include <map>
#include <vector>

#include "verif.h"

extern "C" void __sanitizer_set_death_callback(void (*)(void));

namespace {

const uint8_t *g_cur_data = nullptr;
size_t g_cur_size = 0;
std::string g_replay_out;        // where failing cases are written
char g_crash_path[600];
char g_hang_path[600];

void write_file_raw(const char *path, const uint8_t *d, size_t n) {
    FILE *f = fopen(path, "wb");
    if (!f) return;
    if (n) fwrite(d, 1, n, f);
    fclose(f);
}

void save_current(const char *path) {
    if (!path[0]) return;
    write_file_raw(path, g_cur_data, g_cur_data ? g_cur_size : 0);
}

void death_callback() { save_current(g_crash_path); }

void on_fatal_signal(int sig) {
    save_current(g_crash_path);
    signal(sig, SIG_DFL);
    raise(sig);
}

void on_watchdog(int) {
    save_current(g_hang_path);
    static const char msg[] = "\n   why: CPU-time watchdog expired: the case used 20 s of CPU time without finishing (does not terminate)\n";
    if (write(1, msg, sizeof msg - 1) < 0) { }
    _exit(77);
}

void arm_watchdog(int seconds) {
    struct itimerval it;
    memset(&it, 0, sizeof it);
    it.it_value.tv_sec = seconds;
    setitimer(ITIMER_VIRTUAL, &it, nullptr);
}

std::string json_escape(const std::string &s) {
    std::string o;
    char tmp[8];
    for (unsigned char ch : s) {
        if (ch == '"' || ch == '\\') { o += '\\'; o += (char)ch; }
        else if (ch == '\n') o += "\\n";
        else if (ch < 0x20 || ch >= 0x7F) { snprintf(tmp, sizeof tmp, "\\u%04x", ch); o += tmp; }
        else o += (char)ch;
    }
    return o;
}

struct Stats {
    long evaluations = 0, nontrivial = 0, discarded = 0, violations = 0, excluded_known = 0;
    std::unordered_set<uint64_t> nt_hashes;
    std::map<std::string, long> labels;
    std::vector<std::string> samples;
    std::map<std::string, int> sample_labels;   // labels already represented in samples
    std::string failure, failing_text;
    std::vector<std::string> exhausted;
    double t0 = 0;
} S;

double now() { struct timespec ts; clock_gettime(CLOCK_MONOTONIC, &ts); return ts.tv_sec + ts.tv_nsec * 1e-9; }

void account(const verif::Case &c, int verdict) {
    S.evaluations++;
    S.excluded_known += c.excluded_known;
    if (verdict == verif::CASE_DISCARD) { S.discarded++; return; }
    if (c.nontrivial) { S.nontrivial++; S.nt_hashes.insert(c.hash); }
    bool newlabel = false;
    for (int i = 0; i < c.nlabels; i++) {
        long &n = S.labels[c.labels[i]];
        if (n++ == 0) newlabel = true;
    }
    (void)newlabel;
}

// verdict of the static-initialisation probe (harness/common/st_static_init_probe.h), taken once when the engine starts; a failed probe
// makes every case of this process a violation (whatever its bytes), so that the saved replay file reproduces it in a fresh process
std::string g_static_verdict;

// Runs one case; when it is worth a sample, re-runs it with text rendering on
// (cases are pure functions of their bytes).
int run_case(const uint8_t *d, size_t n, bool force_text, verif::Case &c) {
    g_cur_data = d; g_cur_size = n;
    if (!g_static_verdict.empty()) { c.failure = g_static_verdict; c.text = "(any case) static-initialisation probe of this process"; account(c, verif::CASE_VIOLATION); return verif::CASE_VIOLATION; }
    verif::case_environment(d, n);
    arm_watchdog(20);
    c.want_text = force_text;
    int v = verif_case(d, n, c);
    arm_watchdog(0);
    if (force_text && verif::g_misalign) c.text += " [exact-size input copies start " + std::to_string(verif::g_misalign) + " byte(s) past a 16-byte boundary]";
    account(c, v);
    if (v == verif::CASE_OK && !force_text && c.nontrivial && S.samples.size() < 24) {
        // sample policy: first nontrivial case of each not-yet-sampled label, spread over the run
        bool take = false;
        for (int i = 0; i < c.nlabels; i++) if (!S.sample_labels.count(c.labels[i])) take = true;
        if (c.nlabels == 0 && S.samples.size() < 6 && (S.evaluations % 97) == 1) take = true;
        if (take) {
            verif::Case c2; c2.want_text = true;
            arm_watchdog(20);
            verif_case(d, n, c2);
            arm_watchdog(0);
            if (!c2.text.empty()) {
                S.samples.push_back(c2.text);
                for (int i = 0; i < c.nlabels; i++) S.sample_labels[c.labels[i]]++;
            }
        }
    }
    return v;
}

void write_report(const std::string &path, const char *engine, long seed) {
    if (path.empty()) return;
    FILE *f = fopen(path.c_str(), "w");
    if (!f) return;
    fprintf(f, "{\"engine\":\"%s\",\"property\":\"%s\",\"seed\":%ld,\"evaluations\":%ld,\"nontrivial\":%ld,"
               "\"distinct_nontrivial\":%zu,\"discarded\":%ld,\"violations\":%ld,\"excluded_known\":%ld,\"wall_s\":%.3f,",
            engine, verif_info.id, seed, S.evaluations, S.nontrivial, S.nt_hashes.size(), S.discarded,
            S.violations, S.excluded_known, now() - S.t0);
    fprintf(f, "\"labels\":{");
    bool first = true;
    for (auto &kv : S.labels) { fprintf(f, "%s\"%s\":%ld", first ? "" : ",", json_escape(kv.first).c_str(), kv.second); first = false; }
    fprintf(f, "},\"samples\":[");
    for (size_t i = 0; i < S.samples.size(); i++) fprintf(f, "%s\"%s\"", i ? "," : "", json_escape(S.samples[i]).c_str());
    fprintf(f, "],\"exhausted\":[");
    for (size_t i = 0; i < S.exhausted.size(); i++) fprintf(f, "%s\"%s\"", i ? "," : "", json_escape(S.exhausted[i]).c_str());
    fprintf(f, "],\"failure\":\"%s\",\"failing_case\":\"%s\"}\n", json_escape(S.failure).c_str(), json_escape(S.failing_text).c_str());
    fclose(f);
    // hashes of the non-trivial cases, for the union across processes
    std::string hp = path + ".hashes";
    FILE *h = fopen(hp.c_str(), "wb");
    if (h) { for (uint64_t v : S.nt_hashes) fwrite(&v, 8, 1, h); fclose(h); }
}

std::vector<uint8_t> read_file(const char *path) {
    std::vector<uint8_t> v;
    FILE *f = fopen(path, "rb");
    if (!f) { fprintf(stderr, "cannot open %s\n", path); exit(3); }
    uint8_t buf[4096]; size_t n;
    while ((n = fread(buf, 1, sizeof buf, f)) > 0) v.insert(v.end(), buf, buf + n);
    fclose(f);
    return v;
}

const char *argval(int argc, char **argv, const char *name, const char *def) {
    for (int i = 2; i + 1 < argc; i++) if (!strcmp(argv[i], name)) return argv[i + 1];
    return def;
}
bool argflag(int argc, char **argv, const char *name) {
    for (int i = 2; i < argc; i++) if (!strcmp(argv[i], name)) return true;
    return false;
}

}  // namespace

namespace verif {
// used by enumerators to name the case being executed (for crash/hang files)
volatile unsigned long g_generation = 0;      // bumped by set_current: progress indicator for the enumerators' watchdog
void set_current(const uint8_t *d, size_t n) { g_cur_data = d; g_cur_size = n; g_generation = g_generation + 1; case_environment(d, n); }
}

namespace {
// Enumerators: a periodic CPU-time tick (5 s); four consecutive ticks without a new set_current() = 20 s of CPU in one case.
using verif::g_generation;
unsigned long g_last_generation = 0; int g_stalls = 0;
void on_enum_tick(int sig) {
    if (g_generation == 0) return;                 // this enumerator does not announce its cases
    if (g_generation != g_last_generation) { g_last_generation = g_generation; g_stalls = 0; return; }
    if (++g_stalls >= 4) on_watchdog(sig);
}
void arm_enum_watchdog() {
    signal(SIGVTALRM, on_enum_tick);
    struct itimerval it; memset(&it, 0, sizeof it);
    it.it_value.tv_sec = 5; it.it_interval.tv_sec = 5;
    setitimer(ITIMER_VIRTUAL, &it, nullptr);
}
}

int main(int argc, char **argv) {
    if (argc < 2) { fprintf(stderr, "usage: %s rc|replay|enum|info ...\n", argv[0]); return 3; }
    std::string mode = argv[1];
    S.t0 = now();
    std::string report = argval(argc, argv, "--report", "");
    g_replay_out = argval(argc, argv, "--replay-out", "");
    if (!g_replay_out.empty()) {
        snprintf(g_crash_path, sizeof g_crash_path, "%s.crash", g_replay_out.c_str());
        snprintf(g_hang_path, sizeof g_hang_path, "%s.hang", g_replay_out.c_str());
    }
    __sanitizer_set_death_callback(death_callback);
    signal(SIGABRT, on_fatal_signal);
    signal(SIGVTALRM, on_watchdog);

    if (mode != "info") g_static_verdict = verif_static_init_verdict();
    if (mode == "info") {
        printf("{\"id\":\"%s\",\"max_len\":%zu,\"has_enumerator\":%s,\"level\":\"%s\",\"rule\":\"%s\"}\n", verif_info.id,
               verif_info.max_len, verif_info.has_enumerator ? "true" : "false", verif_info.level, json_escape(verif_info.rule).c_str());
        return 0;
    }

    if (mode == "corpus") {
        std::vector<std::vector<uint8_t>> seeds;
        verif_corpus(seeds);
        std::string dir = argval(argc, argv, "--dir", ".");
        for (size_t i = 0; i < seeds.size(); i++) {
            std::string p = dir + "/seed-" + std::to_string(i);
            write_file_raw(p.c_str(), seeds[i].data(), seeds[i].size());
        }
        return 0;
    }

    if (mode == "replay") {
        // replay FILE...  : plain regression check, no generator library involved
        int rc = 0;
        bool quiet = argflag(argc, argv, "--quiet");
        for (int i = 2; i < argc; i++) {
            if (argv[i][0] == '-') { if (!strcmp(argv[i], "--report") || !strcmp(argv[i], "--replay-out") || !strcmp(argv[i], "--repeat")) i++; continue; }
            std::vector<uint8_t> bytes = read_file(argv[i]);
            // exact-size copy so that the replayed case sees the same memory layout rules
            verif::Case c;
            snprintf(g_crash_path, sizeof g_crash_path, "%s", "");   // never overwrite anything when replaying
            int v = run_case(bytes.data(), bytes.size(), true, c);
            // a case that passes is executed again (three more times at most) in the same process: a failure that needs what an earlier
            // execution left behind in the library (a cache, a lazily built table, a parked block) shows on the warm runs
            const int repeat = atoi(argval(argc, argv, "--repeat", "3"));
            for (int again = 0; again < repeat && v == verif::CASE_OK; again++) { verif::Case c2; v = run_case(bytes.data(), bytes.size(), true, c2); if (v != verif::CASE_OK) { c = c2; c.text += " [on repetition " + std::to_string(again + 2) + " of the case in one process]"; } }
            if (!quiet || v == verif::CASE_VIOLATION)
                printf("%s: %s\n   case: %s\n%s%s%s", argv[i],
                       v == 0 ? "ok" : v == 1 ? "VIOLATES" : "discarded", c.text.c_str(),
                       v == 1 ? "   why: " : "", v == 1 ? c.failure.c_str() : "", v == 1 ? "\n" : "");
            if (v == verif::CASE_VIOLATION) { rc = 1; S.violations++; S.failure = c.failure; S.failing_text = c.text; }
        }
        write_report(report, "replay", 0);
        return rc;
    }

    if (mode == "enum") {
        int shard = atoi(argval(argc, argv, "--shard", "0"));
        int nshards = atoi(argval(argc, argv, "--nshards", "1"));
        int tier = atoi(argval(argc, argv, "--tier", "0"));
        verif::EnumReport r;
        arm_enum_watchdog();
        if (!g_static_verdict.empty()) { r.failure = g_static_verdict; r.failing_case = "(any case) static-initialisation probe of this process"; }
        long n = g_static_verdict.empty() ? verif_enumerate(shard, nshards, tier, r) : 0;
        arm_watchdog(0); signal(SIGVTALRM, on_watchdog);
        (void)n;
        S.evaluations = r.evaluations; S.nontrivial = r.nontrivial; S.excluded_known = r.excluded_known;
        S.samples = r.samples; S.exhausted = r.exhausted;
        int rc = 0;
        if (!r.failure.empty()) {
            S.violations = 1; S.failure = r.failure; S.failing_text = r.failing_case; rc = 1;
            if (!g_replay_out.empty()) write_file_raw(g_replay_out.c_str(), r.failing_bytes.data(), r.failing_bytes.size());
            printf("FAIL %s\n   case: %s\n", r.failure.c_str(), r.failing_case.c_str());
        }
        write_report(report, "enum", shard);
        // enumerated cases are distinct by construction: report the count instead of hashes
        if (!report.empty()) {
            FILE *f = fopen((report + ".enumcount").c_str(), "w");
            if (f) { fprintf(f, "%ld\n", r.nontrivial); fclose(f); }
        }
        return rc;
    }

    if (mode == "rc") {
        // configured only through RC_PARAMS (seed=, max_success=, max_size=)
        const auto byteGen = rc::gen::map(rc::gen::resize(100, rc::gen::inRange<int>(0, 256)),
                                          [](int v) { return static_cast<uint8_t>(v); });
        // Length policy: every third size step uses rapidcheck's growing size (small cases first), the others draw
        // the length from the property's full range, so that most cases carry enough bytes for a whole decoded case
        // instead of running into the zero tail of an exhausted input.
        const int full = (int)verif_info.max_len;
        const auto vecGen = rc::gen::withSize([=](int size) {
            return rc::gen::resize((size % 3 == 0) ? size : full, rc::gen::container<std::vector<uint8_t>>(byteGen));
        });
        bool ok = rc::check(std::string("property ") + verif_info.id, [&]() {
            const std::vector<uint8_t> bytes = *vecGen;
            // exact-size copy on the heap: the case function never sees slack behind its input
            verif::Exact<uint8_t> copy(bytes.data(), bytes.size());
            verif::Case c;
            int v = run_case(copy.data(), copy.size(), false, c);
            // a discarded case counts as discarded in the report, not as a rapidcheck discard
            // (rc::check returns false when it gives up, which must never look like a failure)
            if (v == verif::CASE_VIOLATION) {
                S.violations++;
                verif::Case c2; c2.want_text = true;
                verif_case(copy.data(), copy.size(), c2);
                S.failure = c2.failure.empty() ? c.failure : c2.failure; S.failing_text = c2.text;
                if (verif::g_misalign) S.failing_text += " [exact-size input copies start " + std::to_string(verif::g_misalign) + " byte(s) past a 16-byte boundary]";
                if (!g_replay_out.empty()) write_file_raw(g_replay_out.c_str(), copy.data(), copy.size());
                RC_FAIL(S.failure);
            }
        });
        long seed = (long)rc::detail::configuration().testParams.seed;
        write_report(report, "rapidcheck", seed);
        if (!ok) {
            printf("FAIL %s\n   case: %s\n   replay: %s\n", S.failure.c_str(), S.failing_text.c_str(), g_replay_out.c_str());
            return 1;
        }
        return 0;
    }
    fprintf(stderr, "unknown mode %s\n", mode.c_str());
    return 3;
}
