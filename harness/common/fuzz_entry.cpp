// libFuzzer entry: the fuzz target *is* the property's case function, oracle included.
#include <cstdio>
#include <cstdlib>
#include <cstring>
#include <map>
#include <string>
#include <unordered_set>
#include <vector>
#include "verif.h"

namespace verif { void set_current(const uint8_t *, size_t) {} }

namespace {
struct FStats {
    long evaluations = 0, nontrivial = 0, discarded = 0, excluded_known = 0;
    std::unordered_set<uint64_t> nt;
    std::map<std::string, long> labels;
    std::vector<std::string> samples;
    std::string failure, failing_text;
    int violations = 0;
} F;

std::string jesc(const std::string &s) {
    std::string o; char tmp[8];
    for (unsigned char ch : s) {
        if (ch == '"' || ch == '\\') { o += '\\'; o += (char)ch; }
        else if (ch == '\n') o += "\\n";
        else if (ch < 0x20 || ch >= 0x7F) { snprintf(tmp, sizeof tmp, "\\u%04x", ch); o += tmp; }
        else o += (char)ch;
    }
    return o;
}

void dump() {
    const char *path = getenv("VERIF_FUZZ_REPORT");
    if (!path) return;
    FILE *f = fopen(path, "w");
    if (!f) return;
    fprintf(f, "{\"engine\":\"libfuzzer\",\"property\":\"%s\",\"seed\":%s,\"evaluations\":%ld,\"nontrivial\":%ld,\"distinct_nontrivial\":%zu,"
               "\"discarded\":%ld,\"violations\":%d,\"excluded_known\":%ld,\"wall_s\":0,\"labels\":{",
            verif_info.id, getenv("VERIF_FUZZ_SEED") ? getenv("VERIF_FUZZ_SEED") : "0", F.evaluations, F.nontrivial, F.nt.size(), F.discarded, F.violations, F.excluded_known);
    bool first = true;
    for (auto &kv : F.labels) { fprintf(f, "%s\"%s\":%ld", first ? "" : ",", jesc(kv.first).c_str(), kv.second); first = false; }
    fprintf(f, "},\"samples\":[");
    for (size_t i = 0; i < F.samples.size(); i++) fprintf(f, "%s\"%s\"", i ? "," : "", jesc(F.samples[i]).c_str());
    fprintf(f, "],\"exhausted\":[],\"failure\":\"%s\",\"failing_case\":\"%s\"}\n", jesc(F.failure).c_str(), jesc(F.failing_text).c_str());
    fclose(f);
    std::string hp = std::string(path) + ".hashes";
    FILE *h = fopen(hp.c_str(), "wb");
    if (h) { for (uint64_t v : F.nt) fwrite(&v, 8, 1, h); fclose(h); }
}
bool registered = false;
}  // namespace

extern "C" int LLVMFuzzerTestOneInput(const uint8_t *data, size_t size) {
    if (!registered) { registered = true; atexit(dump); std::string v = verif_static_init_verdict(); if (!v.empty()) { fprintf(stderr, "   why: %s\n", v.c_str()); __builtin_trap(); } }
    verif::Case c;
    verif::case_environment(data, size);
    int v = verif_case(data, size, c);
    F.evaluations++;
    F.excluded_known += c.excluded_known;
    if (v == verif::CASE_DISCARD) { F.discarded++; return 0; }
    if (c.nontrivial) { F.nontrivial++; if (F.nt.size() < 4000000) F.nt.insert(c.hash); }
    for (int i = 0; i < c.nlabels; i++) F.labels[c.labels[i]]++;
    if (v == verif::CASE_OK && c.nontrivial && F.samples.size() < 6 && (F.evaluations % 1009) == 7) {
        verif::Case c2; c2.want_text = true; verif_case(data, size, c2); if (!c2.text.empty()) F.samples.push_back(c2.text);
    }
    if (v == verif::CASE_VIOLATION) {
        verif::Case c2; c2.want_text = true; verif_case(data, size, c2);
        F.violations = 1; F.failure = c2.failure.empty() ? c.failure : c2.failure; F.failing_text = c2.text;
        fprintf(stderr, "VERIF-FAIL %s\n   case: %s\n", F.failure.c_str(), F.failing_text.c_str());
        dump();               // a trap skips atexit
        __builtin_trap();     // libFuzzer saves the input as crash-*
    }
    return 0;
}
