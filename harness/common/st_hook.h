// Definition of the guarded ST_ASSERT hook (/repo commit "verif-hook: ..."): a failed
// assertion becomes a C++ exception that the case function can classify.  Include in the
// property TU (once).  If the hook is absent from st_assert.h this is an unused function and
// assertions abort as upstream; the engine's SIGABRT handler then saves the case.
#pragma once
#include "verif.h"
namespace _ST_PRIVATE {
void verif_assert_hook(const char *filename, int line, const char *message) {
    throw verif::assertion_failure{filename ? filename : "", line, message ? message : ""};
}
}

// static-initialisation probe (see st_static_init_probe.h); the engine asks for its verdict before the first case
#include "st_static_init_probe.h"
std::string verif_static_init_verdict() { return verif_probe::verdict(); }
