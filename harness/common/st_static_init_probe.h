// Static-initialisation probe, force-included (through st_hook.h) into every property's translation unit.
// A program may use the library from the constructor of a global object (global ST::string constants are ordinary use), i.e. BEFORE the
// dynamic initialisers of the library's own namespace-scope objects in that translation unit have run.  An object with init_priority(101)
// is constructed before every initialiser without a priority: it digests a broad set of calls.  When the engine starts, the same digest
// is computed again: a difference means that some function gives different results during static initialisation than later (e.g. a
// lookup table filled by the constructor of a namespace-scope object).  Nothing is demanded of objects of static storage duration
// themselves (the library does not promise constant initialisation for ST::string).
#pragma once
#include <string_theory/string>
#include <string_theory/string_stream>
#include <string_theory/format>
#include <string_theory/codecs>
#include <cstring>
#include <string>

namespace verif_probe {

inline void mixb(uint64_t &h, const void *p, size_t n) { const unsigned char *b = (const unsigned char *)p; for (size_t i = 0; i < n; i++) { h ^= b[i]; h *= 1099511628211ull; } h ^= n + 0x51; h *= 1099511628211ull; }
inline void mixs(uint64_t &h, const ST::string &x) { mixb(h, x.c_str(), x.size()); }

inline uint64_t digest() {
    uint64_t h = 1469598103934665603ull;
    const ST::string subj = ST::string::from_validated(" ,ab-xyz;AB,a b\tMiddle, W\xC3\xA9rds;and-m\xE2\x82\xACre \xF0\x9F\x98\x80 ;zyx-ba, ", 55);
    static const char *const sets[] = {" ", "a,", "xyz ,", ";- ", "AB"};
    for (const char *cs : sets) { mixs(h, subj.trim(cs)); for (const ST::string &t : subj.tokenize(cs)) mixs(h, t); }
    static const char *const needles[] = {"ab", "AB", "xyz", "MIDDLE", "-", "w\xC3\xA9RDS"};
    for (const char *nd : needles) {
        long a = subj.find(nd), b = subj.find(nd, ST::case_insensitive), c = subj.find_last(nd, ST::case_insensitive);
        mixb(h, &a, sizeof a); mixb(h, &b, sizeof b); mixb(h, &c, sizeof c);
        mixs(h, subj.replace(nd, "#", ST::case_insensitive)); mixs(h, subj.before_first(nd, ST::case_insensitive)); mixs(h, subj.after_last(nd));
        for (const ST::string &t : subj.split(nd, 3, ST::case_insensitive)) mixs(h, t);
    }
    mixs(h, subj.to_upper()); mixs(h, subj.to_lower());
    { int ci = subj.compare_i("X"); int c2 = ST::string("Hello_World").compare_i("hELLO_wORLD"); int c3 = ST::string("foo_bar").compare_i("fooBar") < 0; size_t hs = ST::hash()(subj) ^ ST::hash_i()(subj);
      bool lt = ST::less_i()(ST::string("abc"), ST::string("ABD")), eq = ST::equal_i()(ST::string("MiXed"), ST::string("mixED"));
      mixb(h, &ci, sizeof ci); mixb(h, &c2, sizeof c2); mixb(h, &c3, sizeof c3); mixb(h, &hs, sizeof hs); mixb(h, &lt, 1); mixb(h, &eq, 1); }
    mixs(h, ST::format("{}|{+d}|{#x}|{#o}|{>8}|{_*<9}|{.3}|{c}|{f}|{.70e}|{b}|{X}", -12345, 77, 255u, 8, "right", "left", "precision", U'€', 1.5, 1e100, 5, 0xFEDCBA9876543210ull));
    mixs(h, ST::string::from_int(-987654321, 7)); mixs(h, ST::string::from_uint(0xFFFFFFFFFFFFFFFFull, 36, true)); mixs(h, ST::string::from_uint(0xFEDCBA9876543210ull, 3)); mixs(h, ST::string::from_double(2.5e-7));
    { ST::string_stream ss; ss << subj << -1 << ' ' << 3.25 << u"é€" << U"\U0001F600"; ss.append_char('p', 300); mixb(h, ss.raw_buffer(), ss.size()); mixs(h, ss.to_string()); }
    { ST::conversion_result r; long v = ST::string("  -0x7fZ").to_long(r, 0); double dv = ST::string("12.5e3x").to_double(r); mixb(h, &v, sizeof v); mixb(h, &dv, sizeof dv); }
    { ST::utf16_buffer u = subj.to_utf16(); mixb(h, u.data(), u.size() * 2); ST::utf32_buffer w = subj.to_utf32(); mixb(h, w.data(), w.size() * 4); ST::wchar_buffer ww = subj.to_wchar(); mixb(h, ww.data(), ww.size() * sizeof(wchar_t));
      mixs(h, ST::string::from_utf16(u)); mixs(h, ST::string::from_utf32(w)); mixs(h, ST::string::from_latin_1("caf\xE9", 4)); ST::char_buffer l1 = ST::string("caf\xC3\xA9").to_latin_1(); mixb(h, l1.data(), l1.size());
      mixs(h, ST::string("a\xFFz\xF8\x80\x80\x80", 7, ST::substitute_invalid));
      bool threw = false; try { ST::string bad("\xC3(", 2, ST::check_validity); } catch (const ST::unicode_error &) { threw = true; } mixb(h, &threw, 1);
      ST::utf16_buffer v16 = ST::utf8_to_utf16("\xF0\x9F\x98\x80z\xC3\xA9", 7, ST::check_validity); mixb(h, v16.data(), v16.size() * 2); }
    { ST::string hx = ST::hex_encode("\x00\x9A\xFFzz", 5), b6 = ST::base64_encode("any carnal pleas+/", 18); mixs(h, hx); mixs(h, b6);
      ST::char_buffer d1 = ST::hex_decode(hx), d2 = ST::base64_decode(b6); mixb(h, d1.data(), d1.size()); mixb(h, d2.data(), d2.size()); }
    { ST::char_buffer cb("buffer text that is longer than the limit", 41); ST::char_buffer c2 = cb; c2.allocate(5, 'q'); mixb(h, c2.data(), c2.size()); ST::utf32_buffer e; mixb(h, e.data(), (e.size() + 1) * 4); }
    return h;
}

struct Early {
    uint64_t d = 0; bool threw = false; char what[160] = {0};
    Early() {
        try { d = digest(); }
        catch (const std::exception &e) { threw = true; snprintf(what, sizeof what, "%s", e.what()); }
        catch (...) { threw = true; snprintf(what, sizeof what, "unknown exception"); }
    }
};
#if defined(__has_feature)
#if __has_feature(thread_sanitizer)
#define VERIF_NO_STATIC_INIT_PROBE 1      // the ThreadSanitizer harness (C20) must not touch the library before its threads do: the probe would
#endif                                     // initialise on the main thread everything that the threads are meant to use for the first time
#endif
#ifndef VERIF_NO_STATIC_INIT_PROBE
__attribute__((init_priority(101))) Early g_early;
#endif

// "" or what differs; called by the engine before the first case
inline std::string verdict() {
#ifdef VERIF_NO_STATIC_INIT_PROBE
    return std::string();
#else
    if (g_early.threw) return std::string("a library call made during static initialisation (from the constructor of a global object) threw: ") + g_early.what;
    uint64_t now;
    try { now = digest(); } catch (...) { return "the static-initialisation probe calls throw when repeated from main()"; }
    if (now != g_early.d) return "a fixed set of library calls (conversions, case folding, comparison, search, slicing, formatting, codecs) made during static initialisation - from the constructor of a global object, before the library's own namespace-scope objects were initialised - gave results that differ from the same calls made later";
    return std::string();
#endif
}

}  // namespace verif_probe
