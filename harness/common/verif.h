// Shared harness layer: byte-string decoder, case report, small helpers.
// No string_theory header is included here.
#pragma once
#include <cerrno>
#include <clocale>
#include <cstddef>
#include <cstdint>
#include <cstdio>
#include <cstdlib>
#include <cstring>
#include <type_traits>
#include <utility>
#include <typeinfo>
#include <exception>
#include <string>
#include <vector>

namespace verif {

// ---------------------------------------------------------------------------
// What a case function reports back to the engine.
struct Case {
    bool want_text = false;      // engine asks for a rendering (samples / replay / failure)
    bool nontrivial = false;     // by the property's stated rule
    uint64_t hash = 1469598103934665603ull;  // hash of the *decoded* case
    std::string text;            // rendering of the decoded case
    std::string failure;         // why the case violates the property
    const char *labels[12];
    int nlabels = 0;
    long excluded_known = 0;     // sub-cases skipped because they match an open finding
    void label(const char *l) { if (nlabels < 12) labels[nlabels++] = l; }
    int fail(const std::string &why) { if (failure.empty()) failure = why; return 1; }
    void mix(uint64_t v) { hash ^= v + 0x9e3779b97f4a7c15ull + (hash << 6) + (hash >> 2); hash *= 1099511628211ull; }
};

enum { CASE_OK = 0, CASE_VIOLATION = 1, CASE_DISCARD = 2 };

// Thrown by the guarded ST_ASSERT hook (see MANIFEST.hooks).
struct assertion_failure {
    std::string file; int line; std::string message;
};
// Thrown by the allocation registry when a case exceeds its resource budget.
struct budget_exceeded { const char *what; };

// ---------------------------------------------------------------------------
// Decoder: exhausted input reads as zeros; every decision is folded into the
// case hash so that distinct byte strings that decode to the same case count once.
struct Reader {
    const uint8_t *p; size_t n; size_t pos = 0; Case *c;
    Reader(const uint8_t *data, size_t size, Case &cs) : p(data), n(size), c(&cs) {}
    bool exhausted() const { return pos >= n; }
    uint8_t raw() { return pos < n ? p[pos++] : 0; }
    uint8_t u8() { uint8_t v = raw(); c->mix(v); return v; }
    // uniform-ish choice in [lo, hi] (inclusive); 0 bytes -> lo
    uint64_t range(uint64_t lo, uint64_t hi) {
        uint64_t span = hi - lo;
        uint64_t v = 0;
        if (span == 0) { }
        else if (span < 256) v = raw() % (span + 1);
        else if (span < 65536) { v = raw(); v |= (uint64_t)raw() << 8; v %= (span + 1); }
        else { for (int i = 0; i < 8; i++) v |= (uint64_t)raw() << (8 * i); v = (span == UINT64_MAX) ? v : v % (span + 1); }
        c->mix(v + 0x100);
        return lo + v;
    }
    size_t idx(size_t count) { return count ? (size_t)range(0, count - 1) : 0; }
    bool flag() { return range(0, 1) != 0; }
    // true with probability about num/256
    bool chance(unsigned num) { uint8_t v = raw(); bool r = v != 0 && (unsigned)(256 - v) <= num; c->mix(r); return r; }
    template <class T, size_t N> const T &pick(const T (&tab)[N]) { return tab[idx(N)]; }
    uint64_t bits64() { uint64_t v = 0; for (int i = 0; i < 8; i++) v |= (uint64_t)raw() << (8 * i); c->mix(v); return v; }
    uint32_t bits32() { uint32_t v = 0; for (int i = 0; i < 4; i++) v |= (uint32_t)raw() << (8 * i); c->mix(v); return v; }
};

// ---------------------------------------------------------------------------
// Exact-size heap copies: reading one unit too many is a heap-buffer-overflow.
// The copy ends exactly at the end of its heap block; it starts g_misalign bytes (rounded down to a whole unit) past a
// 16-byte boundary, so word-at-a-time code in the library sees every source alignment.  g_misalign is a pure function of
// the case bytes (engine: case_environment), 0 for half of the cases.
inline unsigned g_misalign = 0, g_misalign2 = 0, g_exact_seq = 0;   // every second exact-size copy of a case uses g_misalign2: two operands get different alignments
inline unsigned next_misalign() { return (g_exact_seq++ & 1) ? g_misalign2 : g_misalign; }
// errno as an earlier, unrelated call of the program may have left it (0 in half of the cases, else ERANGE / EINVAL / EDOM):
// pre_errno() is called by the harnesses right before calls into the library that parse numbers or format
inline int g_errno_pre = 0;
// more ambient state an earlier part of the program may have left behind (both are what the C library calls used as oracles see, too):
// the process locale ("C" or "C.utf8") and the floating-point rounding direction (used by the C13 harness only)
inline int g_round_pre = 0;      // index into {FE_TONEAREST, FE_UPWARD, FE_DOWNWARD, FE_TOWARDZERO}
inline bool g_file_error_pre = false;   // C17: the FILE* handed to ST::printf already has its error indicator set
inline void pre_errno() { errno = g_errno_pre; }
inline void case_environment(const uint8_t *d, size_t n) {
    uint64_t h = 1469598103934665603ull;
    for (size_t i = 0; i < n; i++) { h ^= d[i]; h *= 1099511628211ull; }
    h ^= h >> 29;
    g_misalign = (h & 8) ? (unsigned)(h & 7) : 0;
    g_misalign2 = (h & 8) ? (unsigned)((h >> 12) & 7) : 0;
    g_exact_seq = 0;
    static const int kErr[8] = {0, ERANGE, 0, EINVAL, 0, ERANGE, 0, EDOM};
    g_errno_pre = kErr[(h >> 4) & 7];
    setlocale(LC_ALL, ((h >> 20) & 3) == 3 ? "C.utf8" : "C");
    g_round_pre = ((h >> 24) & 3) == 0 ? (int)((h >> 26) & 3) : 0;
    g_file_error_pre = ((h >> 30) & 7) == 5;
}
template <class T> struct Exact {
    T *p; size_t n; void *base;
    Exact(const T *src, size_t count, bool nul = false) : n(count) {
        const size_t off = (next_misalign() & 7) / sizeof(T) * sizeof(T);
        const size_t bytes = (count + (nul ? 1 : 0)) * sizeof(T);
        base = ::malloc(off + bytes + (off + bytes == 0 ? 1 : 0));
        p = reinterpret_cast<T *>(static_cast<char *>(base) + off);
        if (count) memcpy(p, src, count * sizeof(T));
        if (nul) p[count] = 0;
    }
    template <class S, class = decltype(std::declval<const S &>().data())> explicit Exact(const S &s, bool nul = false) : Exact(s.data(), s.size(), nul) {}
    ~Exact() { ::free(base); }
    Exact(const Exact &) = delete; Exact &operator=(const Exact &) = delete;
    const T *data() const { return p; } T *data() { return p; } size_t size() const { return n; }
};

// ---------------------------------------------------------------------------
// Rendering helpers
inline std::string hexs(const void *data, size_t bytes) {
    static const char d[] = "0123456789ABCDEF"; std::string s; const uint8_t *b = (const uint8_t *)data;
    for (size_t i = 0; i < bytes; i++) { if (i) s += ' '; s += d[b[i] >> 4]; s += d[b[i] & 15]; } return s;
}
template <class T> inline std::string units(const T *p, size_t n, size_t maxshow = 48) {
    std::string s; char tmp[16];
    for (size_t i = 0; i < n && i < maxshow; i++) {
        snprintf(tmp, sizeof tmp, sizeof(T) == 1 ? "%02X" : sizeof(T) == 2 ? "%04X" : "%X", (unsigned)(typename std::make_unsigned<T>::type)p[i]);
        if (i) s += ' '; s += tmp; }
    if (n > maxshow) { snprintf(tmp, sizeof tmp, " ..(%zu)", n); s += tmp; }
    return s;
}
template <class S, class = decltype(std::declval<const S &>().data())> inline std::string units(const S &s, size_t maxshow = 48) { return units(s.data(), s.size(), maxshow); }
inline std::string quoted(const std::string &s, size_t maxshow = 80) {
    std::string o = "\""; char tmp[8];
    for (size_t i = 0; i < s.size() && i < maxshow; i++) { unsigned char ch = s[i];
        if (ch == '"' || ch == '\\') { o += '\\'; o += (char)ch; }
        else if (ch >= 0x20 && ch < 0x7F) o += (char)ch;
        else { snprintf(tmp, sizeof tmp, "\\x%02X", ch); o += tmp; } }
    if (s.size() > maxshow) { o += "...("; o += std::to_string(s.size()); o += ")"; }
    o += '"'; return o;
}
inline std::string num(long long v) { return std::to_string(v); }
inline std::string unum(unsigned long long v) { return std::to_string(v); }

// Describe an unexpected exception escaping a library call.
inline std::string describe_current_exception() {
    try { throw; }
    catch (const assertion_failure &a) { return "ST_ASSERT failed: " + a.message + " (" + a.file + ":" + std::to_string(a.line) + ")"; }
    catch (const budget_exceeded &b) { return std::string("resource budget exceeded: ") + b.what; }
    catch (const std::exception &e) { return std::string("exception ") + typeid(e).name() + ": " + e.what(); }
    catch (...) { return "unknown exception"; }
}

// ---------------------------------------------------------------------------
// Enumeration report
struct EnumReport {
    long evaluations = 0; long nontrivial = 0; long excluded_known = 0;
    std::string failure; std::string failing_case;      // first violation
    std::vector<uint8_t> failing_bytes;                 // if expressible as a verif_case input
    std::vector<std::string> samples;
    std::vector<std::string> exhausted;                 // descriptions of sub-domains enumerated completely
    bool want_sample() const { return samples.size() < 6; }
};

// enumerators name the case being executed (an input accepted by verif_case) so
// that a crash or hang inside the library can be saved as a replay file
void set_current(const uint8_t *d, size_t n);

struct Info {
    const char *id;            // "C14"
    size_t max_len;            // maximum useful length of the byte string
    const char *rule;          // generation + non-triviality rule (goes to evidence)
    bool has_enumerator;
    const char *level;         // "exploration" or "fault_enumeration"
};

}  // namespace verif

// Every property TU defines these.
extern const verif::Info verif_info;
int verif_case(const uint8_t *data, size_t size, verif::Case &c);
std::string verif_static_init_verdict();      // defined in the property TU by st_hook.h
long verif_enumerate(int shard, int nshards, int tier, verif::EnumReport &r);  // tier 0 quick, 1 thorough
void verif_corpus(std::vector<std::vector<uint8_t>> &out);  // optional seeds for the fuzzer
