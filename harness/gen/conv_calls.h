// Calls every conversion of string_theory through a uniform interface and captures the outcome.
// Shared by prop_C01/C02/C03.  (Includes string_theory: this is harness glue, not an oracle.)
#pragma once
#include <string_theory/string>
#include <string_theory/utf_conversion>

#include "common/verif.h"
#include "ref/ref_unicode.h"

namespace conv {

using ref::Enc; using ref::Mode; using ref::Units;

static_assert(sizeof(wchar_t) == 4, "harness written for 32-bit wchar_t (the 16-bit branches of the library are not instantiated here)");

struct Outcome {
    int kind = 0;              // 0 returned, 1 ST::unicode_error, 2 anything else (violation)
    std::string what;          // description for kind 1/2
    Units out;                 // units of the returned buffer
    size_t reported_size = 0;
    bool terminated = true;    // data()[size()] == 0
};

inline ST::utf_validation_t st_mode(Mode m) {
    return m == ref::ASSUME_VALID ? ST::assume_valid : m == ref::SUBSTITUTE ? ST::substitute_invalid : ST::check_validity;
}
inline const char *mode_name(Mode m) { return m == ref::ASSUME_VALID ? "assume_valid" : m == ref::SUBSTITUTE ? "substitute_invalid" : "check_validity"; }
inline const char *enc_name(Enc e) { return e == ref::UTF8 ? "utf8" : e == ref::UTF16 ? "utf16" : e == ref::UTF32 ? "utf32" : "latin1"; }

template <class T> inline void capture(const ST::buffer<T> &b, Outcome &o) {
    o.reported_size = b.size();
    const T *d = b.data();
    o.out.clear();
    for (size_t i = 0; i < b.size(); i++) o.out.push_back((uint32_t)(typename std::make_unsigned<T>::type)d[i]);
    o.terminated = (d[b.size()] == 0);
}
inline void capture(const ST::string &s, Outcome &o) {
    o.reported_size = s.size();
    o.out.clear();
    for (size_t i = 0; i < s.size(); i++) o.out.push_back((uint8_t)s.c_str()[i]);
    o.terminated = (s.c_str()[s.size()] == 0);
}

enum Conv {
    U16_U8, U32_U8, L1_U8, U8_U16, U32_U16, L1_U16, U8_U32, U16_U32, L1_U32, U8_L1, U16_L1, U32_L1,   // the 12 pairs
    W_U8, W_U16, W_U32, W_L1, U8_W, U16_W, U32_W, L1_W,                                               // wchar_t aliases
    STR_FROM_U8, STR_FROM_U16, STR_FROM_U32, STR_FROM_W, STR_FROM_L1,                                  // into ST::string
    STR_TO_U16, STR_TO_U32, STR_TO_W, STR_TO_L1,                                                       // out of ST::string
    NCONV
};
struct ConvInfo { Enc from, to; bool takes_mode; bool takes_l1flag; const char *name; int nroutes; };
inline const ConvInfo &info(Conv c) {
    static const ConvInfo tab[NCONV] = {
        {ref::UTF16, ref::UTF8, true, false, "utf16_to_utf8", 2}, {ref::UTF32, ref::UTF8, true, false, "utf32_to_utf8", 2}, {ref::LATIN1, ref::UTF8, false, false, "latin_1_to_utf8", 2},
        {ref::UTF8, ref::UTF16, true, false, "utf8_to_utf16", 3}, {ref::UTF32, ref::UTF16, true, false, "utf32_to_utf16", 2}, {ref::LATIN1, ref::UTF16, false, false, "latin_1_to_utf16", 2},
        {ref::UTF8, ref::UTF32, true, false, "utf8_to_utf32", 3}, {ref::UTF16, ref::UTF32, true, false, "utf16_to_utf32", 2}, {ref::LATIN1, ref::UTF32, false, false, "latin_1_to_utf32", 2},
        {ref::UTF8, ref::LATIN1, true, true, "utf8_to_latin_1", 3}, {ref::UTF16, ref::LATIN1, true, true, "utf16_to_latin_1", 2}, {ref::UTF32, ref::LATIN1, true, true, "utf32_to_latin_1", 2},
        {ref::UTF32, ref::UTF8, true, false, "wchar_to_utf8", 2}, {ref::UTF32, ref::UTF16, true, false, "wchar_to_utf16", 2}, {ref::UTF32, ref::UTF32, true, false, "wchar_to_utf32", 2}, {ref::UTF32, ref::LATIN1, true, true, "wchar_to_latin_1", 2},
        {ref::UTF8, ref::UTF32, true, false, "utf8_to_wchar", 3}, {ref::UTF16, ref::UTF32, true, false, "utf16_to_wchar", 2}, {ref::UTF32, ref::UTF32, true, false, "utf32_to_wchar", 2}, {ref::LATIN1, ref::UTF32, false, false, "latin_1_to_wchar", 2},
        {ref::UTF8, ref::UTF8, true, false, "ST::string<-utf8", 7}, {ref::UTF16, ref::UTF8, true, false, "ST::string<-utf16", 5}, {ref::UTF32, ref::UTF8, true, false, "ST::string<-utf32", 5},
        {ref::UTF32, ref::UTF8, true, false, "ST::string<-wchar", 5}, {ref::LATIN1, ref::UTF8, false, false, "ST::string<-latin1", 2},
        {ref::UTF8, ref::UTF16, false, false, "ST::string::to_utf16", 2}, {ref::UTF8, ref::UTF32, false, false, "ST::string::to_utf32", 2}, {ref::UTF8, ref::UTF32, false, false, "ST::string::to_wchar", 2},
        {ref::UTF8, ref::LATIN1, false, true, "ST::string::to_latin_1", 2},
    };
    return tab[c];
}

template <class T> struct Src {            // exact-size typed copy of the source units; null pointer optional for empty input
    verif::Exact<T> e; bool null_empty;
    static std::vector<T> narrow(const Units &u) { std::vector<T> v; v.reserve(u.size()); for (uint32_t x : u) v.push_back((T)x); return v; }
    Src(const Units &u, bool null_when_empty) : e(narrow(u)), null_empty(null_when_empty) {}
    const T *p() const { return (e.size() == 0 && null_empty) ? nullptr : e.data(); }
    size_t n() const { return e.size(); }
    ST::buffer<T> buf() const { return ST::buffer<T>(e.data(), e.size()); }
};

// Executes conversion `c` via `route` on `src`.  route < info(c).nroutes.
inline Outcome run(Conv c, int route, Mode m, bool l1flag, const Units &src, bool null_when_empty) {
    Outcome o;
    const ST::utf_validation_t v = st_mode(m);
    try {
        switch (c) {
        case U16_U8: { Src<char16_t> s(src, null_when_empty); capture(route == 0 ? ST::utf16_to_utf8(s.p(), s.n(), v) : ST::utf16_to_utf8(s.buf(), v), o); break; }
        case U32_U8: { Src<char32_t> s(src, null_when_empty); capture(route == 0 ? ST::utf32_to_utf8(s.p(), s.n(), v) : ST::utf32_to_utf8(s.buf(), v), o); break; }
        case L1_U8: { Src<char> s(src, null_when_empty); capture(route == 0 ? ST::latin_1_to_utf8(s.p(), s.n()) : ST::latin_1_to_utf8(s.buf()), o); break; }
        case U8_U16: { Src<char> s(src, null_when_empty); capture(route == 0 ? ST::utf8_to_utf16(s.p(), s.n(), v) : route == 1 ? ST::utf8_to_utf16(s.buf(), v) : ST::utf8_to_utf16(reinterpret_cast<const char8_t *>(s.p()), s.n(), v), o); break; }
        case U32_U16: { Src<char32_t> s(src, null_when_empty); capture(route == 0 ? ST::utf32_to_utf16(s.p(), s.n(), v) : ST::utf32_to_utf16(s.buf(), v), o); break; }
        case L1_U16: { Src<char> s(src, null_when_empty); capture(route == 0 ? ST::latin_1_to_utf16(s.p(), s.n()) : ST::latin_1_to_utf16(s.buf()), o); break; }
        case U8_U32: { Src<char> s(src, null_when_empty); capture(route == 0 ? ST::utf8_to_utf32(s.p(), s.n(), v) : route == 1 ? ST::utf8_to_utf32(s.buf(), v) : ST::utf8_to_utf32(reinterpret_cast<const char8_t *>(s.p()), s.n(), v), o); break; }
        case U16_U32: { Src<char16_t> s(src, null_when_empty); capture(route == 0 ? ST::utf16_to_utf32(s.p(), s.n(), v) : ST::utf16_to_utf32(s.buf(), v), o); break; }
        case L1_U32: { Src<char> s(src, null_when_empty); capture(route == 0 ? ST::latin_1_to_utf32(s.p(), s.n()) : ST::latin_1_to_utf32(s.buf()), o); break; }
        case U8_L1: { Src<char> s(src, null_when_empty); capture(route == 0 ? ST::utf8_to_latin_1(s.p(), s.n(), v, l1flag) : route == 1 ? ST::utf8_to_latin_1(s.buf(), v, l1flag) : ST::utf8_to_latin_1(reinterpret_cast<const char8_t *>(s.p()), s.n(), v, l1flag), o); break; }
        case U16_L1: { Src<char16_t> s(src, null_when_empty); capture(route == 0 ? ST::utf16_to_latin_1(s.p(), s.n(), v, l1flag) : ST::utf16_to_latin_1(s.buf(), v, l1flag), o); break; }
        case U32_L1: { Src<char32_t> s(src, null_when_empty); capture(route == 0 ? ST::utf32_to_latin_1(s.p(), s.n(), v, l1flag) : ST::utf32_to_latin_1(s.buf(), v, l1flag), o); break; }
        case W_U8: { Src<wchar_t> s(src, null_when_empty); capture(route == 0 ? ST::wchar_to_utf8(s.p(), s.n(), v) : ST::wchar_to_utf8(s.buf(), v), o); break; }
        case W_U16: { Src<wchar_t> s(src, null_when_empty); capture(route == 0 ? ST::wchar_to_utf16(s.p(), s.n(), v) : ST::wchar_to_utf16(s.buf(), v), o); break; }
        case W_U32: { Src<wchar_t> s(src, null_when_empty); capture(route == 0 ? ST::wchar_to_utf32(s.p(), s.n(), v) : ST::wchar_to_utf32(s.buf(), v), o); break; }
        case W_L1: { Src<wchar_t> s(src, null_when_empty); capture(route == 0 ? ST::wchar_to_latin_1(s.p(), s.n(), v, l1flag) : ST::wchar_to_latin_1(s.buf(), v, l1flag), o); break; }
        case U8_W: { Src<char> s(src, null_when_empty); capture(route == 0 ? ST::utf8_to_wchar(s.p(), s.n(), v) : route == 1 ? ST::utf8_to_wchar(s.buf(), v) : ST::utf8_to_wchar(reinterpret_cast<const char8_t *>(s.p()), s.n(), v), o); break; }
        case U16_W: { Src<char16_t> s(src, null_when_empty); capture(route == 0 ? ST::utf16_to_wchar(s.p(), s.n(), v) : ST::utf16_to_wchar(s.buf(), v), o); break; }
        case U32_W: { Src<char32_t> s(src, null_when_empty); capture(route == 0 ? ST::utf32_to_wchar(s.p(), s.n(), v) : ST::utf32_to_wchar(s.buf(), v), o); break; }
        case L1_W: { Src<char> s(src, null_when_empty); capture(route == 0 ? ST::latin_1_to_wchar(s.p(), s.n()) : ST::latin_1_to_wchar(s.buf()), o); break; }
        case STR_FROM_U8: {
            Src<char> s(src, null_when_empty);
            switch (route) {
            case 0: capture(ST::string::from_utf8(s.p(), s.n(), v), o); break;
            case 1: capture(ST::string(s.p(), s.n(), v), o); break;
            case 2: { ST::string t("previous value longer than the small-string limit"); t.set(s.p(), s.n(), v); capture(t, o); break; }
            case 3: capture(ST::string(s.buf(), v), o); break;                        // const char_buffer &
            case 4: { ST::char_buffer b = s.buf(); capture(ST::string(std::move(b), v), o); break; }   // char_buffer &&
            case 5: capture(ST::string::from_utf8(s.buf(), v), o); break;
            default: capture(ST::string::from_utf8(reinterpret_cast<const char8_t *>(s.p()), s.n(), v), o); break;
            }
            break; }
        case STR_FROM_U16: {
            Src<char16_t> s(src, null_when_empty);
            switch (route) {
            case 0: capture(ST::string::from_utf16(s.p(), s.n(), v), o); break;
            case 1: capture(ST::string(s.p(), s.n(), v), o); break;
            case 2: { ST::string t("previous"); t.set(s.p(), s.n(), v); capture(t, o); break; }
            case 3: capture(ST::string(s.buf(), v), o); break;
            default: capture(ST::string::from_utf16(s.buf(), v), o); break;
            }
            break; }
        case STR_FROM_U32: {
            Src<char32_t> s(src, null_when_empty);
            switch (route) {
            case 0: capture(ST::string::from_utf32(s.p(), s.n(), v), o); break;
            case 1: capture(ST::string(s.p(), s.n(), v), o); break;
            case 2: { ST::string t("previous"); t.set(s.p(), s.n(), v); capture(t, o); break; }
            case 3: capture(ST::string(s.buf(), v), o); break;
            default: capture(ST::string::from_utf32(s.buf(), v), o); break;
            }
            break; }
        case STR_FROM_W: {
            Src<wchar_t> s(src, null_when_empty);
            switch (route) {
            case 0: capture(ST::string::from_wchar(s.p(), s.n(), v), o); break;
            case 1: capture(ST::string(s.p(), s.n(), v), o); break;
            case 2: { ST::string t("previous"); t.set(s.p(), s.n(), v); capture(t, o); break; }
            case 3: capture(ST::string(s.buf(), v), o); break;
            default: capture(ST::string::from_wchar(s.buf(), v), o); break;
            }
            break; }
        case STR_FROM_L1: { Src<char> s(src, null_when_empty); capture(route == 0 ? ST::string::from_latin_1(s.p(), s.n()) : ST::string::from_latin_1(s.buf()), o); break; }
        case STR_TO_U16: case STR_TO_U32: case STR_TO_W: case STR_TO_L1: {
            Src<char> s(src, false);
            ST::string str = ST::string::from_validated(s.p(), s.n());
            if (c == STR_TO_U16) { if (route == 0) capture(str.to_utf16(), o); else { ST::utf16_buffer b; str.to_buffer(b); capture(b, o); } }
            else if (c == STR_TO_U32) { if (route == 0) capture(str.to_utf32(), o); else { ST::utf32_buffer b; str.to_buffer(b); capture(b, o); } }
            else if (c == STR_TO_W) { if (route == 0) capture(str.to_wchar(), o); else { ST::wchar_buffer b; str.to_buffer(b); capture(b, o); } }
            else { if (route == 0) capture(str.to_latin_1(l1flag), o); else { ST::char_buffer b; str.to_buffer(b, false, l1flag); capture(b, o); } }
            break; }
        default: o.kind = 2; o.what = "harness: unknown conversion"; break;
        }
    } catch (const ST::unicode_error &e) {
        o.kind = 1; o.what = e.what();
    } catch (...) {
        o.kind = 2; o.what = verif::describe_current_exception();
    }
    return o;
}

// Judges an outcome against the reference expectation.  Returns "" when it conforms.
inline std::string judge(const Outcome &o, const ref::Expect &e) {
    if (o.kind == 2) return "neither a result nor ST::unicode_error: " + o.what;
    if (o.kind == 1) {
        if (e.throws || e.may_throw) return std::string();
        return "threw ST::unicode_error (\"" + o.what + "\") but the reference accepts the input; expected " + verif::units(e.out);
    }
    if (e.throws) return "returned " + verif::units(o.out) + " but ST::unicode_error is required";
    if (o.reported_size != e.out.size())
        return "size() is " + verif::unum(o.reported_size) + ", the reference transcoding has " + verif::unum(e.out.size()) + " units (got " + verif::units(o.out) + ", expected " + verif::units(e.out) + ")";
    if (!o.terminated) return "no terminating NUL after " + verif::unum(o.reported_size) + " units";
    for (size_t i = 0; i < e.out.size(); i++)
        if (!e.wild[i] && o.out[i] != e.out[i])
            return "unit " + verif::unum(i) + " is " + verif::units(&o.out[i], 1) + ", reference has " + verif::units(&e.out[i], 1) + " (got " + verif::units(o.out) + ", expected " + verif::units(e.out) + ")";
    return std::string();
}

// the reference mode a conversion effectively uses
inline Mode effective_mode(Conv c, Mode requested) {
    const ConvInfo &ci = info(c);
    if (c >= STR_TO_U16) return ref::ASSUME_VALID;     // to_* members convert with assume_valid
    if (!ci.takes_mode) return ref::CHECK;              // Latin-1 sources: every byte is valid, the mode is irrelevant
    return requested;
}

}  // namespace conv
