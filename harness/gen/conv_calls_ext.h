// Extended call layer for the conversion properties (C01, C03): the public entry points that
// gen/conv_calls.h does not drive - STL string / string_view / char8_t / C-string overloads, set_validated,
// std::filesystem::path routes, caller-supplied-output overloads (to_buffer / to_std_string) with pre-filled
// targets, deprecated utf_validation_t overloads, literal operators called as functions, ST::null pre-states,
// view(), operator+ / operator+= with C strings and single characters of every width on either side, calls
// that omit the validation argument, and set()/operator= from a pointer or view that aliases the target.
// Every call is reported to a judge together with what the entry point could see (source units after NUL
// truncation / slicing, the reference mode it must apply, fixed units before/after), so that each property
// applies its own oracle (C01: exact reference encoding; C03: outcome kind, size, terminator).
// Harness glue: includes string_theory, decides nothing by itself.
#pragma once
#include "gen/conv_calls.h"

#include <filesystem>
#include <functional>
#include <memory>
#include <string>
#include <string_view>

namespace convx {

using conv::Outcome; using conv::Src; using conv::capture;
using ref::Enc; using ref::Mode; using ref::Units;

struct Call {
    const char *name;
    Enc from, to;
    Mode mode;             // the reference mode the entry point must apply
    bool l1flag;           // substitute_out_of_range (Latin-1 targets)
    bool verbatim;         // the result must be the source units unchanged (no validation, no transcoding)
    const Units *src;      // what the entry point can see
    const Units *pre, *post;   // fixed units (target encoding) expected before / after the transcoding
    const ref::Expect *e;      // reference expectation for (from,to,mode,l1flag,src) with pre/post attached (see expectation())
    Outcome o;
};
typedef std::function<std::string(const Call &)> Judge;

struct Params {
    unsigned sel = 0;          // rotates target pre-states / left operands
    size_t k = 0, len = 0;     // slice [k, k+len) of the source (units) for the aliasing and view() calls (clamped)
    bool null_empty = false;   // hand a null pointer for an empty source
    bool with_alias = true;
    unsigned mode_mask = 7;    // which of the three explicit modes the mode-taking entry points are called with (bit m = ref::Mode m)
    unsigned groups = ~0u;     // which groups of entry points to run (G_* below); every source encoding maps all eight bits to some group
};
enum { G_IN_MODE = 1, G_DEFAULT = 2, G_CSTR = 4, G_VERBATIM = 8, G_OUT = 16, G_OUT_L1 = 32, G_SLICE = 64, G_CHARS = 128 };

// reference expectation of a call (shared by the judges; Runner caches it per distinct (to,mode,flag,verbatim,src,pre,post))
inline ref::Expect expectation(const Call &c) {
    ref::Expect e;
    if (c.verbatim) { e.out = *c.src; e.wild.assign(e.out.size(), false); }
    else e = ref::expect(c.from, c.to, c.mode, *c.src, c.l1flag);
    if (c.pre && !c.pre->empty()) { e.out.insert(e.out.begin(), c.pre->begin(), c.pre->end()); e.wild.insert(e.wild.begin(), c.pre->size(), false); }
    if (c.post && !c.post->empty()) { e.out.insert(e.out.end(), c.post->begin(), c.post->end()); e.wild.insert(e.wild.end(), c.post->size(), false); }
    return e;
}

inline Mode default_mode() {
    const ST::utf_validation_t d = ST_DEFAULT_VALIDATION;
    return d == ST::assume_valid ? ref::ASSUME_VALID : d == ST::substitute_invalid ? ref::SUBSTITUTE : ref::CHECK;
}

template <class T> inline void capture(const std::basic_string<T> &s, Outcome &o) {
    o.reported_size = s.size(); o.out.clear(); o.out.reserve(s.size());
    for (size_t i = 0; i < s.size(); i++) o.out.push_back((uint32_t)(typename std::make_unsigned<T>::type)s[i]);
    o.terminated = (s.c_str()[s.size()] == 0);
}
template <class T> inline void capture(std::basic_string_view<T> s, Outcome &o) {
    o.reported_size = s.size(); o.out.clear(); o.out.reserve(s.size());
    for (size_t i = 0; i < s.size(); i++) o.out.push_back((uint32_t)(typename std::make_unsigned<T>::type)s[i]);
    o.terminated = true;
}
inline void capture(const std::filesystem::path &p, Outcome &o) { capture(p.native(), o); }
struct CStrView { const char *p; size_t n; };                        // c_str()/data()/u8_str() pointers: n units then a NUL
inline void capture(const CStrView &v, Outcome &o) {
    o.reported_size = v.n; o.out.clear(); for (size_t i = 0; i < v.n; i++) o.out.push_back((uint8_t)v.p[i]); o.terminated = (v.p[v.n] == 0);
}

template <class T> inline std::basic_string<T> typed(const Units &u) { std::basic_string<T> s; s.reserve(u.size()); for (uint32_t x : u) s.push_back((T)x); return s; }
inline Units trunc_at_nul(const Units &u) { Units t; for (uint32_t x : u) { if (x == 0) break; t.push_back(x); } return t; }
inline Units slice(const Units &u, size_t k, size_t len) { if (k > u.size()) k = u.size(); if (len > u.size() - k) len = u.size() - k; return Units(u.begin() + k, u.begin() + k + len); }
inline Units units_of(const char *p, size_t n) { Units u; for (size_t i = 0; i < n; i++) u.push_back((uint8_t)p[i]); return u; }

// NUL-terminated exact-size copy of the part of `u` a C-string overload can see
template <class T> struct CStr {
    Units seen; std::basic_string<T> tmp; verif::Exact<T> e; bool null_ptr;
    CStr(const Units &u, bool null_when_empty) : seen(trunc_at_nul(u)), tmp(typed<T>(seen)), e(tmp.data(), tmp.size(), true), null_ptr(null_when_empty && u.empty()) {}
    const T *p() const { return null_ptr ? nullptr : e.data(); }
};

// ---- target pre-states ------------------------------------------------------------------------
static const char kLongText[] = "previous value, longer than the small-string limit \xC3\xA9\xE2\x82\xAC";
enum { NSTATES = 10 };
inline void prep(ST::string &t, unsigned state) {
    switch (state % NSTATES) {
    case 0: break;                                                         // default-constructed
    case 1: t = ST::string("xyz"); break;                                  // short
    case 2: t = ST::string(kLongText); break;                              // heap
    case 3: { t = ST::string(kLongText); ST::string sink(std::move(t)); (void)sink; break; }   // moved-from
    case 4: t = ST::string(kLongText); t = ST::null; break;                // emptied through ST::null
    case 5: t = ST::string(kLongText); t.clear(); break;
    case 6: t = ST::string("123456789012345"); break;                      // one below the small-string limit
    case 7: t = ST::string("1234567890123456"); break;                     // at the limit
    case 8: t = ST::string(ST::null); break;                               // null_t constructor
    default: t = ST::string(kLongText); t.set(ST::null); break;
    }
}
template <class T> inline void prep(ST::buffer<T> &b, unsigned state) {
    switch (state % 8) {
    case 0: break;
    case 1: b = ST::buffer<T>(3, (T)'x'); break;
    case 2: b = ST::buffer<T>(40, (T)'y'); break;
    case 3: { b = ST::buffer<T>(40, (T)'y'); ST::buffer<T> sink(std::move(b)); (void)sink; break; }
    case 4: b = ST::buffer<T>(40, (T)'y'); b = ST::null; break;
    case 5: b = ST::buffer<T>(40, (T)'y'); b.clear(); break;
    case 6: b = ST::buffer<T>(ST::null); break;
    default: b.allocate(20, (T)'z'); break;
    }
}
template <class T> inline void prep(std::basic_string<T> &s, unsigned state) {
    switch (state % 3) { case 0: break; case 1: s.assign(3, (T)'x'); break; default: s.assign(100, (T)'y'); break; }
}

inline uint64_t units_hash(const Units &u) { uint64_t h = 1469598103934665603ull ^ u.size(); for (uint32_t x : u) { h ^= x; h *= 1099511628211ull; } return h; }

struct Runner {
    const Judge &judge; long &ncalls; std::string fail; unsigned st; const char *srcname; unsigned mode_mask;
    struct Slot { Enc from, to; Mode mode; bool flag, verbatim; uint64_t hs, hp, hq; size_t ns; ref::Expect e; };
    std::vector<std::unique_ptr<Slot>> cache;
    static const Units &none() { static const Units e; return e; }
    // pre-state / left-operand choice of a call site: depends on the case (sel) and the call site only, not on which groups ran before it,
    // so that a failure found with one group selected reproduces when all groups run
    unsigned at(unsigned line) const { return st + line; }
    bool wants(int m) const { return (mode_mask >> m) & 1; }
    const ref::Expect &expect_for(const Call &c) {
        const uint64_t hs = units_hash(*c.src), hp = units_hash(*c.pre), hq = units_hash(*c.post);
        for (auto &s : cache)
            if (s->from == c.from && s->to == c.to && s->mode == c.mode && s->flag == c.l1flag && s->verbatim == c.verbatim && s->hs == hs && s->hp == hp && s->hq == hq && s->ns == c.src->size()) return s->e;
        cache.emplace_back(new Slot{c.from, c.to, c.mode, c.l1flag, c.verbatim, hs, hp, hq, c.src->size(), expectation(c)});
        return cache.back()->e;
    }
    // type-erased reference to the lambda that performs the library call (keeps this function out of the per-call template instantiations)
    struct FnRef {
        void *obj; void (*fn)(void *, Outcome &);
        template <class F> FnRef(F &f) : obj(&f), fn([](void *o, Outcome &out) { (*static_cast<F *>(o))(out); }) {}
        void operator()(Outcome &out) const { fn(obj, out); }
    };
    bool call(const char *name, Enc from, Enc to, Mode mode, bool flag, bool verbatim, const Units &src, const Units &pre, const Units &post, FnRef f) {
        Call c{name, from, to, mode, flag, verbatim, &src, &pre, &post, nullptr, Outcome()};
        c.e = &expect_for(c);
        c.o.out.reserve(c.e->out.size() + 8);      // the capture helpers clear() and push_back(): no regrowth while reading the result
        try { f(c.o); }
        catch (const ST::unicode_error &e) { c.o.kind = 1; c.o.what = e.what(); }
        catch (...) { c.o.kind = 2; c.o.what = verif::describe_current_exception(); }
        ncalls++;
        std::string w = judge(c);
        if (!w.empty()) {
            fail = std::string(name) + " [source " + srcname + (verbatim ? "" : std::string(", mode ") + conv::mode_name(mode)) + (to == ref::LATIN1 ? (flag ? ", substitute_out_of_range" : ", no out-of-range substitution") : "") + "]: " + w;
            return false;
        }
        return true;
    }
};

// expression returning something capture() understands
#define XC_(name, to, mode, flag, verb, srcU, pre, post, ...) \
    do { auto f__ = [&](Outcome &o__) { capture(__VA_ARGS__, o__); }; if (!R.call(name, FROM, to, mode, flag, verb, srcU, pre, post, Runner::FnRef(f__))) return R.fail; } while (0)
#define XC(name, to, mode, srcU, ...) XC_(name, to, mode, true, false, srcU, NONE, NONE, __VA_ARGS__)
#define XVERB(name, to, srcU, ...) XC_(name, to, ref::ASSUME_VALID, true, true, srcU, NONE, NONE, __VA_ARGS__)
// statement block working on a prepared target `t` of the given type
#define XSET(name, mode, srcU, ...) XC(name, ref::UTF8, mode, srcU, [&] { ST::string t; prep(t, R.at(__LINE__)); __VA_ARGS__; return t; }())
#define XSETV(name, srcU, ...) XVERB(name, ref::UTF8, srcU, [&] { ST::string t; prep(t, R.at(__LINE__)); __VA_ARGS__; return t; }())

// left operands for operator+ : short, one below / at the small-string limit, heap
inline const ST::string &left_operand(unsigned sel, Units &units) {
    static const ST::string tab[4] = {ST::string::from_validated("L\xC3\xA9", 3), ST::string(), ST::string::from_validated("0123456789abcd\xC3\xA9", 16),
                                      ST::string::from_validated("a left operand that lives on the heap \xF0\x9F\x98\x80", 42)};
    const ST::string &l = tab[sel % 4];
    units = units_of(l.c_str(), l.size());
    return l;
}

// ------------------------------------------------------------------------------------------------
// UTF-8 source
inline std::string ext_utf8(const Units &src, const Params &p, const Judge &judge, long &ncalls) {
    Runner R{judge, ncalls, std::string(), p.sel, "char/char8_t", p.mode_mask, {}};
    const Enc FROM = ref::UTF8; const Units &NONE = Runner::none();
    const Mode DM = default_mode();
    Src<char> s(src, p.null_empty);
    const char *P = s.p(); const size_t N = s.n();
    const char8_t *P8 = reinterpret_cast<const char8_t *>(P);
    const std::string ss(s.e.data(), N);
    const std::u8string su8(reinterpret_cast<const char8_t *>(s.e.data()), N);
    const std::string_view sv(P, N);
    const std::u8string_view sv8(P8, N);
    const ST::char_buffer cb = s.buf();

    if (p.groups & G_IN_MODE) {
    // --- into ST::string with an explicit mode
    for (int m = 0; m < 3; m++) {
        if (!R.wants(m)) continue;
        const Mode M = (Mode)m; const ST::utf_validation_t v = conv::st_mode(M);
        XC("ST::string(std::string,mode)", ref::UTF8, M, src, ST::string(ss, v));
        XC("ST::string(std::string_view,mode)", ref::UTF8, M, src, ST::string(sv, v));
        XC("ST::string(std::u8string,mode)", ref::UTF8, M, src, ST::string(su8, v));
        XC("ST::string(std::u8string_view,mode)", ref::UTF8, M, src, ST::string(sv8, v));
        XC("ST::string(const char8_t*,size,mode)", ref::UTF8, M, src, ST::string(P8, N, v));
        XSET("set(std::string,mode)", M, src, t.set(ss, v));
        XSET("set(std::string_view,mode)", M, src, t.set(sv, v));
        XSET("set(std::u8string,mode)", M, src, t.set(su8, v));
        XSET("set(std::u8string_view,mode)", M, src, t.set(sv8, v));
        XSET("set(const char8_t*,size,mode)", M, src, t.set(P8, N, v));
        XSET("set(const char*,size,mode) on a prepared target", M, src, t.set(P, N, v));
        XSET("set(const char_buffer&,mode)", M, src, t.set(cb, v));
        XSET("set(char_buffer&&,mode)", M, src, ST::char_buffer tmp(cb); t.set(std::move(tmp), v));
        XC("from_std_string(std::string,mode)", ref::UTF8, M, src, ST::string::from_std_string(ss, v));
        XC("from_std_string(std::string_view,mode)", ref::UTF8, M, src, ST::string::from_std_string(sv, v));
        XC("from_std_string(std::u8string,mode)", ref::UTF8, M, src, ST::string::from_std_string(su8, v));
        XC("from_std_string(std::u8string_view,mode)", ref::UTF8, M, src, ST::string::from_std_string(sv8, v));
        XC("from_utf8(const char8_t*,size,mode)", ref::UTF8, M, src, ST::string::from_utf8(P8, N, v));
    }
    }
    if (p.groups & G_DEFAULT) {
    // --- calls that omit the mode (configured default)
    XC("ST::string(const char*,size)", ref::UTF8, DM, src, ST::string(P, N));
    XC("ST::string(const char8_t*,size)", ref::UTF8, DM, src, ST::string(P8, N));
    XC("ST::string(std::string)", ref::UTF8, DM, src, ST::string(ss));
    XC("ST::string(std::string_view)", ref::UTF8, DM, src, ST::string(sv));
    XC("ST::string(std::u8string)", ref::UTF8, DM, src, ST::string(su8));
    XC("ST::string(std::u8string_view)", ref::UTF8, DM, src, ST::string(sv8));
    XC("ST::string(const char_buffer&)", ref::UTF8, DM, src, ST::string(cb));
    XC("ST::string(char_buffer&&)", ref::UTF8, DM, src, [&] { ST::char_buffer tmp(cb); return ST::string(std::move(tmp)); }());
    XC("from_utf8(const char*,size)", ref::UTF8, DM, src, ST::string::from_utf8(P, N));
    XC("from_utf8(const char8_t*,size)", ref::UTF8, DM, src, ST::string::from_utf8(P8, N));
    XC("from_utf8(const char_buffer&)", ref::UTF8, DM, src, ST::string::from_utf8(cb));
    XC("from_std_string(std::string)", ref::UTF8, DM, src, ST::string::from_std_string(ss));
    XC("from_std_string(std::u8string_view)", ref::UTF8, DM, src, ST::string::from_std_string(sv8));
    XSET("set(const char*,size)", DM, src, t.set(P, N));
    XSET("set(std::string)", DM, src, t.set(ss));
    XSET("set(std::u8string_view)", DM, src, t.set(sv8));
    XSET("set(const char_buffer&)", DM, src, t.set(cb));
    XSET("operator=(std::string)", DM, src, t = ss);
    XSET("operator=(std::string_view)", DM, src, t = sv);
    XSET("operator=(std::u8string)", DM, src, t = su8);
    XSET("operator=(std::u8string_view)", DM, src, t = sv8);
    XSET("operator=(const char_buffer&)", DM, src, t = cb);
    XSET("operator=(char_buffer&&)", DM, src, ST::char_buffer tmp(cb); t = std::move(tmp));
    XC("utf8_to_utf16(const char*,size)", ref::UTF16, DM, src, ST::utf8_to_utf16(P, N));
    XC("utf8_to_utf16(const char8_t*,size)", ref::UTF16, DM, src, ST::utf8_to_utf16(P8, N));
    XC("utf8_to_utf16(const char_buffer&)", ref::UTF16, DM, src, ST::utf8_to_utf16(cb));
    XC("utf8_to_utf32(const char*,size)", ref::UTF32, DM, src, ST::utf8_to_utf32(P, N));
    XC("utf8_to_utf32(const char8_t*,size)", ref::UTF32, DM, src, ST::utf8_to_utf32(P8, N));
    XC("utf8_to_utf32(const char_buffer&)", ref::UTF32, DM, src, ST::utf8_to_utf32(cb));
    XC("utf8_to_wchar(const char*,size)", ref::UTF32, DM, src, ST::utf8_to_wchar(P, N));
    XC("utf8_to_wchar(const char8_t*,size)", ref::UTF32, DM, src, ST::utf8_to_wchar(P8, N));
    XC("utf8_to_wchar(const char_buffer&)", ref::UTF32, DM, src, ST::utf8_to_wchar(cb));
    XC("utf8_to_latin_1(const char*,size)", ref::LATIN1, DM, src, ST::utf8_to_latin_1(P, N));
    XC("utf8_to_latin_1(const char8_t*,size)", ref::LATIN1, DM, src, ST::utf8_to_latin_1(P8, N));
    XC("utf8_to_latin_1(const char_buffer&)", ref::LATIN1, DM, src, ST::utf8_to_latin_1(cb));
    }
    if (p.groups & G_CSTR)
    // --- C-string overloads (ST_AUTO_SIZE): they see the text up to its first NUL
    {
        CStr<char> z(src, p.null_empty);
        const char *Z = z.p(); const char8_t *Z8 = reinterpret_cast<const char8_t *>(Z);
        const Units &seen = z.seen;
        XC("ST::string(const char*)", ref::UTF8, DM, seen, ST::string(Z));
        XC("ST::string(const char8_t*)", ref::UTF8, DM, seen, ST::string(Z8));
        XC("from_utf8(const char*)", ref::UTF8, DM, seen, ST::string::from_utf8(Z));
        XC("from_utf8(const char8_t*)", ref::UTF8, DM, seen, ST::string::from_utf8(Z8));
        XSET("set(const char*)", DM, seen, t.set(Z));
        XSET("set(const char8_t*)", DM, seen, t.set(Z8));
        XSET("operator=(const char*)", DM, seen, t = Z);
        XSET("operator=(const char8_t*)", DM, seen, t = Z8);
        for (int m = 0; m < 3; m++) {
            if (!R.wants(m)) continue;
            const Mode M = (Mode)m; const ST::utf_validation_t v = conv::st_mode(M);
            XC("ST::string(const char*,ST_AUTO_SIZE,mode)", ref::UTF8, M, seen, ST::string(Z, ST_AUTO_SIZE, v));
            XC("ST::string(const char8_t*,ST_AUTO_SIZE,mode)", ref::UTF8, M, seen, ST::string(Z8, ST_AUTO_SIZE, v));
            XC("from_utf8(const char*,ST_AUTO_SIZE,mode)", ref::UTF8, M, seen, ST::string::from_utf8(Z, ST_AUTO_SIZE, v));
            XC("from_utf8(const char8_t*,ST_AUTO_SIZE,mode)", ref::UTF8, M, seen, ST::string::from_utf8(Z8, ST_AUTO_SIZE, v));
            XSET("set(const char*,ST_AUTO_SIZE,mode)", M, seen, t.set(Z, ST_AUTO_SIZE, v));
            XSET("set(const char8_t*,ST_AUTO_SIZE,mode)", M, seen, t.set(Z8, ST_AUTO_SIZE, v));
        }
        Units LU; const ST::string &L = left_operand(R.at(__LINE__), LU);
        XC_("operator+(ST::string,const char*)", ref::UTF8, DM, true, false, seen, LU, NONE, L + Z);
        XC_("operator+(const char*,ST::string)", ref::UTF8, DM, true, false, seen, NONE, LU, Z + L);
        XC_("operator+(ST::string,const char8_t*)", ref::UTF8, DM, true, false, seen, LU, NONE, L + Z8);
        XC_("operator+(const char8_t*,ST::string)", ref::UTF8, DM, true, false, seen, NONE, LU, Z8 + L);
        XC_("operator+=(const char*)", ref::UTF8, DM, true, false, seen, LU, NONE, [&] { ST::string t(L); t += Z; return t; }());
        XC_("operator+=(const char8_t*)", ref::UTF8, DM, true, false, seen, LU, NONE, [&] { ST::string t(L); t += Z8; return t; }());
    }
    if (p.groups & G_VERBATIM) {
    // --- no validation, no transcoding: the bytes as given
    XSETV("set_validated(const char*,size)", src, t.set_validated(P, N));
    XSETV("set_validated(const char8_t*,size)", src, t.set_validated(P8, N));
    XSETV("set_validated(const char_buffer&)", src, t.set_validated(cb));
    XSETV("set_validated(char_buffer&&)", src, ST::char_buffer tmp(cb); t.set_validated(std::move(tmp)));
    XVERB("from_validated(const char*,size)", ref::UTF8, src, ST::string::from_validated(P, N));
    XVERB("from_validated(const char8_t*,size)", ref::UTF8, src, ST::string::from_validated(P8, N));
    XVERB("from_validated(const char_buffer&)", ref::UTF8, src, ST::string::from_validated(cb));
    XVERB("from_validated(char_buffer&&)", ref::UTF8, src, [&] { ST::char_buffer tmp(cb); return ST::string::from_validated(std::move(tmp)); }());
    {
        using namespace ST::literals;
        XVERB("operator\"\"_st(const char*,size)", ref::UTF8, src, operator""_st(s.e.data(), N));
        XVERB("operator\"\"_st(const char8_t*,size)", ref::UTF8, src, operator""_st(reinterpret_cast<const char8_t *>(s.e.data()), N));
        XVERB("operator\"\"_stbuf(const char*,size)", ref::UTF8, src, operator""_stbuf(s.e.data(), N));
        XVERB("operator\"\"_stbuf(const char8_t*,size)", ref::UTF8, src, operator""_stbuf(reinterpret_cast<const char8_t *>(s.e.data()), N));
    }
    XVERB("char_buffer(const char*,size).view()", ref::UTF8, src, cb.view());
    // ST::null forms: an empty string / buffer whatever the object held before
    XVERB("ST::string(ST::null)", ref::UTF8, NONE, ST::string(ST::null));
    XVERB("s = ST::null", ref::UTF8, NONE, [&] { ST::string t = ST::string::from_validated(s.e.data(), N); t = ST::null; return t; }());
    XVERB("s.set(ST::null)", ref::UTF8, NONE, [&] { ST::string t = ST::string::from_validated(s.e.data(), N); t.set(ST::null); return t; }());
    XVERB("char_buffer(ST::null)", ref::UTF8, NONE, ST::char_buffer(ST::null));
    XVERB("char_buffer = ST::null", ref::UTF8, NONE, [&] { ST::char_buffer b(cb); b = ST::null; return b; }());
    XVERB("s = ST::null; s += ST::string", ref::UTF8, src, [&] { ST::string t = ST::string::from_validated(s.e.data(), N); t = ST::null; t += ST::string::from_validated(s.e.data(), N); return t; }());
    // --- std::filesystem::path sources: the string must hold exactly what path::u8string() reports
    {
        bool have = false; std::filesystem::path pa; Units pu;
        try { pa = std::filesystem::path(ss); auto u = pa.u8string(); pu = units_of(reinterpret_cast<const char *>(u.data()), u.size()); have = true; } catch (...) { }
        if (have) {
            XVERB("from_path(std::filesystem::path)", ref::UTF8, pu, ST::string::from_path(pa));
            XVERB("ST::string(std::filesystem::path)", ref::UTF8, pu, ST::string(pa));
            XSETV("set(std::filesystem::path)", pu, t.set(pa));
            XSETV("operator=(std::filesystem::path)", pu, t = pa);
        }
        have = false;
        try { pa = std::filesystem::path(su8); auto u = pa.u8string(); pu = units_of(reinterpret_cast<const char *>(u.data()), u.size()); have = true; } catch (...) { }
        if (have) XVERB("from_path(path(std::u8string))", ref::UTF8, pu, ST::string::from_path(pa));
    }
    }
    // --- out of an ST::string holding these bytes
    const ST::string str = ST::string::from_validated(s.e.data(), N);
    const Mode AV = ref::ASSUME_VALID;
    if (p.groups & G_OUT) {
    XVERB("to_utf8()", ref::UTF8, src, str.to_utf8());
    XVERB("to_std_string()", ref::UTF8, src, str.to_std_string());
    XVERB("to_std_string(true,true)", ref::UTF8, src, str.to_std_string(true, true));
    XVERB("to_std_u8string()", ref::UTF8, src, str.to_std_u8string());
    XVERB("view()", ref::UTF8, src, str.view());
    XVERB("c_str()", ref::UTF8, src, CStrView{str.c_str(), str.size()});
    XVERB("data()", ref::UTF8, src, CStrView{str.data(), str.size()});
    XVERB("u8_str()", ref::UTF8, src, CStrView{reinterpret_cast<const char *>(str.u8_str()), str.size()});
    XVERB("begin()..end()", ref::UTF8, src, std::string(str.begin(), str.end()));
    XVERB("to_buffer(char_buffer&)", ref::UTF8, src, [&] { ST::char_buffer b; prep(b, R.at(__LINE__)); str.to_buffer(b); return b; }());
    XVERB("to_buffer(char_buffer&,true)", ref::UTF8, src, [&] { ST::char_buffer b; prep(b, R.at(__LINE__)); str.to_buffer(b, true); return b; }());
    XVERB("to_std_string(std::string&)", ref::UTF8, src, [&] { std::string r; prep(r, R.at(__LINE__)); str.to_std_string(r); return r; }());
    XVERB("to_std_string(std::string&,true,false)", ref::UTF8, src, [&] { std::string r; prep(r, R.at(__LINE__)); str.to_std_string(r, true, false); return r; }());
    XVERB("to_std_string(std::u8string&)", ref::UTF8, src, [&] { std::u8string r; prep(r, R.at(__LINE__)); str.to_std_string(r); return r; }());
    XC("to_utf16()", ref::UTF16, AV, src, str.to_utf16());
    XC("to_utf32()", ref::UTF32, AV, src, str.to_utf32());
    XC("to_wchar()", ref::UTF32, AV, src, str.to_wchar());
    XC("to_buffer(utf16_buffer&)", ref::UTF16, AV, src, [&] { ST::utf16_buffer b; prep(b, R.at(__LINE__)); str.to_buffer(b); return b; }());
    XC("to_buffer(utf32_buffer&)", ref::UTF32, AV, src, [&] { ST::utf32_buffer b; prep(b, R.at(__LINE__)); str.to_buffer(b); return b; }());
    XC("to_buffer(wchar_buffer&)", ref::UTF32, AV, src, [&] { ST::wchar_buffer b; prep(b, R.at(__LINE__)); str.to_buffer(b); return b; }());
    XC("to_std_u16string()", ref::UTF16, AV, src, str.to_std_u16string());
    XC("to_std_u32string()", ref::UTF32, AV, src, str.to_std_u32string());
    XC("to_std_wstring()", ref::UTF32, AV, src, str.to_std_wstring());
    XC("to_std_string(std::u16string&)", ref::UTF16, AV, src, [&] { std::u16string r; prep(r, R.at(__LINE__)); str.to_std_string(r); return r; }());
    XC("to_std_string(std::u32string&)", ref::UTF32, AV, src, [&] { std::u32string r; prep(r, R.at(__LINE__)); str.to_std_string(r); return r; }());
    XC("to_std_string(std::wstring&)", ref::UTF32, AV, src, [&] { std::wstring r; prep(r, R.at(__LINE__)); str.to_std_string(r); return r; }());
    XC("to_utf16() then utf16_buffer::view()", ref::UTF16, AV, src, [&] { const ST::utf16_buffer b = str.to_utf16(); return std::u16string(b.view()); }());
    XC("to_utf32() then utf32_buffer::view()", ref::UTF32, AV, src, [&] { const ST::utf32_buffer b = str.to_utf32(); return std::u32string(b.view()); }());
    XC("to_wchar() then wchar_buffer::view()", ref::UTF32, AV, src, [&] { const ST::wchar_buffer b = str.to_wchar(); return std::wstring(b.view()); }());
    }
    if (p.groups & G_OUT_L1) {
    for (int fl = 0; fl < 2; fl++) {
        const bool F = fl == 0;
        XC_("to_latin_1(bool)", ref::LATIN1, AV, F, false, src, NONE, NONE, str.to_latin_1(F));
        XC_("to_buffer(char_buffer&,false,bool)", ref::LATIN1, AV, F, false, src, NONE, NONE, [&] { ST::char_buffer b; prep(b, R.at(__LINE__)); str.to_buffer(b, false, F); return b; }());
        XC_("to_std_string(false,bool)", ref::LATIN1, AV, F, false, src, NONE, NONE, str.to_std_string(false, F));
        XC_("to_std_string(std::string&,false,bool)", ref::LATIN1, AV, F, false, src, NONE, NONE, [&] { std::string r; prep(r, R.at(__LINE__)); str.to_std_string(r, false, F); return r; }());
    }
    XC("to_latin_1()", ref::LATIN1, AV, src, str.to_latin_1());
    XC("to_std_string(false)", ref::LATIN1, AV, src, str.to_std_string(false));
    for (int m = 0; m < 3; m++) {     // deprecated overloads: substitute_invalid stands for substitute_out_of_range = true, the other modes for false
        const Mode M = (Mode)m; const ST::utf_validation_t v = conv::st_mode(M); const bool F = (M == ref::SUBSTITUTE);
        XC_("to_latin_1(utf_validation_t)", ref::LATIN1, AV, F, false, src, NONE, NONE, str.to_latin_1(v));
        XC_("to_buffer(char_buffer&,false,utf_validation_t)", ref::LATIN1, AV, F, false, src, NONE, NONE, [&] { ST::char_buffer b; prep(b, R.at(__LINE__)); str.to_buffer(b, false, v); return b; }());
        XC_("to_std_string(false,utf_validation_t)", ref::LATIN1, AV, F, false, src, NONE, NONE, str.to_std_string(false, v));
        XC_("to_std_string(std::string&,false,utf_validation_t)", ref::LATIN1, AV, F, false, src, NONE, NONE, [&] { std::string r; prep(r, R.at(__LINE__)); str.to_std_string(r, false, v); return r; }());
        XVERB("to_buffer(char_buffer&,true,utf_validation_t)", ref::UTF8, src, [&] { ST::char_buffer b; prep(b, R.at(__LINE__)); str.to_buffer(b, true, v); return b; }());
        XVERB("to_std_string(true,utf_validation_t)", ref::UTF8, src, str.to_std_string(true, v));
        XVERB("to_std_string(std::string&,true,utf_validation_t)", ref::UTF8, src, [&] { std::string r; prep(r, R.at(__LINE__)); str.to_std_string(r, true, v); return r; }());
    }
    if (ref::well_formed(ref::UTF8, src)) {
        XVERB("to_path()", ref::UTF8, src, str.to_path());
        XVERB("to_path().u8string()", ref::UTF8, src, str.to_path().u8string());
        XVERB("from_path(to_path())", ref::UTF8, src, ST::string::from_path(str.to_path()));
    }
    }
    if (p.groups & G_SLICE)
    // --- slices: view(start,length) and sources that alias the target's own storage
    {
        size_t k = p.k > N ? N : p.k; size_t len = p.len > N - k ? N - k : p.len;
        const Units sl = slice(src, k, len);
        const Units tail = slice(src, k, N - k);
        const Units tail_seen = trunc_at_nul(tail);
        XVERB("view(start,length)", ref::UTF8, sl, str.view(k, len));
        XVERB("view(start)", ref::UTF8, tail, str.view(k));
        XVERB("char_buffer::view(start,length)", ref::UTF8, sl, cb.view(k, len));
        if (p.with_alias) {
            for (int m = 0; m < 3; m++) {
                if (!R.wants(m)) continue;
                const Mode M = (Mode)m; const ST::utf_validation_t v = conv::st_mode(M);
                XC("s.set(s.c_str()+k,n,mode) [source inside the target]", ref::UTF8, M, sl, [&] { ST::string t(str); t.set(t.c_str() + k, len, v); return t; }());
                XC("s.set(s.view(k,n),mode) [source inside the target]", ref::UTF8, M, sl, [&] { ST::string t(str); t.set(t.view(k, len), v); return t; }());
                XC("s.set(s.u8_str()+k,n,mode) [source inside the target]", ref::UTF8, M, sl, [&] { ST::string t(str); t.set(t.u8_str() + k, len, v); return t; }());
                XC("s.set(std::u8string_view(s.u8_str()+k,n),mode) [source inside the target]", ref::UTF8, M, sl, [&] { ST::string t(str); t.set(std::u8string_view(t.u8_str() + k, len), v); return t; }());
                XC("s.set(s.c_str()+k,ST_AUTO_SIZE,mode) [source inside the target]", ref::UTF8, M, tail_seen, [&] { ST::string t(str); t.set(t.c_str() + k, ST_AUTO_SIZE, v); return t; }());
            }
            XC("s = s.c_str()+k [source inside the target]", ref::UTF8, DM, tail_seen, [&] { ST::string t(str); t = t.c_str() + k; return t; }());
            XC("s = s.u8_str()+k [source inside the target]", ref::UTF8, DM, tail_seen, [&] { ST::string t(str); t = t.u8_str() + k; return t; }());
            XC("s.set(s.c_str()+k) [source inside the target]", ref::UTF8, DM, tail_seen, [&] { ST::string t(str); t.set(t.c_str() + k); return t; }());
            XC("s = s.view(k,n) [source inside the target]", ref::UTF8, DM, sl, [&] { ST::string t(str); t = t.view(k, len); return t; }());
            XC("s.set(s.c_str()+k,n) [source inside the target]", ref::UTF8, DM, sl, [&] { ST::string t(str); t.set(t.c_str() + k, len); return t; }());
            XVERB("s.set_validated(s.c_str()+k,n) [source inside the target]", ref::UTF8, sl, [&] { ST::string t(str); t.set_validated(t.c_str() + k, len); return t; }());
            XVERB("s.set_validated(s.u8_str()+k,n) [source inside the target]", ref::UTF8, sl, [&] { ST::string t(str); t.set_validated(t.u8_str() + k, len); return t; }());
            XC_("s += s.c_str()+k [source inside the target]", ref::UTF8, DM, true, false, tail_seen, src, NONE, [&] { ST::string t(str); t += t.c_str() + k; return t; }());
            XC_("s = s + (s.c_str()+k)", ref::UTF8, DM, true, false, tail_seen, src, NONE, [&] { ST::string t(str); t = t + (t.c_str() + k); return t; }());
            XC_("s = (s.c_str()+k) + s", ref::UTF8, DM, true, false, tail_seen, NONE, src, [&] { ST::string t(str); t = (t.c_str() + k) + t; return t; }());
            XC_("s += s", ref::UTF8, AV, true, true, src, src, NONE, [&] { ST::string t(str); t += t; return t; }());
            XVERB("s = s", ref::UTF8, src, [&] { ST::string t(str); ST::string &alias = t; t = alias; return t; }());
            XVERB("s.set(s)", ref::UTF8, src, [&] { ST::string t(str); const ST::string &alias = t; t.set(alias); return t; }());
            XVERB("s.set_validated(s.to_utf8())", ref::UTF8, src, [&] { ST::string t(str); t.set_validated(t.to_utf8()); return t; }());
            XVERB("s.to_buffer(b) with b = s.to_utf8()", ref::UTF8, src, [&] { ST::char_buffer b = str.to_utf8(); str.to_buffer(b); return b; }());
        }
    }
    return std::string();
}

// ------------------------------------------------------------------------------------------------
// UTF-16 / UTF-32 / wchar_t sources
template <class T> struct Wide;
template <> struct Wide<char16_t> {
    static constexpr Enc enc = ref::UTF16; static const char *tn() { return "char16_t"; }
    static ST::string from(const char16_t *p, size_t n, ST::utf_validation_t v) { return ST::string::from_utf16(p, n, v); }
    static ST::string from(const char16_t *p, size_t n) { return ST::string::from_utf16(p, n); }
    static ST::string from_c(const char16_t *p) { return ST::string::from_utf16(p); }
    static ST::string from_c(const char16_t *p, ST::utf_validation_t v) { return ST::string::from_utf16(p, ST_AUTO_SIZE, v); }
    static ST::string from_b(const ST::utf16_buffer &b) { return ST::string::from_utf16(b); }
    static ST::char_buffer to8(const char16_t *p, size_t n) { return ST::utf16_to_utf8(p, n); }
    static ST::char_buffer to8(const ST::utf16_buffer &b) { return ST::utf16_to_utf8(b); }
    static ST::char_buffer tol1(const char16_t *p, size_t n) { return ST::utf16_to_latin_1(p, n); }
    static ST::char_buffer tol1(const ST::utf16_buffer &b) { return ST::utf16_to_latin_1(b); }
};
template <> struct Wide<char32_t> {
    static constexpr Enc enc = ref::UTF32; static const char *tn() { return "char32_t"; }
    static ST::string from(const char32_t *p, size_t n, ST::utf_validation_t v) { return ST::string::from_utf32(p, n, v); }
    static ST::string from(const char32_t *p, size_t n) { return ST::string::from_utf32(p, n); }
    static ST::string from_c(const char32_t *p) { return ST::string::from_utf32(p); }
    static ST::string from_c(const char32_t *p, ST::utf_validation_t v) { return ST::string::from_utf32(p, ST_AUTO_SIZE, v); }
    static ST::string from_b(const ST::utf32_buffer &b) { return ST::string::from_utf32(b); }
    static ST::char_buffer to8(const char32_t *p, size_t n) { return ST::utf32_to_utf8(p, n); }
    static ST::char_buffer to8(const ST::utf32_buffer &b) { return ST::utf32_to_utf8(b); }
    static ST::char_buffer tol1(const char32_t *p, size_t n) { return ST::utf32_to_latin_1(p, n); }
    static ST::char_buffer tol1(const ST::utf32_buffer &b) { return ST::utf32_to_latin_1(b); }
};
template <> struct Wide<wchar_t> {
    static constexpr Enc enc = ref::UTF32; static const char *tn() { return "wchar_t"; }
    static ST::string from(const wchar_t *p, size_t n, ST::utf_validation_t v) { return ST::string::from_wchar(p, n, v); }
    static ST::string from(const wchar_t *p, size_t n) { return ST::string::from_wchar(p, n); }
    static ST::string from_c(const wchar_t *p) { return ST::string::from_wchar(p); }
    static ST::string from_c(const wchar_t *p, ST::utf_validation_t v) { return ST::string::from_wchar(p, ST_AUTO_SIZE, v); }
    static ST::string from_b(const ST::wchar_buffer &b) { return ST::string::from_wchar(b); }
    static ST::char_buffer to8(const wchar_t *p, size_t n) { return ST::wchar_to_utf8(p, n); }
    static ST::char_buffer to8(const ST::wchar_buffer &b) { return ST::wchar_to_utf8(b); }
    static ST::char_buffer tol1(const wchar_t *p, size_t n) { return ST::wchar_to_latin_1(p, n); }
    static ST::char_buffer tol1(const ST::wchar_buffer &b) { return ST::wchar_to_latin_1(b); }
};

template <class T> inline std::string ext_wide(const Units &src, const Params &p, const Judge &judge, long &ncalls) {
    typedef Wide<T> W;
    Runner R{judge, ncalls, std::string(), p.sel, W::tn(), p.mode_mask, {}};
    const Enc FROM = W::enc; const Units &NONE = Runner::none();
    const Mode DM = default_mode();
    Src<T> s(src, p.null_empty);
    const T *P = s.p(); const size_t N = s.n();
    const std::basic_string<T> ss(s.e.data(), N);
    const std::basic_string_view<T> sv(P, N);
    const ST::buffer<T> bf = s.buf();
    if (p.groups & (G_IN_MODE | G_OUT)) {
    for (int m = 0; m < 3; m++) {
        if (!R.wants(m)) continue;
        const Mode M = (Mode)m; const ST::utf_validation_t v = conv::st_mode(M);
        XC("ST::string(std::basic_string,mode)", ref::UTF8, M, src, ST::string(ss, v));
        XC("ST::string(std::basic_string_view,mode)", ref::UTF8, M, src, ST::string(sv, v));
        XSET("set(std::basic_string,mode)", M, src, t.set(ss, v));
        XSET("set(std::basic_string_view,mode)", M, src, t.set(sv, v));
        XSET("set(const T*,size,mode) on a prepared target", M, src, t.set(P, N, v));
        XSET("set(const buffer<T>&,mode) on a prepared target", M, src, t.set(bf, v));
        XC("from_std_string(std::basic_string,mode)", ref::UTF8, M, src, ST::string::from_std_string(ss, v));
        XC("from_std_string(std::basic_string_view,mode)", ref::UTF8, M, src, ST::string::from_std_string(sv, v));
        if constexpr (std::is_same<T, wchar_t>::value) {
            XC("from_std_wstring(std::wstring,mode)", ref::UTF8, M, src, ST::string::from_std_wstring(ss, v));
            XC("from_std_wstring(std::wstring_view,mode)", ref::UTF8, M, src, ST::string::from_std_wstring(sv, v));
        }
    }
    }
    if (p.groups & (G_DEFAULT | G_OUT_L1)) {
    // calls that omit the mode
    XC("ST::string(const T*,size)", ref::UTF8, DM, src, ST::string(P, N));
    XC("ST::string(std::basic_string)", ref::UTF8, DM, src, ST::string(ss));
    XC("ST::string(std::basic_string_view)", ref::UTF8, DM, src, ST::string(sv));
    XC("ST::string(const buffer<T>&)", ref::UTF8, DM, src, ST::string(bf));
    XC("from_utf16/32/wchar(const T*,size)", ref::UTF8, DM, src, W::from(P, N));
    XC("from_utf16/32/wchar(const buffer<T>&)", ref::UTF8, DM, src, W::from_b(bf));
    XC("from_std_string(std::basic_string)", ref::UTF8, DM, src, ST::string::from_std_string(ss));
    XC("from_std_string(std::basic_string_view)", ref::UTF8, DM, src, ST::string::from_std_string(sv));
    XSET("set(const T*,size)", DM, src, t.set(P, N));
    XSET("set(std::basic_string)", DM, src, t.set(ss));
    XSET("set(std::basic_string_view)", DM, src, t.set(sv));
    XSET("set(const buffer<T>&)", DM, src, t.set(bf));
    XSET("operator=(std::basic_string)", DM, src, t = ss);
    XSET("operator=(std::basic_string_view)", DM, src, t = sv);
    XSET("operator=(const buffer<T>&)", DM, src, t = bf);
    XC("<T>_to_utf8(const T*,size)", ref::UTF8, DM, src, W::to8(P, N));
    XC("<T>_to_utf8(const buffer<T>&)", ref::UTF8, DM, src, W::to8(bf));
    XC("<T>_to_latin_1(const T*,size)", ref::LATIN1, DM, src, W::tol1(P, N));
    XC("<T>_to_latin_1(const buffer<T>&)", ref::LATIN1, DM, src, W::tol1(bf));
    if constexpr (std::is_same<T, char16_t>::value) {
        XC("utf16_to_utf32(const char16_t*,size)", ref::UTF32, DM, src, ST::utf16_to_utf32(P, N));
        XC("utf16_to_utf32(const utf16_buffer&)", ref::UTF32, DM, src, ST::utf16_to_utf32(bf));
        XC("utf16_to_wchar(const char16_t*,size)", ref::UTF32, DM, src, ST::utf16_to_wchar(P, N));
        XC("utf16_to_wchar(const utf16_buffer&)", ref::UTF32, DM, src, ST::utf16_to_wchar(bf));
    } else if constexpr (std::is_same<T, char32_t>::value) {
        XC("utf32_to_utf16(const char32_t*,size)", ref::UTF16, DM, src, ST::utf32_to_utf16(P, N));
        XC("utf32_to_utf16(const utf32_buffer&)", ref::UTF16, DM, src, ST::utf32_to_utf16(bf));
        XC("utf32_to_wchar(const char32_t*,size)", ref::UTF32, DM, src, ST::utf32_to_wchar(P, N));
        XC("utf32_to_wchar(const utf32_buffer&)", ref::UTF32, DM, src, ST::utf32_to_wchar(bf));
    } else {
        XC("wchar_to_utf16(const wchar_t*,size)", ref::UTF16, DM, src, ST::wchar_to_utf16(P, N));
        XC("wchar_to_utf16(const wchar_buffer&)", ref::UTF16, DM, src, ST::wchar_to_utf16(bf));
        XC("wchar_to_utf32(const wchar_t*,size)", ref::UTF32, DM, src, ST::wchar_to_utf32(P, N));
        XC("wchar_to_utf32(const wchar_buffer&)", ref::UTF32, DM, src, ST::wchar_to_utf32(bf));
    }
    }
    if (p.groups & G_VERBATIM) {
    // literal operators called as functions: wide literals are converted with assume_valid, _stbuf keeps the units
    {
        using namespace ST::literals;
        XC("operator\"\"_st(const T*,size)", ref::UTF8, ref::ASSUME_VALID, src, operator""_st(s.e.data(), N));
        XVERB("operator\"\"_stbuf(const T*,size)", FROM, src, operator""_stbuf(s.e.data(), N));
    }
    XVERB("buffer<T>(const T*,size).view()", FROM, src, std::basic_string<T>(bf.view()));
    XVERB("buffer<T>(ST::null)", FROM, NONE, ST::buffer<T>(ST::null));
    XVERB("buffer<T> = ST::null", FROM, NONE, [&] { ST::buffer<T> b(bf); b = ST::null; return b; }());
    {
        size_t k = p.k > N ? N : p.k; size_t len = p.len > N - k ? N - k : p.len;
        const Units sl = slice(src, k, len);
        XVERB("buffer<T>::view(start,length)", FROM, sl, std::basic_string<T>(bf.view(k, len)));
    }
    }
    if (p.groups & (G_CSTR | G_SLICE))
    // C-string overloads
    {
        CStr<T> z(src, p.null_empty);
        const T *Z = z.p(); const Units &seen = z.seen;
        XC("ST::string(const T*)", ref::UTF8, DM, seen, ST::string(Z));
        XC("from_utf16/32/wchar(const T*)", ref::UTF8, DM, seen, W::from_c(Z));
        XSET("set(const T*)", DM, seen, t.set(Z));
        XSET("operator=(const T*)", DM, seen, t = Z);
        for (int m = 0; m < 3; m++) {
            if (!R.wants(m)) continue;
            const Mode M = (Mode)m; const ST::utf_validation_t v = conv::st_mode(M);
            XC("ST::string(const T*,ST_AUTO_SIZE,mode)", ref::UTF8, M, seen, ST::string(Z, ST_AUTO_SIZE, v));
            XC("from_utf16/32/wchar(const T*,ST_AUTO_SIZE,mode)", ref::UTF8, M, seen, W::from_c(Z, v));
            XSET("set(const T*,ST_AUTO_SIZE,mode)", M, seen, t.set(Z, ST_AUTO_SIZE, v));
        }
        Units LU; const ST::string &L = left_operand(R.at(__LINE__), LU);
        XC_("operator+(ST::string,const T*)", ref::UTF8, DM, true, false, seen, LU, NONE, L + Z);
        XC_("operator+(const T*,ST::string)", ref::UTF8, DM, true, false, seen, NONE, LU, Z + L);
        XC_("operator+=(const T*)", ref::UTF8, DM, true, false, seen, LU, NONE, [&] { ST::string t(L); t += Z; return t; }());
    }
    if (p.groups & (G_CHARS | G_VERBATIM))
    // single characters on either side: the character is one UTF-32 value whatever its type (operator+ always validates)
    {
        const Enc FROM = ref::UTF32;
        Units LU; const ST::string &L = left_operand(R.at(__LINE__), LU);
        const size_t nch = N < 6 ? N : 6;
        for (size_t i = 0; i < nch; i++) {
            const size_t at = (i < 3) ? i : N - (nch - i);          // first three and last three units
            const T ch = s.e.data()[at];
            const Units one{(uint32_t)(typename std::make_unsigned<T>::type)ch};
            XC_("operator+(ST::string,T)", ref::UTF8, ref::CHECK, true, false, one, LU, NONE, L + ch);
            XC_("operator+(T,ST::string)", ref::UTF8, ref::CHECK, true, false, one, NONE, LU, ch + L);
            XC_("operator+=(T)", ref::UTF8, ref::CHECK, true, false, one, LU, NONE, [&] { ST::string t(L); t += ch; return t; }());
        }
    }
    return std::string();
}
// ------------------------------------------------------------------------------------------------
// Latin-1 source
inline std::string ext_latin1(const Units &src, const Params &p, const Judge &judge, long &ncalls) {
    Runner R{judge, ncalls, std::string(), p.sel, "Latin-1 char", p.mode_mask, {}};
    const Enc FROM = ref::LATIN1; const Units &NONE = Runner::none();
    Src<char> s(src, p.null_empty);
    const size_t N = s.n();
    const ST::char_buffer cb = s.buf();
    if (p.groups & (G_DEFAULT | G_IN_MODE | G_OUT | G_VERBATIM)) {
    XC("from_latin_1(const char*,size)", ref::UTF8, ref::CHECK, src, ST::string::from_latin_1(s.p(), N));
    XC("from_latin_1(const char_buffer&)", ref::UTF8, ref::CHECK, src, ST::string::from_latin_1(cb));
    XC("latin_1_to_utf8(const char_buffer&)", ref::UTF8, ref::CHECK, src, ST::latin_1_to_utf8(cb));
    XC("latin_1_to_utf16(const char_buffer&)", ref::UTF16, ref::CHECK, src, ST::latin_1_to_utf16(cb));
    XC("latin_1_to_utf32(const char_buffer&)", ref::UTF32, ref::CHECK, src, ST::latin_1_to_utf32(cb));
    XC("latin_1_to_wchar(const char_buffer&)", ref::UTF32, ref::CHECK, src, ST::latin_1_to_wchar(cb));
    }
    if (p.groups & (G_CSTR | G_SLICE))
    {
        CStr<char> z(src, p.null_empty);
        XC("from_latin_1(const char*)", ref::UTF8, ref::CHECK, z.seen, ST::string::from_latin_1(z.p()));
    }
    if (p.groups & (G_CHARS | G_OUT_L1 | G_VERBATIM))
    {   // a char appended or prepended is the Latin-1 character of that value
        Units LU; const ST::string &L = left_operand(R.at(__LINE__), LU);
        const size_t nch = N < 6 ? N : 6;
        for (size_t i = 0; i < nch; i++) {
            const size_t at = (i < 3) ? i : N - (nch - i);
            const char ch = s.e.data()[at];
            const Units one{(uint32_t)(unsigned char)ch};
            XC_("operator+(ST::string,char)", ref::UTF8, ref::CHECK, true, false, one, LU, NONE, L + ch);
            XC_("operator+(char,ST::string)", ref::UTF8, ref::CHECK, true, false, one, NONE, LU, ch + L);
            XC_("operator+=(char)", ref::UTF8, ref::CHECK, true, false, one, LU, NONE, [&] { ST::string t(L); t += ch; return t; }());
        }
    }
    return std::string();
}

// every extended entry point that reads `from`
inline std::string for_each_ext(Enc from, const Units &src, const Params &p, const Judge &judge, long &ncalls) {
    std::string why;
    switch (from) {
    case ref::UTF8: return ext_utf8(src, p, judge, ncalls);
    case ref::UTF16: return ext_wide<char16_t>(src, p, judge, ncalls);
    case ref::UTF32:
        why = ext_wide<char32_t>(src, p, judge, ncalls);
        if (why.empty()) why = ext_wide<wchar_t>(src, p, judge, ncalls);
        return why;
    default: return ext_latin1(src, p, judge, ncalls);
    }
}

}  // namespace convx
