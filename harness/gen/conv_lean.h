// Lean call layer for LONG inputs (C03): every conversion that reads one encoding, on typed exact-size heap arrays,
// without per-unit std::vector traffic on the harness side.  The outcome is reduced to what C03 judges on long inputs:
// outcome kind, size(), terminator.  The expected size comes from lean::expected(), a storage-free restatement of
// ref::expect() that the property harness cross-checks against ref::expect() on every short input.
// Harness glue: includes string_theory, decides nothing by itself.
#pragma once
#include "gen/conv_calls.h"

namespace lean {
using ref::Enc; using ref::Mode; using ref::Units;

struct Res { int kind = 0; std::string what; size_t size = 0; bool terminated = true; };
struct Want { size_t size = 0; bool throws = false, may_throw = false; };

inline size_t enc_len(Enc to, uint32_t v) {
    switch (to) {
    case ref::UTF8: return v < 0x80 ? 1 : v < 0x800 ? 2 : v < 0x10000 ? 3 : 4;
    case ref::UTF16: return v < 0x10000 ? 1 : 2;
    default: return 1;
    }
}
// size / outcome kind of ref::expect(from, to, mode, src, flag) computed from the decoded items of src
inline Want expected(const std::vector<ref::Item> &items, Enc from, Enc to, Mode mode, bool l1_substitute) {
    Want w;
    const size_t sub = to == ref::LATIN1 ? 1 : enc_len(to, 0xFFFD);
    for (const ref::Item &it : items) {
        if (!it.ok) {
            if (mode == ref::CHECK) w.throws = true;
            w.size += (from == ref::UTF8 && to == ref::UTF8 && mode == ref::ASSUME_VALID) ? 1 : sub;
        } else if (from == ref::UTF8 && to == ref::UTF8) w.size += it.units;
        else if (to == ref::LATIN1 && it.value >= 0x100) { if (l1_substitute) w.size += 1; else w.throws = true; }
        else if ((to == ref::UTF16 || to == ref::UTF8) && it.value > 0x10FFFF) { w.size += sub; if (mode != ref::SUBSTITUTE) w.may_throw = true; }
        else w.size += enc_len(to, it.value);
    }
    return w;
}

template <class T> inline void take(const ST::buffer<T> &b, Res &r) { r.size = b.size(); r.terminated = (b.data()[b.size()] == 0); }
inline void take(const ST::string &s, Res &r) { r.size = s.size(); r.terminated = (s.c_str()[s.size()] == 0); }

template <class F> inline Res run(F &&f) {
    Res r;
    try { f(r); }
    catch (const ST::unicode_error &e) { r.kind = 1; r.what = e.what(); }
    catch (...) { r.kind = 2; r.what = verif::describe_current_exception(); }
    return r;
}

// C03's rule on a long input
inline std::string judge(const Res &r, const Want &w) {
    if (r.kind == 2) return "outcome is neither a buffer nor ST::unicode_error: " + r.what;
    if (r.kind == 1) return std::string();
    if (!r.terminated) return "no terminating NUL after " + verif::unum(r.size) + " units";
    if (w.throws) return std::string();
    if (r.size != w.size) return "size() is " + verif::unum(r.size) + " but the reference transcoding has " + verif::unum(w.size) + " units";
    return std::string();
}

#define LEAN_CALL(name, to, refmode, shownmode, flag, ...) \
    do { lean::Res r__ = lean::run([&](lean::Res &out__) { lean::take(__VA_ARGS__, out__); }); calls++; \
         std::string w__ = lean::judge(r__, lean::expected(items, FROM, to, refmode, flag)); \
         if (!w__.empty()) return std::string(name) + " mode=" + conv::mode_name(shownmode) + ((to) == ref::LATIN1 ? ((flag) ? " substitute_out_of_range=true" : " substitute_out_of_range=false") : "") + ": " + w__; } while (0)

// every conversion reading `from` x 3 modes x Latin-1 flags on the exact-size array [p, p+n); `sel` alternates pointer / buffer overloads
inline std::string all_from(Enc from, const Units &src, unsigned sel, long &calls) {
    const std::vector<ref::Item> items = ref::decode(from, src);
    const Enc FROM = from;
    const Mode AV = ref::ASSUME_VALID;
    if (from == ref::UTF8) {
        conv::Src<char> s(src, false); const char *p = s.p(); const size_t n = s.n();
        for (int m = 0; m < 3; m++) {
            const Mode M = (Mode)m; const ST::utf_validation_t v = conv::st_mode(M); const bool viabuf = ((sel + m) & 1) != 0;
            if (viabuf) { const ST::char_buffer b = s.buf();
                LEAN_CALL("utf8_to_utf16(char_buffer)", ref::UTF16, M, M, true, ST::utf8_to_utf16(b, v)); LEAN_CALL("utf8_to_utf32(char_buffer)", ref::UTF32, M, M, true, ST::utf8_to_utf32(b, v));
                LEAN_CALL("utf8_to_wchar(char_buffer)", ref::UTF32, M, M, true, ST::utf8_to_wchar(b, v)); LEAN_CALL("ST::string(char_buffer)", ref::UTF8, M, M, true, ST::string(b, v));
            } else {
                LEAN_CALL("utf8_to_utf16", ref::UTF16, M, M, true, ST::utf8_to_utf16(p, n, v)); LEAN_CALL("utf8_to_utf32", ref::UTF32, M, M, true, ST::utf8_to_utf32(p, n, v));
                LEAN_CALL("utf8_to_wchar", ref::UTF32, M, M, true, ST::utf8_to_wchar(p, n, v)); LEAN_CALL("ST::string(const char*,size)", ref::UTF8, M, M, true, ST::string(p, n, v));
            }
            for (int fl = 0; fl < 2; fl++) LEAN_CALL("utf8_to_latin_1", ref::LATIN1, M, M, fl == 0, ST::utf8_to_latin_1(p, n, v, fl == 0));
        }
        const ST::string str = ST::string::from_validated(p, n);
        LEAN_CALL("ST::string::to_utf16", ref::UTF16, AV, AV, true, str.to_utf16()); LEAN_CALL("ST::string::to_utf32", ref::UTF32, AV, AV, true, str.to_utf32());
        LEAN_CALL("ST::string::to_wchar", ref::UTF32, AV, AV, true, str.to_wchar());
        for (int fl = 0; fl < 2; fl++) LEAN_CALL("ST::string::to_latin_1", ref::LATIN1, AV, AV, fl == 0, str.to_latin_1(fl == 0));
    } else if (from == ref::UTF16) {
        conv::Src<char16_t> s(src, false); const char16_t *p = s.p(); const size_t n = s.n();
        for (int m = 0; m < 3; m++) {
            const Mode M = (Mode)m; const ST::utf_validation_t v = conv::st_mode(M); const bool viabuf = ((sel + m) & 1) != 0;
            if (viabuf) { const ST::utf16_buffer b = s.buf();
                LEAN_CALL("utf16_to_utf8(utf16_buffer)", ref::UTF8, M, M, true, ST::utf16_to_utf8(b, v)); LEAN_CALL("utf16_to_utf32(utf16_buffer)", ref::UTF32, M, M, true, ST::utf16_to_utf32(b, v));
                LEAN_CALL("utf16_to_wchar(utf16_buffer)", ref::UTF32, M, M, true, ST::utf16_to_wchar(b, v)); LEAN_CALL("ST::string(utf16_buffer)", ref::UTF8, M, M, true, ST::string(b, v));
            } else {
                LEAN_CALL("utf16_to_utf8", ref::UTF8, M, M, true, ST::utf16_to_utf8(p, n, v)); LEAN_CALL("utf16_to_utf32", ref::UTF32, M, M, true, ST::utf16_to_utf32(p, n, v));
                LEAN_CALL("utf16_to_wchar", ref::UTF32, M, M, true, ST::utf16_to_wchar(p, n, v)); LEAN_CALL("ST::string::from_utf16", ref::UTF8, M, M, true, ST::string::from_utf16(p, n, v));
            }
            for (int fl = 0; fl < 2; fl++) LEAN_CALL("utf16_to_latin_1", ref::LATIN1, M, M, fl == 0, ST::utf16_to_latin_1(p, n, v, fl == 0));
        }
    } else if (from == ref::UTF32) {
        conv::Src<char32_t> s(src, false); const char32_t *p = s.p(); const size_t n = s.n();
        conv::Src<wchar_t> sw(src, false); const wchar_t *pw = sw.p();
        for (int m = 0; m < 3; m++) {
            const Mode M = (Mode)m; const ST::utf_validation_t v = conv::st_mode(M); const bool viabuf = ((sel + m) & 1) != 0;
            if (viabuf) { const ST::utf32_buffer b = s.buf(); const ST::wchar_buffer bw = sw.buf();
                LEAN_CALL("utf32_to_utf8(utf32_buffer)", ref::UTF8, M, M, true, ST::utf32_to_utf8(b, v)); LEAN_CALL("utf32_to_utf16(utf32_buffer)", ref::UTF16, M, M, true, ST::utf32_to_utf16(b, v));
                LEAN_CALL("utf32_to_wchar(utf32_buffer)", ref::UTF32, M, M, true, ST::utf32_to_wchar(b, v)); LEAN_CALL("ST::string(utf32_buffer)", ref::UTF8, M, M, true, ST::string(b, v));
                LEAN_CALL("wchar_to_utf8(wchar_buffer)", ref::UTF8, M, M, true, ST::wchar_to_utf8(bw, v)); LEAN_CALL("wchar_to_utf16(wchar_buffer)", ref::UTF16, M, M, true, ST::wchar_to_utf16(bw, v));
                LEAN_CALL("wchar_to_utf32(wchar_buffer)", ref::UTF32, M, M, true, ST::wchar_to_utf32(bw, v)); LEAN_CALL("ST::string(wchar_buffer)", ref::UTF8, M, M, true, ST::string(bw, v));
            } else {
                LEAN_CALL("utf32_to_utf8", ref::UTF8, M, M, true, ST::utf32_to_utf8(p, n, v)); LEAN_CALL("utf32_to_utf16", ref::UTF16, M, M, true, ST::utf32_to_utf16(p, n, v));
                LEAN_CALL("utf32_to_wchar", ref::UTF32, M, M, true, ST::utf32_to_wchar(p, n, v)); LEAN_CALL("ST::string::from_utf32", ref::UTF8, M, M, true, ST::string::from_utf32(p, n, v));
                LEAN_CALL("wchar_to_utf8", ref::UTF8, M, M, true, ST::wchar_to_utf8(pw, n, v)); LEAN_CALL("wchar_to_utf16", ref::UTF16, M, M, true, ST::wchar_to_utf16(pw, n, v));
                LEAN_CALL("wchar_to_utf32", ref::UTF32, M, M, true, ST::wchar_to_utf32(pw, n, v)); LEAN_CALL("ST::string::from_wchar", ref::UTF8, M, M, true, ST::string::from_wchar(pw, n, v));
            }
            for (int fl = 0; fl < 2; fl++) {
                LEAN_CALL("utf32_to_latin_1", ref::LATIN1, M, M, fl == 0, ST::utf32_to_latin_1(p, n, v, fl == 0));
                LEAN_CALL("wchar_to_latin_1", ref::LATIN1, M, M, fl == 0, ST::wchar_to_latin_1(pw, n, v, fl == 0));
            }
        }
    } else {
        conv::Src<char> s(src, false); const char *p = s.p(); const size_t n = s.n();
        const Mode CK = ref::CHECK;
        LEAN_CALL("latin_1_to_utf8", ref::UTF8, CK, CK, true, ST::latin_1_to_utf8(p, n)); LEAN_CALL("latin_1_to_utf16", ref::UTF16, CK, CK, true, ST::latin_1_to_utf16(p, n));
        LEAN_CALL("latin_1_to_utf32", ref::UTF32, CK, CK, true, ST::latin_1_to_utf32(p, n)); LEAN_CALL("latin_1_to_wchar", ref::UTF32, CK, CK, true, ST::latin_1_to_wchar(p, n));
        LEAN_CALL("ST::string::from_latin_1", ref::UTF8, CK, CK, true, ST::string::from_latin_1(p, n));
        const ST::char_buffer b = s.buf();
        LEAN_CALL("latin_1_to_utf8(char_buffer)", ref::UTF8, CK, CK, true, ST::latin_1_to_utf8(b)); LEAN_CALL("latin_1_to_utf16(char_buffer)", ref::UTF16, CK, CK, true, ST::latin_1_to_utf16(b));
        LEAN_CALL("latin_1_to_utf32(char_buffer)", ref::UTF32, CK, CK, true, ST::latin_1_to_utf32(b)); LEAN_CALL("latin_1_to_wchar(char_buffer)", ref::UTF32, CK, CK, true, ST::latin_1_to_wchar(b));
        LEAN_CALL("ST::string::from_latin_1(char_buffer)", ref::UTF8, CK, CK, true, ST::string::from_latin_1(b));
    }
    return std::string();
}

// self-check of expected() against the reference model (called by the harness on short inputs); "" when they agree
inline std::string cross_check(Enc from, const Units &src) {
    const std::vector<ref::Item> items = ref::decode(from, src);
    for (int to = 0; to < 4; to++)
        for (int m = 0; m < 3; m++)
            for (int fl = 0; fl < 2; fl++) {
                if (from == ref::LATIN1 && to == ref::LATIN1) continue;
                const ref::Expect e = ref::expect(from, (Enc)to, (Mode)m, src, fl == 0);
                const Want w = expected(items, from, (Enc)to, (Mode)m, fl == 0);
                if (w.throws != e.throws || w.may_throw != e.may_throw || (!e.throws && w.size != e.out.size()))
                    return std::string("harness inconsistency: lean::expected and ref::expect disagree for ") + conv::enc_name(from) + "->" + conv::enc_name((Enc)to) + " mode " + conv::mode_name((Mode)m);
            }
    return std::string();
}

}  // namespace lean
