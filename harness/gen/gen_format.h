// Shared by prop_C10 / prop_C11 / prop_C17: typed format arguments with exact-size
// storage, the bridge that hands them to the library, the specifier printer and
// the structured format-call generator.  Library side only (includes string_theory);
// the expected rendering comes from ref/ref_format.h.
#pragma once
#include <string_theory/string>
#include <string_theory/format>

#include <algorithm>
#include <climits>
#include <memory>
#include <string>
#include <string_view>
#include <vector>

#include "common/verif.h"
#include "ref/ref_format.h"

// Keeps long rapidcheck runs flat in memory: without this ASan's stack depot grows by ~6 KB per case (rapidcheck's deep,
// varying call stacks make nearly every allocation trace unique) and a 600 k-case process reaches several GB.
// ASAN_OPTIONS from the environment still takes precedence for the keys it sets.
extern "C" const char *__asan_default_options() { return "malloc_context_size=4:quarantine_size_mb=32"; }

namespace fg {

enum Ty {
    T_INT, T_UINT, T_LLONG, T_ULLONG, T_SCHAR, T_UCHAR, T_SHORT, T_USHORT, T_LONG, T_ULONG,      // integers
    T_CHAR, T_WCHAR, T_CHAR16, T_CHAR32, T_CHAR8,                                               // character types (integers unless {c})
    T_BOOL,
    T_CSTR, T_STSTRING, T_STDSTRING, T_SV, T_WCSTR, T_U16CSTR, T_U32CSTR, T_U8CSTR,              // text
    T_WSTRING, T_U16STRING, T_U32STRING, T_U8STRING, T_WSV, T_U16SV, T_U32SV, T_U8SV,
    T_DOUBLE, T_FLOAT, T_NULLCSTR,                                                              // C10 only
    T_COUNT
};
inline const char *ty_name(Ty t) {
    static const char *n[] = {"int", "unsigned", "long long", "unsigned long long", "signed char", "unsigned char", "short", "unsigned short", "long", "unsigned long",
                              "char", "wchar_t", "char16_t", "char32_t", "char8_t", "bool",
                              "const char*", "ST::string", "std::string", "std::string_view", "const wchar_t*", "const char16_t*", "const char32_t*", "const char8_t*",
                              "std::wstring", "std::u16string", "std::u32string", "std::u8string", "std::wstring_view", "std::u16string_view", "std::u32string_view", "std::u8string_view",
                              "double", "float", "(const char*)nullptr"};
    return n[t];
}
inline bool ty_is_int(Ty t) { return t <= T_CHAR8; }
inline bool ty_is_text(Ty t) { return t >= T_CSTR && t <= T_U8SV; }
inline bool ty_is_wide_text(Ty t) { return t == T_WCSTR || t == T_U16CSTR || t == T_U32CSTR || t == T_WSTRING || t == T_U16STRING || t == T_U32STRING || t == T_WSV || t == T_U16SV || t == T_U32SV; }

// bit width and signedness of the integer types as this platform defines them
inline int ty_bits(Ty t) {
    switch (t) {
    case T_SCHAR: case T_UCHAR: case T_CHAR: case T_CHAR8: return 8;
    case T_SHORT: case T_USHORT: case T_CHAR16: return 16;
    case T_INT: case T_UINT: case T_CHAR32: return 32;
    case T_WCHAR: return (int)sizeof(wchar_t) * 8;
    case T_LONG: case T_ULONG: return (int)sizeof(long) * 8;
    default: return 64;
    }
}
inline bool ty_signed(Ty t) {
    switch (t) {
    case T_INT: case T_LLONG: case T_SCHAR: case T_SHORT: case T_LONG: return true;
    case T_CHAR: return std::is_signed<char>::value;
    case T_WCHAR: return std::is_signed<wchar_t>::value;
    default: return false;
    }
}

// One typed argument.  Text is kept as exact-size heap copies (NUL-terminated only where
// the C-string overload needs it), so an over-read by one unit is an ASan report.
struct Value {
    Ty ty = T_INT;
    long long s = 0; unsigned long long u = 0; bool b = false; double d = 0;
    std::string utf8;                         // text arguments: their UTF-8 bytes (what the statement calls "their text")
    std::unique_ptr<verif::Exact<char>> xc;
    std::unique_ptr<verif::Exact<wchar_t>> xw;
    std::unique_ptr<verif::Exact<char16_t>> x16;
    std::unique_ptr<verif::Exact<char32_t>> x32;
    ST::string st; std::string ss; std::wstring ws; std::u16string s16; std::u32string s32; std::u8string s8;

    // integer of type `t` holding the low bits of `bits`
    void set_int(Ty t, unsigned long long bits) {
        ty = t;
        int w = ty_bits(t);
        unsigned long long m = w == 64 ? ~0ull : ((1ull << w) - 1);
        bits &= m;
        if (ty_signed(t)) {
            if (w < 64 && (bits >> (w - 1))) bits |= ~m;      // sign-extend
            s = (long long)bits; u = 0;
        } else { u = bits; s = 0; }
    }
    long long min_val() const { int w = ty_bits(ty); return ty_signed(ty) ? (w == 64 ? LLONG_MIN : -(1ll << (w - 1))) : 0; }
    void set_bool(bool v) { ty = T_BOOL; b = v; }
    void set_double(Ty t, double v) { ty = t; d = t == T_FLOAT ? (double)(float)v : v; }
    void set_null() { ty = T_NULLCSTR; }
    // text of type `t` made of the scalar values `cps` (unit sequences built here, independently of the library);
    // `raw_utf8` non-null: narrow types take these bytes verbatim (possibly ill-formed)
    void set_text(Ty t, const std::vector<uint32_t> &cps, const std::string *raw_utf8 = nullptr) {
        ty = t;
        utf8.clear();
        if (raw_utf8) utf8 = *raw_utf8; else for (uint32_t c : cps) utf8 += ref::utf8_of(c);
        std::u32string w32(cps.begin(), cps.end());
        std::u16string w16 = ref::utf16_of(cps);
        std::wstring ww = sizeof(wchar_t) == 4 ? std::wstring(cps.begin(), cps.end()) : std::wstring(w16.begin(), w16.end());
        switch (t) {
        case T_CSTR: case T_U8CSTR: xc.reset(new verif::Exact<char>(utf8.data(), utf8.size(), true)); break;
        case T_SV: case T_U8SV: xc.reset(new verif::Exact<char>(utf8.data(), utf8.size(), false)); break;
        case T_STSTRING: st = ST::string::from_validated(utf8.data(), utf8.size()); break;
        case T_STDSTRING: ss = utf8; break;
        case T_U8STRING: s8.assign(reinterpret_cast<const char8_t *>(utf8.data()), utf8.size()); break;
        case T_WCSTR: xw.reset(new verif::Exact<wchar_t>(ww.data(), ww.size(), true)); break;
        case T_WSV: xw.reset(new verif::Exact<wchar_t>(ww.data(), ww.size(), false)); break;
        case T_U16CSTR: x16.reset(new verif::Exact<char16_t>(w16.data(), w16.size(), true)); break;
        case T_U16SV: x16.reset(new verif::Exact<char16_t>(w16.data(), w16.size(), false)); break;
        case T_U32CSTR: x32.reset(new verif::Exact<char32_t>(w32.data(), w32.size(), true)); break;
        case T_U32SV: x32.reset(new verif::Exact<char32_t>(w32.data(), w32.size(), false)); break;
        case T_WSTRING: ws = ww; break;
        case T_U16STRING: s16 = w16; break;
        case T_U32STRING: s32 = w32; break;
        default: break;
        }
    }
    // UTF-16 text given as raw code units (may hold unpaired surrogates); only for T_U16CSTR / T_U16STRING / T_U16SV
    void set_units16(Ty t, const std::u16string &units) {
        ty = t; utf8 = "<UTF-16 units>";
        if (t == T_U16STRING) s16 = units; else x16.reset(new verif::Exact<char16_t>(units.data(), units.size(), t == T_U16CSTR));
    }
    ref::Arg to_ref() const {
        if (ty_is_int(ty)) return ty_signed(ty) ? ref::Arg::sint(s) : ref::Arg::uint(u);
        if (ty == T_BOOL) return ref::Arg::boolean(b);
        if (ty == T_DOUBLE || ty == T_FLOAT) return ref::Arg::flt(d);
        if (ty == T_NULLCSTR) return ref::Arg::nulltext();
        return ref::Arg::str(utf8);
    }
    std::string show() const {
        std::string o = ty_name(ty);
        if (ty_is_int(ty)) o += ty_signed(ty) ? " " + verif::num(s) : " " + verif::unum(u);
        else if (ty == T_BOOL) o += b ? " true" : " false";
        else if (ty == T_DOUBLE || ty == T_FLOAT) { char t[40]; snprintf(t, sizeof t, " %.17g", d); o += t; }
        else if (ty != T_NULLCSTR) o += " " + verif::quoted(utf8, 40);
        return o;
    }
};

// Calls f(x) with x the argument in its real C++ type.
template <class F> auto visit(const Value &v, F &&f) -> decltype(f(0)) {
    switch (v.ty) {
    case T_INT: return f((int)v.s);
    case T_UINT: return f((unsigned)v.u);
    case T_LLONG: return f((long long)v.s);
    case T_ULLONG: return f((unsigned long long)v.u);
    case T_SCHAR: return f((signed char)v.s);
    case T_UCHAR: return f((unsigned char)v.u);
    case T_SHORT: return f((short)v.s);
    case T_USHORT: return f((unsigned short)v.u);
    case T_LONG: return f((long)v.s);
    case T_ULONG: return f((unsigned long)v.u);
    case T_CHAR: return f(std::is_signed<char>::value ? (char)v.s : (char)v.u);
    case T_WCHAR: return f(std::is_signed<wchar_t>::value ? (wchar_t)v.s : (wchar_t)v.u);
    case T_CHAR16: return f((char16_t)v.u);
    case T_CHAR32: return f((char32_t)v.u);
    case T_CHAR8: return f((char8_t)v.u);
    case T_BOOL: return f((bool)v.b);
    case T_CSTR: return f((const char *)v.xc->data());
    case T_STSTRING: return f(v.st);
    case T_STDSTRING: return f(v.ss);
    case T_SV: return f(std::string_view(v.xc->data(), v.xc->size()));
    case T_WCSTR: return f((const wchar_t *)v.xw->data());
    case T_U16CSTR: return f((const char16_t *)v.x16->data());
    case T_U32CSTR: return f((const char32_t *)v.x32->data());
    case T_U8CSTR: return f(reinterpret_cast<const char8_t *>(v.xc->data()));
    case T_WSTRING: return f(v.ws);
    case T_U16STRING: return f(v.s16);
    case T_U32STRING: return f(v.s32);
    case T_U8STRING: return f(v.s8);
    case T_WSV: return f(std::wstring_view(v.xw->data(), v.xw->size()));
    case T_U16SV: return f(std::u16string_view(v.x16->data(), v.x16->size()));
    case T_U32SV: return f(std::u32string_view(v.x32->data(), v.x32->size()));
    case T_U8SV: return f(std::u8string_view(reinterpret_cast<const char8_t *>(v.xc->data()), v.xc->size()));
    case T_DOUBLE: return f((double)v.d);
    case T_FLOAT: return f((float)v.d);
    default: return f((const char *)nullptr);
    }
}

// An argument of run-time type for argument lists of 0..5 entries: formatted through the
// library's custom-formatter extension point, which forwards to the library's own
// format_type overload for the real type (one apply_format instantiation per arity
// instead of one per type sequence).
struct LibArg { const Value *v; };
inline void format_type(const ST::format_spec &format, ST::format_writer &output, const LibArg &a) {
    visit(*a.v, [&](const auto &x) -> int { ST::format_type(format, output, x); return 0; });
}
// f(LibArg...) with the whole list
template <class F> auto call_n(const std::vector<Value> &a, F &&f) -> decltype(f()) {
    switch (a.size()) {
    case 0: return f();
    case 1: return f(LibArg{&a[0]});
    case 2: return f(LibArg{&a[0]}, LibArg{&a[1]});
    case 3: return f(LibArg{&a[0]}, LibArg{&a[1]}, LibArg{&a[2]});
    case 4: return f(LibArg{&a[0]}, LibArg{&a[1]}, LibArg{&a[2]}, LibArg{&a[3]});
    default: return f(LibArg{&a[0]}, LibArg{&a[1]}, LibArg{&a[2]}, LibArg{&a[3]}, LibArg{&a[4]});
    }
}

// --------------------------------------------------------------------------- specifier printer
struct PSpec {
    int align = 0;          // 0 none, 1 '<', 2 '>'
    int pad = -1;           // '_' + this byte
    bool zero = false;      // the '0' flag
    int width = 0;          // 0: not written
    int precision = -1;     // -1: not written
    int index = 0;          // 0: sequential, else &index
    bool plus = false, hash = false;
    char cls = 0;
};
// Writes "{...}" with the parts in the order chosen by `order` (consumed as a permutation
// source), then repaired so that no two digit-bearing parts are glued: a width or the '0'
// flag never directly follows a width, a precision or an &index ("{.310}" is precision 310).
inline std::string print_spec(const PSpec &s, verif::Reader *r, int order = 2) {   // order: 0 canonical, 1 reversed, 2 permuted by *r
    struct Part { std::string t; int rank; };   // rank: 0 other, 1 zero flag, 2 width, 3 precision / index
    std::vector<Part> parts;
    if (s.align) parts.push_back({s.align == 1 ? "<" : ">", 0});
    if (s.pad >= 0) parts.push_back({std::string("_") + (char)s.pad, 0});
    if (s.zero) parts.push_back({"0", 1});
    if (s.width > 0) parts.push_back({std::to_string(s.width), 2});
    if (s.precision >= 0) parts.push_back({"." + std::to_string(s.precision), 3});
    if (s.index > 0) parts.push_back({"&" + std::to_string(s.index), 3});
    if (s.hash) parts.push_back({"#", 0});
    if (s.plus) parts.push_back({"+", 0});
    if (s.cls) parts.push_back({std::string(1, s.cls), 0});
    if (order == 1) std::reverse(parts.begin(), parts.end());
    if (order == 2 && r)
        for (size_t i = parts.size(); i > 1; i--) { size_t j = r->idx(i); std::swap(parts[i - 1], parts[j]); }
    bool changed = true;
    while (changed) {
        changed = false;
        for (size_t i = 0; i + 1 < parts.size(); i++) {
            int a = parts[i].rank, b = parts[i + 1].rank;
            bool glued = (a >= 2 && (b == 1 || b == 2));
            if (glued) { std::swap(parts[i], parts[i + 1]); changed = true; }
        }
    }
    std::string o = "{";
    for (auto &p : parts) o += p.t;
    return o + "}";
}

// --------------------------------------------------------------------------- structured generator
struct Options {
    int max_width = 400;
    bool allow_invalid = true;      // cases whose result is deliberately not valid UTF-8 (raw bytes, cuts inside a character)
    bool char8 = true;
};
struct Call {
    std::string fmt;
    std::vector<Value> args;
    std::vector<ref::Arg> rargs;
    bool invalid_mode = false;
    long excluded_known = 0;
    // classification
    bool has_int = false, has_text = false, has_bool = false, has_cclass = false, has_ref = false, has_escape = false,
         has_nonascii = false, has_wide = false, has_zero = false, has_custompad = false, has_left = false, has_right = false,
         has_prefix = false, has_plus = false, has_prec = false, has_chartype = false;
    std::string show() const {
        std::string o = "fmt=" + verif::quoted(fmt, 120) + " args=[";
        for (size_t i = 0; i < args.size(); i++) { if (i) o += ", "; o += args[i].show(); }
        return o + "]";
    }
};

static const uint32_t kScalars[] = {'a', 'Z', ' ', '0', 'x', '7', '-', 0xE9, 0x20AC, 0x1F600, 0x7F, 0x80, 0x7FF, 0x800, 0xFFFD, 0xFFFF, 0x10000, 0x10FFFF, '\t', '%'};

inline void gen_scalars(verif::Reader &r, size_t n, bool ascii_only, std::vector<uint32_t> &out) {
    for (size_t i = 0; i < n; i++) {
        uint8_t b = r.u8();
        if (ascii_only || b < 160) { static const char asc[] = "abcXYZ 019_-.,;:!?#+<>&"; out.push_back((unsigned char)asc[b % (sizeof asc - 1)]); }
        else out.push_back(kScalars[b % (sizeof kScalars / sizeof kScalars[0])]);
    }
}

// integer value pool: small, per-type edges, radix boundaries, code points, random bits
inline unsigned long long gen_int_bits(verif::Reader &r, Ty t) {
    int w = ty_bits(t);
    unsigned long long m = w == 64 ? ~0ull : ((1ull << w) - 1);
    unsigned long long smin = 1ull << (w - 1), smax = smin - 1;
    switch (r.range(0, 5)) {
    case 0: return r.range(0, 20);
    case 1: { static const long long e[] = {0, 1, -1, 9, -9, 10, -10, 255, -255, 256, 7, 8, 15, 16, 99, 100, 1234, -1234, 65535, 65536, 0x7FFFFFFF, -0x7FFFFFFFll - 1, 0xFFFFFFFFll, 0x100000000ll};
              return (unsigned long long)r.pick(e); }
    case 2: { unsigned k = (unsigned)r.range(0, 5); return k == 0 ? smin : k == 1 ? smax : k == 2 ? m : k == 3 ? smin + 1 : k == 4 ? smax - 1 : m - 1; }
    case 3: { static const unsigned long long cp[] = {'A', '|', 0x7F, 0x80, 0xE9, 0x7FF, 0x800, 0x20AC, 0xFFFD, 0xFFFE, 0xFFFF, 0x10000, 0x1F600, 0x10FFFF, 0x110000, 0xD800, 0xDFFF, 0xDBFF, 0xDC00,
                                                       0x7FFFFFFF, 0x80000000ull, 0xFFFFFFFFull, 0x100000041ull, 0xFFFFFFFF00000041ull, 0x8000000000000041ull};
              return r.pick(cp); }
    case 4: { unsigned sh = (unsigned)r.range(0, 63); return r.bits64() >> sh; }
    default: { unsigned sh = (unsigned)r.range(0, 63); return 0ull - (r.bits64() >> sh); }
    }
}

static const char kPadChars[] = "*-x 9}{0_.&<>#+cd~'\"";

// Decodes one well-formed format call: 1..5 fields, literals around them, 1..5 arguments.
// Every choice is read from `r`; all-zero input gives ST::format("{}", 0).
inline void decode_call(verif::Reader &r, Call &c, const Options &opt) {
    const unsigned mode = r.u8();
    c.invalid_mode = opt.allow_invalid && (mode & 0x0F) == 0x0F;          // 1 in 16
    const bool ascii_only = (mode & 0x30) == 0x10;
    const size_t nfields = 1 + r.range(0, 4);
    // selection plan
    std::vector<int> sel(nfields, 0);     // 0 = sequential, -1 = &N chosen later
    size_t nseq = 0;
    for (size_t i = 0; i < nfields; i++) { bool byref = r.chance(70); sel[i] = byref ? -1 : 0; if (!byref) nseq++; else c.has_ref = true; }
    size_t nargs = nseq ? nseq : 1;
    nargs += r.range(0, 2);
    if (nargs > 5) nargs = 5;
    if (nargs < nseq) nargs = nseq;
    // arguments
    static const Ty int_types[] = {T_INT, T_UINT, T_LLONG, T_ULLONG, T_SCHAR, T_UCHAR, T_SHORT, T_USHORT, T_LONG, T_ULONG, T_CHAR, T_WCHAR, T_CHAR16, T_CHAR32, T_CHAR8};
    static const Ty text_types[] = {T_CSTR, T_STSTRING, T_STDSTRING, T_SV, T_WCSTR, T_U16CSTR, T_U32CSTR, T_U8CSTR, T_WSTRING, T_U16STRING, T_U32STRING, T_U8STRING, T_WSV, T_U16SV, T_U32SV, T_U8SV};
    c.args.resize(nargs);
    for (size_t a = 0; a < nargs; a++) {
        Value &v = c.args[a];
        unsigned k = (unsigned)r.range(0, 9);      // 0..4 integer, 5..8 text, 9 bool
        if (k <= 4) {
            Ty t = r.pick(int_types);
            if (t == T_CHAR8 && !opt.char8) t = T_UCHAR;
            v.set_int(t, gen_int_bits(r, t));
            c.has_int = true; if (t >= T_CHAR) c.has_chartype = true;
        } else if (k <= 8) {
            Ty t = r.pick(text_types);
            static const uint16_t lens[] = {0, 1, 2, 3, 4, 5, 6, 8, 11, 15, 16, 17, 31, 40, 64, 120};
            size_t n = r.flag() ? r.range(0, 8) : r.pick(lens);
            std::vector<uint32_t> cps; gen_scalars(r, n, ascii_only, cps);
            if (c.invalid_mode && !ty_is_wide_text(t) && r.chance(100)) {      // narrow text with ill-formed bytes
                std::string raw; for (uint32_t cp : cps) raw += ref::utf8_of(cp);
                static const char *bad[] = {"\x80", "\xC3", "\xE2\x82", "\xF0\x9F\x98", "\xFF", "\xC0\xAF", "\xED\xA0\x80", "\xF4\x90\x80\x80"};
                raw.insert(r.idx(raw.size() + 1), r.pick(bad));
                v.set_text(t, cps, &raw);
            } else v.set_text(t, cps);
            c.has_text = true; if (ty_is_wide_text(t)) c.has_wide = true;
            for (uint32_t cp : cps) if (cp >= 0x80) c.has_nonascii = true;
        } else { v.set_bool(r.flag()); c.has_bool = true; }
        c.rargs.push_back(v.to_ref());
    }
    // format string
    auto literal = [&](size_t maxitems) {
        size_t n = r.range(0, maxitems);
        for (size_t i = 0; i < n; i++) {
            uint8_t b = r.u8();
            if (b < 120) { static const char asc[] = "abcxyz ,:=|019XQ-_.&#+<>"; c.fmt += asc[b % (sizeof asc - 1)]; }
            else if (b < 150) { c.fmt += "{{"; c.has_escape = true; }
            else if (b < 180) { c.fmt += "}}"; c.has_escape = true; }
            else if (b < 200) { c.fmt += "}"; c.has_escape = true; }
            else if (c.invalid_mode && b >= 250) { static const char rawb[] = {'\x80', '\xBF', '\xC3', '\xE2', '\xF0', '\xFF', '\xC0', '\xED'}; c.fmt += rawb[b & 7]; }
            else if (!ascii_only) { c.fmt += ref::utf8_of(kScalars[b % (sizeof kScalars / sizeof kScalars[0])]); if (kScalars[b % (sizeof kScalars / sizeof kScalars[0])] >= 0x80) c.has_nonascii = true; }
            else c.fmt += 'q';
        }
    };
    size_t seq = 0;
    for (size_t i = 0; i < nfields; i++) {
        literal(i == 0 ? 3 : 4);
        PSpec sp;
        size_t a;
        if (sel[i] == 0) a = seq++; else { a = r.idx(nargs); sp.index = (int)a + 1; }
        const Value &v = c.args[a];
        const ref::Arg &ra = c.rargs[a];
        // alignment and padding, common to all kinds
        auto pick_pad = [&]() {
            unsigned pm = (unsigned)r.range(0, 3);
            if (pm == 1) { sp.pad = (unsigned char)kPadChars[r.idx(sizeof kPadChars - 1)]; if (c.invalid_mode && r.chance(60)) sp.pad = 0x80 + (int)r.range(0, 127); c.has_custompad = true; }
            else if (pm == 2) { sp.zero = true; c.has_zero = true; }
        };
        auto pick_width = [&](size_t natural) {
            switch (r.range(0, 8)) {
            case 0: sp.width = 0; break;
            case 1: sp.width = (int)natural - 1; break;
            case 2: sp.width = (int)natural; break;
            case 3: sp.width = (int)natural + 1; break;
            case 4: sp.width = (int)natural + 5; break;
            case 5: sp.width = 40; break;
            case 6: sp.width = (int)r.range(1, 24); break;
            case 7: sp.width = (int)r.range(1, (uint64_t)opt.max_width); break;
            default: sp.width = (int)natural + (int)r.range(0, 300); break;
            }
            if (sp.width < 0) sp.width = 0;
            if (sp.width > opt.max_width) sp.width = opt.max_width;
        };
        if (ty_is_int(v.ty)) {
            bool as_char = r.chance(40);
            if (as_char && v.ty == T_CHAR8) as_char = false;     // domain: char8_t is a UTF-8 code unit, {c} copies it verbatim (documented special case) - not generated
            if (as_char) {
                sp.cls = 'c'; c.has_cclass = true;
                if (r.chance(40)) sp.align = 1 + (int)r.range(0, 1);      // alignment without width: no padding requested
            } else {
                sp.align = (int)r.range(0, 2);
                pick_pad();
                sp.hash = r.flag(); sp.plus = r.flag();
                sp.cls = "\0dxXob"[r.range(0, 5)];
                if (r.chance(20)) { sp.precision = (int)r.range(0, 12); c.has_prec = true; }   // not used for numbers
                ref::Spec rs; rs.hash = sp.hash; rs.plus = sp.plus; rs.cls = sp.cls;
                std::string nat; ref::Field fi; bool um = false;
                ref::render_field(rs, ra, nat, fi, um);
                pick_width(nat.size());
                if (sp.hash) c.has_prefix = true;
                if (sp.plus) c.has_plus = true;
            }
        } else {
            std::string text = ra.kind == ref::Arg::BOOL ? (ra.b ? "true" : "false") : ra.text;
            sp.align = (int)r.range(0, 2);
            pick_pad();
            size_t shown = text.size();
            switch (r.range(0, 6)) {
            case 0: case 1: break;
            case 2: sp.precision = 0; break;
            case 3: sp.precision = (int)(text.size() ? text.size() - 1 : 0); break;
            case 4: sp.precision = (int)text.size(); break;
            case 5: sp.precision = (int)text.size() + 1; break;
            default: sp.precision = (int)r.range(0, text.size() + 2); break;
            }
            if (sp.precision >= 0) {
                c.has_prec = true;
                if (!c.invalid_mode)      // cut only at character boundaries
                    while (sp.precision > 0 && (size_t)sp.precision < text.size() && ((unsigned char)text[(size_t)sp.precision] & 0xC0) == 0x80) sp.precision--;
                if ((size_t)sp.precision < shown) shown = (size_t)sp.precision;
            }
            pick_width(shown);
        }
        if (sp.align == 1) c.has_left = true;
        if (sp.align == 2) c.has_right = true;
        c.fmt += print_spec(sp, &r);
    }
    literal(3);
}

// labels, in a fixed priority order (Case keeps at most 12)
inline void label_call(const Call &k, verif::Case &c) {
    if (k.invalid_mode) c.label("invalid-utf8-mode");
    if (k.has_int) c.label("arg:integer");
    if (k.has_chartype) c.label("arg:char-type");
    if (k.has_text) c.label("arg:text");
    if (k.has_wide) c.label("arg:wide-text");
    if (k.has_bool) c.label("arg:bool");
    if (k.has_cclass) c.label("class-c");
    if (k.has_ref) c.label("&N");
    if (k.has_zero) c.label("zero-pad");
    if (k.has_custompad) c.label("pad-char");
    if (k.has_prec) c.label("precision");
    if (k.has_escape) c.label("brace-escapes");
    if (k.has_nonascii) c.label("non-ascii");
}

}  // namespace fg
