// Long-subject generator for the extended layouts of C08 / C09: subjects of 17 bytes .. ~16 KB with planted separator
// occurrences (hundreds of them, or none), separators of 1..300 bytes (notably 255/256/257) that are NOT cut out of the
// subject (a ruler line inside ordinary text) or are cut out of it, at the very start / ending exactly at the end /
// adjacent, with near misses (one byte short, one byte changed, every byte XOR 0x20) next to real occurrences.
// The content is expanded from a 64-bit value read from the case bytes by a fixed xorshift sequence whose zero state
// yields only zeros: the expansion is a pure function of the case bytes and an exhausted input expands to the simplest
// text ("aaaa...").  No string_theory header is included here.
#pragma once
#include <cstdint>
#include <string>
#include <vector>
#include "common/verif.h"
#include "gen/gen_text.h"

namespace gen89 {

struct Mix {
    uint64_t x;
    explicit Mix(uint64_t seed) : x(seed) {}
    uint32_t next() { x ^= x << 13; x ^= x >> 7; x ^= x << 17; return (uint32_t)((x * 0x2545F4914F6CDD1Dull) >> 32); }
    uint32_t below(uint32_t n) { return n ? next() % n : 0; }
};

enum Filler { F_TEXT = 0, F_AB, F_CORE, F_RAW, F_CASE, F_WS, F_COUNT };
inline const char *filler_name(int f) {
    static const char *const n[] = {"x:filler=text", "x:filler=abA(degenerate)", "x:filler=core(NUL,multibyte)", "x:filler=raw-bytes", "x:filler=case-neighbours", "x:filler=whitespace-mix"};
    return n[f % F_COUNT];
}

// ordinary text: letters, blanks, a little punctuation; none of the bytes used by rulers / distinct separators ("-=#+*%$!<>")
static const char TEXT[] = "aaabcdeeefghiijklmnoopqrstuuvwxyz      \n\t,.;:ABCXYZ0189";
// the neighbours of the ASCII letter ranges and their XOR-0x20 partners, which case folding must NOT identify
// (@ `, [ {, \ |, ] }, ^ ~, _ DEL, blank / NUL are not in here: NUL would cut every const char* view), plus letters
static const char CASEN[] = "aAzZmM@`[{\\|]}^~_\x7F qQ";
static const gen::Sym WSM[] = {{"a", 1}, {" ", 1}, {"\t", 1}, {"\r", 1}, {"\n", 1}, {"\v", 1}, {"\f", 1}, {"b", 1}, {"\xC2\xA0", 2}, {"\xC2\x85", 2},
                               {"\0", 1}, {" ", 1}, {"w", 1}, {"\n", 1}, {",", 1}, {"\xE2\x80\x83", 3}};

inline void fill_to(Mix &m, std::string &o, size_t bytes, int filler) {
    const size_t end = o.size() + bytes;
    while (o.size() < end) {
        const size_t room = end - o.size();
        switch (filler) {
            case F_TEXT: o += TEXT[m.below(sizeof TEXT - 1)]; break;
            case F_AB: o += "abA"[m.below(8) % 3 == 0 ? 0 : m.below(3)]; break;
            case F_CORE: { const gen::Sym &s = gen::CORE[m.below(sizeof gen::CORE / sizeof gen::CORE[0])]; if (s.n <= room) o.append(s.b, s.n); else o += 'a'; break; }
            case F_RAW: { uint32_t v = m.next(); o += (char)((v & 1) ? gen::RAWB[(v >> 1) % sizeof gen::RAWB] : (uint8_t)((v >> 8) ^ 0x61)); break; }
            case F_CASE: o += CASEN[m.below(sizeof CASEN - 1)]; break;
            default: { const gen::Sym &s = WSM[m.below(sizeof WSM / sizeof WSM[0])]; if (s.n <= room) o.append(s.b, s.n); else o += 'a'; break; }
        }
    }
}

enum SepKind { P_RULER = 0, P_DISTINCT, P_CUT, P_CASEMIX, P_XORCUT, P_WITHNUL, P_HIGH, P_COUNT };
inline const char *sep_kind_name(int k) {
    static const char *const n[] = {"x:sep=ruler(not-in-text)", "x:sep=distinct-bytes(not-in-text)", "x:sep=cut-from-subject", "x:sep=letters+case-neighbours",
                                    "x:sep=cut-from-subject-xor-0x20", "x:sep=contains-NUL", "x:sep=multibyte-characters"};
    return n[k % P_COUNT];
}
// index 0 is the simplest choice
static const uint16_t SEPLEN[] = {8, 255, 256, 257, 16, 15, 17, 31, 32, 33, 63, 64, 65, 100, 127, 128, 129, 200, 254, 258, 299, 300, 9, 1, 2, 3, 5, 12, 24, 48};
static const uint16_t NOCC[] = {1, 0, 2, 3, 5, 17, 60, 200, 700};

struct LongPlan {
    size_t target = 17; int filler = 0, kind = 0; size_t seplen = 8; unsigned nocc = 1;
    bool at_start = false, at_end = false, variants = false;
    // block alignment: the LAST planted occurrence starts end_dist bytes before the END of the text (a multiple of a block size
    // plus 0..|sep|, so that it straddles / touches a block edge counted from the end), the FIRST one at offset start_dist
    bool align_end = false, align_start = false; size_t end_dist = 0, start_dist = 0;
    uint64_t seed = 0;
};
struct Long { std::string s, sep; size_t planted = 0, near_misses = 0; bool aligned_end = false, aligned_start = false; };

static const uint16_t BLOCKS[] = {4096, 16384, 16386, 256, 1024, 64, 8192, 32, 4098};

// structural choices; the 64-bit content seed is read last
// huge16 = how many of 16 size selectors give the 16..48 KB class (taken from the <= 300 byte class)
inline LongPlan plan_long(verif::Reader &r, unsigned huge16 = 1) {
    LongPlan p;
    static const uint16_t blocks[] = {256, 512, 1024, 2048, 4096, 8192, 16384};
    static const uint16_t huge[] = {32768, 49152, 32772, 20480, 40960, 49158};
    switch (r.range(0, 15) + (huge16 ? huge16 - 1 : 0)) {
        case 0: case 1: case 2: case 3: case 4: case 5: case 6: case 7: p.target = (size_t)r.range(17, 300); break;
        case 8: case 9: case 10: p.target = (size_t)r.range(300, 1500); break;
        case 11: case 12: p.target = (size_t)r.pick(blocks) + (size_t)r.range(0, 2) - 1; break;     // block size -1 / exact / +1
        case 13: case 14: p.target = (size_t)r.range(1500, 16500); break;
        default: { unsigned v = (unsigned)r.range(0, 11); p.target = v < 6 ? (size_t)huge[v] + (size_t)r.range(0, 2) - 1 : (size_t)r.range(16500, 49200); break; }   // up to ~48 KB
    }
    p.filler = (int)r.range(0, F_COUNT - 1);
    p.kind = (int)r.range(0, P_COUNT - 1);
    { unsigned v = (unsigned)r.range(0, 39); p.seplen = v < sizeof SEPLEN / sizeof SEPLEN[0] ? SEPLEN[v] : (size_t)(8 + (v * 37u + (unsigned)r.u8()) % 293u); }
    p.nocc = r.pick(NOCC);
    unsigned f = r.u8(); p.at_start = f & 1; p.at_end = (f & 2) != 0; p.variants = (f & 4) != 0;
    {
        unsigned ab = r.u8(); size_t j = (size_t)r.range(0, p.seplen + 2);          // 0 -> one byte past the edge ... |sep|+2 -> one byte clear of it
        const size_t B = BLOCKS[ab % (sizeof BLOCKS / sizeof BLOCKS[0])], mult = 1 + (ab / 9) % 3;
        if ((f & 0x18) && B * mult + p.seplen + 2 <= p.target) {
            if (f & 8) { p.align_end = true; p.end_dist = B * mult + j - 1; }       // last occurrence starts end_dist bytes before the end
            if (f & 16) { p.align_start = true; p.start_dist = B * mult + 1 >= j ? B * mult + 1 - j : 0; }   // first occurrence starts at start_dist
        }
    }
    p.seed = r.bits64();
    // keep the quadratic worst case (degenerate text x long separator) modest: the oracle is a naive scan
    if (p.filler == F_AB && p.seplen >= 32 && p.target > 3000) p.target = 3000;
    if (p.seed == 0 && p.target > 1200) p.target = 1200;                    // seed 0 expands to "aaaa...": every alignment matches
    if (p.end_dist + 1 > p.target || p.start_dist + p.seplen > p.target) p.align_end = p.align_start = false;
    return p;
}

inline std::string make_sep(Mix &m, int kind, size_t L) {
    std::string o;
    switch (kind) {
        case P_RULER: o.assign(L, '-'); break;
        case P_CASEMIX: for (size_t i = 0; i < L; i++) o += CASEN[m.below(sizeof CASEN - 1)]; break;
        case P_HIGH: { static const gen::Sym hs[] = {{"\xC3\xA9", 2}, {"\xE2\x82\xAC", 3}, {"\xF0\x9F\x98\x80", 4}, {"\xC3\x89", 2}};
                       while (o.size() < L) { const gen::Sym &s = hs[m.below(4)]; if (s.n <= L - o.size()) o.append(s.b, s.n); else o += 'x'; } break; }
        default: { static const char d[] = "=#+*%$!<>"; for (size_t i = 0; i < L; i++) o += d[(i + i / 9) % 9];
                   if (kind == P_WITHNUL && L) o[L == 1 ? 0 : (L / 2 + m.below(2))] = '\0'; break; }
    }
    return o;
}

inline std::string xor20(const std::string &s, Mix &m, bool all) {
    std::string o = s;
    if (o.empty()) return o;
    if (all) { for (char &c : o) c = (char)(c ^ 0x20); return o; }
    unsigned k = 1 + m.below(3);
    for (unsigned i = 0; i < k; i++) { size_t p = m.below((uint32_t)o.size()); o[p] = (char)(o[p] ^ 0x20); }
    return o;
}

inline Long build_long(const LongPlan &p) {
    Long out;
    Mix m(p.seed);
    if (p.kind == P_CUT || p.kind == P_XORCUT) {
        fill_to(m, out.s, p.target, p.filler);
        const size_t n = out.s.size(), L = p.seplen < n ? p.seplen : n;
        size_t off = p.at_start ? 0 : p.at_end ? n - L : m.below((uint32_t)(n - L + 1));
        out.sep = out.s.substr(off, L);
        if (p.kind == P_XORCUT) out.sep = xor20(out.sep, m, false);
        return out;
    }
    out.sep = make_sep(m, p.kind, p.seplen);
    const std::string &sep = out.sep;
    unsigned nocc = p.nocc;
    if (!sep.empty() && (size_t)nocc * sep.size() > p.target) nocc = (unsigned)(p.target / sep.size());
    // what is planted at each site: the separator itself, or (variants) a look-alike
    std::vector<std::string> sites;
    size_t used = 0;
    for (unsigned i = 0; i < nocc; i++) {
        std::string x = sep;
        unsigned v = p.variants ? m.below(16) : 0;
        if (v == 10 || v == 11) x = gen::flip_case(sep, m.next() | 1u);                        // matches case-insensitively (when it has letters)
        else if (v == 12) { x = xor20(sep, m, true); out.near_misses++; }                        // every byte XOR 0x20
        else if (v == 13) { x = sep.substr(0, sep.size() - 1); out.near_misses++; }            // one byte short
        else if (v == 14) { x[x.size() / 2] = (char)(x[x.size() / 2] + 1); out.near_misses++; } // one byte changed
        else if (v == 15) x = sep + sep;                                                         // adjacent pair
        else if (v == 9) { x = xor20(sep, m, false); out.near_misses++; }                        // 1..3 bytes XOR 0x20
        used += x.size();
        sites.push_back(x);
    }
    out.planted = nocc;
    const size_t budget = p.target > used ? p.target - used : 0;
    // gaps between the sites: proportional to pseudo-random weights (all equal for seed 0)
    std::vector<size_t> gaps(nocc + 1, 0);
    {
        std::vector<uint32_t> w(nocc + 1); uint64_t sum = 0;
        for (auto &x : w) { x = 1 + m.below(1000); if (m.below(8) == 7) x = 0; sum += x; }
        if (!sum) { w[0] = 1; sum = 1; }
        size_t given = 0;
        for (size_t i = 0; i < gaps.size(); i++) { gaps[i] = (size_t)((unsigned long long)budget * w[i] / sum); given += gaps[i]; }
        gaps[gaps.size() / 2] += budget - given;
        // block alignment: the text after the last site / before the first site gets an exact length; the other gaps share the rest
        if (nocc && (p.align_end || p.align_start)) {
            const size_t want_tail = p.align_end && p.end_dist >= sites[nocc - 1].size() ? p.end_dist - sites[nocc - 1].size() : 0;
            const size_t want_head = p.align_start ? p.start_dist : 0;
            if ((!p.align_end || p.end_dist >= sites[nocc - 1].size()) && want_tail + want_head <= budget && (nocc > 1 || !(p.align_end && p.align_start))) {
                size_t inner = budget - want_tail - want_head, fixed_ = 0;
                // rescale the gaps that stay free
                size_t free_sum = 0;
                for (size_t i = 0; i < gaps.size(); i++) if (!((i == 0 && p.align_start) || (i + 1 == gaps.size() && p.align_end))) free_sum += gaps[i];
                size_t last_free = gaps.size();
                for (size_t i = 0; i < gaps.size(); i++) {
                    if (i == 0 && p.align_start) { gaps[i] = want_head; continue; }
                    if (i + 1 == gaps.size() && p.align_end) { gaps[i] = want_tail; continue; }
                    gaps[i] = free_sum ? (size_t)((unsigned long long)inner * gaps[i] / free_sum) : 0; fixed_ += gaps[i]; last_free = i;
                }
                if (last_free < gaps.size()) { gaps[last_free] += inner - fixed_; out.aligned_end = p.align_end; out.aligned_start = p.align_start; }
                else if (inner == 0) { out.aligned_end = p.align_end; out.aligned_start = p.align_start; }
            }
        }
        else if (nocc) {
            if (p.at_start) { gaps[gaps.size() / 2] += gaps[0]; gaps[0] = 0; }
            if (p.at_end) { size_t last = gaps.size() - 1, mid = (gaps.size() - 1) / 2; if (mid != last) { gaps[mid] += gaps[last]; gaps[last] = 0; } }
        }
    }
    out.s.reserve(p.target + 8);
    for (size_t i = 0; i <= nocc; i++) {
        fill_to(m, out.s, gaps[i], p.filler);
        if (i < nocc) out.s += sites[i];
    }
    return out;
}

// character sets for trim / tokenize: 0..40 distinct non-NUL bytes, some above 16 entries, some with bytes >= 0x80
static const char SET_LONG[] = " \t\r\n\v\f,.;:!?-_=+*#/\\|()[]{}<>'\"";                 // 33
static const char SET_HIGH[] = "\xC2\xA0 \x85\t\x80\xFF\xE2\x83";                         // blanks next to lead / continuation bytes
static const char SET_40[] = "abcdefghijklmnopqrstuvwxyz0123456789 \t\n-";                // 40
static const char SET_17HI[] = "0123456789abcdef\xA9";                                    // 17 entries, the last one >= 0x80
inline const char *set_name(int k) {
    static const char *const n[] = {"x:set=default-whitespace", "x:set=explicit-whitespace", "x:set=33-bytes", "x:set=with-bytes>=0x80", "x:set=40-bytes",
                                    "x:set=17-bytes-last>=0x80", "x:set=bytes-of-subject(<=40)", "x:set=one-byte", "x:set=empty", "x:set=random-subset"};
    return n[k % 10];
}
enum { NSETS = 10 };
inline std::string make_set(int k, const std::string &subject, Mix &m) {
    std::string o;
    switch (k % NSETS) {
        case 0: case 1: o = " \t\r\n"; break;
        case 2: o = SET_LONG; break;
        case 3: o = SET_HIGH; break;
        case 4: o = SET_40; break;
        case 5: o = SET_17HI; break;
        case 6: for (size_t i = 0; i < subject.size() && o.size() < 40; i++) { char ch = subject[(i * 7) % subject.size()]; if (ch && o.find(ch) == std::string::npos) o += ch; } break;
        case 7: if (!subject.empty() && subject[subject.size() - 1]) o += subject[subject.size() - 1]; break;
        case 8: break;
        default: { unsigned cnt = m.below(41); for (unsigned i = 0; i < cnt * 3 && o.size() < cnt; i++) { char ch = (char)(1 + m.below(255)); if (o.find(ch) == std::string::npos) o += ch; } break; }
    }
    return o;
}
static const uint16_t RUNLEN[] = {0, 1, 3, 15, 16, 17, 64, 255, 256, 257, 600, 2};

}  // namespace gen89
