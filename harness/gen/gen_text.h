// Byte-string generators shared by C07 / C08 / C09: subjects over small alphabets (so that needles,
// separators and patterns recur and overlap), in every size class around the small-string limit,
// containing NUL and multi-byte characters, well-formed or raw.  Pure functions of the Reader.
// No string_theory header is included here.
#pragma once
#include <cstdint>
#include <string>
#include "common/verif.h"

namespace gen {

struct Sym { const char *b; uint8_t n; };

// index 0 is the simplest symbol: exhausted input decodes to "aaaa..."
static const Sym CORE[] = {   // DESIGN C07: {a b A B NUL e-acute euro}
    {"a", 1}, {"b", 1}, {"A", 1}, {"B", 1}, {"\0", 1}, {"\xC3\xA9", 2}, {"\xE2\x82\xAC", 3}};
static const Sym AB[] = {{"a", 1}, {"b", 1}, {"A", 1}};
static const Sym EXT[] = {   // adds the neighbours of the ASCII letter range, E-acute (differs from e-acute by 0x20 in its
                             // second byte), a 4-byte character, whitespace and common separators
    {"a", 1}, {"b", 1}, {"A", 1}, {"B", 1}, {"\0", 1}, {"\xC3\xA9", 2}, {"\xE2\x82\xAC", 3}, {"\xC3\x89", 2}, {"\xF0\x9F\x98\x80", 4},
    {"@", 1}, {"`", 1}, {"[", 1}, {"{", 1}, {"z", 1}, {"Z", 1}, {" ", 1}, {"\t", 1}, {"\n", 1}, {"\r", 1}, {",", 1}, {":", 1}, {"/", 1}, {"\x7F", 1}, {"\x01", 1}};
static const uint8_t RAWB[] = {'a', 'b', 'A', 0x00, 0x80, 0xBF, 0xC3, 0xA9, 0xE2, 0x82, 0xAC, 0xF0, 0xFF, 0xC0, 0x7F, 0xED};

enum Alpha { A_CORE = 0, A_AB = 1, A_EXT = 2, A_RAW = 3 };

inline void append_sym(verif::Reader &r, std::string &o, size_t room, int alpha) {
    if (alpha == A_RAW) {
        uint8_t v = r.u8();
        // odd selector: a byte from the table of interesting bytes; even: any byte (a second input byte,
        // xor 'a' so that zeros decode to 'a')
        o += (char)((v & 1) ? RAWB[(v >> 1) % sizeof RAWB] : (uint8_t)(r.u8() ^ 0x61));
        return;
    }
    const Sym *tab = alpha == A_AB ? AB : alpha == A_EXT ? EXT : CORE;
    size_t cnt = alpha == A_AB ? sizeof AB / sizeof AB[0] : alpha == A_EXT ? sizeof EXT / sizeof EXT[0] : sizeof CORE / sizeof CORE[0];
    const Sym &s = tab[r.idx(cnt)];
    if (s.n <= room) o.append(s.b, s.n); else o += 'a';
}

// exactly `bytes` bytes of the given alphabet
inline std::string fill(verif::Reader &r, size_t bytes, int alpha) {
    std::string o;
    while (o.size() < bytes) append_sym(r, o, bytes - o.size(), alpha);
    return o;
}

// byte length: small, around the small-string limit (15/16), medium, long
inline size_t length_class(verif::Reader &r, size_t maxb) {
    static const uint8_t around[] = {15, 16, 14, 17, 13, 18};
    static const uint8_t longer[] = {24, 31, 32, 33, 40, 47, 48, 60};
    size_t n;
    switch (r.range(0, 3)) {
        case 0: n = (size_t)r.range(0, 8); break;
        case 1: n = r.pick(around); break;
        case 2: n = (size_t)r.range(0, 40); break;
        default: n = r.pick(longer); break;
    }
    return n > maxb ? maxb : n;
}

// alphabet choice: raw_eighths of 8 selectors give raw bytes, the rest well-formed text
inline int alphabet_class(verif::Reader &r, unsigned raw_eighths) {
    unsigned v = (unsigned)r.range(0, 7);
    if (v >= 8 - raw_eighths) return A_RAW;
    static const uint8_t wf[] = {A_CORE, A_CORE, A_AB, A_EXT, A_CORE, A_EXT, A_AB, A_CORE};
    return wf[v];
}

struct Text { std::string bytes; int alpha; };

// structural choices (length, alphabet) are read here; the content is read by fill_text() so that callers
// can read all their structural choices before any content (a truncated input then shortens content only)
struct Plan { size_t len; int alpha; };
inline Plan plan(verif::Reader &r, size_t maxb, unsigned raw_eighths) { Plan p; p.len = length_class(r, maxb); p.alpha = alphabet_class(r, raw_eighths); return p; }
inline Text fill_text(verif::Reader &r, const Plan &p) { Text t; t.alpha = p.alpha; t.bytes = fill(r, p.len, p.alpha); return t; }

inline bool has_nul(const std::string &s) { return s.find('\0') != std::string::npos; }
inline bool has_high(const std::string &s) { for (unsigned char c : s) if (c >= 0x80) return true; return false; }

// flip the ASCII case of the letters selected by mask bits
inline std::string flip_case(const std::string &s, uint32_t mask) {
    std::string o = s;
    for (size_t i = 0; i < o.size(); i++) {
        if (!((mask >> (i % 32)) & 1)) continue;
        char &c = o[i];
        if (c >= 'a' && c <= 'z') c = (char)(c - 32); else if (c >= 'A' && c <= 'Z') c = (char)(c + 32);
    }
    return o;
}

inline const char *size_label(size_t n) { return n == 0 ? "size:0" : n < 15 ? "size:1-14" : n <= 16 ? "size:15-16(sso limit)" : "size:17+"; }

}  // namespace gen
