// Byte-decoded generators of LONG inputs for the conversion properties (C01, C03): a short pattern repeated up to
// a total length that is an exact multiple of a block size (1 Ki .. 1 Mi units; 4/8/16/64/256/4096/65536 all divide
// the larger ones) or a few units off, padded with ASCII so that the total is exact, with the padding either in
// front (the text then ends in the pattern, i.e. in a multi-unit character) or behind.  No string_theory include.
#pragma once
#include "gen/unit_gen.h"

namespace ugen {

// total length in units: mostly a few Ki; 64 Ki..128 Ki, 256 Ki..384 Ki and 512 Ki/1 Mi with decreasing frequency.
// Code byte 255 is followed by an explicit 32-bit length (reduced below 1.25 Mi): used by the enumerators' grids.
inline const char *long_label(size_t total) {
    return total < 49152 ? "long:1Ki-32Ki-units" : total < 196608 ? "long:64Ki-128Ki-units" : total < 458752 ? "long:256Ki-384Ki-units" : "long:512Ki-1Mi-units";
}
inline size_t long_total(verif::Reader &r, const char *&size_label) {
    static const uint32_t small[] = {1024, 2048, 4096, 8192, 12288, 16384, 20480, 32768};
    static const uint32_t mid[] = {65536, 131072, 98304, 69632};
    static const uint32_t big[] = {262144, 307200, 327680, 393216};
    static const uint32_t huge[] = {524288, 1048576};
    static const int delta[] = {0, 1, -1, 2, -3};
    uint8_t k = r.u8();
    size_t total;
    if (k == 255) { total = r.bits32() % ((1u << 20) + (1u << 18)); if (total < 16) total = 16; }
    else {
        size_t base = k < 128 ? small[k % 8] : k < 208 ? mid[k % 4] : k < 250 ? big[k % 4] : huge[k % 2];
        total = (size_t)((long)base + delta[r.range(0, 4)]);
    }
    size_label = long_label(total);
    return total;
}

// `total` units: whole repetitions of `pat`, the remainder filled with 'a'; pad_front puts the filler first.
// cut > 0 removes that many units from the end afterwards and refills in front (so the last pattern is incomplete).
inline Units long_fill(const Units &pat, size_t total, bool pad_front, size_t cut = 0) {
    Units u; u.reserve(total);
    const size_t pn = pat.empty() ? 1 : pat.size();
    size_t reps = total / pn, pad = total - reps * pn;
    if (cut > total) cut = total;
    if (pad_front || cut) { pad += cut; u.assign(pad > total ? total : pad, 0x61); }
    for (size_t i = 0; i < reps && u.size() < total; i++) for (size_t j = 0; j < pn && u.size() < total; j++) u.push_back(pat.empty() ? 0x61 : pat[j]);
    while (u.size() < total) u.push_back(0x61);
    return u;
}

// classes of characters whose long runs matter: Latin-1 non-ASCII, 2-, 3-, 4-byte, the width boundaries
static const uint32_t kLongScalars[] = {0xE9, 0xFF, 0x20AC, 0x1F600, 0x7FF, 0x800, 0xFFFF, 0x10000, 0x10FFFF, 0x80, 0xA0, 0x3B1, 0xD7FF, 0xE000, 0x41, 0x0};
enum { kNLongScalars = sizeof(kLongScalars) / sizeof(kLongScalars[0]) };

struct LongText { std::vector<uint32_t> pattern; Enc anchor; size_t total; bool pad_front; std::vector<uint32_t> scalars; const char *size_label; };

// well-formed long text: `total` units in the anchor encoding exactly
inline void long_scalars_build(LongText &t) {
    const Units pu = ref::encode(t.anchor, t.pattern);
    const size_t pn = pu.empty() ? 1 : pu.size();
    const size_t reps = t.total / pn, pad = t.total - reps * pn;
    t.scalars.clear(); t.scalars.reserve(pad + reps * t.pattern.size());
    if (t.pad_front) t.scalars.assign(pad, 0x61);
    for (size_t i = 0; i < reps; i++) t.scalars.insert(t.scalars.end(), t.pattern.begin(), t.pattern.end());
    if (!t.pad_front) t.scalars.insert(t.scalars.end(), pad, 0x61);
}
inline LongText long_scalars(verif::Reader &r) {
    LongText t;
    t.anchor = (Enc)r.range(0, 2);
    uint8_t pl = r.u8();
    size_t plen = (pl & 3) == 3 ? 2 + (pl >> 2) % 3 : 1;            // mostly a run of one identical character
    for (size_t i = 0; i < plen; i++) t.pattern.push_back(kLongScalars[r.u8() % kNLongScalars]);
    t.total = long_total(r, t.size_label);
    t.pad_front = !r.flag();                                         // zeros: filler in front, text ends in the pattern
    long_scalars_build(t);
    return t;
}

// arbitrary long unit string in `enc` (garbage patterns included), exactly `total` units
inline Units long_units(verif::Reader &r, Enc enc, const char *&kind, const char *&size_label) {
    Units pat;
    unsigned style = (unsigned)r.range(0, 3);
    if (enc == ref::LATIN1) {
        static const uint32_t l1[] = {0xE9, 0xFF, 0x80, 0xA0, 0x41, 0x00, 0x7F, 0xC3};
        size_t pn = style == 0 ? 1 : 1 + r.range(0, 7);
        for (size_t i = 0; i < pn; i++) pat.push_back(r.pick(l1));
        kind = style == 0 ? "long-run-identical" : "long-run-pattern";
    } else if (style <= 1) {                                          // identical well-formed character / short well-formed pattern
        std::vector<uint32_t> sc; size_t pn = style == 0 ? 1 : 1 + r.range(0, 3);
        for (size_t i = 0; i < pn; i++) sc.push_back(kLongScalars[r.u8() % kNLongScalars]);
        pat = ref::encode(enc, sc);
        kind = style == 0 ? "long-run-identical" : "long-run-pattern";
    } else {                                                          // class-alphabet units: stray continuation bytes, lone leads, unpaired surrogates, > 10FFFF
        size_t pn = style == 2 ? 1 : 1 + r.range(0, 5);
        for (size_t i = 0; i < pn; i++) pat.push_back(class_unit(r, enc));
        kind = "long-run-garbage";
    }
    size_t total = long_total(r, size_label);
    bool pad_front = !r.flag();
    size_t cut = r.range(0, 3);                                       // 1..3: the final character is cut
    return long_fill(pat, total, pad_front, cut);
}

}  // namespace ugen
