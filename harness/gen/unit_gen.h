// Byte-decoded generators of code-unit strings (well-formed, mutated, truncated, garbage).
// Shared by the conversion properties.  No string_theory include.
#pragma once
#include "common/verif.h"
#include "ref/ref_unicode.h"

namespace ugen {
using ref::Enc; using ref::Units;

// boundary-biased scalar value (never a surrogate, never above 10FFFF)
inline uint32_t scalar(verif::Reader &r) {
    static const uint32_t edges[] = {0x41, 0x00, 0x7F, 0x80, 0xE9, 0xFF, 0x100, 0x7FF, 0x800, 0x20AC, 0xD7FF, 0xE000, 0xFFFD, 0xFFFF, 0x10000, 0x1F600, 0x10FFFF, 0x20, 0x7A, 0x3B1};
    uint8_t k = r.u8();
    if (k < 120) return edges[k % 20];
    if (k < 170) return 0x20 + (r.u8() % 0x5F);                           // printable ASCII
    if (k < 200) return 0x80 + r.range(0, 0x77F);                         // 2-byte range
    if (k < 230) { uint32_t v = 0x800 + (uint32_t)r.range(0, 0xF7FF); return (v >= 0xD800 && v <= 0xDFFF) ? 0xFFFD : v; }
    return 0x10000 + (uint32_t)r.range(0, 0xFFFFF);
}

inline std::vector<uint32_t> scalars(verif::Reader &r, size_t maxlen) {
    // lengths around the small-buffer limits of every unit size (12/16) and around 256
    static const uint16_t lens[] = {0, 1, 2, 3, 4, 5, 6, 7, 8, 10, 11, 12, 13, 15, 16, 17, 20, 31, 32, 33, 63, 64, 85, 86, 127, 128, 255, 256, 257, 300};
    size_t n = r.flag() ? r.pick(lens) : r.range(0, 20);
    if (n > maxlen) n = maxlen;
    std::vector<uint32_t> v;
    uint8_t style = r.u8();
    for (size_t i = 0; i < n; i++) v.push_back((style & 3) == 1 ? 0x41 + (uint32_t)(i % 26) : (style & 3) == 2 && (i % 4) ? 0x61 : scalar(r));
    return v;
}

inline uint32_t class_unit(verif::Reader &r, Enc enc) {
    static const uint32_t c8[] = {0x41, 0x00, 0x7F, 0x80, 0x90, 0xA0, 0xBF, 0xC0, 0xC2, 0xDF, 0xE0, 0xED, 0xEF, 0xF0, 0xF4, 0xF7, 0xF8, 0xFF};
    static const uint32_t c16[] = {0x0041, 0x0000, 0xD7FF, 0xD800, 0xDBFF, 0xDC00, 0xDFFF, 0xE000, 0xFFFF, 0x00E9, 0x0100, 0x20AC};
    static const uint32_t c32[] = {0x41, 0x0, 0xD800, 0xDFFF, 0xFFFF, 0x10000, 0x10FFFF, 0x110000, 0x7FFFFFFF, 0xFFFFFFFF, 0xE9, 0x100, 0x400000, 0x400001, 0x1FFFFF};
    switch (enc) {
    case ref::UTF8: return r.pick(c8);
    case ref::UTF16: return r.pick(c16);
    case ref::UTF32: return r.pick(c32);
    default: return r.u8();
    }
}

inline uint32_t mask_of(Enc enc) { return enc == ref::UTF16 ? 0xFFFF : enc == ref::UTF32 ? 0xFFFFFFFFu : 0xFF; }

// Arbitrary unit string in `enc`.  `kind` receives a label describing the construction.
inline Units units(verif::Reader &r, Enc enc, const char *&kind, size_t maxlen = 4096) {
    Units u;
    unsigned style = (unsigned)r.range(0, 7);
    if (enc == ref::LATIN1) {
        size_t n = r.flag() ? r.range(0, 40) : r.range(0, 300);
        uint8_t st = r.u8();
        for (size_t i = 0; i < n; i++) u.push_back((st & 1) ? r.u8() : (i % 3 ? 0x41 + (i % 26) : r.u8()));
        kind = "latin1-bytes";
        return u;
    }
    switch (style) {
    case 0: case 1: {   // strings over the class alphabet
        size_t n = r.range(0, style ? 24 : 6);
        for (size_t i = 0; i < n; i++) u.push_back(class_unit(r, enc));
        kind = "class-alphabet";
        break; }
    case 2: {           // well-formed text
        u = ref::encode(enc, scalars(r, 300));
        kind = "well-formed";
        break; }
    case 3: case 4: {   // well-formed text with 1..4 mutations in the middle
        u = ref::encode(enc, scalars(r, 60));
        size_t nm = 1 + r.range(0, 3);
        for (size_t m = 0; m < nm; m++) {
            size_t pos = u.empty() ? 0 : r.idx(u.size() + 1);
            switch (r.range(0, 7)) {
            case 0: if (pos < u.size()) u.erase(u.begin() + pos); break;                                // delete a unit
            case 1: u.insert(u.begin() + pos, class_unit(r, enc)); break;                               // insert a unit
            case 2: if (pos < u.size()) u[pos] = class_unit(r, enc); break;                             // overwrite a unit
            case 3: u.resize(pos); break;                                                                // cut here
            case 4: if (pos + 1 < u.size()) std::swap(u[pos], u[pos + 1]); break;                        // swap neighbours (reverses a surrogate pair)
            case 5: {                                                                                    // insert a tolerated irregular form
                static const uint32_t over2[] = {0xC0, 0x80}, over3[] = {0xE0, 0x80, 0x80}, sur[] = {0xED, 0xA0, 0x80}, big[] = {0xF4, 0x90, 0x80, 0x80}, big2[] = {0xF7, 0xBF, 0xBF, 0xBF}, over4[] = {0xF0, 0x80, 0x80, 0xAF};
                if (enc == ref::UTF8) {
                    switch (r.range(0, 5)) {
                    case 0: u.insert(u.begin() + pos, over2, over2 + 2); break;
                    case 1: u.insert(u.begin() + pos, over3, over3 + 3); break;
                    case 2: u.insert(u.begin() + pos, sur, sur + 3); break;
                    case 3: u.insert(u.begin() + pos, big, big + 4); break;
                    case 4: u.insert(u.begin() + pos, big2, big2 + 4); break;
                    default: u.insert(u.begin() + pos, over4, over4 + 4); break;
                    }
                } else if (enc == ref::UTF16) { const uint32_t rev[] = {0xDC00u + (uint32_t)r.range(0, 0x3FF), 0xD800u + (uint32_t)r.range(0, 0x3FF)}; u.insert(u.begin() + pos, rev, rev + 2); }
                else u.insert(u.begin() + pos, 0xD800u + (uint32_t)r.range(0, 0x7FF));
                break; }
            case 6: u.insert(u.begin() + pos, (uint32_t)r.bits32() & mask_of(enc)); break;               // arbitrary unit
            default: if (pos < u.size()) u[pos] ^= 1u << r.range(0, enc == ref::UTF8 ? 7 : enc == ref::UTF16 ? 15 : 31); break;   // bit flip
            }
        }
        kind = "mutated";
        break; }
    case 5: {           // well-formed text cut at an arbitrary unit
        u = ref::encode(enc, scalars(r, 120));
        if (!u.empty()) u.resize(r.idx(u.size() + 1));
        kind = "truncated";
        break; }
    case 6: {           // long input: a short pattern repeated
        Units pat;
        size_t pn = 1 + r.range(0, 7);
        bool clean = r.flag();
        if (clean) pat = ref::encode(enc, scalars(r, pn)); else for (size_t i = 0; i < pn; i++) pat.push_back(class_unit(r, enc));
        if (pat.empty()) pat.push_back(0x41);
        static const uint16_t totals[] = {255, 256, 257, 511, 512, 513, 1000, 1024, 2048, 4095, 4096};
        size_t total = r.pick(totals);
        if (total > maxlen) total = maxlen;
        while (u.size() + pat.size() <= total) u.insert(u.end(), pat.begin(), pat.end());
        if (r.flag() && !u.empty()) u.resize(u.size() - r.range(0, 3) % u.size());    // may cut the last character
        kind = clean ? "long-well-formed" : "long-garbage";
        break; }
    default: {          // raw units
        size_t n = r.range(0, 32);
        for (size_t i = 0; i < n; i++) u.push_back((uint32_t)r.bits32() & mask_of(enc));
        kind = "raw";
        break; }
    }
    if (u.size() > maxlen) u.resize(maxlen);
    return u;
}

}  // namespace ugen
