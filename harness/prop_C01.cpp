// C01: well-formed text transcodes losslessly and to the standard encoding, by every public route.
#include "gen/conv_calls.h"
#include "gen/unit_gen.h"

#include <string>
#include <string_view>

using verif::Case;
using ref::Units;

const verif::Info verif_info = {
    "C01", 900,
    "enumerated: every Unicode scalar value (1,112,064) alone (quick) and in 13 contexts - alone, before/after/between a 1-,2-,3-,4-byte neighbour "
    "(thorough) - through the 6 UTF<->UTF free functions x 3 modes, the wchar_t aliases and ST::string from_*/to_*; all 256 Latin-1 bytes and all 65,536 "
    "ordered pairs to every UTF form and back. Generated: scalar sequences of 0..300 values (boundary-biased: 0,7F/80,7FF/800,D7FF/E000,FFFF/10000,10FFFF; "
    "lengths around the small-buffer limits and 256) through every public route - pointer+length, buffer, char8_t, std::basic_string and string_view "
    "constructors/set/operator=/from_std_string, from_*/to_* members, to_std_*string, to_buffer, literal operators - in all three modes. Oracle: exact "
    "equality of code units with the reference standard encoding of the same scalar sequence, size and terminator. Non-trivial: the sequence contains a "
    "scalar >= U+0080.",
    true, "exploration"};

namespace {

template <class T> std::vector<T> typed(const Units &u) { std::vector<T> v; for (uint32_t x : u) v.push_back((T)x); return v; }
template <class S> Units as_units(const S &s) { Units u; for (auto ch : s) u.push_back((uint32_t)(typename std::make_unsigned<typename S::value_type>::type)ch); return u; }
Units as_units(const ST::string &s) { Units u; for (size_t i = 0; i < s.size(); i++) u.push_back((uint8_t)s.c_str()[i]); return u; }

std::string mismatch(const char *route, const Units &got, const Units &want) {
    return std::string(route) + " gives " + verif::units(got, 32) + ", the standard encoding is " + verif::units(want, 32);
}

#define EXPECT_UNITS(route, expr, want) \
    do { Units got__; try { got__ = as_units(expr); } catch (...) { return std::string(route) + ": " + verif::describe_current_exception(); } \
         ncalls++; if (got__ != (want)) return mismatch(route, got__, want); } while (0)
#define EXPECT_STR(route, expr) \
    do { try { const ST::string &s__ = (expr); Units got__ = as_units(s__); ncalls++; if (got__ != u8) return mismatch(route, got__, u8); \
               if (s__.c_str()[s__.size()] != 0) return std::string(route) + ": result not NUL-terminated"; } \
         catch (...) { return std::string(route) + ": " + verif::describe_current_exception(); } } while (0)

// Every public route for one scalar sequence.  Returns "" or the first disagreement.
std::string all_routes(const std::vector<uint32_t> &scalars, long &ncalls) {
    const Units u8 = ref::encode(ref::UTF8, scalars), u16 = ref::encode(ref::UTF16, scalars), u32 = ref::encode(ref::UTF32, scalars);
    // 1. the uniform conversion layer: 12 pairs, wchar_t aliases, ST::string in/out, every overload route, 3 modes
    for (int ci = 0; ci < conv::NCONV; ci++) {
        conv::Conv c = (conv::Conv)ci;
        const conv::ConvInfo &inf = conv::info(c);
        if (inf.from == ref::LATIN1 || inf.to == ref::LATIN1) continue;      // Latin-1 legs are checked below on byte strings
        const Units &src = inf.from == ref::UTF8 ? u8 : inf.from == ref::UTF16 ? u16 : u32;
        const Units &want = inf.to == ref::UTF8 ? u8 : inf.to == ref::UTF16 ? u16 : u32;
        for (int route = 0; route < inf.nroutes; route++)
            for (int m = 0; m < 3; m++) {
                if (!inf.takes_mode && m != 2) continue;
                conv::Outcome o = conv::run(c, route, (ref::Mode)m, true, src, false);
                ncalls++;
                if (o.kind != 0) return std::string(inf.name) + " route " + verif::num(route) + " mode=" + conv::mode_name((ref::Mode)m) + " rejects well-formed input: " + o.what;
                if (o.out != want || o.reported_size != want.size()) return mismatch((std::string(inf.name) + " route " + verif::num(route) + " mode=" + conv::mode_name((ref::Mode)m)).c_str(), o.out, want);
                if (!o.terminated) return std::string(inf.name) + ": result not NUL-terminated";
            }
    }
    // 2. STL string / string_view / C-string / literal-operator routes into ST::string (3 modes where a mode exists)
    std::vector<char> v8 = typed<char>(u8); std::vector<char16_t> v16 = typed<char16_t>(u16); std::vector<char32_t> v32 = typed<char32_t>(u32); std::vector<wchar_t> vw = typed<wchar_t>(u32);
    const std::string s8(v8.begin(), v8.end()); const std::u16string s16(v16.begin(), v16.end()); const std::u32string s32(v32.begin(), v32.end()); const std::wstring sw(vw.begin(), vw.end());
    const std::u8string su8(reinterpret_cast<const char8_t *>(s8.data()), s8.size());
    const std::string_view sv8(s8); const std::u16string_view sv16(s16); const std::u32string_view sv32(s32); const std::wstring_view svw(sw); const std::u8string_view svu8(su8);
    const ST::utf_validation_t modes[3] = {ST::assume_valid, ST::substitute_invalid, ST::check_validity};
    for (ST::utf_validation_t M : modes) {
        EXPECT_STR("ST::string(std::string)", ST::string(s8, M));
        EXPECT_STR("ST::string(std::u16string)", ST::string(s16, M));
        EXPECT_STR("ST::string(std::u32string)", ST::string(s32, M));
        EXPECT_STR("ST::string(std::wstring)", ST::string(sw, M));
        EXPECT_STR("ST::string(std::u8string)", ST::string(su8, M));
        EXPECT_STR("ST::string(std::string_view)", ST::string(sv8, M));
        EXPECT_STR("ST::string(std::u16string_view)", ST::string(sv16, M));
        EXPECT_STR("ST::string(std::u32string_view)", ST::string(sv32, M));
        EXPECT_STR("ST::string(std::wstring_view)", ST::string(svw, M));
        EXPECT_STR("ST::string(std::u8string_view)", ST::string(svu8, M));
        EXPECT_STR("ST::string(const char8_t*,len)", ST::string(su8.data(), su8.size(), M));
        EXPECT_STR("set(std::string)", [&] { ST::string t("x"); t.set(s8, M); return t; }());
        EXPECT_STR("set(std::u16string)", [&] { ST::string t("x"); t.set(s16, M); return t; }());
        EXPECT_STR("set(std::u32string)", [&] { ST::string t("x"); t.set(s32, M); return t; }());
        EXPECT_STR("set(std::wstring)", [&] { ST::string t("x"); t.set(sw, M); return t; }());
        EXPECT_STR("set(std::u8string)", [&] { ST::string t("x"); t.set(su8, M); return t; }());
        EXPECT_STR("set(std::string_view)", [&] { ST::string t("x"); t.set(sv8, M); return t; }());
        EXPECT_STR("set(std::u16string_view)", [&] { ST::string t("x"); t.set(sv16, M); return t; }());
        EXPECT_STR("set(std::u32string_view)", [&] { ST::string t("x"); t.set(sv32, M); return t; }());
        EXPECT_STR("set(std::wstring_view)", [&] { ST::string t("x"); t.set(svw, M); return t; }());
        EXPECT_STR("set(const char8_t*,len)", [&] { ST::string t("x"); t.set(su8.data(), su8.size(), M); return t; }());
        EXPECT_STR("set(utf16_buffer)", [&] { ST::string t("x"); t.set(ST::utf16_buffer(s16.data(), s16.size()), M); return t; }());
        EXPECT_STR("set(utf32_buffer)", [&] { ST::string t("x"); t.set(ST::utf32_buffer(s32.data(), s32.size()), M); return t; }());
        EXPECT_STR("set(wchar_buffer)", [&] { ST::string t("x"); t.set(ST::wchar_buffer(sw.data(), sw.size()), M); return t; }());
        EXPECT_STR("set(char_buffer)", [&] { ST::string t("x"); t.set(ST::char_buffer(s8.data(), s8.size()), M); return t; }());
        EXPECT_STR("from_std_string(std::string)", ST::string::from_std_string(s8, M));
        EXPECT_STR("from_std_string(std::u16string)", ST::string::from_std_string(s16, M));
        EXPECT_STR("from_std_string(std::u32string)", ST::string::from_std_string(s32, M));
        EXPECT_STR("from_std_string(std::wstring)", ST::string::from_std_string(sw, M));
        EXPECT_STR("from_std_wstring(std::wstring)", ST::string::from_std_wstring(sw, M));
        EXPECT_STR("from_std_string(std::u8string)", ST::string::from_std_string(su8, M));
        EXPECT_STR("from_std_string(std::string_view)", ST::string::from_std_string(sv8, M));
        EXPECT_STR("from_std_string(std::u16string_view)", ST::string::from_std_string(sv16, M));
        EXPECT_STR("from_std_string(std::u32string_view)", ST::string::from_std_string(sv32, M));
        EXPECT_STR("from_std_string(std::wstring_view)", ST::string::from_std_string(svw, M));
        EXPECT_STR("from_std_wstring(std::wstring_view)", ST::string::from_std_wstring(svw, M));
        EXPECT_STR("from_utf8(const char8_t*,len)", ST::string::from_utf8(su8.data(), su8.size(), M));
    }
    EXPECT_STR("operator=(std::string)", [&] { ST::string t; t = s8; return t; }());
    EXPECT_STR("operator=(std::u16string)", [&] { ST::string t; t = s16; return t; }());
    EXPECT_STR("operator=(std::u32string)", [&] { ST::string t; t = s32; return t; }());
    EXPECT_STR("operator=(std::wstring)", [&] { ST::string t; t = sw; return t; }());
    EXPECT_STR("operator=(std::u8string)", [&] { ST::string t; t = su8; return t; }());
    EXPECT_STR("operator=(std::string_view)", [&] { ST::string t; t = sv8; return t; }());
    EXPECT_STR("operator=(std::u16string_view)", [&] { ST::string t; t = sv16; return t; }());
    EXPECT_STR("operator=(std::u32string_view)", [&] { ST::string t; t = sv32; return t; }());
    EXPECT_STR("operator=(std::wstring_view)", [&] { ST::string t; t = svw; return t; }());
    EXPECT_STR("operator=(char_buffer)", [&] { ST::string t; t = ST::char_buffer(s8.data(), s8.size()); return t; }());
    EXPECT_STR("operator=(utf16_buffer)", [&] { ST::string t; t = ST::utf16_buffer(s16.data(), s16.size()); return t; }());
    EXPECT_STR("operator=(utf32_buffer)", [&] { ST::string t; t = ST::utf32_buffer(s32.data(), s32.size()); return t; }());
    EXPECT_STR("operator=(wchar_buffer)", [&] { ST::string t; t = ST::wchar_buffer(sw.data(), sw.size()); return t; }());
    EXPECT_STR("from_validated(ptr,len)", ST::string::from_validated(s8.data(), s8.size()));
    EXPECT_STR("from_validated(char_buffer)", ST::string::from_validated(ST::char_buffer(s8.data(), s8.size())));
    {
        using namespace ST::literals;
        EXPECT_STR("operator\"\"_st(char)", operator""_st(s8.data(), s8.size()));
        EXPECT_STR("operator\"\"_st(char16_t)", operator""_st(s16.data(), s16.size()));
        EXPECT_STR("operator\"\"_st(char32_t)", operator""_st(s32.data(), s32.size()));
        EXPECT_STR("operator\"\"_st(wchar_t)", operator""_st(sw.data(), sw.size()));
        EXPECT_STR("operator\"\"_st(char8_t)", operator""_st(su8.data(), su8.size()));
        EXPECT_UNITS("operator\"\"_stbuf(char16_t)", operator""_stbuf(s16.data(), s16.size()).to_std_string(), u16);
        EXPECT_UNITS("operator\"\"_stbuf(char32_t)", operator""_stbuf(s32.data(), s32.size()).to_std_string(), u32);
    }
    // C-string routes (ST_AUTO_SIZE): only when the text has no embedded NUL
    bool has_nul = false; for (uint32_t v : scalars) if (v == 0) has_nul = true;
    if (!has_nul) {
        EXPECT_STR("ST::string(const char*)", ST::string(s8.c_str()));
        EXPECT_STR("ST::string(const char16_t*)", ST::string(s16.c_str()));
        EXPECT_STR("ST::string(const char32_t*)", ST::string(s32.c_str()));
        EXPECT_STR("ST::string(const wchar_t*)", ST::string(sw.c_str()));
        EXPECT_STR("operator=(const char*)", [&] { ST::string t; t = s8.c_str(); return t; }());
        EXPECT_STR("operator=(const char16_t*)", [&] { ST::string t; t = s16.c_str(); return t; }());
        EXPECT_STR("operator=(const char32_t*)", [&] { ST::string t; t = s32.c_str(); return t; }());
        EXPECT_STR("operator=(const wchar_t*)", [&] { ST::string t; t = sw.c_str(); return t; }());
        EXPECT_STR("from_utf16(cstr)", ST::string::from_utf16(s16.c_str()));
        EXPECT_STR("from_utf32(cstr)", ST::string::from_utf32(s32.c_str()));
        EXPECT_STR("from_wchar(cstr)", ST::string::from_wchar(sw.c_str()));
        EXPECT_STR("from_utf8(cstr)", ST::string::from_utf8(s8.c_str()));
    }
    // 3. out of ST::string
    const ST::string str = ST::string::from_validated(s8.data(), s8.size());
    EXPECT_UNITS("to_utf8()", str.to_utf8().to_std_string(), u8);
    EXPECT_UNITS("to_std_string()", str.to_std_string(), u8);
    EXPECT_UNITS("to_std_wstring()", str.to_std_wstring(), u32);
    EXPECT_UNITS("to_std_u16string()", str.to_std_u16string(), u16);
    EXPECT_UNITS("to_std_u32string()", str.to_std_u32string(), u32);
    EXPECT_UNITS("to_std_u8string()", str.to_std_u8string(), u8);
    EXPECT_UNITS("to_std_string(std::wstring&)", [&] { std::wstring o; str.to_std_string(o); return o; }(), u32);
    EXPECT_UNITS("to_std_string(std::u16string&)", [&] { std::u16string o; str.to_std_string(o); return o; }(), u16);
    EXPECT_UNITS("to_std_string(std::u32string&)", [&] { std::u32string o; str.to_std_string(o); return o; }(), u32);
    EXPECT_UNITS("to_std_string(std::string&)", [&] { std::string o; str.to_std_string(o); return o; }(), u8);
    EXPECT_UNITS("to_buffer(char_buffer&)", [&] { ST::char_buffer o; str.to_buffer(o); return o.to_std_string(); }(), u8);
    EXPECT_UNITS("view()", std::string(str.view()), u8);
    // 4. a chain 8 -> 16 -> 32 -> wchar -> 8 returns the original units
    EXPECT_UNITS("chain utf8->utf16->utf32->wchar->utf8",
                 ST::wchar_to_utf8(ST::utf32_to_wchar(ST::utf16_to_utf32(ST::utf8_to_utf16(s8.data(), s8.size())))).to_std_string(), u8);
    return std::string();
}

// Latin-1: every byte string converted to any UTF form and back is unchanged, and the UTF form is the standard encoding of U+00xx
std::string latin1_routes(const std::vector<uint8_t> &bytes, long &ncalls) {
    std::vector<uint32_t> scalars(bytes.begin(), bytes.end());
    const Units l1(bytes.begin(), bytes.end());
    const Units u8 = ref::encode(ref::UTF8, scalars), u16 = ref::encode(ref::UTF16, scalars), u32 = ref::encode(ref::UTF32, scalars);
    for (int ci = 0; ci < conv::NCONV; ci++) {
        conv::Conv c = (conv::Conv)ci;
        const conv::ConvInfo &inf = conv::info(c);
        if (inf.from != ref::LATIN1 && inf.to != ref::LATIN1) continue;
        const Units &src = inf.from == ref::LATIN1 ? l1 : inf.from == ref::UTF8 ? u8 : inf.from == ref::UTF16 ? u16 : u32;
        const Units &want = inf.to == ref::LATIN1 ? l1 : inf.to == ref::UTF8 ? u8 : inf.to == ref::UTF16 ? u16 : u32;
        for (int route = 0; route < inf.nroutes; route++)
            for (int m = 0; m < 3; m++) {
                if (!inf.takes_mode && m != 2) continue;
                for (int fl = 0; fl < 2; fl++) {
                    if (!inf.takes_l1flag && fl) continue;
                    conv::Outcome o = conv::run(c, route, (ref::Mode)m, fl == 0, src, false);
                    ncalls++;
                    std::string name = std::string(inf.name) + " route " + verif::num(route) + " mode=" + conv::mode_name((ref::Mode)m) + (inf.takes_l1flag ? (fl ? " no-substitution" : " substitution") : "");
                    if (o.kind != 0) return name + " rejects Latin-1 text: " + o.what;
                    if (o.out != want || o.reported_size != want.size()) return mismatch(name.c_str(), o.out, want);
                    if (!o.terminated) return name + ": result not NUL-terminated";
                }
            }
    }
    const std::string s(bytes.begin(), bytes.end());
    const ST::string str = ST::string::from_latin_1(s.data(), s.size());
    EXPECT_UNITS("from_latin_1 -> to_std_string(false)", str.to_std_string(false), l1);
    EXPECT_UNITS("from_latin_1 -> to_std_string(false,false)", str.to_std_string(false, false), l1);
    EXPECT_UNITS("from_latin_1 -> to_buffer(latin1)", [&] { ST::char_buffer o; str.to_buffer(o, false); return o.to_std_string(); }(), l1);
    return std::string();
}

std::string show_scalars(const std::vector<uint32_t> &sc) {
    std::string s; char tmp[16];
    for (size_t i = 0; i < sc.size() && i < 24; i++) { snprintf(tmp, sizeof tmp, "U+%04X", sc[i]); if (i) s += ' '; s += tmp; }
    if (sc.size() > 24) s += " ..(" + verif::unum(sc.size()) + " scalars)";
    return s;
}

}  // namespace

int verif_case(const uint8_t *data, size_t size, Case &c) {
    verif::Reader r(data, size, c);
    uint8_t first = r.u8();
    long ncalls = 0;
    std::string why;
    if (first == 0xFE) {                       // directed Latin-1 bytes
        std::vector<uint8_t> b; while (!r.exhausted()) b.push_back(r.u8());
        c.label("latin1-directed"); c.nontrivial = !b.empty();
        why = latin1_routes(b, ncalls);
        if (c.want_text) c.text = "C01 latin-1 bytes " + verif::units(b.data(), b.size(), 24) + " -> " + verif::num(ncalls) + " routes";
    } else if (first != 0xFF && (first & 7) == 7) {             // generated Latin-1 bytes
        std::vector<uint8_t> b; size_t n = r.flag() ? r.range(0, 40) : r.range(0, 300);
        for (size_t i = 0; i < n; i++) b.push_back(r.u8());
        c.label("latin1"); bool hi = false; for (uint8_t x : b) if (x >= 0x80) hi = true;
        c.nontrivial = hi;
        why = latin1_routes(b, ncalls);
        if (c.want_text) c.text = "C01 latin-1 bytes " + verif::units(b.data(), b.size(), 24) + " -> " + verif::num(ncalls) + " routes";
    } else {
        std::vector<uint32_t> sc;
        if (first == 0xFF) { while (!r.exhausted()) { uint32_t v = r.bits32(); if (ref::is_scalar(v)) sc.push_back(v); } c.label("directed"); }
        else { sc = ugen::scalars(r, 300); c.label("scalars"); }
        size_t widths[5] = {0, 0, 0, 0, 0};
        for (uint32_t v : sc) widths[v < 0x80 ? 1 : v < 0x800 ? 2 : v < 0x10000 ? 3 : 4]++;
        c.nontrivial = widths[2] + widths[3] + widths[4] > 0;
        if (widths[2]) c.label("has-2-byte"); if (widths[3]) c.label("has-3-byte"); if (widths[4]) c.label("has-4-byte/surrogate-pair");
        if (sc.size() >= 12 && sc.size() <= 17) c.label("length-at-small-buffer-limit");
        if (sc.size() > 200) c.label("long");
        why = all_routes(sc, ncalls);
        if (c.want_text) c.text = "C01 " + show_scalars(sc) + " -> " + verif::num(ncalls) + " route x mode calls all equal to the reference encodings";
    }
    if (!why.empty()) return c.fail(why);
    return verif::CASE_OK;
}

// ------------------------------------------------------------------------------------------
// Lean enumerator: no std::vector on the hot path.
namespace {
struct Enc3 { char u8[16]; size_t n8; char16_t u16[8]; size_t n16; char32_t u32[4]; size_t n32; };
inline void enc3(const uint32_t *sc, size_t n, Enc3 &e) {
    e.n8 = e.n16 = e.n32 = 0;
    for (size_t i = 0; i < n; i++) {
        Units a, b; ref::encode_one(ref::UTF8, sc[i], a); ref::encode_one(ref::UTF16, sc[i], b);
        for (uint32_t x : a) e.u8[e.n8++] = (char)x;
        for (uint32_t x : b) e.u16[e.n16++] = (char16_t)x;
        e.u32[e.n32++] = sc[i];
    }
}
template <class B, class T> inline bool same(const B &b, const T *want, size_t n) {
    if (b.size() != n) return false;
    for (size_t i = 0; i < n; i++) if (b.data()[i] != (typename B::value_type)want[i]) return false;
    return b.data()[n] == 0;
}
const char *lean_check(const Enc3 &e) {
    const ST::utf_validation_t modes[3] = {ST::assume_valid, ST::substitute_invalid, ST::check_validity};
    const wchar_t *w32 = reinterpret_cast<const wchar_t *>(e.u32);
    for (ST::utf_validation_t M : modes) {
        if (!same(ST::utf8_to_utf16(e.u8, e.n8, M), e.u16, e.n16)) return "utf8_to_utf16";
        if (!same(ST::utf8_to_utf32(e.u8, e.n8, M), e.u32, e.n32)) return "utf8_to_utf32";
        if (!same(ST::utf16_to_utf8(e.u16, e.n16, M), e.u8, e.n8)) return "utf16_to_utf8";
        if (!same(ST::utf16_to_utf32(e.u16, e.n16, M), e.u32, e.n32)) return "utf16_to_utf32";
        if (!same(ST::utf32_to_utf8(e.u32, e.n32, M), e.u8, e.n8)) return "utf32_to_utf8";
        if (!same(ST::utf32_to_utf16(e.u32, e.n32, M), e.u16, e.n16)) return "utf32_to_utf16";
        if (!same(ST::utf8_to_wchar(e.u8, e.n8, M), e.u32, e.n32)) return "utf8_to_wchar";
        if (!same(ST::utf16_to_wchar(e.u16, e.n16, M), e.u32, e.n32)) return "utf16_to_wchar";
        if (!same(ST::utf32_to_wchar(e.u32, e.n32, M), e.u32, e.n32)) return "utf32_to_wchar";
        if (!same(ST::wchar_to_utf8(w32, e.n32, M), e.u8, e.n8)) return "wchar_to_utf8";
        if (!same(ST::wchar_to_utf16(w32, e.n32, M), e.u16, e.n16)) return "wchar_to_utf16";
        if (!same(ST::wchar_to_utf32(w32, e.n32, M), e.u32, e.n32)) return "wchar_to_utf32";
        { ST::string s(e.u8, e.n8, M); if (s.size() != e.n8 || memcmp(s.c_str(), e.u8, e.n8) != 0 || s.c_str()[e.n8]) return "ST::string(utf8)"; }
        { ST::string s = ST::string::from_utf16(e.u16, e.n16, M); if (s.size() != e.n8 || memcmp(s.c_str(), e.u8, e.n8) != 0) return "from_utf16"; }
        { ST::string s = ST::string::from_utf32(e.u32, e.n32, M); if (s.size() != e.n8 || memcmp(s.c_str(), e.u8, e.n8) != 0) return "from_utf32"; }
    }
    ST::string s = ST::string::from_validated(e.u8, e.n8);
    if (!same(s.to_utf16(), e.u16, e.n16)) return "ST::string::to_utf16";
    if (!same(s.to_utf32(), e.u32, e.n32)) return "ST::string::to_utf32";
    if (!same(s.to_wchar(), e.u32, e.n32)) return "ST::string::to_wchar";
    return nullptr;
}
}  // namespace

long verif_enumerate(int shard, int nshards, int tier, verif::EnumReport &r) {
    static const uint32_t nb[4] = {0x41, 0xE9, 0x20AC, 0x1F600};
    const int ncontexts = tier ? 13 : 1;
    uint8_t cur[16];
    // scalars are split into 4096-value blocks across shards
    for (uint32_t block = (uint32_t)shard; block < 0x110000 / 4096; block += (uint32_t)nshards) {
        for (uint32_t cpt = block * 4096; cpt < (block + 1) * 4096; cpt++) {
            if (!ref::is_scalar(cpt)) continue;
            for (int ctx = 0; ctx < ncontexts; ctx++) {
                uint32_t sc[3]; size_t n = 0;
                if (ctx == 0) { sc[n++] = cpt; }
                else { int k = (ctx - 1) / 3, pos = (ctx - 1) % 3;          // neighbour k; 0: c before nb, 1: c after nb, 2: c between two nb
                    if (pos == 0) { sc[n++] = cpt; sc[n++] = nb[k]; } else if (pos == 1) { sc[n++] = nb[k]; sc[n++] = cpt; } else { sc[n++] = nb[k]; sc[n++] = cpt; sc[n++] = nb[k]; } }
                cur[0] = 0xFF; for (size_t i = 0; i < n; i++) for (int b = 0; b < 4; b++) cur[1 + 4 * i + b] = (uint8_t)(sc[i] >> (8 * b));
                verif::set_current(cur, 1 + 4 * n);
                Enc3 e; enc3(sc, n, e);
                const char *bad = nullptr;
                try { bad = lean_check(e); } catch (...) { static std::string ex; ex = verif::describe_current_exception(); bad = ex.c_str(); }
                r.evaluations++;
                if (cpt >= 0x80) r.nontrivial++;
                if (bad) {
                    r.failure = std::string(bad) + " disagrees with the standard encoding"; std::vector<uint32_t> v(sc, sc + n);
                    r.failing_case = "C01 " + show_scalars(v); r.failing_bytes.assign(cur, cur + 1 + 4 * n); return r.evaluations;
                }
                if (r.want_sample() && ctx == ncontexts - 1 && (cpt % 0x2FFF) == 0x20AC % 0x2FFF) { std::vector<uint32_t> v(sc, sc + n); r.samples.push_back("C01 [enumerated] " + show_scalars(v)); }
            }
        }
    }
    // Latin-1: all single bytes and all ordered pairs (pairs split over shards by first byte)
    for (int a = shard; a < 256; a += nshards) {
        long nc = 0;
        std::vector<uint8_t> one{(uint8_t)a};
        uint8_t d1[2] = {0xFE, (uint8_t)a}; verif::set_current(d1, 2);
        std::string why = latin1_routes(one, nc);
        r.evaluations++; r.nontrivial++;
        for (int b = 0; b < 256 && why.empty(); b++) {
            std::vector<uint8_t> two{(uint8_t)a, (uint8_t)b};
            uint8_t d2[3] = {0xFE, (uint8_t)a, (uint8_t)b}; verif::set_current(d2, 3);
            why = latin1_routes(two, nc);
            r.evaluations++; r.nontrivial++;
            if (!why.empty()) { r.failure = why; r.failing_case = "C01 latin-1 bytes " + verif::units(two.data(), (size_t)2); r.failing_bytes.assign(d2, d2 + 3); return r.evaluations; }
        }
        if (!why.empty()) { r.failure = why; r.failing_case = "C01 latin-1 byte " + verif::units(one.data(), (size_t)1); r.failing_bytes.assign(d1, d1 + 2); return r.evaluations; }
    }
    if (shard == 0) {
        r.exhausted.push_back(std::string("all 1,112,064 Unicode scalar values ") + (tier ? "in 13 contexts (alone; before/after/between U+0041, U+00E9, U+20AC, U+1F600)" : "alone") +
                              " through 15 conversions x 3 modes + 3 ST::string::to_* members");
        r.exhausted.push_back("all 256 Latin-1 bytes and all 65,536 ordered pairs through every Latin-1 conversion (both directions, all routes, modes, substitution flags)");
    }
    return r.evaluations;
}

void verif_corpus(std::vector<std::vector<uint8_t>> &out) {
    auto directed = [&](std::initializer_list<uint32_t> us) { std::vector<uint8_t> v{0xFF}; for (uint32_t u : us) for (int b = 0; b < 4; b++) v.push_back((uint8_t)(u >> (8 * b))); out.push_back(v); };
    directed({0x41, 0xE9, 0x20AC, 0x1F600, 0x10FFFF, 0xD7FF, 0xE000, 0xFFFF, 0x10000, 0x7F, 0x80, 0x7FF, 0x800});
    out.push_back({0xFE, 0x00, 0x7F, 0x80, 0xFF, 0xE9});
}
