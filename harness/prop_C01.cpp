// C01: well-formed text transcodes losslessly and to the standard encoding, by every public route.
#include "gen/conv_calls.h"
#include "gen/conv_calls_ext.h"
#include "gen/unit_gen.h"
#include "gen/long_gen.h"

#include <string>
#include <string_view>
#include <sstream>
#include <string_theory/iostream>
#include <string_theory/format>

using verif::Case;
using ref::Units;

const verif::Info verif_info = {
    "C01", 900,
    "enumerated: every Unicode scalar value (1,112,064) alone (quick) and in 13 contexts - alone, before/after/between a 1-,2-,3-,4-byte neighbour "
    "(thorough) - through the 6 UTF<->UTF free functions x 3 modes, the wchar_t aliases and ST::string from_*/to_*; all 256 Latin-1 bytes and all 65,536 "
    "ordered pairs to every UTF form and back; a grid of long texts (runs of one identical 2-/3-/4-byte or Latin-1 high character, 256 Ki..320 Ki units of "
    "each anchor encoding and one off; up to 1 Mi and mixed patterns in the thorough tier) through every conversion pair; 16 compiled-in literals in every "
    "literal form (ST_LITERAL, ST_CHAR/WCHAR/UTF16/UTF32_LITERAL, _st, _stbuf with each prefix; embedded and trailing NULs). Generated: scalar sequences of "
    "0..300 values (boundary-biased: 0,7F/80,7FF/800,D7FF/E000,FFFF/10000,10FFFF; lengths around the small-buffer limits and 256) through every public "
    "route - pointer+length, buffer, char8_t, std::basic_string and string_view constructors/set/operator=/from_std_string, from_*/to_* members, "
    "to_std_*string, to_buffer, literal operators - in all three modes, then the extended routes of one source encoding (gen/conv_calls_ext.h): calls "
    "omitting the mode, C-string (ST_AUTO_SIZE) overloads of every width incl. char8_t, set_validated/from_validated (all overloads), std::filesystem::path "
    "in and out, caller-supplied-output overloads (to_buffer / to_std_string of every type) on pre-filled targets, the deprecated utf_validation_t "
    "overloads, view()/view(start,length) of strings and buffers, ST::null forms, targets in ten pre-states (default, short, heap, moved-from, nulled, "
    "cleared, at the small-string limit), operator+ / operator+= with C strings and single char/wchar_t/char16_t/char32_t on either side, the text "
    "rebuilt character by character, and set()/operator=/+= from pointers and views into the target itself (a scalar-aligned slice) in all three modes; "
    "first byte 0xFD: long texts (pattern repeated to an exact multiple of 1 Ki..1 Mi units or one off). Oracle: exact equality of code units with the "
    "reference standard encoding of the same scalar sequence, size and terminator. Non-trivial: the sequence contains a scalar >= U+0080.",
    true, "exploration"};

namespace {

template <class T> std::vector<T> typed(const Units &u) { std::vector<T> v; for (uint32_t x : u) v.push_back((T)x); return v; }
template <class S> Units as_units(const S &s) { Units u; for (auto ch : s) u.push_back((uint32_t)(typename std::make_unsigned<typename S::value_type>::type)ch); return u; }
Units as_units(const ST::string &s) { Units u; for (size_t i = 0; i < s.size(); i++) u.push_back((uint8_t)s.c_str()[i]); return u; }

std::string mismatch(const char *route, const Units &got, const Units &want) {
    return std::string(route) + " gives " + verif::units(got, 32) + ", the standard encoding is " + verif::units(want, 32);
}

#define EXPECT_UNITS(route, expr, want) \
    do { Units got__; try { got__ = as_units(expr); } catch (...) { return std::string(route) + ": " + verif::describe_current_exception(); } \
         ncalls++; if (got__ != (want)) return mismatch(route, got__, want); } while (0)
#define EXPECT_STR(route, expr) \
    do { try { const ST::string &s__ = (expr); Units got__ = as_units(s__); ncalls++; if (got__ != u8) return mismatch(route, got__, u8); \
               if (s__.c_str()[s__.size()] != 0) return std::string(route) + ": result not NUL-terminated"; } \
         catch (...) { return std::string(route) + ": " + verif::describe_current_exception(); } } while (0)

// Every public route for one scalar sequence.  Returns "" or the first disagreement.
std::string all_routes(const std::vector<uint32_t> &scalars, long &ncalls) {
    const Units u8 = ref::encode(ref::UTF8, scalars), u16 = ref::encode(ref::UTF16, scalars), u32 = ref::encode(ref::UTF32, scalars);
    // 1. the uniform conversion layer: 12 pairs, wchar_t aliases, ST::string in/out, every overload route, 3 modes
    for (int ci = 0; ci < conv::NCONV; ci++) {
        conv::Conv c = (conv::Conv)ci;
        const conv::ConvInfo &inf = conv::info(c);
        if (inf.from == ref::LATIN1 || inf.to == ref::LATIN1) continue;      // Latin-1 legs are checked below on byte strings
        const Units &src = inf.from == ref::UTF8 ? u8 : inf.from == ref::UTF16 ? u16 : u32;
        const Units &want = inf.to == ref::UTF8 ? u8 : inf.to == ref::UTF16 ? u16 : u32;
        for (int route = 0; route < inf.nroutes; route++)
            for (int m = 0; m < 3; m++) {
                if (!inf.takes_mode && m != 2) continue;
                conv::Outcome o = conv::run(c, route, (ref::Mode)m, true, src, false);
                ncalls++;
                if (o.kind != 0) return std::string(inf.name) + " route " + verif::num(route) + " mode=" + conv::mode_name((ref::Mode)m) + " rejects well-formed input: " + o.what;
                if (o.out != want || o.reported_size != want.size()) return mismatch((std::string(inf.name) + " route " + verif::num(route) + " mode=" + conv::mode_name((ref::Mode)m)).c_str(), o.out, want);
                if (!o.terminated) return std::string(inf.name) + ": result not NUL-terminated";
            }
    }
    // 2. STL string / string_view / C-string / literal-operator routes into ST::string (3 modes where a mode exists)
    std::vector<char> v8 = typed<char>(u8); std::vector<char16_t> v16 = typed<char16_t>(u16); std::vector<char32_t> v32 = typed<char32_t>(u32); std::vector<wchar_t> vw = typed<wchar_t>(u32);
    const std::string s8(v8.begin(), v8.end()); const std::u16string s16(v16.begin(), v16.end()); const std::u32string s32(v32.begin(), v32.end()); const std::wstring sw(vw.begin(), vw.end());
    const std::u8string su8(reinterpret_cast<const char8_t *>(s8.data()), s8.size());
    const std::string_view sv8(s8); const std::u16string_view sv16(s16); const std::u32string_view sv32(s32); const std::wstring_view svw(sw); const std::u8string_view svu8(su8);
    const ST::utf_validation_t modes[3] = {ST::assume_valid, ST::substitute_invalid, ST::check_validity};
    for (ST::utf_validation_t M : modes) {
        EXPECT_STR("ST::string(std::string)", ST::string(s8, M));
        EXPECT_STR("ST::string(std::u16string)", ST::string(s16, M));
        EXPECT_STR("ST::string(std::u32string)", ST::string(s32, M));
        EXPECT_STR("ST::string(std::wstring)", ST::string(sw, M));
        EXPECT_STR("ST::string(std::u8string)", ST::string(su8, M));
        EXPECT_STR("ST::string(std::string_view)", ST::string(sv8, M));
        EXPECT_STR("ST::string(std::u16string_view)", ST::string(sv16, M));
        EXPECT_STR("ST::string(std::u32string_view)", ST::string(sv32, M));
        EXPECT_STR("ST::string(std::wstring_view)", ST::string(svw, M));
        EXPECT_STR("ST::string(std::u8string_view)", ST::string(svu8, M));
        EXPECT_STR("ST::string(const char8_t*,len)", ST::string(su8.data(), su8.size(), M));
        EXPECT_STR("set(std::string)", [&] { ST::string t("x"); t.set(s8, M); return t; }());
        EXPECT_STR("set(std::u16string)", [&] { ST::string t("x"); t.set(s16, M); return t; }());
        EXPECT_STR("set(std::u32string)", [&] { ST::string t("x"); t.set(s32, M); return t; }());
        EXPECT_STR("set(std::wstring)", [&] { ST::string t("x"); t.set(sw, M); return t; }());
        EXPECT_STR("set(std::u8string)", [&] { ST::string t("x"); t.set(su8, M); return t; }());
        EXPECT_STR("set(std::string_view)", [&] { ST::string t("x"); t.set(sv8, M); return t; }());
        EXPECT_STR("set(std::u16string_view)", [&] { ST::string t("x"); t.set(sv16, M); return t; }());
        EXPECT_STR("set(std::u32string_view)", [&] { ST::string t("x"); t.set(sv32, M); return t; }());
        EXPECT_STR("set(std::wstring_view)", [&] { ST::string t("x"); t.set(svw, M); return t; }());
        EXPECT_STR("set(const char8_t*,len)", [&] { ST::string t("x"); t.set(su8.data(), su8.size(), M); return t; }());
        EXPECT_STR("set(utf16_buffer)", [&] { ST::string t("x"); t.set(ST::utf16_buffer(s16.data(), s16.size()), M); return t; }());
        EXPECT_STR("set(utf32_buffer)", [&] { ST::string t("x"); t.set(ST::utf32_buffer(s32.data(), s32.size()), M); return t; }());
        EXPECT_STR("set(wchar_buffer)", [&] { ST::string t("x"); t.set(ST::wchar_buffer(sw.data(), sw.size()), M); return t; }());
        EXPECT_STR("set(char_buffer)", [&] { ST::string t("x"); t.set(ST::char_buffer(s8.data(), s8.size()), M); return t; }());
        EXPECT_STR("from_std_string(std::string)", ST::string::from_std_string(s8, M));
        EXPECT_STR("from_std_string(std::u16string)", ST::string::from_std_string(s16, M));
        EXPECT_STR("from_std_string(std::u32string)", ST::string::from_std_string(s32, M));
        EXPECT_STR("from_std_string(std::wstring)", ST::string::from_std_string(sw, M));
        EXPECT_STR("from_std_wstring(std::wstring)", ST::string::from_std_wstring(sw, M));
        EXPECT_STR("from_std_string(std::u8string)", ST::string::from_std_string(su8, M));
        EXPECT_STR("from_std_string(std::string_view)", ST::string::from_std_string(sv8, M));
        EXPECT_STR("from_std_string(std::u16string_view)", ST::string::from_std_string(sv16, M));
        EXPECT_STR("from_std_string(std::u32string_view)", ST::string::from_std_string(sv32, M));
        EXPECT_STR("from_std_string(std::wstring_view)", ST::string::from_std_string(svw, M));
        EXPECT_STR("from_std_wstring(std::wstring_view)", ST::string::from_std_wstring(svw, M));
        EXPECT_STR("from_utf8(const char8_t*,len)", ST::string::from_utf8(su8.data(), su8.size(), M));
    }
    EXPECT_STR("operator=(std::string)", [&] { ST::string t; t = s8; return t; }());
    EXPECT_STR("operator=(std::u16string)", [&] { ST::string t; t = s16; return t; }());
    EXPECT_STR("operator=(std::u32string)", [&] { ST::string t; t = s32; return t; }());
    EXPECT_STR("operator=(std::wstring)", [&] { ST::string t; t = sw; return t; }());
    EXPECT_STR("operator=(std::u8string)", [&] { ST::string t; t = su8; return t; }());
    EXPECT_STR("operator=(std::string_view)", [&] { ST::string t; t = sv8; return t; }());
    EXPECT_STR("operator=(std::u16string_view)", [&] { ST::string t; t = sv16; return t; }());
    EXPECT_STR("operator=(std::u32string_view)", [&] { ST::string t; t = sv32; return t; }());
    EXPECT_STR("operator=(std::wstring_view)", [&] { ST::string t; t = svw; return t; }());
    EXPECT_STR("operator=(char_buffer)", [&] { ST::string t; t = ST::char_buffer(s8.data(), s8.size()); return t; }());
    EXPECT_STR("operator=(utf16_buffer)", [&] { ST::string t; t = ST::utf16_buffer(s16.data(), s16.size()); return t; }());
    EXPECT_STR("operator=(utf32_buffer)", [&] { ST::string t; t = ST::utf32_buffer(s32.data(), s32.size()); return t; }());
    EXPECT_STR("operator=(wchar_buffer)", [&] { ST::string t; t = ST::wchar_buffer(sw.data(), sw.size()); return t; }());
    EXPECT_STR("from_validated(ptr,len)", ST::string::from_validated(s8.data(), s8.size()));
    EXPECT_STR("from_validated(char_buffer)", ST::string::from_validated(ST::char_buffer(s8.data(), s8.size())));
    {
        using namespace ST::literals;
        EXPECT_STR("operator\"\"_st(char)", operator""_st(s8.data(), s8.size()));
        EXPECT_STR("operator\"\"_st(char16_t)", operator""_st(s16.data(), s16.size()));
        EXPECT_STR("operator\"\"_st(char32_t)", operator""_st(s32.data(), s32.size()));
        EXPECT_STR("operator\"\"_st(wchar_t)", operator""_st(sw.data(), sw.size()));
        EXPECT_STR("operator\"\"_st(char8_t)", operator""_st(su8.data(), su8.size()));
        EXPECT_UNITS("operator\"\"_stbuf(char16_t)", operator""_stbuf(s16.data(), s16.size()).to_std_string(), u16);
        EXPECT_UNITS("operator\"\"_stbuf(char32_t)", operator""_stbuf(s32.data(), s32.size()).to_std_string(), u32);
    }
    // C-string routes (ST_AUTO_SIZE): only when the text has no embedded NUL
    bool has_nul = false; for (uint32_t v : scalars) if (v == 0) has_nul = true;
    if (!has_nul) {
        EXPECT_STR("ST::string(const char*)", ST::string(s8.c_str()));
        EXPECT_STR("ST::string(const char16_t*)", ST::string(s16.c_str()));
        EXPECT_STR("ST::string(const char32_t*)", ST::string(s32.c_str()));
        EXPECT_STR("ST::string(const wchar_t*)", ST::string(sw.c_str()));
        EXPECT_STR("operator=(const char*)", [&] { ST::string t; t = s8.c_str(); return t; }());
        EXPECT_STR("operator=(const char16_t*)", [&] { ST::string t; t = s16.c_str(); return t; }());
        EXPECT_STR("operator=(const char32_t*)", [&] { ST::string t; t = s32.c_str(); return t; }());
        EXPECT_STR("operator=(const wchar_t*)", [&] { ST::string t; t = sw.c_str(); return t; }());
        EXPECT_STR("from_utf16(cstr)", ST::string::from_utf16(s16.c_str()));
        EXPECT_STR("from_utf32(cstr)", ST::string::from_utf32(s32.c_str()));
        EXPECT_STR("from_wchar(cstr)", ST::string::from_wchar(sw.c_str()));
        EXPECT_STR("from_utf8(cstr)", ST::string::from_utf8(s8.c_str()));
    }
    // 3. out of ST::string
    const ST::string str = ST::string::from_validated(s8.data(), s8.size());
    EXPECT_UNITS("to_utf8()", str.to_utf8().to_std_string(), u8);
    EXPECT_UNITS("to_std_string()", str.to_std_string(), u8);
    EXPECT_UNITS("to_std_wstring()", str.to_std_wstring(), u32);
    EXPECT_UNITS("to_std_u16string()", str.to_std_u16string(), u16);
    EXPECT_UNITS("to_std_u32string()", str.to_std_u32string(), u32);
    EXPECT_UNITS("to_std_u8string()", str.to_std_u8string(), u8);
    EXPECT_UNITS("to_std_string(std::wstring&)", [&] { std::wstring o; str.to_std_string(o); return o; }(), u32);
    EXPECT_UNITS("to_std_string(std::u16string&)", [&] { std::u16string o; str.to_std_string(o); return o; }(), u16);
    EXPECT_UNITS("to_std_string(std::u32string&)", [&] { std::u32string o; str.to_std_string(o); return o; }(), u32);
    EXPECT_UNITS("to_std_string(std::string&)", [&] { std::string o; str.to_std_string(o); return o; }(), u8);
    EXPECT_UNITS("to_buffer(char_buffer&)", [&] { ST::char_buffer o; str.to_buffer(o); return o.to_std_string(); }(), u8);
    EXPECT_UNITS("view()", std::string(str.view()), u8);
    // 4. a chain 8 -> 16 -> 32 -> wchar -> 8 returns the original units
    EXPECT_UNITS("chain utf8->utf16->utf32->wchar->utf8",
                 ST::wchar_to_utf8(ST::utf32_to_wchar(ST::utf16_to_utf32(ST::utf8_to_utf16(s8.data(), s8.size())))).to_std_string(), u8);
    return std::string();
}

// Latin-1: every byte string converted to any UTF form and back is unchanged, and the UTF form is the standard encoding of U+00xx
std::string latin1_routes(const std::vector<uint8_t> &bytes, long &ncalls) {
    std::vector<uint32_t> scalars(bytes.begin(), bytes.end());
    const Units l1(bytes.begin(), bytes.end());
    const Units u8 = ref::encode(ref::UTF8, scalars), u16 = ref::encode(ref::UTF16, scalars), u32 = ref::encode(ref::UTF32, scalars);
    for (int ci = 0; ci < conv::NCONV; ci++) {
        conv::Conv c = (conv::Conv)ci;
        const conv::ConvInfo &inf = conv::info(c);
        if (inf.from != ref::LATIN1 && inf.to != ref::LATIN1) continue;
        const Units &src = inf.from == ref::LATIN1 ? l1 : inf.from == ref::UTF8 ? u8 : inf.from == ref::UTF16 ? u16 : u32;
        const Units &want = inf.to == ref::LATIN1 ? l1 : inf.to == ref::UTF8 ? u8 : inf.to == ref::UTF16 ? u16 : u32;
        for (int route = 0; route < inf.nroutes; route++)
            for (int m = 0; m < 3; m++) {
                if (!inf.takes_mode && m != 2) continue;
                for (int fl = 0; fl < 2; fl++) {
                    if (!inf.takes_l1flag && fl) continue;
                    conv::Outcome o = conv::run(c, route, (ref::Mode)m, fl == 0, src, false);
                    ncalls++;
                    std::string name = std::string(inf.name) + " route " + verif::num(route) + " mode=" + conv::mode_name((ref::Mode)m) + (inf.takes_l1flag ? (fl ? " no-substitution" : " substitution") : "");
                    if (o.kind != 0) return name + " rejects Latin-1 text: " + o.what;
                    if (o.out != want || o.reported_size != want.size()) return mismatch(name.c_str(), o.out, want);
                    if (!o.terminated) return name + ": result not NUL-terminated";
                }
            }
    }
    const std::string s(bytes.begin(), bytes.end());
    const ST::string str = ST::string::from_latin_1(s.data(), s.size());
    EXPECT_UNITS("from_latin_1 -> to_std_string(false)", str.to_std_string(false), l1);
    EXPECT_UNITS("from_latin_1 -> to_std_string(false,false)", str.to_std_string(false, false), l1);
    EXPECT_UNITS("from_latin_1 -> to_buffer(latin1)", [&] { ST::char_buffer o; str.to_buffer(o, false); return o.to_std_string(); }(), l1);
    return std::string();
}

std::string show_scalars(const std::vector<uint32_t> &sc) {
    std::string s; char tmp[16];
    for (size_t i = 0; i < sc.size() && i < 24; i++) { snprintf(tmp, sizeof tmp, "U+%04X", sc[i]); if (i) s += ' '; s += tmp; }
    if (sc.size() > 24) s += " ..(" + verif::unum(sc.size()) + " scalars)";
    return s;
}


// ------------------------------------------------------------------------------------------
// Extended routes (gen/conv_calls_ext.h): C01's oracle for one reported call - exact reference units.
std::string judge01(const convx::Call &c) {
    const ref::Expect &e = *c.e;
    if (!c.verbatim && (e.has_offending || e.has_irregular)) return std::string();     // not well-formed text as seen by this entry point: C02's domain
    if (c.to == ref::LATIN1 && e.latin1_range) return std::string();                  // characters >= U+0100 to Latin-1: C02's domain
    if (c.o.kind != 0) return "rejects well-formed input: " + c.o.what;
    if (c.o.out != e.out || c.o.reported_size != e.out.size()) return "gives " + verif::units(c.o.out, 32) + " (size " + verif::unum(c.o.reported_size) + "), the standard encoding is " + verif::units(e.out, 32) + " (size " + verif::unum(e.out.size()) + ")";
    if (!c.o.terminated) return "result not NUL-terminated";
    return std::string();
}

bool eq_bytes(const ST::string &s, const Units &u8, size_t from, size_t count) {
    if (s.size() != count || s.c_str()[count] != 0) return false;
    for (size_t i = 0; i < count; i++) if ((uint8_t)s.c_str()[i] != u8[from + i]) return false;
    return true;
}

// Builds the text one character at a time with operator+= / operator+ (character on either side) of every character type.
std::string char_chain(const std::vector<uint32_t> &sc, const Units &u8, long &ncalls) {
    const size_t n = sc.size();
    std::vector<size_t> off(n + 1, 0);                       // UTF-8 offset of every scalar
    for (size_t i = 0; i < n; i++) off[i + 1] = off[i] + (sc[i] < 0x80 ? 1 : sc[i] < 0x800 ? 2 : sc[i] < 0x10000 ? 3 : 4);
    const size_t start = n > 20 ? n - 20 : 0;
    const std::string head; (void)head;
    std::vector<char> v8; for (uint32_t x : u8) v8.push_back((char)x);
    try {
        for (int variant = 0; variant < 4; variant++) {
            ST::string t = ST::string::from_validated(v8.data(), off[start]);
            for (size_t i = start; i < n; i++) {
                const uint32_t v = sc[i];
                switch (variant) {
                case 0: t += (char32_t)v; break;
                case 1: t += (wchar_t)v; break;
                case 2: if (v < 0x80) t = t + (char)v; else if (v < 0x10000) t = t + (char16_t)v; else t = t + (char32_t)v; break;
                default: if (v < 0x80) t += (char)v; else if (v < 0x10000) t += (char16_t)v; else t = t + (wchar_t)v; break;
                }
                ncalls++;
                if (!eq_bytes(t, u8, 0, off[i + 1])) return std::string("appending U+") + verif::units(&v, 1) + " with " + (variant == 0 ? "operator+=(char32_t)" : variant == 1 ? "operator+=(wchar_t)" : variant == 2 ? "operator+(ST::string,char/char16_t/char32_t)" : "operator+=(char/char16_t) / operator+(ST::string,wchar_t)") + " gives " + verif::units(as_units(t), 32) + ", the standard encoding is " + verif::units(Units(u8.begin(), u8.begin() + off[i + 1]), 32);
            }
        }
        const size_t stop = n < 20 ? n : 20;                  // prepend: build sc[0..stop) from the back
        for (int variant = 0; variant < 2; variant++) {
            ST::string t = ST::string::from_validated(v8.data() + off[stop], off[n] - off[stop]);
            for (size_t i = stop; i-- > 0;) {
                const uint32_t v = sc[i];
                if (variant == 0) t = (char32_t)v + t;
                else if (v < 0x80) t = (char)v + t; else if (v < 0x10000) t = (char16_t)v + t; else t = (wchar_t)v + t;
                ncalls++;
                if (!eq_bytes(t, u8, off[i], off[n] - off[i])) return std::string("prepending U+") + verif::units(&v, 1) + " with " + (variant == 0 ? "operator+(char32_t,ST::string)" : "operator+(char/char16_t/wchar_t,ST::string)") + " gives " + verif::units(as_units(t), 32) + ", the standard encoding is " + verif::units(Units(u8.begin() + off[i], u8.end()), 32);
            }
        }
        // ST::string + ST::string and += ST::string at every third split
        for (size_t i = 0; i <= n; i += 3) {
            ST::string a = ST::string::from_validated(v8.data(), off[i]), b = ST::string::from_validated(v8.data() + off[i], off[n] - off[i]);
            ST::string cat = a + b; ST::string acc(a); acc += b;
            ncalls += 2;
            if (!eq_bytes(cat, u8, 0, off[n]) || !eq_bytes(acc, u8, 0, off[n])) return "ST::string + ST::string / += ST::string split at scalar " + verif::unum(i) + " gives " + verif::units(as_units(cat), 32);
        }
    } catch (...) { return "character concatenation: " + verif::describe_current_exception(); }
    return std::string();
}

// Extended routes for one scalar sequence; [a,b) is a scalar range used for the slicing / aliasing calls.  Generated cases run the
// entry points of one source encoding (chosen by `sel`) plus the Latin-1 ones when the text is Latin-1; directed cases run all of them.
std::string more_routes(const std::vector<uint32_t> &sc, unsigned sel, size_t a, size_t b, bool all_encodings, long &ncalls) {
    const size_t n = sc.size();
    if (a > n) a = n; if (b > n) b = n; if (a > b) std::swap(a, b);
    bool latin = true; for (uint32_t v : sc) if (v >= 0x100) latin = false;
    const convx::Judge judge = judge01;
    for (int ei = 0; ei < 4; ei++) {
        const ref::Enc enc = (ref::Enc)ei;
        if (enc == ref::LATIN1 && !latin) continue;
        if (!all_encodings && enc != ref::LATIN1 && (unsigned)ei != (sel >> 2) % 3) continue;
        const Units u = ref::encode(enc, sc);
        convx::Params p; p.sel = sel + 3 * (unsigned)ei;
        p.k = ref::encode(enc, std::vector<uint32_t>(sc.begin(), sc.begin() + a)).size();
        p.len = ref::encode(enc, std::vector<uint32_t>(sc.begin() + a, sc.begin() + b)).size();
        p.null_empty = (sel & 0x40) != 0;
        std::string why = convx::for_each_ext(enc, u, p, judge, ncalls);
        if (!why.empty()) return why;
    }
    return char_chain(sc, ref::encode(ref::UTF8, sc), ncalls);
}

std::string lean_long(const std::vector<uint32_t> &sc, long &ncalls);      // defined with the lean enumerator below
std::string literal_case(unsigned idx, long &ncalls, std::string *text);   // compiled-in literals (ST_LITERAL, _st, _stbuf ...)
enum { kNumLiterals = 16 };

}  // namespace


// The long text pushed through the stream routes: ST::writef(stream, "{}", s) and stream << s for wchar_t / char16_t / char32_t
// std streams convert UTF-8 to the stream's units (possibly block by block); the units must be the standard encoding.
template <class CharT> std::string stream_route_one(const ST::string &s, const std::vector<uint32_t> &scalars, const char *name, long &ncalls) {
    ref::Units want = ref::encode(sizeof(CharT) == 2 ? ref::UTF16 : ref::UTF32, scalars);
    for (int form = 0; form < 2; form++) {
        std::basic_ostringstream<CharT> os;
        try { if (form == 0) ST::writef(os, "{}", s); else os << s; }
        catch (...) { return std::string(form == 0 ? "ST::writef(" : "operator<<(") + name + " stream) of well-formed text: " + verif::describe_current_exception(); }
        ncalls++;
        std::basic_string<CharT> got = os.str();
        bool same = got.size() == want.size();
        // (libstdc++ maps the char16_t unit FFFF to FFFD inside basic_stringbuf::overflow; either is accepted where FFFF is expected)
        for (size_t i = 0; same && i < got.size(); i++) if ((uint32_t)got[i] != want[i] && !(sizeof(CharT) == 2 && want[i] == 0xFFFF && (uint32_t)got[i] == 0xFFFD)) same = false;
        if (!same) { size_t k = 0; while (k < got.size() && k < want.size() && (uint32_t)got[k] == want[k]) k++;
            return std::string(form == 0 ? "ST::writef(" : "operator<<(") + name + " stream) wrote " + verif::unum(got.size()) + " units, the standard encoding has " + verif::unum(want.size()) + "; first difference at unit " + verif::unum(k); }
    }
    return std::string();
}
std::string stream_routes_long(const std::vector<uint32_t> &scalars, long &ncalls) {
    ref::Units u8 = ref::encode(ref::UTF8, scalars);
    std::string bytes(u8.begin(), u8.end());
    ST::string s = ST::string::from_validated(bytes.data(), bytes.size());
    std::string why = stream_route_one<wchar_t>(s, scalars, "wchar_t", ncalls);
    if (why.empty()) why = stream_route_one<char16_t>(s, scalars, "char16_t", ncalls);
    if (why.empty()) why = stream_route_one<char32_t>(s, scalars, "char32_t", ncalls);
    return why;
}

int verif_case(const uint8_t *data, size_t size, Case &c) {
    verif::Reader r(data, size, c);
    uint8_t first = r.u8();
    long ncalls = 0;
    std::string why;
    if (first == 0xFD) {                       // long text: a short pattern repeated to an exact total length (see gen/long_gen.h)
        ugen::LongText t = ugen::long_scalars(r);
        c.label("long-run"); c.label(t.size_label);
        size_t widths[5] = {0, 0, 0, 0, 0};
        for (uint32_t v : t.pattern) widths[v < 0x80 ? 1 : v < 0x800 ? 2 : v < 0x10000 ? 3 : 4]++;
        if (widths[2]) c.label("long-run-of-2-byte"); if (widths[3]) c.label("long-run-of-3-byte"); if (widths[4]) c.label("long-run-of-4-byte/surrogate-pair");
        bool latin = true; for (uint32_t v : t.pattern) if (v >= 0x100) latin = false;
        if (latin && widths[2]) c.label("long-run-of-latin1-high-bytes");
        if (t.pattern.size() == 1) c.label("long-run-identical");
        if (!t.scalars.empty() && t.scalars.back() >= 0x80) c.label("ends-in-multi-unit-character");
        if (t.total % 4096 == 0) c.label("length-multiple-of-4096"); else if ((t.total + 3) % 4096 <= 5) c.label("length-near-multiple-of-4096");
        c.nontrivial = widths[2] + widths[3] + widths[4] > 0;
        why = lean_long(t.scalars, ncalls);
        if (why.empty() && t.scalars.size() <= 70000) why = stream_routes_long(t.scalars, ncalls);      // UTF-8 -> wide units through ST::writef / operator<< on wide std streams
        if (c.want_text) {
            std::string pat; char tmp[16]; for (uint32_t v : t.pattern) { snprintf(tmp, sizeof tmp, "U+%04X ", v); pat += tmp; }
            c.text = "C01 long text: pattern " + pat + "repeated, " + verif::unum(t.total) + " " + conv::enc_name(t.anchor) + " units exactly (" + verif::unum(t.scalars.size()) + " scalars, ASCII filler " +
                     (t.pad_front ? "in front" : "behind") + ") -> " + verif::num(ncalls) + " conversions x modes equal to the reference encodings";
        }
    } else if (first == 0xFC) {                // compiled-in literals: ST_LITERAL / ST_*_LITERAL macros, "..."_st and "..."_stbuf of every prefix
        unsigned idx = r.u8() % kNumLiterals;
        c.label("literal"); c.nontrivial = idx >= 2;
        std::string text;
        why = literal_case(idx, ncalls, c.want_text ? &text : nullptr);
        if (c.want_text) c.text = "C01 literal #" + verif::unum(idx) + " " + text + " -> " + verif::num(ncalls) + " literal forms equal to the reference encodings";
    } else if (first == 0xFE || (first != 0xFF && (first & 7) == 7)) {      // Latin-1 bytes: directed, or generated
        std::vector<uint8_t> b;
        if (first == 0xFE) { while (!r.exhausted()) b.push_back(r.u8()); c.label("latin1-directed"); c.nontrivial = !b.empty(); }
        else {
            size_t n = r.flag() ? r.range(0, 40) : r.range(0, 300);
            for (size_t i = 0; i < n; i++) b.push_back(r.u8());
            c.label("latin1"); bool hi = false; for (uint8_t x : b) if (x >= 0x80) hi = true;
            c.nontrivial = hi;
        }
        why = latin1_routes(b, ncalls);
        if (why.empty()) {
            unsigned sel = r.u8(); size_t a = r.idx(b.size() + 1), e = r.idx(b.size() + 1);
            c.label("extended-routes");
            why = more_routes(std::vector<uint32_t>(b.begin(), b.end()), sel, a, e, first == 0xFE, ncalls);
        }
        if (c.want_text) c.text = "C01 latin-1 bytes " + verif::units(b.data(), b.size(), 24) + " -> " + verif::num(ncalls) + " routes";
    } else {
        std::vector<uint32_t> sc;
        if (first == 0xFF) { while (!r.exhausted()) { uint32_t v = r.bits32(); if (ref::is_scalar(v)) sc.push_back(v); } c.label("directed"); }
        else { sc = ugen::scalars(r, 300); c.label("scalars"); }
        size_t widths[5] = {0, 0, 0, 0, 0};
        for (uint32_t v : sc) widths[v < 0x80 ? 1 : v < 0x800 ? 2 : v < 0x10000 ? 3 : 4]++;
        c.nontrivial = widths[2] + widths[3] + widths[4] > 0;
        if (widths[2]) c.label("has-2-byte"); if (widths[3]) c.label("has-3-byte"); if (widths[4]) c.label("has-4-byte/surrogate-pair");
        if (sc.size() >= 12 && sc.size() <= 17) c.label("length-at-small-buffer-limit");
        if (sc.size() > 200) c.label("long");
        if (!sc.empty() && sc.back() >= 0x80) c.label("ends-in-multi-unit-character");
        why = all_routes(sc, ncalls);
        if (why.empty()) {
            // trailing bytes (after the existing layout): rotation of target pre-states and the scalar range used for slices / aliasing sources
            unsigned sel = first == 0xFF ? 0 : r.u8();
            size_t a = first == 0xFF ? (sc.size() > 1 ? 1 : 0) : r.idx(sc.size() + 1), e = first == 0xFF ? sc.size() : r.idx(sc.size() + 1);
            c.label("extended-routes");
            if (a != e && !(a == 0 && e == sc.size()) && !(e == 0 && a == sc.size())) c.label("aliasing-source-is-a-proper-slice");
            why = more_routes(sc, sel, a, e, first == 0xFF, ncalls);
        }
        if (c.want_text) c.text = "C01 " + show_scalars(sc) + " -> " + verif::num(ncalls) + " route x mode calls all equal to the reference encodings";
    }
    if (!why.empty()) return c.fail(why);
    return verif::CASE_OK;
}

// ------------------------------------------------------------------------------------------
// Lean enumerator: no std::vector on the hot path.
namespace {
struct Enc3 { char u8[16]; size_t n8; char16_t u16[8]; size_t n16; char32_t u32[4]; size_t n32; };
inline void enc3(const uint32_t *sc, size_t n, Enc3 &e) {
    e.n8 = e.n16 = e.n32 = 0;
    for (size_t i = 0; i < n; i++) {
        Units a, b; ref::encode_one(ref::UTF8, sc[i], a); ref::encode_one(ref::UTF16, sc[i], b);
        for (uint32_t x : a) e.u8[e.n8++] = (char)x;
        for (uint32_t x : b) e.u16[e.n16++] = (char16_t)x;
        e.u32[e.n32++] = sc[i];
    }
}
template <class B, class T> inline bool same(const B &b, const T *want, size_t n) {
    if (b.size() != n) return false;
    for (size_t i = 0; i < n; i++) if (b.data()[i] != (typename B::value_type)want[i]) return false;
    return b.data()[n] == 0;
}
const char *lean_check(const Enc3 &e) {
    const ST::utf_validation_t modes[3] = {ST::assume_valid, ST::substitute_invalid, ST::check_validity};
    const wchar_t *w32 = reinterpret_cast<const wchar_t *>(e.u32);
    for (ST::utf_validation_t M : modes) {
        if (!same(ST::utf8_to_utf16(e.u8, e.n8, M), e.u16, e.n16)) return "utf8_to_utf16";
        if (!same(ST::utf8_to_utf32(e.u8, e.n8, M), e.u32, e.n32)) return "utf8_to_utf32";
        if (!same(ST::utf16_to_utf8(e.u16, e.n16, M), e.u8, e.n8)) return "utf16_to_utf8";
        if (!same(ST::utf16_to_utf32(e.u16, e.n16, M), e.u32, e.n32)) return "utf16_to_utf32";
        if (!same(ST::utf32_to_utf8(e.u32, e.n32, M), e.u8, e.n8)) return "utf32_to_utf8";
        if (!same(ST::utf32_to_utf16(e.u32, e.n32, M), e.u16, e.n16)) return "utf32_to_utf16";
        if (!same(ST::utf8_to_wchar(e.u8, e.n8, M), e.u32, e.n32)) return "utf8_to_wchar";
        if (!same(ST::utf16_to_wchar(e.u16, e.n16, M), e.u32, e.n32)) return "utf16_to_wchar";
        if (!same(ST::utf32_to_wchar(e.u32, e.n32, M), e.u32, e.n32)) return "utf32_to_wchar";
        if (!same(ST::wchar_to_utf8(w32, e.n32, M), e.u8, e.n8)) return "wchar_to_utf8";
        if (!same(ST::wchar_to_utf16(w32, e.n32, M), e.u16, e.n16)) return "wchar_to_utf16";
        if (!same(ST::wchar_to_utf32(w32, e.n32, M), e.u32, e.n32)) return "wchar_to_utf32";
        { ST::string s(e.u8, e.n8, M); if (s.size() != e.n8 || memcmp(s.c_str(), e.u8, e.n8) != 0 || s.c_str()[e.n8]) return "ST::string(utf8)"; }
        { ST::string s = ST::string::from_utf16(e.u16, e.n16, M); if (s.size() != e.n8 || memcmp(s.c_str(), e.u8, e.n8) != 0) return "from_utf16"; }
        { ST::string s = ST::string::from_utf32(e.u32, e.n32, M); if (s.size() != e.n8 || memcmp(s.c_str(), e.u8, e.n8) != 0) return "from_utf32"; }
    }
    ST::string s = ST::string::from_validated(e.u8, e.n8);
    if (!same(s.to_utf16(), e.u16, e.n16)) return "ST::string::to_utf16";
    if (!same(s.to_utf32(), e.u32, e.n32)) return "ST::string::to_utf32";
    if (!same(s.to_wchar(), e.u32, e.n32)) return "ST::string::to_wchar";
    return nullptr;
}

// ---- long texts: typed exact-size heap arrays, every measure/convert pair, no per-unit std::vector on the library side
template <class B, class T> inline std::string diff(const char *what, const B &b, const T *want, size_t n) {
    if (b.size() != n) return std::string(what) + ": size() is " + verif::unum(b.size()) + ", the standard encoding has " + verif::unum(n) + " units";
    for (size_t i = 0; i < n; i++) if (b.data()[i] != (typename B::value_type)want[i])
        return std::string(what) + ": unit " + verif::unum(i) + " of " + verif::unum(n) + " is " + verif::units(&b.data()[i], 1) + ", the standard encoding has " + verif::units(&want[i], 1);
    if (b.data()[n] != 0) return std::string(what) + ": result not NUL-terminated";
    return std::string();
}
inline std::string diff(const char *what, const ST::string &s, const char *want, size_t n) {
    if (s.size() != n) return std::string(what) + ": size() is " + verif::unum(s.size()) + ", the standard encoding has " + verif::unum(n) + " units";
    if (memcmp(s.c_str(), want, n) != 0) { size_t i = 0; while (s.c_str()[i] == want[i]) i++; return std::string(what) + ": byte " + verif::unum(i) + " of " + verif::unum(n) + " differs from the standard encoding"; }
    if (s.c_str()[n] != 0) return std::string(what) + ": result not NUL-terminated";
    return std::string();
}
#define LEAN(what, expr, want, n) do { std::string d__ = diff(what, expr, want, n); ncalls++; if (!d__.empty()) return d__ + " [mode " + mname + "]"; } while (0)

std::string lean_long_inner(const std::vector<uint32_t> &sc, long &ncalls) {
    std::vector<char> v8; std::vector<char16_t> v16; std::vector<char32_t> v32; std::vector<char> vl1;
    v8.reserve(sc.size() * 2); v16.reserve(sc.size()); v32.reserve(sc.size());
    bool latin = true;
    for (uint32_t v : sc) {
        Units a, b; ref::encode_one(ref::UTF8, v, a); ref::encode_one(ref::UTF16, v, b);
        for (uint32_t x : a) v8.push_back((char)x);
        for (uint32_t x : b) v16.push_back((char16_t)x);
        v32.push_back((char32_t)v);
        if (v >= 0x100) latin = false;
    }
    if (latin) for (uint32_t v : sc) vl1.push_back((char)v);
    const verif::Exact<char> e8(v8.data(), v8.size()); const verif::Exact<char16_t> e16(v16.data(), v16.size()); const verif::Exact<char32_t> e32(v32.data(), v32.size());
    const verif::Exact<wchar_t> ew(reinterpret_cast<const wchar_t *>(v32.data()), v32.size()); const verif::Exact<char> el1(vl1.data(), vl1.size());
    const char *p8 = e8.data(); const char16_t *p16 = e16.data(); const char32_t *p32 = e32.data(); const wchar_t *pw = ew.data();
    const size_t n8 = e8.size(), n16 = e16.size(), n32 = e32.size();
    const ST::utf_validation_t modes[3] = {ST::assume_valid, ST::substitute_invalid, ST::check_validity};
    const char *mname = "";
    for (int m = 0; m < 3; m++) {
        const ST::utf_validation_t M = modes[m]; mname = conv::mode_name((ref::Mode)m);
        LEAN("utf8_to_utf16", ST::utf8_to_utf16(p8, n8, M), p16, n16);
        LEAN("utf8_to_utf32", ST::utf8_to_utf32(p8, n8, M), p32, n32);
        LEAN("utf8_to_wchar", ST::utf8_to_wchar(p8, n8, M), p32, n32);
        LEAN("utf16_to_utf8", ST::utf16_to_utf8(p16, n16, M), p8, n8);
        LEAN("utf16_to_utf32", ST::utf16_to_utf32(p16, n16, M), p32, n32);
        LEAN("utf16_to_wchar", ST::utf16_to_wchar(p16, n16, M), p32, n32);
        LEAN("utf32_to_utf8", ST::utf32_to_utf8(p32, n32, M), p8, n8);
        LEAN("utf32_to_utf16", ST::utf32_to_utf16(p32, n32, M), p16, n16);
        LEAN("utf32_to_wchar", ST::utf32_to_wchar(p32, n32, M), p32, n32);
        LEAN("wchar_to_utf8", ST::wchar_to_utf8(pw, n32, M), p8, n8);
        LEAN("wchar_to_utf16", ST::wchar_to_utf16(pw, n32, M), p16, n16);
        LEAN("wchar_to_utf32", ST::wchar_to_utf32(pw, n32, M), p32, n32);
        LEAN("ST::string(const char*,size,mode)", ST::string(p8, n8, M), p8, n8);
        LEAN("ST::string::from_utf16", ST::string::from_utf16(p16, n16, M), p8, n8);
        LEAN("ST::string::from_utf32", ST::string::from_utf32(p32, n32, M), p8, n8);
        LEAN("ST::string::from_wchar", ST::string::from_wchar(pw, n32, M), p8, n8);
        LEAN("set(std::string_view,mode)", [&] { ST::string t("x"); t.set(std::string_view(p8, n8), M); return t; }(), p8, n8);
        LEAN("set(utf16_buffer,mode)", [&] { ST::string t("x"); t.set(ST::utf16_buffer(p16, n16), M); return t; }(), p8, n8);
        if (latin) {
            for (int fl = 0; fl < 2; fl++) {
                LEAN("utf8_to_latin_1", ST::utf8_to_latin_1(p8, n8, M, fl == 0), el1.data(), n32);
                LEAN("utf16_to_latin_1", ST::utf16_to_latin_1(p16, n16, M, fl == 0), el1.data(), n32);
                LEAN("utf32_to_latin_1", ST::utf32_to_latin_1(p32, n32, M, fl == 0), el1.data(), n32);
                LEAN("wchar_to_latin_1", ST::wchar_to_latin_1(pw, n32, M, fl == 0), el1.data(), n32);
            }
        }
    }
    mname = "n/a";
    const ST::string s = ST::string::from_validated(p8, n8);
    LEAN("ST::string::from_validated", s, p8, n8);
    LEAN("ST::string::to_utf16", s.to_utf16(), p16, n16);
    LEAN("ST::string::to_utf32", s.to_utf32(), p32, n32);
    LEAN("ST::string::to_wchar", s.to_wchar(), p32, n32);
    LEAN("ST::string::to_utf8", s.to_utf8(), p8, n8);
    LEAN("ST::string::to_std_u16string", s.to_std_u16string(), p16, n16);
    LEAN("operator\"\"_st(char32_t)", ST::literals::operator""_st(p32, n32), p8, n8);
    LEAN("ST::string + ST::string", s + ST::string(), p8, n8);
    if (latin) {
        LEAN("latin_1_to_utf8", ST::latin_1_to_utf8(el1.data(), n32), p8, n8);
        LEAN("latin_1_to_utf16", ST::latin_1_to_utf16(el1.data(), n32), p16, n16);
        LEAN("latin_1_to_utf32", ST::latin_1_to_utf32(el1.data(), n32), p32, n32);
        LEAN("latin_1_to_wchar", ST::latin_1_to_wchar(el1.data(), n32), p32, n32);
        LEAN("latin_1_to_utf8(char_buffer)", ST::latin_1_to_utf8(ST::char_buffer(el1.data(), n32)), p8, n8);
        LEAN("ST::string::from_latin_1", ST::string::from_latin_1(el1.data(), n32), p8, n8);
        LEAN("ST::string::to_latin_1", s.to_latin_1(), el1.data(), n32);
        LEAN("ST::string::to_latin_1(false)", s.to_latin_1(false), el1.data(), n32);
        LEAN("ST::string::to_std_string(false)", s.to_std_string(false), el1.data(), n32);
    }
    return std::string();
}
std::string lean_long(const std::vector<uint32_t> &sc, long &ncalls) {
    try { return lean_long_inner(sc, ncalls); } catch (...) { return "long text rejected or failed: " + verif::describe_current_exception(); }
}

// ---- compiled-in literals ------------------------------------------------------------------
struct LitForms {
    const char *spelled; const char32_t *scalars; size_t n;
    ST::string st_literal; ST::char_buffer char_literal; ST::wchar_buffer wchar_literal; ST::utf16_buffer utf16_literal; ST::utf32_buffer utf32_literal;
    ST::string st, st8, st16, st32, stw;
    ST::char_buffer buf, buf8; ST::utf16_buffer buf16; ST::utf32_buffer buf32; ST::wchar_buffer bufw;
};
std::string check_literal(const LitForms &f, long &ncalls) {
    std::vector<uint32_t> sc(f.scalars, f.scalars + f.n);
    const Units u8 = ref::encode(ref::UTF8, sc), u16 = ref::encode(ref::UTF16, sc), u32 = ref::encode(ref::UTF32, sc);
    const std::string lit = std::string("literal ") + f.spelled + ": ";
#define LITCHK(what, obj, want) do { conv::Outcome o__; conv::capture(obj, o__); ncalls++; \
        if (o__.out != (want) || o__.reported_size != (want).size()) return lit + what + " gives " + verif::units(o__.out, 32) + " (size " + verif::unum(o__.reported_size) + "), the standard encoding is " + verif::units(want, 32) + " (size " + verif::unum((want).size()) + ")"; \
        if (!o__.terminated) return lit + what + " is not NUL-terminated"; } while (0)
    LITCHK("ST_LITERAL", f.st_literal, u8); LITCHK("ST_CHAR_LITERAL", f.char_literal, u8); LITCHK("ST_WCHAR_LITERAL", f.wchar_literal, u32);
    LITCHK("ST_UTF16_LITERAL", f.utf16_literal, u16); LITCHK("ST_UTF32_LITERAL", f.utf32_literal, u32);
    LITCHK("\"...\"_st", f.st, u8); LITCHK("u8\"...\"_st", f.st8, u8); LITCHK("u\"...\"_st", f.st16, u8); LITCHK("U\"...\"_st", f.st32, u8); LITCHK("L\"...\"_st", f.stw, u8);
    LITCHK("\"...\"_stbuf", f.buf, u8); LITCHK("u8\"...\"_stbuf", f.buf8, u8); LITCHK("u\"...\"_stbuf", f.buf16, u16); LITCHK("U\"...\"_stbuf", f.buf32, u32); LITCHK("L\"...\"_stbuf", f.bufw, u32);
    // and onwards from the literal objects
    LITCHK("ST_LITERAL(...).to_utf16()", f.st_literal.to_utf16(), u16); LITCHK("ST_LITERAL(...).to_utf32()", f.st_literal.to_utf32(), u32);
    LITCHK("ST::string(ST_UTF16_LITERAL(...))", ST::string(f.utf16_literal), u8); LITCHK("ST::string(ST_UTF32_LITERAL(...))", ST::string(f.utf32_literal), u8);
    LITCHK("ST::string(ST_WCHAR_LITERAL(...))", ST::string(f.wchar_literal), u8); LITCHK("ST::string(ST_CHAR_LITERAL(...))", ST::string(f.char_literal), u8);
    LITCHK("ST::string::from_utf16(u\"...\"_stbuf)", ST::string::from_utf16(f.buf16), u8);
#undef LITCHK
    return std::string();
}
#define LIT_FORMS(x) LitForms{#x, U"" x, sizeof(U"" x) / sizeof(char32_t) - 1, ST_LITERAL(x), ST_CHAR_LITERAL(x), ST_WCHAR_LITERAL(x), ST_UTF16_LITERAL(x), ST_UTF32_LITERAL(x), \
                              x##_st, u8"" x##_st, u"" x##_st, U"" x##_st, L"" x##_st, x##_stbuf, u8"" x##_stbuf, u"" x##_stbuf, U"" x##_stbuf, L"" x##_stbuf}
std::string literal_case(unsigned idx, long &ncalls, std::string *text) {
    using namespace ST::literals;
    try {
        switch (idx % kNumLiterals) {
#define LIT(i, x) { case i: if (text) *text = #x; return check_literal(LIT_FORMS(x), ncalls); }
        LIT(0, "")
        LIT(1, "a")
        LIT(2, "\0")
        LIT(3, "a\0b")
        LIT(4, "\0\0\0")
        LIT(5, "\u00e9")
        LIT(6, "a\0\u00e9")
        LIT(7, "\u20ac\0")
        LIT(8, "\U0001F600")
        LIT(9, "\U0010FFFF\0\U00010000")
        LIT(10, "0123456789abcdef")
        LIT(11, "0123456789abcde")
        LIT(12, "0123456789abcd\u00e9")
        LIT(13, "0123456789a\U0001F600")
        LIT(14, "\0" "0123456789abcdef0123456789abcdef0123456789abcdef\u00e9\u20ac\U0001F600")
        default: LIT(15, "\u00ff\u0100\u07ff\u0800\ud7ff\ue000\uffff\U00010000")
#undef LIT
        }
    } catch (...) { return "literal #" + verif::unum(idx) + ": " + verif::describe_current_exception(); }
}
static_assert(kNumLiterals == 16, "literal table size");

// one grid point of the long-text enumeration as an input of verif_case (first byte 0xFD; explicit length code 255)
std::vector<uint8_t> long_case_bytes(unsigned anchor, const std::vector<unsigned> &pattern_idx, uint32_t total, bool pad_front) {
    std::vector<uint8_t> b{0xFD, (uint8_t)anchor};
    b.push_back(pattern_idx.size() == 1 ? 0 : (uint8_t)(3 + 4 * (pattern_idx.size() - 2)));
    for (unsigned i : pattern_idx) b.push_back((uint8_t)i);
    b.push_back(255); for (int k = 0; k < 4; k++) b.push_back((uint8_t)(total >> (8 * k)));
    b.push_back(pad_front ? 0 : 1);
    return b;
}
}  // namespace

long verif_enumerate(int shard, int nshards, int tier, verif::EnumReport &r) {
    static const uint32_t nb[4] = {0x41, 0xE9, 0x20AC, 0x1F600};
    const int ncontexts = tier ? 13 : 1;
    uint8_t cur[16];
    // scalars are split into 4096-value blocks across shards
    for (uint32_t block = (uint32_t)shard; block < 0x110000 / 4096; block += (uint32_t)nshards) {
        for (uint32_t cpt = block * 4096; cpt < (block + 1) * 4096; cpt++) {
            if (!ref::is_scalar(cpt)) continue;
            for (int ctx = 0; ctx < ncontexts; ctx++) {
                uint32_t sc[3]; size_t n = 0;
                if (ctx == 0) { sc[n++] = cpt; }
                else { int k = (ctx - 1) / 3, pos = (ctx - 1) % 3;          // neighbour k; 0: c before nb, 1: c after nb, 2: c between two nb
                    if (pos == 0) { sc[n++] = cpt; sc[n++] = nb[k]; } else if (pos == 1) { sc[n++] = nb[k]; sc[n++] = cpt; } else { sc[n++] = nb[k]; sc[n++] = cpt; sc[n++] = nb[k]; } }
                cur[0] = 0xFF; for (size_t i = 0; i < n; i++) for (int b = 0; b < 4; b++) cur[1 + 4 * i + b] = (uint8_t)(sc[i] >> (8 * b));
                verif::set_current(cur, 1 + 4 * n);
                Enc3 e; enc3(sc, n, e);
                const char *bad = nullptr;
                try { bad = lean_check(e); } catch (...) { static std::string ex; ex = verif::describe_current_exception(); bad = ex.c_str(); }
                r.evaluations++;
                if (cpt >= 0x80) r.nontrivial++;
                if (bad) {
                    r.failure = std::string(bad) + " disagrees with the standard encoding"; std::vector<uint32_t> v(sc, sc + n);
                    r.failing_case = "C01 " + show_scalars(v); r.failing_bytes.assign(cur, cur + 1 + 4 * n); return r.evaluations;
                }
                if (r.want_sample() && ctx == ncontexts - 1 && (cpt % 0x2FFF) == 0x20AC % 0x2FFF) { std::vector<uint32_t> v(sc, sc + n); r.samples.push_back("C01 [enumerated] " + show_scalars(v)); }
            }
        }
    }
    // Latin-1: all single bytes and all ordered pairs (pairs split over shards by first byte)
    for (int a = shard; a < 256; a += nshards) {
        long nc = 0;
        std::vector<uint8_t> one{(uint8_t)a};
        uint8_t d1[2] = {0xFE, (uint8_t)a}; verif::set_current(d1, 2);
        std::string why = latin1_routes(one, nc);
        r.evaluations++; r.nontrivial++;
        for (int b = 0; b < 256 && why.empty(); b++) {
            std::vector<uint8_t> two{(uint8_t)a, (uint8_t)b};
            uint8_t d2[3] = {0xFE, (uint8_t)a, (uint8_t)b}; verif::set_current(d2, 3);
            why = latin1_routes(two, nc);
            r.evaluations++; r.nontrivial++;
            if (!why.empty()) { r.failure = why; r.failing_case = "C01 latin-1 bytes " + verif::units(two.data(), (size_t)2); r.failing_bytes.assign(d2, d2 + 3); return r.evaluations; }
        }
        if (!why.empty()) { r.failure = why; r.failing_case = "C01 latin-1 byte " + verif::units(one.data(), (size_t)1); r.failing_bytes.assign(d1, d1 + 2); return r.evaluations; }
    }
    // Long texts (deterministic grid; every point is also an input of verif_case): runs of one identical character of each width class and of
    // Latin-1 high bytes, total length = 256 Ki / 300 Ki / 320 Ki units of the anchor encoding and one off, text ending in the multi-unit character.
    {
        static const unsigned cls_quick[] = {0 /*E9*/, 1 /*FF*/, 2 /*20AC*/, 3 /*1F600*/, 4 /*7FF*/, 8 /*10FFFF*/};
        static const uint32_t tot_quick[] = {262143, 262144, 262145, 307200, 327680};
        static const uint32_t tot_thorough[] = {4096, 65535, 65536, 65537, 131072, 262143, 262144, 262145, 307200, 327679, 327680, 327681, 524288, 1048575, 1048576, 1048577};
        std::vector<std::vector<uint8_t>> grid;
        for (unsigned a = 0; a < 3; a++)
            for (unsigned ci = 0; ci < 6; ci++)
                for (size_t ti = 0; ti < (tier ? 16u : 5u); ti++) {
                    const uint32_t total = tier ? tot_thorough[ti] : tot_quick[ti];
                    if (tier && total >= 1048575 && !(ci == 0 || ci == 3)) continue;          // the 1 Mi points: Latin-1 high byte and 4-byte runs only
                    grid.push_back(long_case_bytes(a, {cls_quick[ci]}, total, true));
                    if (ti % 2 == 1) grid.push_back(long_case_bytes(a, {cls_quick[ci]}, total, false));
                }
        if (tier) {        // mixed patterns: the same columns of every 2/4/8-unit group hold the multi-unit character
            static const std::vector<unsigned> pats[] = {{0, 14}, {14, 0}, {0, 0, 14, 14}, {14, 14, 14, 0}, {3, 14}, {2, 14, 14}, {1, 2, 3}, {0, 15}};
            for (unsigned a = 0; a < 3; a++) for (const auto &pt : pats) for (uint32_t total : {262144u, 327681u}) grid.push_back(long_case_bytes(a, pt, total, true));
        }
        for (size_t gi = (size_t)shard; gi < grid.size(); gi += (size_t)nshards) {
            const std::vector<uint8_t> &bytes = grid[gi];
            verif::set_current(bytes.data(), bytes.size());
            verif::Case cs; verif::Reader rd(bytes.data() + 1, bytes.size() - 1, cs);
            ugen::LongText t = ugen::long_scalars(rd);
            long nc = 0;
            std::string why = lean_long(t.scalars, nc);
            r.evaluations++; r.nontrivial++;
            std::string pat; char tmp[16]; for (uint32_t v : t.pattern) { snprintf(tmp, sizeof tmp, "U+%04X ", v); pat += tmp; }
            std::string desc = "C01 long text: pattern " + pat + "repeated, " + verif::unum(t.total) + " " + conv::enc_name(t.anchor) + " units exactly (" + verif::unum(t.scalars.size()) + " scalars)";
            if (!why.empty()) { r.failure = why; r.failing_case = desc; r.failing_bytes = bytes; return r.evaluations; }
            if (r.want_sample() && gi % 37 == 5) r.samples.push_back(desc + " [enumerated] -> " + verif::num(nc) + " conversions x modes");
        }
    }
    // compiled-in literals
    for (unsigned li = (unsigned)shard; li < kNumLiterals; li += (unsigned)nshards) {
        uint8_t d[2] = {0xFC, (uint8_t)li}; verif::set_current(d, 2);
        long nc = 0; std::string text;
        std::string why = literal_case(li, nc, &text);
        r.evaluations++; if (li >= 2) r.nontrivial++;
        if (!why.empty()) { r.failure = why; r.failing_case = "C01 literal #" + verif::unum(li) + " " + text; r.failing_bytes.assign(d, d + 2); return r.evaluations; }
    }
    if (shard == 0) {
        r.exhausted.push_back(std::string("grid of long texts: runs of U+00E9, U+00FF, U+20AC, U+1F600, U+07FF, U+10FFFF x anchor encoding UTF-8/16/32 x total length ") +
                              (tier ? "4 Ki .. 1 Mi units incl. 64 Ki, 256 Ki, 320 Ki, 512 Ki, 1 Mi and one off, plus mixed 2-4 character patterns" : "256 Ki-1, 256 Ki, 256 Ki+1, 300 Ki, 320 Ki units") +
                              " through 18 conversions x 3 modes, the Latin-1 conversions x 2 flags and the ST::string members");
        r.exhausted.push_back("16 compiled-in literals (empty, embedded and trailing NULs, 1-4 byte characters, lengths at the small-buffer limits) in 15 literal forms: ST_LITERAL, ST_CHAR/WCHAR/UTF16/UTF32_LITERAL, \"\"_st and \"\"_stbuf with no/u8/u/U/L prefix");
        r.exhausted.push_back(std::string("all 1,112,064 Unicode scalar values ") + (tier ? "in 13 contexts (alone; before/after/between U+0041, U+00E9, U+20AC, U+1F600)" : "alone") +
                              " through 15 conversions x 3 modes + 3 ST::string::to_* members");
        r.exhausted.push_back("all 256 Latin-1 bytes and all 65,536 ordered pairs through every Latin-1 conversion (both directions, all routes, modes, substitution flags)");
    }
    return r.evaluations;
}

void verif_corpus(std::vector<std::vector<uint8_t>> &out) {
    auto directed = [&](std::initializer_list<uint32_t> us) { std::vector<uint8_t> v{0xFF}; for (uint32_t u : us) for (int b = 0; b < 4; b++) v.push_back((uint8_t)(u >> (8 * b))); out.push_back(v); };
    directed({0x41, 0xE9, 0x20AC, 0x1F600, 0x10FFFF, 0xD7FF, 0xE000, 0xFFFF, 0x10000, 0x7F, 0x80, 0x7FF, 0x800});
    out.push_back({0xFE, 0x00, 0x7F, 0x80, 0xFF, 0xE9});
    out.push_back({0xFD, 0, 0, 0, 0, 0, 0});                          // long text: 1024 UTF-8 units of U+00E9
    out.push_back({0xFD, 1, 0, 3, 210, 1, 0});                        // 320 Ki + 1 UTF-16 units of U+1F600
    for (uint8_t i = 0; i < 16; i++) out.push_back({0xFC, i});        // compiled-in literals
}
