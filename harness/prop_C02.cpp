// C02: validation modes accept, reject and repair malformed input correctly.
// Built in four variants: ST_DEFAULT_VALIDATION unset / assume_valid / substitute_invalid / check_validity
// (VERIF_CONFIGURED_MODE tells the harness which mode the build was configured with).
#include <sstream>

#include "gen/conv_calls.h"
#include "gen/unit_gen.h"
#include <string_theory/format>
#include <string_theory/iostream>
#include <string_theory/string_stream>

using verif::Case;
using ref::Units;

#ifndef VERIF_CONFIGURED_MODE
#define VERIF_CONFIGURED_MODE 2      // ST_DEFAULT_VALIDATION unset: the documented default is check_validity
#define VERIF_MAIN_VARIANT 1
#endif

const verif::Info verif_info = {
    "C02", 700,
    "unit strings in UTF-8/16/32 (bounded-exhaustive over class alphabets; generated: well-formed text with 1-4 mutations - delete/insert/overwrite/cut/"
    "swap/tolerated irregular form/bit flip - so that malformed units sit between multi-unit neighbours, truncations, long repeats, raw units) x every "
    "conversion reading that encoding x 3 modes x both Latin-1 flags. Oracle: per-unit reference decoder (harness/ref/ref_unicode.h): check_validity throws "
    "ST::unicode_error iff there is an offending unit (or a well-formed value >= U+0100 meets Latin-1 without substitution); substitute_invalid returns the "
    "reference transcoding with U+FFFD/'?' per offending unit and its output re-read with check_validity passes; well-formed input is transcoded identically "
    "in all modes; tolerated forms are accepted identically by all modes and readers. Default mode: every entry point with a defaulted validation argument "
    "must equal the same call with the build's configured mode passed explicitly (4 build variants). Non-trivial: an offending or tolerated-irregular unit "
    "that is neither first nor last, or a default-mode comparison on malformed input.",
    true, "exploration"};

namespace {

const ref::Mode kConfigured = (ref::Mode)VERIF_CONFIGURED_MODE;

std::string show_units(ref::Enc enc, const Units &u) {
    std::string s; char tmp[16];
    for (size_t i = 0; i < u.size() && i < 40; i++) { snprintf(tmp, sizeof tmp, enc == ref::UTF16 ? "%04X" : enc == ref::UTF32 ? "%X" : "%02X", u[i]); if (i) s += ' '; s += tmp; }
    if (u.size() > 40) s += " ..(" + verif::unum(u.size()) + " units)";
    return s;
}

// re-read a substitute_invalid result with check_validity
std::string revalidate(ref::Enc to, const Units &out) {
    try {
        if (to == ref::UTF8) { conv::Src<char> s(out, false); ST::string t(s.p(), s.n(), ST::check_validity); (void)t; (void)ST::utf8_to_utf32(s.p(), s.n(), ST::check_validity); }
        else if (to == ref::UTF16) { conv::Src<char16_t> s(out, false); (void)ST::utf16_to_utf8(s.p(), s.n(), ST::check_validity); }
        else if (to == ref::UTF32) { conv::Src<char32_t> s(out, false); (void)ST::utf32_to_utf8(s.p(), s.n(), ST::check_validity); }
    } catch (const ST::unicode_error &e) {
        return std::string("the substitute_invalid result ") + verif::units(out) + " is rejected by check_validity (" + e.what() + ")";
    } catch (...) {
        return "re-validation: " + verif::describe_current_exception();
    }
    return std::string();
}

std::string run_all(ref::Enc from, const Units &src, unsigned route_sel, long &calls, std::string *sample) {
    for (int ci = 0; ci < conv::NCONV; ci++) {
        conv::Conv c = (conv::Conv)ci;
        const conv::ConvInfo &inf = conv::info(c);
        if (inf.from != from) continue;
        for (int m = 0; m < 3; m++) {
            if (!inf.takes_mode && m != 2) continue;
            for (int fl = 0; fl < 2; fl++) {
                if (!inf.takes_l1flag && fl) continue;
                int route = (int)((route_sel + ci + m) % (unsigned)inf.nroutes);
                ref::Mode mode = conv::effective_mode(c, (ref::Mode)m);
                ref::Expect e = ref::expect(inf.from, inf.to, mode, src, fl == 0);
                conv::Outcome o = conv::run(c, route, (ref::Mode)m, fl == 0, src, false);
                calls++;
                std::string why = conv::judge(o, e);
                if (why.empty() && mode == ref::SUBSTITUTE && o.kind == 0 && (inf.to == ref::UTF8 || !e.has_irregular))
                    why = revalidate(inf.to, o.out);
                if (why.empty() && mode == ref::SUBSTITUTE && o.kind == 1 && !e.latin1_range)
                    why = "substitute_invalid threw ST::unicode_error (" + o.what + ") for malformed input";
                if (sample && sample->empty() && m == 1 && o.kind == 0 && e.has_offending)
                    *sample = std::string(inf.name) + " substitute -> " + verif::units(o.out, 24);
                if (!why.empty())
                    return std::string(inf.name) + " route " + verif::num(route) + " mode=" + conv::mode_name((ref::Mode)m) +
                           (inf.takes_l1flag ? (fl == 0 ? " substitute_out_of_range=true" : " substitute_out_of_range=false") : "") + ": " + why;
            }
        }
    }
    return std::string();
}

// ---------------------------------------------------------------------------------------------
// A string that already holds the (possibly malformed) bytes is validated / repaired FROM ITS OWN STORAGE: s.set(s.c_str()+k, n, mode),
// s.set(s.view(k), mode), s = ST::string(s.c_str()..) assigned back.  Same reference as for a separate source; when the call throws the
// string keeps its bytes.  Both storage classes occur (the input length decides).
std::string in_place_checks(const Units &src, unsigned sel, long &calls) {
    std::string bytes; for (uint32_t u : src) bytes += (char)u;
    const size_t n = bytes.size();
    const size_t k = n ? sel % n : 0;
    for (int form = 0; form < 4; form++)
        for (int m = 0; m < 3; m++) {
            const size_t off = (form & 1) ? k : 0;
            Units sub(src.begin() + (long)off, src.end());
            ref::Expect e = ref::expect(ref::UTF8, ref::UTF8, (ref::Mode)m, sub, true);
            conv::Outcome o;
            ST::string s = ST::string::from_validated(bytes.data(), n);
            try {
                if (form < 2) s.set(s.c_str() + off, n - off, conv::st_mode((ref::Mode)m));
                else s.set(std::string_view(s.c_str() + off, n - off), conv::st_mode((ref::Mode)m));
                o.reported_size = s.size(); o.terminated = s.c_str()[s.size()] == 0;
                for (size_t i = 0; i < s.size(); i++) o.out.push_back((unsigned char)s.c_str()[i]);
            } catch (const ST::unicode_error &x) {
                o.kind = 1; o.what = x.what();
                if (s.size() != n || memcmp(s.c_str(), bytes.data(), n) != 0) return "s.set(from its own storage) threw ST::unicode_error and the string no longer holds its bytes";
            } catch (...) { o.kind = 2; o.what = verif::describe_current_exception(); }
            calls++;
            std::string why = conv::judge(o, e);
            if (why.empty() && m == ref::SUBSTITUTE && o.kind == 1) why = "substitute_invalid threw ST::unicode_error (" + o.what + ") for malformed input";
            if (!why.empty())
                return std::string(form < 2 ? "s.set(s.c_str()+" : "s.set(string_view(s.c_str()+") + verif::unum(off) + (form < 2 ? ", " : ", ") + verif::unum(n - off) + (form < 2 ? ", " : "), ") + conv::mode_name((ref::Mode)m) +
                       ") on a string holding these " + verif::unum(n) + " bytes: " + why;
        }
    // appending the text to a receiver that holds bytes which were never validated (a lead byte at its end, an FF in the middle): what is
    // validated is the appended text as it stands - it is accepted or rejected exactly as when it is converted on its own, and on success
    // the receiver's bytes are followed by the converted text
    {
        verif::Exact<char> z(bytes.data(), n, true);
        const size_t zl = strlen(z.data());
        static const char *const recv[3] = {"caf\xC3", "a\xFFz", "\xE2\x82"};
        for (int ri = 0; ri < 3; ri++) {
            const std::string rv = recv[ri];
            int k0 = 0, k1 = 0, k2 = 0; std::string alone, got1, got2;
            try { ST::string t(z.data()); alone.assign(t.c_str(), t.size()); } catch (const ST::unicode_error &) { k0 = 1; }
            try { ST::string r1 = ST::string::from_validated(rv.data(), rv.size()); r1 += z.data(); got1.assign(r1.c_str(), r1.size()); } catch (const ST::unicode_error &) { k1 = 1; }
            try { ST::string r2 = ST::string::from_validated(rv.data(), rv.size()); ST::string r3 = r2 + z.data(); got2.assign(r3.c_str(), r3.size()); } catch (const ST::unicode_error &) { k2 = 1; }
            calls += 3;
            const char *form = nullptr; int kk = 0; const std::string *g = nullptr;
            if (k1 != k0 || (!k0 && got1 != rv + alone)) { form = "receiver += const char*"; kk = k1; g = &got1; }
            else if (k2 != k0 || (!k0 && got2 != rv + alone)) { form = "receiver + const char*"; kk = k2; g = &got2; }
            if (form)
                return std::string(form) + " with a receiver holding the never-validated bytes " + verif::hexs(rv.data(), rv.size()) + " and the text " + verif::hexs(z.data(), zl < 24 ? zl : 24) + ": " +
                       (kk ? "throws ST::unicode_error" : "returns " + verif::hexs(g->data(), g->size() < 32 ? g->size() : 32)) + ", but the text converted on its own " +
                       (k0 ? "is rejected (ST::unicode_error)" : "is accepted as " + verif::hexs(alone.data(), alone.size() < 24 ? alone.size() : 24));
        }
    }
    return std::string();
}

// ---------------------------------------------------------------------------------------------
// Default-mode agreement: call with the validation argument omitted == call with the configured mode.
struct Res { int kind = 0; std::string bytes; std::string what; };
template <class F> Res outcome(F f) {
    Res r;
    try { r.bytes = f(); }
    catch (const ST::unicode_error &e) { r.kind = 1; r.what = e.what(); }
    catch (...) { r.kind = 2; r.what = verif::describe_current_exception(); }
    return r;
}
template <class T> std::string raw(const ST::buffer<T> &b) { return std::string(reinterpret_cast<const char *>(b.data()), b.size() * sizeof(T)); }
inline std::string raw(const ST::string &s) { return std::string(s.c_str(), s.size()); }

#define DEFCHECK(name, defexpr, explexpr) \
    do { \
        Res a = outcome([&]() { return raw(defexpr); }); \
        Res b = outcome([&]() { return raw(explexpr); }); \
        ncmp++; \
        if (a.kind == 2) return std::string(name) + " (validation omitted): " + a.what; \
        if (a.kind != b.kind || a.bytes != b.bytes) \
            return std::string(name) + ": with the validation argument omitted the call " + (a.kind ? "throws (" + a.what + ")" : "returns " + verif::hexs(a.bytes.data(), a.bytes.size() < 40 ? a.bytes.size() : 40)) + \
                   ", with the configured mode " + conv::mode_name(kConfigured) + " passed explicitly it " + (b.kind ? "throws (" + b.what + ")" : "returns " + verif::hexs(b.bytes.data(), b.bytes.size() < 40 ? b.bytes.size() : 40)); \
    } while (0)

std::string default_mode_checks(ref::Enc from, const Units &src, long &ncmp) {
    const ST::utf_validation_t M = conv::st_mode(kConfigured);
    const ST::string base = ST::string::from_validated("base-", 5);
    if (from == ref::UTF8) {
        conv::Src<char> s(src, false);
        verif::Exact<char> z(s.p(), s.n(), true);                 // NUL-terminated copy for the C-string entry points
        const char *p = s.p(); size_t n = s.n(); const char *cz = z.data();
        ST::char_buffer buf = s.buf();
        std::string ss(p, n); std::string_view sv(ss);
        DEFCHECK("utf8_to_utf16(ptr,len)", ST::utf8_to_utf16(p, n), ST::utf8_to_utf16(p, n, M));
        DEFCHECK("utf8_to_utf16(buffer)", ST::utf8_to_utf16(buf), ST::utf8_to_utf16(buf, M));
        DEFCHECK("utf8_to_utf32(ptr,len)", ST::utf8_to_utf32(p, n), ST::utf8_to_utf32(p, n, M));
        DEFCHECK("utf8_to_utf32(buffer)", ST::utf8_to_utf32(buf), ST::utf8_to_utf32(buf, M));
        DEFCHECK("utf8_to_wchar(ptr,len)", ST::utf8_to_wchar(p, n), ST::utf8_to_wchar(p, n, M));
        DEFCHECK("utf8_to_wchar(buffer)", ST::utf8_to_wchar(buf), ST::utf8_to_wchar(buf, M));
        DEFCHECK("utf8_to_latin_1(ptr,len)", ST::utf8_to_latin_1(p, n), ST::utf8_to_latin_1(p, n, M));
        DEFCHECK("utf8_to_latin_1(buffer)", ST::utf8_to_latin_1(buf), ST::utf8_to_latin_1(buf, M));
        DEFCHECK("ST::string(ptr,len)", ST::string(p, n), ST::string(p, n, M));
        DEFCHECK("ST::string(cstr)", ST::string(cz), ST::string(cz, ST_AUTO_SIZE, M));
        DEFCHECK("ST::string(char_buffer)", ST::string(buf), ST::string(buf, M));
        DEFCHECK("ST::string(char_buffer&&)", ST::string(ST::char_buffer(buf)), ST::string(ST::char_buffer(buf), M));
        DEFCHECK("ST::string(std::string)", ST::string(ss), ST::string(ss, M));
        DEFCHECK("ST::string(std::string_view)", ST::string(sv), ST::string(sv, M));
        DEFCHECK("set(ptr,len)", [&] { ST::string t; t.set(p, n); return t; }(), [&] { ST::string t; t.set(p, n, M); return t; }());
        DEFCHECK("set(char_buffer)", [&] { ST::string t; t.set(buf); return t; }(), [&] { ST::string t; t.set(buf, M); return t; }());
        DEFCHECK("set(std::string)", [&] { ST::string t; t.set(ss); return t; }(), [&] { ST::string t; t.set(ss, M); return t; }());
        DEFCHECK("set(std::string_view)", [&] { ST::string t; t.set(sv); return t; }(), [&] { ST::string t; t.set(sv, M); return t; }());
        DEFCHECK("from_utf8(ptr,len)", ST::string::from_utf8(p, n), ST::string::from_utf8(p, n, M));
        DEFCHECK("from_utf8(char_buffer)", ST::string::from_utf8(buf), ST::string::from_utf8(buf, M));
        DEFCHECK("from_std_string(std::string)", ST::string::from_std_string(ss), ST::string::from_std_string(ss, M));
        DEFCHECK("from_std_string(std::string_view)", ST::string::from_std_string(sv), ST::string::from_std_string(sv, M));
        DEFCHECK("operator=(const char*)", [&] { ST::string t; t = cz; return t; }(), ST::string(cz, ST_AUTO_SIZE, M));
        DEFCHECK("operator=(char_buffer)", [&] { ST::string t; t = buf; return t; }(), ST::string(buf, M));
        DEFCHECK("operator=(std::string)", [&] { ST::string t; t = ss; return t; }(), ST::string(ss, M));
        DEFCHECK("operator=(std::string_view)", [&] { ST::string t; t = sv; return t; }(), ST::string(sv, M));
        DEFCHECK("operator+=(const char*)", [&] { ST::string t = base; t += cz; return t; }(), base + ST::string(cz, ST_AUTO_SIZE, M));
        DEFCHECK("operator+(string,const char*)", base + cz, base + ST::string(cz, ST_AUTO_SIZE, M));
        DEFCHECK("operator+(const char*,string)", cz + base, ST::string(cz, ST_AUTO_SIZE, M) + base);
        DEFCHECK("replace(const char*,const char*)", base.replace("-", cz), base.replace("-", cz, ST::case_sensitive, M));
        DEFCHECK("replace(string,const char*)", base.replace(ST::string("-"), cz), base.replace(ST::string("-"), cz, ST::case_sensitive, M));
        DEFCHECK("string_stream::to_string()", [&] { ST::string_stream st; st.append(p, n); return st.to_string(); }(), [&] { ST::string_stream st; st.append(p, n); return st.to_string(true, M); }());
        DEFCHECK("ST::format(\"{}\", const char*)", ST::format("<{}>", cz), ST::format(M, "<{}>", cz));
        {   // char8_t / std::u8string / std::u8string_view entry points and the remaining UTF-8 ones
            const char8_t *p8 = reinterpret_cast<const char8_t *>(p); const char8_t *cz8 = reinterpret_cast<const char8_t *>(cz);
            std::u8string s8(p8, n); std::u8string_view sv8(s8);
            DEFCHECK("utf8_to_utf16(char8_t ptr,len)", ST::utf8_to_utf16(p8, n), ST::utf8_to_utf16(p8, n, M));
            DEFCHECK("utf8_to_utf32(char8_t ptr,len)", ST::utf8_to_utf32(p8, n), ST::utf8_to_utf32(p8, n, M));
            DEFCHECK("utf8_to_wchar(char8_t ptr,len)", ST::utf8_to_wchar(p8, n), ST::utf8_to_wchar(p8, n, M));
            DEFCHECK("utf8_to_latin_1(char8_t ptr,len)", ST::utf8_to_latin_1(p8, n), ST::utf8_to_latin_1(p8, n, M));
            DEFCHECK("ST::string(char8_t ptr,len)", ST::string(p8, n), ST::string(p8, n, M));
            DEFCHECK("ST::string(char8_t cstr)", ST::string(cz8), ST::string(cz8, ST_AUTO_SIZE, M));
            DEFCHECK("ST::string(std::u8string)", ST::string(s8), ST::string(s8, M));
            DEFCHECK("ST::string(std::u8string_view)", ST::string(sv8), ST::string(sv8, M));
            DEFCHECK("set(char8_t ptr,len)", [&] { ST::string t; t.set(p8, n); return t; }(), [&] { ST::string t; t.set(p8, n, M); return t; }());
            DEFCHECK("set(std::u8string)", [&] { ST::string t; t.set(s8); return t; }(), [&] { ST::string t; t.set(s8, M); return t; }());
            DEFCHECK("set(std::u8string_view)", [&] { ST::string t; t.set(sv8); return t; }(), [&] { ST::string t; t.set(sv8, M); return t; }());
            DEFCHECK("set(char_buffer&&)", [&] { ST::string t; t.set(ST::char_buffer(buf)); return t; }(), [&] { ST::string t; t.set(ST::char_buffer(buf), M); return t; }());
            DEFCHECK("set(cstr)", [&] { ST::string t; t.set(cz); return t; }(), [&] { ST::string t; t.set(cz, ST_AUTO_SIZE, M); return t; }());
            DEFCHECK("from_utf8(char8_t ptr,len)", ST::string::from_utf8(p8, n), ST::string::from_utf8(p8, n, M));
            DEFCHECK("from_utf8(cstr)", ST::string::from_utf8(cz), ST::string::from_utf8(cz, ST_AUTO_SIZE, M));
            DEFCHECK("from_std_string(std::u8string)", ST::string::from_std_string(s8), ST::string::from_std_string(s8, M));
            DEFCHECK("from_std_string(std::u8string_view)", ST::string::from_std_string(sv8), ST::string::from_std_string(sv8, M));
            DEFCHECK("operator=(const char8_t*)", [&] { ST::string t; t = cz8; return t; }(), ST::string(cz8, ST_AUTO_SIZE, M));
            DEFCHECK("operator=(std::u8string)", [&] { ST::string t; t = s8; return t; }(), ST::string(s8, M));
            DEFCHECK("operator=(std::u8string_view)", [&] { ST::string t; t = sv8; return t; }(), ST::string(sv8, M));
            DEFCHECK("operator=(char_buffer&&)", [&] { ST::string t; t = ST::char_buffer(buf); return t; }(), ST::string(buf, M));
            DEFCHECK("operator+=(const char8_t*)", [&] { ST::string t = base; t += cz8; return t; }(), base + ST::string(cz8, ST_AUTO_SIZE, M));
            DEFCHECK("operator+(string,const char8_t*)", base + cz8, base + ST::string(cz8, ST_AUTO_SIZE, M));
            DEFCHECK("operator+(const char8_t*,string)", cz8 + base, ST::string(cz8, ST_AUTO_SIZE, M) + base);
            DEFCHECK("replace(const char8_t*,const char8_t*)", base.replace(u8"-", cz8), base.replace(u8"-", cz8, ST::case_sensitive, M));
            DEFCHECK("replace(string,const char8_t*)", base.replace(ST::string("-"), cz8), base.replace(ST::string("-"), cz8, ST::case_sensitive, M));
            DEFCHECK("replace(const char*,string) [pattern]", base.replace(cz, ST::string("+")), base.replace(cz, ST::string("+"), ST::case_sensitive, M));
            DEFCHECK("string_stream::to_string(true)", [&] { ST::string_stream st; st << "x"; st.append(p, n); return st.to_string(true); }(), [&] { ST::string_stream st; st << "x"; st.append(p, n); return st.to_string(true, M); }());
            DEFCHECK("ST::format(\"{}\", std::string)", ST::format("<{}>", ss), ST::format(M, "<{}>", ss));
            DEFCHECK("_stfmt literal", ST::literals::operator""_stfmt("<{}>", 4)(cz), ST::format(M, "<{}>", cz));
        }
        {   // operator>> stores the token std::string extraction yields, subject to the default validation
            std::istringstream in1(ss), in2(ss); std::string tok; in2 >> tok;
            DEFCHECK("operator>>(istream, ST::string)", [&] { ST::string t; in1 >> t; return t; }(), ST::string(tok.c_str(), tok.size(), M));
        }
    } else if (from == ref::UTF16) {
        conv::Src<char16_t> s(src, false);
        verif::Exact<char16_t> z(s.p(), s.n(), true);
        const char16_t *p = s.p(); size_t n = s.n(); const char16_t *cz = z.data();
        ST::utf16_buffer buf = s.buf();
        std::u16string ss(p, n); std::u16string_view sv(ss);
        DEFCHECK("utf16_to_utf8(ptr,len)", ST::utf16_to_utf8(p, n), ST::utf16_to_utf8(p, n, M));
        DEFCHECK("utf16_to_utf8(buffer)", ST::utf16_to_utf8(buf), ST::utf16_to_utf8(buf, M));
        DEFCHECK("utf16_to_utf32(ptr,len)", ST::utf16_to_utf32(p, n), ST::utf16_to_utf32(p, n, M));
        DEFCHECK("utf16_to_utf32(buffer)", ST::utf16_to_utf32(buf), ST::utf16_to_utf32(buf, M));
        DEFCHECK("utf16_to_wchar(ptr,len)", ST::utf16_to_wchar(p, n), ST::utf16_to_wchar(p, n, M));
        DEFCHECK("utf16_to_wchar(buffer)", ST::utf16_to_wchar(buf), ST::utf16_to_wchar(buf, M));
        DEFCHECK("utf16_to_latin_1(ptr,len)", ST::utf16_to_latin_1(p, n), ST::utf16_to_latin_1(p, n, M));
        DEFCHECK("utf16_to_latin_1(buffer)", ST::utf16_to_latin_1(buf), ST::utf16_to_latin_1(buf, M));
        DEFCHECK("ST::string(char16_t ptr,len)", ST::string(p, n), ST::string(p, n, M));
        DEFCHECK("ST::string(char16_t cstr)", ST::string(cz), ST::string(cz, ST_AUTO_SIZE, M));
        DEFCHECK("ST::string(utf16_buffer)", ST::string(buf), ST::string(buf, M));
        DEFCHECK("ST::string(std::u16string)", ST::string(ss), ST::string(ss, M));
        DEFCHECK("ST::string(std::u16string_view)", ST::string(sv), ST::string(sv, M));
        DEFCHECK("set(char16_t ptr,len)", [&] { ST::string t; t.set(p, n); return t; }(), [&] { ST::string t; t.set(p, n, M); return t; }());
        DEFCHECK("set(utf16_buffer)", [&] { ST::string t; t.set(buf); return t; }(), [&] { ST::string t; t.set(buf, M); return t; }());
        DEFCHECK("set(std::u16string)", [&] { ST::string t; t.set(ss); return t; }(), [&] { ST::string t; t.set(ss, M); return t; }());
        DEFCHECK("set(std::u16string_view)", [&] { ST::string t; t.set(sv); return t; }(), [&] { ST::string t; t.set(sv, M); return t; }());
        DEFCHECK("from_utf16(ptr,len)", ST::string::from_utf16(p, n), ST::string::from_utf16(p, n, M));
        DEFCHECK("from_utf16(buffer)", ST::string::from_utf16(buf), ST::string::from_utf16(buf, M));
        DEFCHECK("from_std_string(std::u16string)", ST::string::from_std_string(ss), ST::string::from_std_string(ss, M));
        DEFCHECK("from_std_string(std::u16string_view)", ST::string::from_std_string(sv), ST::string::from_std_string(sv, M));
        DEFCHECK("operator=(const char16_t*)", [&] { ST::string t; t = cz; return t; }(), ST::string(cz, ST_AUTO_SIZE, M));
        DEFCHECK("operator=(utf16_buffer)", [&] { ST::string t; t = buf; return t; }(), ST::string(buf, M));
        DEFCHECK("operator=(std::u16string)", [&] { ST::string t; t = ss; return t; }(), ST::string(ss, M));
        DEFCHECK("operator+=(const char16_t*)", [&] { ST::string t = base; t += cz; return t; }(), base + ST::string(cz, ST_AUTO_SIZE, M));
        DEFCHECK("operator+(string,const char16_t*)", base + cz, base + ST::string(cz, ST_AUTO_SIZE, M));
        DEFCHECK("operator+(const char16_t*,string)", cz + base, ST::string(cz, ST_AUTO_SIZE, M) + base);
        DEFCHECK("string_stream << const char16_t*", [&] { ST::string_stream st; st << cz; return st.to_string(true, ST::assume_valid); }(), ST::string(cz, ST_AUTO_SIZE, M));
        DEFCHECK("string_stream << std::u16string", [&] { ST::string_stream st; st << ss; return st.to_string(true, ST::assume_valid); }(), ST::string(ss, M));
        DEFCHECK("ST::format(\"{}\", const char16_t*)", ST::format(ST::assume_valid, "{}", cz), ST::string::from_utf16(cz).to_utf8().size() ? ST::string::from_utf16(cz) : ST::string());
        DEFCHECK("set(char16_t cstr)", [&] { ST::string t; t.set(cz); return t; }(), [&] { ST::string t; t.set(cz, ST_AUTO_SIZE, M); return t; }());
        DEFCHECK("from_utf16(cstr)", ST::string::from_utf16(cz), ST::string::from_utf16(cz, ST_AUTO_SIZE, M));
        DEFCHECK("operator=(std::u16string_view)", [&] { ST::string t; t = sv; return t; }(), ST::string(sv, M));
        DEFCHECK("string_stream << std::u16string_view", [&] { ST::string_stream st; st << sv; return st.to_string(true, ST::assume_valid); }(), ST::string(sv, M));
    } else if (from == ref::UTF32) {
        conv::Src<char32_t> s(src, false);
        verif::Exact<char32_t> z(s.p(), s.n(), true);
        const char32_t *p = s.p(); size_t n = s.n(); const char32_t *cz = z.data();
        ST::utf32_buffer buf = s.buf();
        std::u32string ss(p, n); std::u32string_view sv(ss);
        conv::Src<wchar_t> w(src, false);
        verif::Exact<wchar_t> wz(w.p(), w.n(), true);
        const wchar_t *wp = w.p(); const wchar_t *wcz = wz.data();
        ST::wchar_buffer wbuf = w.buf();
        std::wstring ws(wp, n); std::wstring_view wsv(ws);
        DEFCHECK("utf32_to_utf8(ptr,len)", ST::utf32_to_utf8(p, n), ST::utf32_to_utf8(p, n, M));
        DEFCHECK("utf32_to_utf8(buffer)", ST::utf32_to_utf8(buf), ST::utf32_to_utf8(buf, M));
        DEFCHECK("utf32_to_utf16(ptr,len)", ST::utf32_to_utf16(p, n), ST::utf32_to_utf16(p, n, M));
        DEFCHECK("utf32_to_utf16(buffer)", ST::utf32_to_utf16(buf), ST::utf32_to_utf16(buf, M));
        DEFCHECK("utf32_to_wchar(ptr,len)", ST::utf32_to_wchar(p, n), ST::utf32_to_wchar(p, n, M));
        DEFCHECK("utf32_to_latin_1(ptr,len)", ST::utf32_to_latin_1(p, n), ST::utf32_to_latin_1(p, n, M));
        DEFCHECK("utf32_to_latin_1(buffer)", ST::utf32_to_latin_1(buf), ST::utf32_to_latin_1(buf, M));
        DEFCHECK("wchar_to_utf8(ptr,len)", ST::wchar_to_utf8(wp, n), ST::wchar_to_utf8(wp, n, M));
        DEFCHECK("wchar_to_utf8(buffer)", ST::wchar_to_utf8(wbuf), ST::wchar_to_utf8(wbuf, M));
        DEFCHECK("wchar_to_utf16(ptr,len)", ST::wchar_to_utf16(wp, n), ST::wchar_to_utf16(wp, n, M));
        DEFCHECK("wchar_to_utf32(ptr,len)", ST::wchar_to_utf32(wp, n), ST::wchar_to_utf32(wp, n, M));
        DEFCHECK("wchar_to_latin_1(ptr,len)", ST::wchar_to_latin_1(wp, n), ST::wchar_to_latin_1(wp, n, M));
        DEFCHECK("ST::string(char32_t ptr,len)", ST::string(p, n), ST::string(p, n, M));
        DEFCHECK("ST::string(char32_t cstr)", ST::string(cz), ST::string(cz, ST_AUTO_SIZE, M));
        DEFCHECK("ST::string(utf32_buffer)", ST::string(buf), ST::string(buf, M));
        DEFCHECK("ST::string(std::u32string)", ST::string(ss), ST::string(ss, M));
        DEFCHECK("ST::string(std::u32string_view)", ST::string(sv), ST::string(sv, M));
        DEFCHECK("ST::string(wchar_t ptr,len)", ST::string(wp, n), ST::string(wp, n, M));
        DEFCHECK("ST::string(wchar_t cstr)", ST::string(wcz), ST::string(wcz, ST_AUTO_SIZE, M));
        DEFCHECK("ST::string(wchar_buffer)", ST::string(wbuf), ST::string(wbuf, M));
        DEFCHECK("ST::string(std::wstring)", ST::string(ws), ST::string(ws, M));
        DEFCHECK("ST::string(std::wstring_view)", ST::string(wsv), ST::string(wsv, M));
        DEFCHECK("set(char32_t ptr,len)", [&] { ST::string t; t.set(p, n); return t; }(), [&] { ST::string t; t.set(p, n, M); return t; }());
        DEFCHECK("set(utf32_buffer)", [&] { ST::string t; t.set(buf); return t; }(), [&] { ST::string t; t.set(buf, M); return t; }());
        DEFCHECK("set(std::u32string)", [&] { ST::string t; t.set(ss); return t; }(), [&] { ST::string t; t.set(ss, M); return t; }());
        DEFCHECK("set(wchar_t ptr,len)", [&] { ST::string t; t.set(wp, n); return t; }(), [&] { ST::string t; t.set(wp, n, M); return t; }());
        DEFCHECK("set(wchar_buffer)", [&] { ST::string t; t.set(wbuf); return t; }(), [&] { ST::string t; t.set(wbuf, M); return t; }());
        DEFCHECK("set(std::wstring)", [&] { ST::string t; t.set(ws); return t; }(), [&] { ST::string t; t.set(ws, M); return t; }());
        DEFCHECK("from_utf32(ptr,len)", ST::string::from_utf32(p, n), ST::string::from_utf32(p, n, M));
        DEFCHECK("from_utf32(buffer)", ST::string::from_utf32(buf), ST::string::from_utf32(buf, M));
        DEFCHECK("from_wchar(ptr,len)", ST::string::from_wchar(wp, n), ST::string::from_wchar(wp, n, M));
        DEFCHECK("from_wchar(buffer)", ST::string::from_wchar(wbuf), ST::string::from_wchar(wbuf, M));
        DEFCHECK("from_std_string(std::u32string)", ST::string::from_std_string(ss), ST::string::from_std_string(ss, M));
        DEFCHECK("from_std_string(std::wstring)", ST::string::from_std_string(ws), ST::string::from_std_string(ws, M));
        DEFCHECK("from_std_wstring(std::wstring)", ST::string::from_std_wstring(ws), ST::string::from_std_wstring(ws, M));
        DEFCHECK("operator=(const char32_t*)", [&] { ST::string t; t = cz; return t; }(), ST::string(cz, ST_AUTO_SIZE, M));
        DEFCHECK("operator=(const wchar_t*)", [&] { ST::string t; t = wcz; return t; }(), ST::string(wcz, ST_AUTO_SIZE, M));
        DEFCHECK("operator=(utf32_buffer)", [&] { ST::string t; t = buf; return t; }(), ST::string(buf, M));
        DEFCHECK("operator=(wchar_buffer)", [&] { ST::string t; t = wbuf; return t; }(), ST::string(wbuf, M));
        DEFCHECK("operator=(std::wstring)", [&] { ST::string t; t = ws; return t; }(), ST::string(ws, M));
        DEFCHECK("operator+=(const char32_t*)", [&] { ST::string t = base; t += cz; return t; }(), base + ST::string(cz, ST_AUTO_SIZE, M));
        DEFCHECK("operator+=(const wchar_t*)", [&] { ST::string t = base; t += wcz; return t; }(), base + ST::string(wcz, ST_AUTO_SIZE, M));
        DEFCHECK("operator+(string,const char32_t*)", base + cz, base + ST::string(cz, ST_AUTO_SIZE, M));
        DEFCHECK("operator+(const wchar_t*,string)", wcz + base, ST::string(wcz, ST_AUTO_SIZE, M) + base);
        DEFCHECK("string_stream << const char32_t*", [&] { ST::string_stream st; st << cz; return st.to_string(true, ST::assume_valid); }(), ST::string(cz, ST_AUTO_SIZE, M));
        DEFCHECK("string_stream << const wchar_t*", [&] { ST::string_stream st; st << wcz; return st.to_string(true, ST::assume_valid); }(), ST::string(wcz, ST_AUTO_SIZE, M));
        DEFCHECK("string_stream << std::wstring", [&] { ST::string_stream st; st << ws; return st.to_string(true, ST::assume_valid); }(), ST::string(ws, M));
        DEFCHECK("utf32_to_wchar(buffer)", ST::utf32_to_wchar(buf), ST::utf32_to_wchar(buf, M));
        DEFCHECK("wchar_to_utf16(buffer)", ST::wchar_to_utf16(wbuf), ST::wchar_to_utf16(wbuf, M));
        DEFCHECK("wchar_to_utf32(buffer)", ST::wchar_to_utf32(wbuf), ST::wchar_to_utf32(wbuf, M));
        DEFCHECK("wchar_to_latin_1(buffer)", ST::wchar_to_latin_1(wbuf), ST::wchar_to_latin_1(wbuf, M));
        DEFCHECK("set(std::u32string_view)", [&] { ST::string t; t.set(sv); return t; }(), [&] { ST::string t; t.set(sv, M); return t; }());
        DEFCHECK("set(std::wstring_view)", [&] { ST::string t; t.set(wsv); return t; }(), [&] { ST::string t; t.set(wsv, M); return t; }());
        DEFCHECK("set(char32_t cstr)", [&] { ST::string t; t.set(cz); return t; }(), [&] { ST::string t; t.set(cz, ST_AUTO_SIZE, M); return t; }());
        DEFCHECK("set(wchar_t cstr)", [&] { ST::string t; t.set(wcz); return t; }(), [&] { ST::string t; t.set(wcz, ST_AUTO_SIZE, M); return t; }());
        DEFCHECK("from_utf32(cstr)", ST::string::from_utf32(cz), ST::string::from_utf32(cz, ST_AUTO_SIZE, M));
        DEFCHECK("from_wchar(cstr)", ST::string::from_wchar(wcz), ST::string::from_wchar(wcz, ST_AUTO_SIZE, M));
        DEFCHECK("from_std_string(std::u32string_view)", ST::string::from_std_string(sv), ST::string::from_std_string(sv, M));
        DEFCHECK("from_std_string(std::wstring_view)", ST::string::from_std_string(wsv), ST::string::from_std_string(wsv, M));
        DEFCHECK("from_std_wstring(std::wstring_view)", ST::string::from_std_wstring(wsv), ST::string::from_std_wstring(wsv, M));
        DEFCHECK("operator=(std::u32string)", [&] { ST::string t; t = ss; return t; }(), ST::string(ss, M));
        DEFCHECK("operator=(std::u32string_view)", [&] { ST::string t; t = sv; return t; }(), ST::string(sv, M));
        DEFCHECK("operator=(std::wstring_view)", [&] { ST::string t; t = wsv; return t; }(), ST::string(wsv, M));
        DEFCHECK("operator+(const char32_t*,string)", cz + base, ST::string(cz, ST_AUTO_SIZE, M) + base);
        DEFCHECK("operator+(string,const wchar_t*)", base + wcz, base + ST::string(wcz, ST_AUTO_SIZE, M));
        DEFCHECK("string_stream << std::u32string", [&] { ST::string_stream st; st << ss; return st.to_string(true, ST::assume_valid); }(), ST::string(ss, M));
        DEFCHECK("string_stream << std::u32string_view", [&] { ST::string_stream st; st << sv; return st.to_string(true, ST::assume_valid); }(), ST::string(sv, M));
        DEFCHECK("string_stream << std::wstring_view", [&] { ST::string_stream st; st << wsv; return st.to_string(true, ST::assume_valid); }(), ST::string(wsv, M));
        {
            std::wistringstream in1(ws), in2(ws); std::wstring tok; in2 >> tok;
            DEFCHECK("operator>>(wistream, ST::string)", [&] { ST::string t; in1 >> t; return t; }(), ST::string(tok.c_str(), tok.size(), M));
        }
    }
    return std::string();
}

bool interior_irregularity(ref::Enc from, const Units &src) {
    std::vector<ref::Item> items = ref::decode(from, src);
    for (size_t i = 1; i + 1 < items.size(); i++) if (!items[i].ok || items[i].irregular) return true;
    return false;
}
bool any_offending(ref::Enc from, const Units &src) {
    for (const ref::Item &it : ref::decode(from, src)) if (!it.ok) return true;
    return false;
}

}  // namespace

int verif_case(const uint8_t *data, size_t size, Case &c) {
    verif::Reader r(data, size, c);
    ref::Enc from;
    Units src;
    const char *kind = "directed";
    uint8_t first = r.u8();
    if (first == 0xFF) {
        from = (ref::Enc)(r.u8() % 3);
        while (!r.exhausted()) src.push_back(r.bits32() & ugen::mask_of(from));
    } else {
        from = (ref::Enc)(first % 3);
        src = ugen::units(r, from, kind, 600);
    }
    unsigned route_sel = r.u8();
    c.label(conv::enc_name(from));
    c.label(kind);
    bool interior = interior_irregularity(from, src), offending = any_offending(from, src);
    if (offending) c.label("has-offending-unit");
    if (interior) c.label("irregularity-in-the-middle");
    long calls = 0, ncmp = 0;
    std::string sample, why;
#ifdef VERIF_MAIN_VARIANT
    why = run_all(from, src, route_sel, calls, c.want_text ? &sample : nullptr);
    if (why.empty() && from == ref::UTF8) why = in_place_checks(src, route_sel, calls);
#else
    (void)route_sel;
#endif
    if (why.empty()) why = default_mode_checks(from, src, ncmp);
    c.nontrivial = interior || (offending && ncmp > 0);
    if (c.want_text)
        c.text = std::string("C02 ") + conv::enc_name(from) + " [" + kind + "] in=" + show_units(from, src) + " -> " + verif::num(calls) + " conversion calls judged, " + verif::num(ncmp) +
                 " default-vs-" + conv::mode_name(kConfigured) + " comparisons" + (sample.empty() ? "" : "; e.g. " + sample);
    if (!why.empty()) return c.fail(why);
    return verif::CASE_OK;
}

long verif_enumerate(int shard, int nshards, int tier, verif::EnumReport &r) {
#ifndef VERIF_MAIN_VARIANT
    (void)shard; (void)nshards; (void)tier; (void)r;
    return 0;      // the exhaustive sweep judges explicit modes; it runs in the main variant only
#else
    static const uint32_t a8[] = {0x00, 0x41, 0x7F, 0x80, 0x90, 0xA0, 0xBF, 0xC0, 0xC2, 0xDF, 0xE0, 0xED, 0xEF, 0xF0, 0xF4, 0xF7, 0xF8, 0xFF};
    static const uint32_t a16[] = {0x0041, 0xD7FF, 0xD800, 0xDBFF, 0xDC00, 0xDFFF, 0xE000, 0xFFFF};
    static const uint32_t a32[] = {0x0, 0x41, 0xD800, 0xDFFF, 0xFFFF, 0x10000, 0x10FFFF, 0x110000, 0x7FFFFFFF, 0xFFFFFFFF};
    struct Dom { ref::Enc enc; const uint32_t *alpha; size_t na; size_t maxlen; };
    const Dom doms[] = {{ref::UTF8, a8, 18, (size_t)(tier ? 5 : 4)}, {ref::UTF16, a16, 8, (size_t)(tier ? 5 : 4)}, {ref::UTF32, a32, 10, (size_t)(tier ? 4 : 3)}};
    std::vector<uint8_t> cur;
    long idx = 0;
    for (const Dom &d : doms) {
        for (size_t len = 0; len <= d.maxlen; len++) {
            size_t total = 1; for (size_t k = 0; k < len; k++) total *= d.na;
            for (size_t code = 0; code < total; code++, idx++) {
                if (idx % nshards != shard) continue;
                Units u; size_t x = code;
                for (size_t k = 0; k < len; k++) { u.push_back(d.alpha[x % d.na]); x /= d.na; }
                cur.assign({0xFF, (uint8_t)d.enc});
                for (uint32_t v : u) for (int b = 0; b < 4; b++) cur.push_back((uint8_t)(v >> (8 * b)));
                verif::set_current(cur.data(), cur.size());
                long calls = 0;
                std::string why = run_all(d.enc, u, (unsigned)code, calls, nullptr);
                r.evaluations++;
                bool nt = interior_irregularity(d.enc, u);
                if (nt) r.nontrivial++;
                if (r.want_sample() && nt && (code % 1013) == 7) r.samples.push_back(std::string("C02 ") + conv::enc_name(d.enc) + " [enumerated] in=" + show_units(d.enc, u));
                if (!why.empty()) { r.failure = why; r.failing_case = std::string("C02 ") + conv::enc_name(d.enc) + " in=" + show_units(d.enc, u); r.failing_bytes = cur; return r.evaluations; }
            }
        }
    }
    if (shard == 0) {
        r.exhausted.push_back(std::string("all UTF-8 strings of length <= ") + (tier ? "5" : "4") + " over the 18-byte class alphabet, every reader x 3 modes x Latin-1 flags, judged against the per-unit reference decoder");
        r.exhausted.push_back(std::string("all UTF-16 strings of length <= ") + (tier ? "5" : "4") + " over {0041,D7FF,D800,DBFF,DC00,DFFF,E000,FFFF}; all UTF-32 strings of length <= " + (tier ? "4" : "3") + " over {0,41,D800,DFFF,FFFF,10000,10FFFF,110000,7FFFFFFF,FFFFFFFF}");
    }
    return r.evaluations;
#endif
}

void verif_corpus(std::vector<std::vector<uint8_t>> &out) {
    auto directed = [&](ref::Enc e, std::initializer_list<uint32_t> us) { std::vector<uint8_t> v{0xFF, (uint8_t)e}; for (uint32_t u : us) for (int b = 0; b < 4; b++) v.push_back((uint8_t)(u >> (8 * b))); out.push_back(v); };
    directed(ref::UTF8, {0x41, 0xE2, 0x82, 0x42});
    directed(ref::UTF8, {0xC3, 0xA9, 0x80, 0xF0, 0x9F, 0x98, 0x80});
    directed(ref::UTF8, {0xF4, 0x90, 0x80, 0x80, 0xED, 0xA0, 0x80});
    directed(ref::UTF16, {0x0041, 0xD800, 0x0042, 0xDC00, 0xD800});
    directed(ref::UTF32, {0x41, 0x110000, 0xD800, 0x42});
}
