// C03: conversions are total and memory-safe on arbitrary input.
#include "gen/conv_calls.h"
#include "gen/unit_gen.h"

using verif::Case;
using ref::Units;

const verif::Info verif_info = {
    "C03", 700,
    "unit strings in each source encoding (class-alphabet strings, well-formed text, well-formed text with 1-4 mutations, well-formed text cut at "
    "any unit, a pattern repeated up to 4096 units, raw units, empty and null-with-zero-length), pushed through all 12 conversion pairs, the 8 wchar_t "
    "aliases, 5 routes into and 4 out of ST::string, every overload route, 3 validation modes and both Latin-1 flags; inputs are exact-size heap blocks. "
    "Oracle: outcome is a buffer or ST::unicode_error, nothing else (no other exception, assertion, sanitizer report, hang); a returned buffer has "
    "size() == size of the reference transcoding for that input and mode, a NUL after the last unit, and no unit still holding the allocator's fill "
    "pattern (nothing left unwritten). When the reference says the mode must reject, only the outcome kind is judged (C02 judges acceptance). "
    "Non-trivial: malformed or truncated input of >= 2 units, or a result at/over the small-buffer limit.",
    true, "exploration"};

namespace {

// C03 judgement of one call: outcome kind, size, terminator, nothing unwritten.
std::string judge03(const conv::Outcome &o, const ref::Expect &e, ref::Enc to) {
    if (o.kind == 2) return "outcome is neither a buffer nor ST::unicode_error: " + o.what;
    if (o.kind == 1) return std::string();                        // rejecting is always a permitted outcome for C03
    if (!o.terminated) return "no terminating NUL after " + verif::unum(o.reported_size) + " units";
    if (e.throws) return std::string();                           // acceptance is C02's business
    if (o.reported_size != e.out.size())
        return "size() is " + verif::unum(o.reported_size) + " but the reference transcoding has " + verif::unum(e.out.size()) + " units (got " + verif::units(o.out) + ", reference " + verif::units(e.out) + ")";
    // unwritten tail detection: fresh heap memory is filled with 0xBE by the allocator (ASAN_OPTIONS malloc_fill_byte)
    const uint32_t fill = to == ref::UTF16 ? 0xBEBEu : (to == ref::UTF32 ? 0xBEBEBEBEu : 0xBEu);
    for (size_t i = 0; i < e.out.size(); i++)
        if (!e.wild[i] && o.out[i] != e.out[i] && (o.out[i] == fill || (o.out[i] == 0 && o.reported_size < 12)))   // short results live in zero-initialised in-object storage
            return "unit " + verif::unum(i) + " of the result still holds the allocator fill pattern (or the zero of fresh in-object storage): part of the result was left unwritten (reference " + verif::units(e.out) + ")";
    return std::string();
}

struct Counters { long calls = 0; };

// runs every conversion that reads `from` on `src`; returns "" or the first violation
std::string run_all(ref::Enc from, const Units &src, unsigned route_sel, bool null_empty, bool &heap_result, std::string *desc, long &calls) {
    for (int ci = 0; ci < conv::NCONV; ci++) {
        conv::Conv c = (conv::Conv)ci;
        const conv::ConvInfo &inf = conv::info(c);
        if (inf.from != from) continue;
        for (int m = 0; m < 3; m++) {
            if (!inf.takes_mode && m != 2) continue;
            for (int fl = 0; fl < 2; fl++) {
                if (!inf.takes_l1flag && fl) continue;
                int route = (int)((route_sel + ci + m) % (unsigned)inf.nroutes);
                ref::Mode mode = conv::effective_mode(c, (ref::Mode)m);
                ref::Expect e = ref::expect(inf.from, inf.to, mode, src, fl == 0);
                conv::Outcome o = conv::run(c, route, (ref::Mode)m, fl == 0, src, null_empty);
                calls++;
                if (o.kind == 0 && o.reported_size >= 12) heap_result = true;
                std::string why = judge03(o, e, inf.to);
                if (!why.empty()) {
                    std::string d = std::string(inf.name) + " route " + verif::num(route) + " mode=" + conv::mode_name((ref::Mode)m) + (inf.takes_l1flag ? (fl == 0 ? " substitute_out_of_range=true" : " substitute_out_of_range=false") : "") + ": " + why;
                    if (desc) *desc = d;
                    return d;
                }
            }
        }
    }
    return std::string();
}

std::string show_units(ref::Enc enc, const Units &u) {
    std::string s;
    char tmp[16];
    for (size_t i = 0; i < u.size() && i < 40; i++) { snprintf(tmp, sizeof tmp, enc == ref::UTF16 ? "%04X" : enc == ref::UTF32 ? "%X" : "%02X", u[i]); if (i) s += ' '; s += tmp; }
    if (u.size() > 40) s += " ..(" + verif::unum(u.size()) + " units)";
    return s;
}

}  // namespace

int verif_case(const uint8_t *data, size_t size, Case &c) {
    verif::Reader r(data, size, c);
    ref::Enc from;
    Units src;
    const char *kind = "directed";
    uint8_t first = r.u8();
    if (first == 0xFF) {               // directed: encoding byte, then 4 bytes per unit
        from = (ref::Enc)(r.u8() & 3);
        while (!r.exhausted()) src.push_back(r.bits32() & ugen::mask_of(from));
    } else {
        from = (ref::Enc)(first & 3);
        src = ugen::units(r, from, kind);
    }
    unsigned route_sel = r.u8();
    bool null_empty = r.flag();
    c.label(conv::enc_name(from));
    c.label(kind);
    if (src.empty()) c.label(null_empty ? "null-with-zero-length" : "empty");
    bool malformed = false;
    for (const ref::Item &it : ref::decode(from, src)) if (!it.ok) malformed = true;
    if (malformed) c.label("has-offending-unit");
    bool heap = false;
    long calls = 0;
    std::string why = run_all(from, src, route_sel, null_empty, heap, nullptr, calls);
    c.nontrivial = (src.size() >= 2 && (malformed || !strcmp(kind, "truncated"))) || heap;
    if (heap) c.label("heap-result");
    if (c.want_text) c.text = std::string("C03 ") + conv::enc_name(from) + " [" + kind + "] in=" + show_units(from, src) + (src.empty() && null_empty ? " (null pointer)" : "") + " -> " + verif::num(calls) + " conversions x modes";
    if (!why.empty()) return c.fail(why);
    return verif::CASE_OK;
}

// Bounded-exhaustive: all strings over class alphabets (UTF-8: length <= 4 quick / 5 thorough over 18 classes; UTF-16 <= 4/5 over 8; UTF-32 <= 3/4 over 10)
long verif_enumerate(int shard, int nshards, int tier, verif::EnumReport &r) {
    static const uint32_t a8[] = {0x00, 0x41, 0x7F, 0x80, 0x90, 0xA0, 0xBF, 0xC0, 0xC2, 0xDF, 0xE0, 0xED, 0xEF, 0xF0, 0xF4, 0xF7, 0xF8, 0xFF};
    static const uint32_t a16[] = {0x0041, 0xD7FF, 0xD800, 0xDBFF, 0xDC00, 0xDFFF, 0xE000, 0xFFFF};
    static const uint32_t a32[] = {0x0, 0x41, 0xD800, 0xDFFF, 0xFFFF, 0x10000, 0x10FFFF, 0x110000, 0x7FFFFFFF, 0xFFFFFFFF};
    struct Dom { ref::Enc enc; const uint32_t *alpha; size_t na; size_t maxlen; };
    const Dom doms[] = {{ref::UTF8, a8, 18, (size_t)(tier ? 5 : 4)}, {ref::UTF16, a16, 8, (size_t)(tier ? 5 : 4)}, {ref::UTF32, a32, 10, (size_t)(tier ? 4 : 3)}};
    std::vector<uint8_t> cur;
    long idx = 0;
    for (const Dom &d : doms) {
        for (size_t len = 0; len <= d.maxlen; len++) {
            size_t total = 1; for (size_t k = 0; k < len; k++) total *= d.na;
            for (size_t code = 0; code < total; code++, idx++) {
                if (idx % nshards != shard) continue;
                Units u; size_t x = code;
                for (size_t k = 0; k < len; k++) { u.push_back(d.alpha[x % d.na]); x /= d.na; }
                cur.assign({0xFF, (uint8_t)d.enc});
                for (uint32_t v : u) for (int b = 0; b < 4; b++) cur.push_back((uint8_t)(v >> (8 * b)));
                verif::set_current(cur.data(), cur.size());
                bool heap = false; long calls = 0;
                std::string why = run_all(d.enc, u, (unsigned)code, false, heap, nullptr, calls);
                r.evaluations++;
                bool malformed = false; for (const ref::Item &it : ref::decode(d.enc, u)) if (!it.ok) malformed = true;
                if (len >= 2 && malformed) r.nontrivial++;
                if (r.want_sample() && len == d.maxlen && malformed && (code % 977) == 5) r.samples.push_back(std::string("C03 ") + conv::enc_name(d.enc) + " [enumerated] in=" + show_units(d.enc, u));
                if (!why.empty()) { r.failure = why; r.failing_case = std::string("C03 ") + conv::enc_name(d.enc) + " in=" + show_units(d.enc, u); r.failing_bytes = cur; return r.evaluations; }
            }
        }
    }
    if (shard == 0) {
        r.exhausted.push_back(std::string("all UTF-8 strings of length <= ") + (tier ? "5" : "4") + " over the 18-byte class alphabet 00 41 7F 80 90 A0 BF C0 C2 DF E0 ED EF F0 F4 F7 F8 FF, every conversion reading UTF-8 x 3 modes");
        r.exhausted.push_back(std::string("all UTF-16 strings of length <= ") + (tier ? "5" : "4") + " over {0041,D7FF,D800,DBFF,DC00,DFFF,E000,FFFF}; all UTF-32 strings of length <= " + (tier ? "4" : "3") + " over {0,41,D800,DFFF,FFFF,10000,10FFFF,110000,7FFFFFFF,FFFFFFFF}");
    }
    return r.evaluations;
}

void verif_corpus(std::vector<std::vector<uint8_t>> &out) {
    // malformed literals in the style of test_string.cpp, as directed inputs
    auto directed = [&](ref::Enc e, std::initializer_list<uint32_t> us) { std::vector<uint8_t> v{0xFF, (uint8_t)e}; for (uint32_t u : us) for (int b = 0; b < 4; b++) v.push_back((uint8_t)(u >> (8 * b))); out.push_back(v); };
    directed(ref::UTF8, {0xF4, 0x90, 0x80, 0x80});
    directed(ref::UTF8, {0x41, 0xE2, 0x82, 0x42});
    directed(ref::UTF8, {0xC0, 0x80, 0xED, 0xA0, 0x80});
    directed(ref::UTF16, {0xD800, 0x0041, 0xDC00, 0xD800});
    directed(ref::UTF32, {0x110000, 0x41, 0xD800});
    directed(ref::LATIN1, {0xE9, 0x41, 0xFF});
}
