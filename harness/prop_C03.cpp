// C03: conversions are total and memory-safe on arbitrary input.
#include "gen/conv_calls.h"
#include "gen/conv_calls_ext.h"
#include "gen/conv_lean.h"
#include "gen/unit_gen.h"
#include "gen/long_gen.h"

using verif::Case;
using ref::Units;

const verif::Info verif_info = {
    "C03", 700,
    "unit strings in each source encoding (class-alphabet strings, well-formed text, well-formed text with 1-4 mutations, well-formed text cut at "
    "any unit, a pattern repeated up to 4096 units, raw units, empty and null-with-zero-length), pushed through all 12 conversion pairs, the 8 wchar_t "
    "aliases, 5 routes into and 4 out of ST::string, every overload route, 3 validation modes and both Latin-1 flags; inputs are exact-size heap blocks. "
    "Each generated input also runs one group of the extended entry points (gen/conv_calls_ext.h; directed inputs and all strings of length <= 2 run all "
    "groups): STL string/string_view/char8_t overloads with and without a mode, C-string (ST_AUTO_SIZE, text up to the first NUL, null pointer for empty) "
    "overloads of every width, operator+ / += with C strings and single characters on either side, set_validated/from_validated, literal operators, "
    "ST::null forms, std::filesystem::path in/out, caller-supplied-output overloads (to_buffer, to_std_string of every type) on pre-filled targets, deprecated "
    "utf_validation_t overloads, view(start,length), and set()/operator=/+= from a pointer or view into the target itself (arbitrary slice, all modes). "
    "First byte 0xFE: long inputs - a well-formed or garbage pattern repeated to an exact multiple of 1 Ki..1 Mi units or a few off, last character whole "
    "or cut (over 6000 units: lean typed call layer, judged on outcome kind, size, terminator); a deterministic grid of 256 Ki..320 Ki-unit runs (up to "
    "1 Mi in the thorough tier) and three expanding inputs just under the 256 Mi-unit bound (UTF-8 form over 256 MiB) are enumerated. Oracle: outcome is a buffer or ST::unicode_error, nothing else (no other exception, assertion, sanitizer "
    "report, hang); a returned buffer has size() == size of the reference transcoding for that input and mode, a NUL after the last unit, and no unit still "
    "holding the allocator's fill pattern (nothing left unwritten). When the reference says the mode must reject, only the outcome kind is judged (C02 "
    "judges acceptance). Non-trivial: malformed or truncated input of >= 2 units, or a result at/over the small-buffer limit.",
    true, "exploration"};

namespace {

// C03 judgement of one call: outcome kind, size, terminator, nothing unwritten.
std::string judge03(const conv::Outcome &o, const ref::Expect &e, ref::Enc to) {
    if (o.kind == 2) return "outcome is neither a buffer nor ST::unicode_error: " + o.what;
    if (o.kind == 1) return std::string();                        // rejecting is always a permitted outcome for C03
    if (!o.terminated) return "no terminating NUL after " + verif::unum(o.reported_size) + " units";
    if (e.throws) return std::string();                           // acceptance is C02's business
    if (o.reported_size != e.out.size())
        return "size() is " + verif::unum(o.reported_size) + " but the reference transcoding has " + verif::unum(e.out.size()) + " units (got " + verif::units(o.out) + ", reference " + verif::units(e.out) + ")";
    // unwritten tail detection: fresh heap memory is filled with 0xBE by the allocator (ASAN_OPTIONS malloc_fill_byte)
    const uint32_t fill = to == ref::UTF16 ? 0xBEBEu : (to == ref::UTF32 ? 0xBEBEBEBEu : 0xBEu);
    for (size_t i = 0; i < e.out.size(); i++)
        if (!e.wild[i] && o.out[i] != e.out[i] && (o.out[i] == fill || (o.out[i] == 0 && o.reported_size < 12)))   // short results live in zero-initialised in-object storage
            return "unit " + verif::unum(i) + " of the result still holds the allocator fill pattern (or the zero of fresh in-object storage): part of the result was left unwritten (reference " + verif::units(e.out) + ")";
    return std::string();
}

struct Counters { long calls = 0; };

// runs every conversion that reads `from` on `src`; returns "" or the first violation
std::string run_all(ref::Enc from, const Units &src, unsigned route_sel, bool null_empty, bool &heap_result, std::string *desc, long &calls) {
    for (int ci = 0; ci < conv::NCONV; ci++) {
        conv::Conv c = (conv::Conv)ci;
        const conv::ConvInfo &inf = conv::info(c);
        if (inf.from != from) continue;
        for (int m = 0; m < 3; m++) {
            if (!inf.takes_mode && m != 2) continue;
            for (int fl = 0; fl < 2; fl++) {
                if (!inf.takes_l1flag && fl) continue;
                int route = (int)((route_sel + ci + m) % (unsigned)inf.nroutes);
                ref::Mode mode = conv::effective_mode(c, (ref::Mode)m);
                ref::Expect e = ref::expect(inf.from, inf.to, mode, src, fl == 0);
                conv::Outcome o = conv::run(c, route, (ref::Mode)m, fl == 0, src, null_empty);
                calls++;
                if (o.kind == 0 && o.reported_size >= 12) heap_result = true;
                std::string why = judge03(o, e, inf.to);
                if (!why.empty()) {
                    std::string d = std::string(inf.name) + " route " + verif::num(route) + " mode=" + conv::mode_name((ref::Mode)m) + (inf.takes_l1flag ? (fl == 0 ? " substitute_out_of_range=true" : " substitute_out_of_range=false") : "") + ": " + why;
                    if (desc) *desc = d;
                    return d;
                }
            }
        }
    }
    return std::string();
}

// The extended entry points (gen/conv_calls_ext.h) that read `from`, judged by the same rule.  `groups` selects which groups of entry points run.
std::string run_ext(ref::Enc from, const Units &src, unsigned xsel, size_t k, size_t len, bool null_empty, unsigned groups, unsigned mode_mask, bool &heap_result, long &calls) {
    convx::Params p; p.sel = xsel; p.k = k; p.len = len; p.null_empty = null_empty; p.groups = groups; p.mode_mask = mode_mask;
    const convx::Judge judge = [&](const convx::Call &c) {
        if (c.o.kind == 0 && c.o.reported_size >= 12) heap_result = true;
        return judge03(c.o, *c.e, c.to);
    };
    return convx::for_each_ext(from, src, p, judge, calls);
}

// Inputs just under the 256 Mi-unit bound of the statement whose UTF-8 form is larger than 256 MiB (enumerator only; as a verif_case
// input: FD 'N' 'E' 'A' 'R' '2' '5' '6' k).  One identical expanding character; judged on outcome kind, size, terminator and sampled content.
// Lack of memory (malloc returning null, std::bad_alloc) ends the probe without a verdict.
std::string near_limit_probe(unsigned k, std::string *text) {
    struct Free { void *p; ~Free() { ::free(p); } };
    const ST::utf_validation_t modes[2] = {ST::check_validity, ST::assume_valid};
    auto check = [](const ST::char_buffer &out, size_t want, const char *pat, size_t pn, const char *what) -> std::string {
        if (out.size() != want) return std::string(what) + ": size() is " + verif::unum(out.size()) + " but the reference transcoding has " + verif::unum(want) + " units";
        if (out.data()[want] != 0) return std::string(what) + ": no terminating NUL";
        const size_t tail = want > 8192 ? want - 8192 : 0;           // every byte of the first 4 KiB and the last 8 KiB, one in ~1M in between
        for (size_t i = 0; i < want; i = (i < 4096 || i >= tail) ? i + 1 : (i + 1000003 < tail ? i + 1000003 : tail)) if (out.data()[i] != pat[i % pn]) return std::string(what) + ": byte " + verif::unum(i) + " of the result differs from the reference transcoding";
        return std::string();
    };
    try {
        switch (k % 3) {
        case 0: {
            const size_t n = ((size_t)1 << 26) + 1;                  // 64 Mi + 1 UTF-32 units -> 256 MiB + 4 bytes of UTF-8
            if (text) *text = "utf32_to_utf8 / wchar_to_utf8 of 64 Mi + 1 units U+10000";
            char32_t *in = static_cast<char32_t *>(::malloc(n * sizeof(char32_t))); if (!in) return std::string();
            Free guard{in};
            for (size_t i = 0; i < n; i++) in[i] = 0x10000;
            for (ST::utf_validation_t M : modes) { std::string w = check(ST::utf32_to_utf8(in, n, M), 4 * n, "\xF0\x90\x80\x80", 4, "utf32_to_utf8 (64 Mi + 1 units of U+10000)"); if (!w.empty()) return w; }
            std::string w = check(ST::wchar_to_utf8(reinterpret_cast<const wchar_t *>(in), n, ST::substitute_invalid), 4 * n, "\xF0\x90\x80\x80", 4, "wchar_to_utf8 (64 Mi + 1 units of U+10000)");
            return w; }
        case 1: {
            const size_t n = 0x10000000 / 3 + 3;                     // ~85.3 Mi UTF-16 units -> just over 256 MiB of UTF-8
            if (text) *text = "utf16_to_utf8 / ST::string::from_utf16 of 0x10000000/3 + 3 units U+20AC";
            char16_t *in = static_cast<char16_t *>(::malloc(n * sizeof(char16_t))); if (!in) return std::string();
            Free guard{in};
            for (size_t i = 0; i < n; i++) in[i] = 0x20AC;
            for (ST::utf_validation_t M : modes) { std::string w = check(ST::utf16_to_utf8(in, n, M), 3 * n, "\xE2\x82\xAC", 3, "utf16_to_utf8 (0x10000000/3 + 3 units of U+20AC)"); if (!w.empty()) return w; }
            ST::string st = ST::string::from_utf16(in, n, ST::substitute_invalid);
            return check(st.to_utf8(), 3 * n, "\xE2\x82\xAC", 3, "ST::string::from_utf16 (0x10000000/3 + 3 units of U+20AC)"); }
        default: {
            const size_t n = ((size_t)1 << 27) + 1;                  // 128 Mi + 1 Latin-1 bytes -> 256 MiB + 2 bytes of UTF-8
            if (text) *text = "latin_1_to_utf8 / ST::string::from_latin_1 of 128 Mi + 1 bytes E9";
            char *in = static_cast<char *>(::malloc(n)); if (!in) return std::string();
            Free guard{in};
            memset(in, 0xE9, n);
            std::string w = check(ST::latin_1_to_utf8(in, n), 2 * n, "\xC3\xA9", 2, "latin_1_to_utf8 (128 Mi + 1 bytes E9)"); if (!w.empty()) return w;
            ST::string st = ST::string::from_latin_1(in, n);
            return check(st.to_utf8(), 2 * n, "\xC3\xA9", 2, "ST::string::from_latin_1 (128 Mi + 1 bytes E9)"); }
        }
    } catch (const ST::unicode_error &e) { return std::string("well-formed input under the 256 Mi-unit bound rejected: ") + e.what(); }
    catch (const std::bad_alloc &) { return std::string(); }
    catch (...) { return "outcome is neither a buffer nor ST::unicode_error: " + verif::describe_current_exception(); }
}
static const uint8_t kNearMagic[8] = {0xFD, 'N', 'E', 'A', 'R', '2', '5', '6'};

std::string show_units(ref::Enc enc, const Units &u) {
    std::string s;
    char tmp[16];
    for (size_t i = 0; i < u.size() && i < 40; i++) { snprintf(tmp, sizeof tmp, enc == ref::UTF16 ? "%04X" : enc == ref::UTF32 ? "%X" : "%02X", u[i]); if (i) s += ' '; s += tmp; }
    if (u.size() > 40) s += " ..(" + verif::unum(u.size()) + " units)";
    return s;
}

}  // namespace

int verif_case(const uint8_t *data, size_t size, Case &c) {
    verif::Reader r(data, size, c);
    ref::Enc from;
    Units src;
    const char *kind = "directed";
    const char *size_label = nullptr;
    uint8_t first = r.u8();
    if (size == 9 && memcmp(data, kNearMagic, 8) == 0) {        // directed only: near-256-Mi probe (never produced by the generators)
        std::string text; std::string why = near_limit_probe(data[8], &text);
        c.label("near-256Mi-units-probe"); c.nontrivial = true;
        if (c.want_text) c.text = "C03 near-limit probe: " + text;
        if (!why.empty()) return c.fail(why);
        return verif::CASE_OK;
    }
    if (first == 0xFF) {               // directed: encoding byte, then 4 bytes per unit
        from = (ref::Enc)(r.u8() & 3);
        while (!r.exhausted()) src.push_back(r.bits32() & ugen::mask_of(from));
    } else if (first == 0xFE) {        // long input: a short pattern (well-formed or garbage) repeated to an exact total length (gen/long_gen.h)
        from = (ref::Enc)(r.u8() & 3);
        src = ugen::long_units(r, from, kind, size_label);
    } else {
        from = (ref::Enc)(first & 3);
        src = ugen::units(r, from, kind);
    }
    unsigned route_sel = r.u8();
    bool null_empty = r.flag();
    // trailing bytes (after the existing layout): which group of extended entry points runs, target pre-state rotation, slice for view()/aliasing sources
    // (directed inputs take the pre-state rotation from their content, as the enumerator does, so that enumerated failures replay)
    unsigned xsel = first == 0xFF ? ((unsigned)convx::units_hash(src) & 0x7FFFu) << 3 : r.u8();
    size_t k = first == 0xFF ? (src.size() > 1 ? 1 : 0) : r.idx(src.size() + 1);
    size_t len = first == 0xFF ? (src.size() > 2 ? src.size() - 2 : src.size() - k) : r.idx(src.size() - k + 1);
    c.label(conv::enc_name(from));
    c.label(kind);
    if (size_label) c.label(size_label);
    if (src.empty()) c.label(null_empty ? "null-with-zero-length" : "empty");
    bool malformed = false;
    { size_t pos = 0; bool last_bad = false; for (const ref::Item &it : ref::decode(from, src)) { if (!it.ok) malformed = true; pos += it.units; last_bad = !it.ok; } if (last_bad) c.label("ends-in-cut-or-offending-unit"); }
    if (malformed) c.label("has-offending-unit");
    bool heap = false;
    long calls = 0;
    // inputs over 6000 units go through the lean typed call layer (outcome kind, size, terminator); shorter ones through the full judge
    const bool lean_path = src.size() > 6000;
    std::string why = lean_path ? lean::all_from(from, src, route_sel, calls) : run_all(from, src, route_sel, null_empty, heap, nullptr, calls);
    if (lean_path) heap = true;
    if (why.empty() && src.size() <= 24 && (xsel & 0x80)) why = lean::cross_check(from, src);
    if (why.empty() && src.size() <= 70000) {
        // directed inputs run every extended entry point in every mode; generated ones one group (all modes when short, one mode otherwise)
        unsigned groups = first == 0xFF ? ~0u : 1u << (xsel & 7);
        unsigned mode_mask = (first == 0xFF || src.size() <= 48) ? 7u : 1u << ((xsel >> 3) % 3);
        static const char *const gname[8] = {"ext:into-string-with-mode", "ext:mode-omitted", "ext:c-string+operator+", "ext:verbatim/literal/path", "ext:out-of-string", "ext:latin1-out/deprecated", "ext:slice/aliasing", "ext:single-characters"};
        c.label(first == 0xFF ? "ext:all" : gname[xsel & 7]);
        why = run_ext(from, src, xsel >> 3, k, len, null_empty, groups, mode_mask, heap, calls);
    }
    c.nontrivial = (src.size() >= 2 && (malformed || !strcmp(kind, "truncated"))) || heap;
    if (heap) c.label("heap-result");
    if (c.want_text) c.text = std::string("C03 ") + conv::enc_name(from) + " [" + kind + "] in=" + show_units(from, src) + (src.empty() && null_empty ? " (null pointer)" : "") + " -> " + verif::num(calls) + " conversions x modes";
    if (!why.empty()) return c.fail(why);
    return verif::CASE_OK;
}

// Bounded-exhaustive: all strings over class alphabets (UTF-8: length <= 4 quick / 5 thorough over 18 classes; UTF-16 <= 4/5 over 8; UTF-32 <= 3/4 over 10)
long verif_enumerate(int shard, int nshards, int tier, verif::EnumReport &r) {
    static const uint32_t a8[] = {0x00, 0x41, 0x7F, 0x80, 0x90, 0xA0, 0xBF, 0xC0, 0xC2, 0xDF, 0xE0, 0xED, 0xEF, 0xF0, 0xF4, 0xF7, 0xF8, 0xFF};
    static const uint32_t a16[] = {0x0041, 0xD7FF, 0xD800, 0xDBFF, 0xDC00, 0xDFFF, 0xE000, 0xFFFF};
    static const uint32_t a32[] = {0x0, 0x41, 0xD800, 0xDFFF, 0xFFFF, 0x10000, 0x10FFFF, 0x110000, 0x7FFFFFFF, 0xFFFFFFFF};
    struct Dom { ref::Enc enc; const uint32_t *alpha; size_t na; size_t maxlen; };
    const Dom doms[] = {{ref::UTF8, a8, 18, (size_t)(tier ? 5 : 4)}, {ref::UTF16, a16, 8, (size_t)(tier ? 5 : 4)}, {ref::UTF32, a32, 10, (size_t)(tier ? 4 : 3)}};
    std::vector<uint8_t> cur;
    long idx = 0;
    for (const Dom &d : doms) {
        for (size_t len = 0; len <= d.maxlen; len++) {
            size_t total = 1; for (size_t k = 0; k < len; k++) total *= d.na;
            for (size_t code = 0; code < total; code++, idx++) {
                if (idx % nshards != shard) continue;
                Units u; size_t x = code;
                for (size_t k = 0; k < len; k++) { u.push_back(d.alpha[x % d.na]); x /= d.na; }
                cur.assign({0xFF, (uint8_t)d.enc});
                for (uint32_t v : u) for (int b = 0; b < 4; b++) cur.push_back((uint8_t)(v >> (8 * b)));
                verif::set_current(cur.data(), cur.size());
                bool heap = false; long calls = 0;
                std::string why = run_all(d.enc, u, (unsigned)code, false, heap, nullptr, calls);
                // extended entry points: every string of length <= 2 runs all of them; longer ones one group each (rotating), every third string
                if (why.empty() && len <= 3) why = lean::cross_check(d.enc, u);
                if (why.empty() && (len <= 2 || code % 3 == 0))
                    why = run_ext(d.enc, u, (unsigned)convx::units_hash(u) & 0x7FFFu, len > 1 ? 1 : 0, len > 2 ? len - 2 : len - (len > 1 ? 1 : 0), false, len <= 2 ? ~0u : 1u << ((code / 3) & 7), 7u, heap, calls);
                r.evaluations++;
                bool malformed = false; for (const ref::Item &it : ref::decode(d.enc, u)) if (!it.ok) malformed = true;
                if (len >= 2 && malformed) r.nontrivial++;
                if (r.want_sample() && len == d.maxlen && malformed && (code % 977) == 5) r.samples.push_back(std::string("C03 ") + conv::enc_name(d.enc) + " [enumerated] in=" + show_units(d.enc, u));
                if (!why.empty()) { r.failure = why; r.failing_case = std::string("C03 ") + conv::enc_name(d.enc) + " in=" + show_units(d.enc, u); r.failing_bytes = cur; return r.evaluations; }
            }
        }
    }
    // Long inputs (deterministic grid, each point is an input of verif_case: first byte 0xFE, explicit length code 255): runs of one identical
    // well-formed character of every width, of Latin-1 high bytes, and of garbage units, 256 Ki / 300 Ki / 320 Ki units and one off, last character cut or not.
    {
        std::vector<std::vector<uint8_t>> grid;
        static const uint32_t tot_quick[] = {262143, 262144, 262145, 307200, 327680};
        static const uint32_t tot_thorough[] = {4096, 65535, 65536, 65537, 131072, 262143, 262144, 262145, 307200, 327679, 327680, 327681, 524288, 1048576, 1048577};
        auto point = [&](unsigned enc, std::vector<uint8_t> pattern_bytes, uint32_t total, bool pad_behind, unsigned cut) {
            std::vector<uint8_t> b{0xFE, (uint8_t)enc};
            b.insert(b.end(), pattern_bytes.begin(), pattern_bytes.end());
            b.push_back(255); for (int k = 0; k < 4; k++) b.push_back((uint8_t)(total >> (8 * k)));
            b.push_back(pad_behind ? 1 : 0); b.push_back((uint8_t)cut);
            b.push_back((uint8_t)grid.size());       // route_sel
            grid.push_back(b);
        };
        const size_t nt = tier ? sizeof tot_thorough / sizeof tot_thorough[0] : sizeof tot_quick / sizeof tot_quick[0];
        for (size_t ti = 0; ti < nt; ti++) {
            const uint32_t total = tier ? tot_thorough[ti] : tot_quick[ti];
            const bool big = total > 600000;
            // Latin-1: style 0 = one identical byte; table l1[] = {E9, FF, 80, A0, 41, 00, 7F, C3}
            for (uint8_t li : {0, 1, 2}) { if (big && li) continue; point(ref::LATIN1, {0, li}, total, false, 0); if (ti % 2 == 0) point(ref::LATIN1, {0, li}, total, true, 0); }
            if (!big) point(ref::LATIN1, {1, 1, 0, 4}, total, false, 0);                  // pattern E9 41
            for (unsigned enc = 0; enc < 3; enc++) {
                // style 0: one identical well-formed scalar from ugen::kLongScalars (0 E9, 2 20AC, 3 1F600, 8 10FFFF)
                for (uint8_t ci : {0, 2, 3, 8}) { if (big && ci != 3) continue; point(enc, {0, ci}, total, false, 0); if (ti % 2 == 1) point(enc, {0, ci}, total, false, 1); }
                // style 2: one identical class-alphabet unit (index into ugen::class_unit's table of that encoding): garbage runs
                static const uint8_t g8[] = {3 /*80*/, 8 /*C2*/, 10 /*E0*/, 13 /*F0*/, 17 /*FF*/}, g16[] = {3 /*D800*/, 5 /*DC00*/, 8 /*FFFF*/}, g32[] = {2 /*D800*/, 7 /*110000*/, 9 /*FFFFFFFF*/};
                const uint8_t *g = enc == 0 ? g8 : enc == 1 ? g16 : g32; const size_t ng = enc == 0 ? 5 : 3;
                if (!big) for (size_t gi = 0; gi < ng; gi++) if ((gi + ti) % 2 == 0 || tier) point(enc, {2, g[gi]}, total, false, 0);
            }
        }
        for (size_t gi = (size_t)shard; gi < grid.size(); gi += (size_t)nshards) {
            const std::vector<uint8_t> &bytes = grid[gi];
            verif::set_current(bytes.data(), bytes.size());
            verif::Case cs; verif::Reader rd(bytes.data() + 1, bytes.size() - 1, cs);
            ref::Enc from = (ref::Enc)(rd.u8() & 3);
            const char *kind = "", *size_label = "";
            Units u = ugen::long_units(rd, from, kind, size_label);
            unsigned route_sel = rd.u8();
            bool heap = false; long calls = 0;
            std::string why = lean::all_from(from, u, route_sel, calls);
            r.evaluations++; r.nontrivial++;
            std::string desc = std::string("C03 ") + conv::enc_name(from) + " [" + kind + "] in=" + show_units(from, u);
            if (!why.empty()) { r.failure = why; r.failing_case = desc; r.failing_bytes = bytes; return r.evaluations; }
            if (r.want_sample() && gi % 41 == 7) r.samples.push_back(desc + " [enumerated grid]");
        }
    }
    if (shard == nshards - 1) {     // three inputs just under the 256 Mi-unit bound whose UTF-8 form exceeds 256 MiB (one at a time, < 0.8 GB resident)
        for (unsigned k = 0; k < 3; k++) {
            uint8_t d[9]; memcpy(d, kNearMagic, 8); d[8] = (uint8_t)k; verif::set_current(d, 9);
            std::string text; std::string why = near_limit_probe(k, &text);
            r.evaluations++; r.nontrivial++;
            if (!why.empty()) { r.failure = why; r.failing_case = "C03 near-limit probe: " + text; r.failing_bytes.assign(d, d + 9); return r.evaluations; }
            if (r.want_sample()) r.samples.push_back("C03 near-limit probe: " + text);
        }
    }
    if (shard == 0) {
        r.exhausted.push_back("three near-limit inputs (64 Mi+1 UTF-32 units of U+10000, 0x10000000/3+3 UTF-16 units of U+20AC, 128 Mi+1 Latin-1 bytes E9: under the 256 Mi-unit bound, UTF-8 form over 256 MiB) to UTF-8 and into ST::string");
        r.exhausted.push_back(std::string("grid of long inputs: runs of one identical unit/character (Latin-1 E9 FF 80 and E9 41; U+00E9 U+20AC U+1F600 U+10FFFF in UTF-8/16/32; garbage units 80 C2 E0 F0 FF / D800 DC00 FFFF / D800 110000 FFFFFFFF), total ") +
                              (tier ? "4 Ki .. 1 Mi units incl. 64 Ki, 256 Ki, 320 Ki, 512 Ki, 1 Mi and one off" : "256 Ki-1, 256 Ki, 256 Ki+1, 300 Ki, 320 Ki units") + ", filler in front or behind, last character whole or cut, every conversion reading that encoding x 3 modes");
        r.exhausted.push_back(std::string("all UTF-8 strings of length <= ") + (tier ? "5" : "4") + " over the 18-byte class alphabet 00 41 7F 80 90 A0 BF C0 C2 DF E0 ED EF F0 F4 F7 F8 FF, every conversion reading UTF-8 x 3 modes");
        r.exhausted.push_back(std::string("all UTF-16 strings of length <= ") + (tier ? "5" : "4") + " over {0041,D7FF,D800,DBFF,DC00,DFFF,E000,FFFF}; all UTF-32 strings of length <= " + (tier ? "4" : "3") + " over {0,41,D800,DFFF,FFFF,10000,10FFFF,110000,7FFFFFFF,FFFFFFFF}");
    }
    return r.evaluations;
}

void verif_corpus(std::vector<std::vector<uint8_t>> &out) {
    // malformed literals in the style of test_string.cpp, as directed inputs
    auto directed = [&](ref::Enc e, std::initializer_list<uint32_t> us) { std::vector<uint8_t> v{0xFF, (uint8_t)e}; for (uint32_t u : us) for (int b = 0; b < 4; b++) v.push_back((uint8_t)(u >> (8 * b))); out.push_back(v); };
    directed(ref::UTF8, {0xF4, 0x90, 0x80, 0x80});
    directed(ref::UTF8, {0x41, 0xE2, 0x82, 0x42});
    directed(ref::UTF8, {0xC0, 0x80, 0xED, 0xA0, 0x80});
    directed(ref::UTF16, {0xD800, 0x0041, 0xDC00, 0xD800});
    directed(ref::UTF32, {0x110000, 0x41, 0xD800});
    directed(ref::LATIN1, {0xE9, 0x41, 0xFF});
    // (no seeds for the long-input mode, first byte 0xFE: long runs add no coverage and only slow a fuzzer down; rapidcheck and the enumerated grid produce them)
    // generated inputs with each group of extended entry points selected (trailing bytes: route_sel, null flag, ext selector, slice)
    for (uint8_t g = 0; g < 8; g++) out.push_back({(uint8_t)(g & 3), 2, 1, 12, 0, 0, 0, 0, 0, 0, 0, 0, 0, 0, 0, 0, 0, 0, 0, 0, 3, 1, g, 1, 2});
}
