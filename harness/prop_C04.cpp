// C04: ST::string has value semantics - reads never mutate, results never alias.
#include <string_theory/codecs>
#include <string_theory/format>
#include <string_theory/iostream>
#include <string_theory/stdio>
#include <string_theory/string>
#include <string_theory/string_stream>

#include <cstdarg>
#include <filesystem>
#include <sstream>
#include <string>
#include <vector>

#include "common/alloc_track.h"
#include "common/verif.h"

using verif::Case;
namespace va = verif::alloc;

const verif::Info verif_info = {
    "C04", 500,
    "histories of 1..60 operations over a pool of 8 heap-placed ST::string objects plus a pool of result objects (buffers of all 4 widths, vectors of "
    "strings). Values from size classes {0,1,limit-1,limit,limit+1,2*limit,300} with ASCII, multi-byte and NUL content. Operations: construct, copy/move "
    "construct, copy/move assign (incl. s=s), set, += (all overloads, incl. s+=s), clear, destroy, and const calls drawn from find*/contains/starts/ends, "
    "compare*, substr/left/right/trim*, before/after_*, to_upper/lower, replace, split x3, tokenize, to_utf8/16/32/wchar/latin_1, to_std_*string, to_int.., "
    "hash, ST::format, string_stream<<, ostream<<, operator+ in every form - arguments drawn from the pool with replacement (s.replace(s,s), s.split(s), s+s) "
    "and results that equal the source produced deliberately - whose results are stored and later mutated/destroyed in either order. Oracle (after every "
    "step): every live string not targeted by the step has the same bytes, size and data() pointer as before, is NUL-terminated and equals its model; every "
    "live string/buffer/vector element uses storage inside its own object or an exclusively owned live heap block; results keep their creation-time "
    "content; nothing leaks. Non-trivial: a result is outlived by / outlives a mutation or destruction of its source, or a move occurs, with a value "
    "crossing the small-string limit. "
    "Extended histories (first byte 60..119; 0..59 keep the original operation table) add: set_validated (4 overloads), ST_LITERAL and the five _st literal "
    "operators (incl. embedded NULs), null_t construction/assignment/set/comparison, set / operator= / += / set_validated whose pointer or view argument aliases "
    "the target itself (exact expected bytes), to_buffer into live result-pool buffers (all overloads incl. deprecated), from_validated/from_utf8/16/32/wchar/latin_1, "
    "constructors, set, operator= and set_validated taking result-pool buffers by const reference and by rvalue, operator+ with a character or C string of every "
    "width on either side (incl. another string's own c_str()), chains of copies of copies, 14 pre-states (moved-from by constructor/set, short-after-long then "
    "copied/moved/whole-sliced, self-assigned, self-appended, self-moved, cleared, literal, null) that become the preferred source of the following calls, the "
    "char8_t / const char* / count / start / max overloads of find*, contains, starts/ends_with, compare*, before/after_*, replace, split, trim, tokenize with "
    "C-string arguments pointing into pool strings, every to_* number conversion with and without conversion_result, cbegin/cend/crbegin/crend, view(start,n), "
    "c_str/u8_str(substitute), to_std_string out-parameter overloads, to_path/from_path, hex/base64 decode of a string, format/format_latin_1/_stfmt/writef/printf, "
    "istream >> string. Steps whose result could exceed 64 KiB are skipped (label growth-capped); a harness resource bound ends the case as discarded.",
    false, "exploration"};

namespace {

enum { NS = 8, NR = 6 };
volatile unsigned long g_sink;   // keeps the results of read-only calls observable

struct Str { ST::string *obj = nullptr; void *raw = nullptr; std::string model; const char *last_data = nullptr; int derived_from = -1; };
struct Res {
    int kind = 0;      // 0 none, 1 char_buffer, 2 utf16, 3 utf32, 4 wchar, 5 vector<ST::string>
    void *obj = nullptr;
    std::string snap;  // raw bytes at creation
    int derived_from = -1;
};

struct World {
    Str s[NS]; Res r[NR];
    std::string log; bool want_log = false;
    size_t L = 16;
    bool nontrivial = false;
    int focus = -1;    // extended table: slot built in an unusual pre-state, preferred as source of the following calls
    bool discard = false;

    void note(const char *fmt, ...) __attribute__((format(printf, 2, 3))) {
        if (!want_log) return;
        char b[200]; va_list ap; va_start(ap, fmt); vsnprintf(b, sizeof b, fmt, ap); va_end(ap); log += b;
    }
    ST::string *place(int i) { s[i].raw = ::malloc(sizeof(ST::string)); memset(s[i].raw, 0xEE, sizeof(ST::string)); return static_cast<ST::string *>(s[i].raw); }
    bool inside(int i, const void *p) const { const char *lo = (const char *)s[i].raw; return s[i].raw && (const char *)p >= lo && (const char *)p < lo + sizeof(ST::string); }
    void adopt(int i) { const ST::string &t = *s[i].obj; s[i].model.assign(t.c_str(), t.size()); s[i].last_data = t.c_str(); }
    void born(int i, int from) { adopt(i); s[i].derived_from = from; }
    void mutated(int i) {   // slot i was changed or destroyed: anything derived from it (or it from) now demonstrates independence
        for (int k = 0; k < NS; k++) if (s[k].obj && k != i && (s[k].derived_from == i || (s[i].derived_from == k))) nontrivial_if_big(k, i);
        for (int k = 0; k < NR; k++) if (r[k].kind && r[k].derived_from == i) nontrivial = true;
    }
    void nontrivial_if_big(int a, int b) { if (s[a].model.size() >= L - 1 || s[b].model.size() >= L - 1) nontrivial = true; }
    void destroy_str(int i) {
        if (!s[i].obj) return;
        mutated(i);
        { va::LibScope l; s[i].obj->~string(); }
        memset(s[i].raw, 0xDD, sizeof(ST::string)); ::free(s[i].raw); s[i].raw = nullptr; s[i].obj = nullptr; s[i].derived_from = -1;
        for (int k = 0; k < NS; k++) if (s[k].derived_from == i) s[k].derived_from = -1;
        for (int k = 0; k < NR; k++) if (r[k].derived_from == i) r[k].derived_from = -1;
    }
    void destroy_res(int k) {
        if (!r[k].kind) return;
        va::LibScope l;
        switch (r[k].kind) {
        case 1: delete static_cast<ST::char_buffer *>(r[k].obj); break;
        case 2: delete static_cast<ST::utf16_buffer *>(r[k].obj); break;
        case 3: delete static_cast<ST::utf32_buffer *>(r[k].obj); break;
        case 4: delete static_cast<ST::wchar_buffer *>(r[k].obj); break;
        case 5: delete static_cast<std::vector<ST::string> *>(r[k].obj); break;
        }
        r[k].kind = 0; r[k].obj = nullptr; r[k].derived_from = -1;
    }
    int free_str() const { for (int i = 0; i < NS; i++) if (!s[i].obj) return i; return -1; }
    int free_res() const { for (int k = 0; k < NR; k++) if (!r[k].kind) return k; return -1; }

    template <class T> std::string raw_of(const ST::buffer<T> &b) { return std::string(reinterpret_cast<const char *>(b.data()), (b.size() + 1) * sizeof(T)); }
    std::string raw_of_vec(const std::vector<ST::string> &v) { std::string o; for (const ST::string &e : v) { o.append(e.c_str(), e.size() + 1); o += '|'; } return o; }

    // ---- helpers of the extended table ---------------------------------------------------------------------------
    // construct a new string in a free slot; returns the slot, -1 (no free slot) or -2 (the call refused its input: no result object)
    template <class F> int emplace(F &&make, int from) {
        int t = free_str(); if (t < 0) return -1;
        ST::string *q = place(t);
        try { va::LibScope l; make(q); }
        catch (const ST::unicode_error &) { ::free(s[t].raw); s[t].raw = nullptr; return -2; }
        catch (...) { ::free(s[t].raw); s[t].raw = nullptr; throw; }
        s[t].obj = q; born(t, from); return t;
    }
    void snap(int k) {
        Res &R = r[k];
        switch (R.kind) {
        case 1: R.snap = raw_of(*static_cast<ST::char_buffer *>(R.obj)); break;
        case 2: R.snap = raw_of(*static_cast<ST::utf16_buffer *>(R.obj)); break;
        case 3: R.snap = raw_of(*static_cast<ST::utf32_buffer *>(R.obj)); break;
        case 4: R.snap = raw_of(*static_cast<ST::wchar_buffer *>(R.obj)); break;
        case 5: R.snap = raw_of_vec(*static_cast<std::vector<ST::string> *>(R.obj)); break;
        default: break;
        }
    }
    // a live result-pool buffer of kind 1..4 in slot k (made from string `from` when the slot holds nothing suitable)
    void ensure_buffer(int k, int kind, int from) {
        if (r[k].kind >= 1 && r[k].kind <= 4) return;
        destroy_res(k);
        const ST::string &src = *s[from].obj;
        { va::LibScope l;
          switch (kind) {
          case 1: r[k].obj = new ST::char_buffer(src.to_utf8()); break;
          case 2: r[k].obj = new ST::utf16_buffer(src.to_utf16()); break;
          case 3: r[k].obj = new ST::utf32_buffer(src.to_utf32()); break;
          default: r[k].obj = new ST::wchar_buffer(src.to_wchar()); break;
          } }
        r[k].kind = kind; r[k].derived_from = from; snap(k);
    }
    // storage of an ST::string / buffer living at [obj, obj+objsize): inside itself or an exclusively owned block
    std::string storage_ok(const char *who, int idx, const void *obj, size_t objsize, const void *data, size_t bytes, std::vector<const void *> &seen) {
        char msg[240];
        const char *o = (const char *)obj;
        bool in = (const char *)data >= o && (const char *)data < o + objsize;
        if (in) { if ((const char *)data + bytes > o + objsize) { snprintf(msg, sizeof msg, "%s %d keeps %zu bytes in-object but they do not fit", who, idx, bytes); return msg; } return std::string(); }
        for (int j = 0; j < NS; j++) if (s[j].raw && s[j].raw != obj && inside(j, data)) { snprintf(msg, sizeof msg, "%s %d stores its text inside the ST::string object in slot %d", who, idx, j); return msg; }
        if (!va::owns(data, bytes)) { snprintf(msg, sizeof msg, "%s %d (%zu bytes) data() is neither inside the object nor the start of a live heap block of its own%s", who, idx, bytes, va::inside_any_block(data) ? " (it points into the middle of another block)" : ""); return msg; }
        for (const void *p : seen) if (p == data) { snprintf(msg, sizeof msg, "%s %d shares its heap block with another live object", who, idx); return msg; }
        seen.push_back(data);
        return std::string();
    }

    // the invariant; `target` (or -1) is the slot the step was allowed to change
    std::string check(int target, int target2 = -1) {
        char msg[300];
        std::vector<const void *> seen;
        for (int i = 0; i < NS; i++) {
            if (!s[i].obj) continue;
            const ST::string &t = *s[i].obj; const std::string &m = s[i].model;
            if (t.size() != m.size() || memcmp(t.c_str(), m.data(), m.size()) != 0) {
                snprintf(msg, sizeof msg, "string %d changed without being the target of the step: now %s (size %zu), was %s (size %zu)", i, verif::quoted(std::string(t.c_str(), t.size()), 30).c_str(), t.size(), verif::quoted(m, 30).c_str(), m.size());
                return msg;
            }
            if (t.c_str()[t.size()] != 0) { snprintf(msg, sizeof msg, "string %d is not NUL-terminated", i); return msg; }
            if (i != target && i != target2 && t.c_str() != s[i].last_data) { snprintf(msg, sizeof msg, "string %d: data pointer changed although the string was not the target of the step", i); return msg; }
            s[i].last_data = t.c_str();
            std::string w = storage_ok("string", i, s[i].raw, sizeof(ST::string), t.c_str(), t.size() + 1, seen);
            if (!w.empty()) return w;
        }
        for (int k = 0; k < NR; k++) {
            if (!r[k].kind) continue;
            std::string now, w;
            switch (r[k].kind) {
            case 1: { auto *b = static_cast<ST::char_buffer *>(r[k].obj); now = raw_of(*b); w = storage_ok("result buffer", k, b, sizeof *b, b->data(), b->size() + 1, seen); break; }
            case 2: { auto *b = static_cast<ST::utf16_buffer *>(r[k].obj); now = raw_of(*b); w = storage_ok("result buffer", k, b, sizeof *b, b->data(), (b->size() + 1) * 2, seen); break; }
            case 3: { auto *b = static_cast<ST::utf32_buffer *>(r[k].obj); now = raw_of(*b); w = storage_ok("result buffer", k, b, sizeof *b, b->data(), (b->size() + 1) * 4, seen); break; }
            case 4: { auto *b = static_cast<ST::wchar_buffer *>(r[k].obj); now = raw_of(*b); w = storage_ok("result buffer", k, b, sizeof *b, b->data(), (b->size() + 1) * sizeof(wchar_t), seen); break; }
            case 5: { auto *v = static_cast<std::vector<ST::string> *>(r[k].obj); now = raw_of_vec(*v);
                      for (size_t e = 0; e < v->size() && w.empty(); e++) w = storage_ok("piece of result vector", k, &(*v)[e], sizeof(ST::string), (*v)[e].c_str(), (*v)[e].size() + 1, seen); break; }
            }
            if (!w.empty()) return w;
            if (now != r[k].snap) { snprintf(msg, sizeof msg, "result %d (kind %d) changed after it was returned", k, r[k].kind); return msg; }
        }
        if (const char *e = va::error()) { std::string w = e; va::clear_error(); return w; }
        return std::string();
    }
    ~World() {
        for (int k = 0; k < NR; k++) { try { destroy_res(k); } catch (...) {} }
        for (int i = 0; i < NS; i++) if (s[i].raw) { if (s[i].obj) { try { va::LibScope l; s[i].obj->~string(); } catch (...) {} } ::free(s[i].raw); }
    }
};

// labels are recorded once per case; in extended histories the classes of the original table may take at most 5 of the 12 label slots,
// so that the evidence histogram shows whether the new classes are reached
bool g_ext_case = false, g_ext_op = false;
void lab(Case &c, const char *l) {
    for (int i = 0; i < c.nlabels; i++) if (c.labels[i] == l || !strcmp(c.labels[i], l)) return;
    if (g_ext_case && !g_ext_op && c.nlabels >= 5) return;
    c.label(l);
}

std::string content(size_t n, uint8_t st) {
    std::string v;
    while (v.size() < n) {
        size_t i = v.size();
        if ((st & 3) == 1 && i % 5 == 2 && v.size() + 2 <= n) { v += "\xC3\xA9"; continue; }          // é
        if ((st & 3) == 2 && i % 7 == 3 && v.size() + 3 <= n) { v += "\xE2\x82\xAC"; continue; }      // €
        if ((st & 12) == 4 && i % 6 == 1) { v.push_back('\0'); continue; }
        if ((st & 48) == 16 && i % 4 == 0) { v.push_back(' '); continue; }
        if ((st & 48) == 32 && i % 5 == 4) { v.push_back(','); continue; }
        v.push_back((char)(((st >> 6) & 1 ? 'A' : 'a') + (i + st) % 26));
    }
    return v;
}
std::string value(verif::Reader &r, size_t L) {
    const size_t lens[] = {0, 1, L - 1, L, L + 1, 2 * L, 300, 3, 7};
    size_t n = r.pick(lens);
    uint8_t st = r.u8();
    return content(n, st);
}
std::string short_value(verif::Reader &r, size_t L) { const size_t lens[] = {1, L - 1, 3, 7}; size_t n = r.pick(lens); return content(n, r.u8()); }
std::string long_value(verif::Reader &r, size_t L) { const size_t lens[] = {L, L + 1, 2 * L, 300}; size_t n = r.pick(lens); return content(n, r.u8()); }
bool is_ascii(const std::string &v) { for (unsigned char ch : v) if (ch >= 0x80) return false; return true; }

// literal table: every entry through ST_LITERAL and the five _st operators; ASCII + NUL only, so every form yields the narrow bytes
using namespace ST::literals;
#define C04_LITS(X) X("") X("a") X("ab\0cd") X("0123456789ABCDE") X("0123456789ABCDEF") X("0123456789ABCDEFG") X("0123456\0zzABCDEF") \
    X("The quick brown fox\0jumps over the lazy dog") X("nul at end\0")
struct SLit { ST::string (*f[6])(); const char *narrow; size_t len; };
#define X(s) { { +[]() -> ST::string { return ST_LITERAL(s); }, +[]() -> ST::string { return s##_st; }, +[]() -> ST::string { return L##s##_st; }, \
                 +[]() -> ST::string { return u##s##_st; }, +[]() -> ST::string { return U##s##_st; }, +[]() -> ST::string { return u8##s##_st; } }, s, sizeof(s) - 1 },
const SLit g_lits[] = { C04_LITS(X) };
#undef X
enum { NSLIT = sizeof(g_lits) / sizeof(g_lits[0]) };
FILE *devnull() { static FILE *f = fopen("/dev/null", "w"); return f; }

std::string run(verif::Reader &rd, Case &c, World &w) {
    va::reset();
    {   // observe the small-string limit
        for (size_t n = 0; n < 64; n++) { void *raw = ::malloc(sizeof(ST::string)); ST::string *t; { va::LibScope l; t = new (raw) ST::string(ST::string::fill(n, 'q')); }
            const char *d = t->c_str(); bool in = d >= (const char *)raw && d < (const char *)raw + sizeof(ST::string); { va::LibScope l; t->~string(); } ::free(raw); if (!in) { w.L = n; break; } }
    }
    // first byte: 0..59 = original operation table with 1..60 operations; 60..119 = extended table (a superset) with 1..60 operations
    size_t first = rd.range(0, 119);
    const bool ext = first >= 60;
    size_t nops = 1 + first % 60;
    g_ext_case = ext; g_ext_op = true;
    if (ext) lab(c, "extended-table");
    // steps whose result could exceed 64 KiB are skipped: repeated doubling is legitimate growth, not a verdict
    auto capped = [&](size_t worst) -> bool { if (worst <= 65536) return false; lab(c, "growth-capped"); w.note("(skipped: result up to %zu bytes); ", worst); return true; };
    for (size_t k = 0; k < nops; k++) {
        int op, i, j, h;
        if (!ext) { op = (int)rd.range(0, 63); i = (int)rd.idx(NS); j = (int)rd.idx(NS); h = (int)rd.idx(NS); }
        else {
            op = (int)rd.range(0, 127); if (op >= 122) op = 80; else if (op >= 112) op = 74 + (op & 1); else if (op >= 80) op = 64 + (op - 80) % 16;
            uint8_t bi = rd.u8(), bj = rd.u8(); h = (int)rd.idx(NS);
            i = bi % NS; j = bj % NS;
            if (w.focus >= 0 && w.s[w.focus].obj) { if (bi & 0x40) i = w.focus; if (bj & 0x40) j = w.focus; }
        }
        int target = -1, target2 = -1;
        g_ext_op = op >= 64;
        if (op >= 3 && !w.s[i].obj) op = 0;
        if (!w.s[j].obj) j = i;
        if (!w.s[h].obj) h = i;
        ST::string *S = w.s[i].obj, *J = w.s[j].obj, *H = w.s[h].obj;
        const std::string mi = S ? w.s[i].model : std::string();
        if (op >= 6 && op <= 16) target = i;       // mutating operations: whatever happens, slot i is the one allowed to change
        if (op == 8) target2 = j;
        try {
            switch (op) {
            // ------------------------------------------------------------ construction / mutation
            case 0: case 1: case 2: { if (w.s[i].obj) continue; std::string v = value(rd, w.L); verif::Exact<char> e(v.data(), v.size());
                { ST::string *q = w.place(i); va::LibScope l; w.s[i].obj = new (q) ST::string(e.data(), e.size(), ST::assume_valid); } w.born(i, -1); target = i; w.note("%d=string(%zu); ", i, v.size()); break; }
            case 3: { int t = w.free_str(); if (t < 0) continue; { ST::string *q = w.place(t); va::LibScope l; w.s[t].obj = new (q) ST::string(*S); } w.born(t, i); target = t; lab(c, "copy-construct"); w.note("%d=string(copy %d); ", t, i); break; }
            case 4: { int t = w.free_str(); if (t < 0) continue; { ST::string *q = w.place(t); va::LibScope l; w.s[t].obj = new (q) ST::string(std::move(*S)); } w.born(t, -1); w.adopt(i); target = t; target2 = i;
                if (w.s[t].model.size() >= w.L - 1) w.nontrivial = true; lab(c, "move-construct"); w.note("%d=string(move %d); ", t, i); break; }
            case 5: w.destroy_str(i); w.note("~%d; ", i); break;
            case 6: case 7: { w.mutated(i); { va::LibScope l; *S = *J; } w.adopt(i); w.s[i].derived_from = (i == j) ? w.s[i].derived_from : j; target = i; lab(c, i == j ? "self-copy-assign" : "copy-assign"); w.note("%d=copy %d; ", i, j); break; }
            case 8: { w.mutated(i); { va::LibScope l; *S = std::move(*J); } w.adopt(i); if (i != j) { w.adopt(j); w.s[i].derived_from = -1; } target = i; target2 = j;
                if (w.s[i].model.size() >= w.L - 1) w.nontrivial = true; lab(c, i == j ? "self-move-assign" : "move-assign"); w.note("%d=move %d; ", i, j); break; }
            case 9: { w.mutated(i); std::string v = value(rd, w.L); verif::Exact<char> e(v.data(), v.size()); { va::LibScope l; S->set(e.data(), e.size(), ST::assume_valid); } w.adopt(i); target = i; w.note("%d.set(%zu); ", i, v.size()); break; }
            case 10: { w.mutated(i); { va::LibScope l; S->set(*J); } w.adopt(i); target = i; w.note("%d.set(%d); ", i, j); break; }
            case 11: { w.mutated(i); { va::LibScope l; S->set(J->to_utf8(), ST::assume_valid); } w.adopt(i); target = i; w.note("%d.set(%d.to_utf8()); ", i, j); break; }
            case 12: case 13: { if (capped(S->size() + J->size())) break; w.mutated(i); { va::LibScope l; *S += *J; } w.adopt(i); target = i; lab(c, i == j ? "s+=s" : "+=string"); w.note("%d+=%d; ", i, j); break; }
            case 14: { std::string v = value(rd, w.L); if (capped(S->size() + v.size())) break; w.mutated(i); for (char &ch : v) if (!ch) ch = '0'; verif::Exact<char> e(v.data(), v.size(), true); { va::LibScope l; *S += e.data(); } w.adopt(i); target = i; w.note("%d+=cstr(%zu); ", i, v.size()); break; }
            case 15: { if (capped(S->size() + 4)) break; w.mutated(i); { va::LibScope l; switch (rd.range(0, 3)) { case 0: *S += 'x'; break; case 1: *S += U'€'; break; case 2: *S += u'é'; break; default: *S += L'\U0001F600'; break; } } w.adopt(i); target = i; w.note("%d+=char; ", i); break; }
            case 16: { w.mutated(i); { va::LibScope l; S->clear(); } w.adopt(i); target = i; w.note("%d.clear(); ", i); break; }
            case 17: { int k2 = (int)rd.idx(NR); if (w.r[k2].kind) { if (w.r[k2].derived_from >= 0) w.nontrivial = true; w.destroy_res(k2); w.note("~result%d; ", k2); } break; }
            // ------------------------------------------------------------ const calls returning strings (stored in a free slot)
            case 18: case 19: case 20: case 21: case 22: case 23: case 24: case 25: case 26: case 27: case 28: case 29: case 30: case 31: case 32: case 33: case 34: case 35: {
                int t = w.free_str(); if (t < 0) { w.destroy_str((int)rd.idx(NS)); continue; }
                size_t sz = S->size();
                if ((op == 22 && !J->empty() && capped(sz + (sz / J->size()) * H->size())) || (op == 24 && capped(sz * 4)) || ((op == 27 || op == 29 || op == 30) && capped(2 * sz + J->size() + 64)) || (op == 28 && capped(sz + 8))) break;
                ST::string *q = w.place(t);
                const char *what = "";
                bool made = false;
                try {
                    va::LibScope l;
                    switch (op) {
                    case 18: { const size_t a = rd.range(0, 3); ST_ssize_t st = a == 0 ? 0 : a == 1 ? (ST_ssize_t)rd.range(0, sz + 1) : a == 2 ? -(ST_ssize_t)rd.range(0, sz + 1) : (ST_ssize_t)(sz / 2);
                        size_t cnt = a == 0 ? (rd.flag() ? sz : ST_AUTO_SIZE) : rd.range(0, sz + 2); new (q) ST::string(S->substr(st, cnt)); what = a == 0 ? "substr(whole)" : "substr"; break; }
                    case 19: new (q) ST::string(rd.flag() ? S->left(rd.range(0, sz + 2)) : S->right(rd.range(0, sz + 2))); what = "left/right"; break;
                    case 20: { int v = (int)rd.range(0, 3); new (q) ST::string(v == 0 ? S->trim() : v == 1 ? S->trim_left() : v == 2 ? S->trim_right() : S->trim("\x01")); what = "trim"; break; }
                    case 21: new (q) ST::string(rd.flag() ? S->to_upper() : S->to_lower()); what = "to_upper/lower"; break;
                    case 22: new (q) ST::string(S->replace(*J, *H)); what = (i == j && i == h) ? "s.replace(s,s)" : "replace(string,string)"; break;
                    case 23: new (q) ST::string(S->replace("\x01\x02", "zz")); what = "replace(no match)"; break;
                    case 24: new (q) ST::string(S->replace("a", "\xC3\xA9\xC3\xA9", rd.flag() ? ST::case_sensitive : ST::case_insensitive)); what = "replace(cstr)"; break;
                    case 25: { int v = (int)rd.range(0, 3); new (q) ST::string(v == 0 ? S->before_first(*J) : v == 1 ? S->after_first(*J) : v == 2 ? S->before_last(*J) : S->after_last(*J)); what = "before/after(string)"; break; }
                    case 26: { int v = (int)rd.range(0, 3); new (q) ST::string(v == 0 ? S->before_first(',') : v == 1 ? S->after_first(' ') : v == 2 ? S->before_last("a") : S->after_last("\x01")); what = "before/after(char,cstr)"; break; }
                    case 27: new (q) ST::string(*S + *J); what = (i == j) ? "s+s" : "string+string"; break;
                    case 28: { int v = (int)rd.range(0, 5); new (q) ST::string(v == 0 ? *S + "tail" : v == 1 ? "head" + *S : v == 2 ? *S + 'c' : v == 3 ? U'€' + *S : v == 4 ? *S + u"éx" : L"w" + *S); what = "operator+ (mixed)"; break; }
                    case 29: new (q) ST::string(ST::format("{}|{>4}|{}", *S, *J, S->size())); what = "ST::format"; break;
                    case 30: { ST::string_stream ss; ss << *S << 42 << *J; new (q) ST::string(ss.to_string(true, ST::assume_valid)); what = "string_stream<<"; break; }
                    case 31: new (q) ST::string(ST::string::from_validated(S->to_utf8())); what = "from_validated(to_utf8())"; break;
                    case 32: new (q) ST::string(S->to_std_string()); what = "string(to_std_string())"; break;
                    case 33: new (q) ST::string(S->to_utf16(), ST::assume_valid); what = "string(to_utf16())"; break;
                    case 34: new (q) ST::string(S->view(), ST::assume_valid); what = "string(view())"; break;
                    default: { std::ostringstream os; os << *S; std::string out = os.str(); new (q) ST::string(out.data(), out.size(), ST::assume_valid); what = "ostream<<"; break; }
                    }
                    made = true;
                } catch (const ST::unicode_error &) { }      // replace()/+ re-validate: a refused result is no result (C04 does not judge content)
                if (made) { w.s[t].obj = q; w.born(t, i); target = t; if (w.s[t].model == mi) lab(c, "result-equals-source"); lab(c, what); w.note("%d=%d.%s; ", t, i, what); }
                else { ::free(w.s[t].raw); w.s[t].raw = nullptr; w.note("%d.%s threw unicode_error; ", i, what); }
                break; }
            // ------------------------------------------------------------ const calls returning buffers / vectors (stored in the result pool)
            case 36: case 37: case 38: case 39: case 40: case 41: case 42: case 43: case 44: {
                int k2 = w.free_res(); if (k2 < 0) { w.destroy_res((int)rd.idx(NR)); continue; }
                Res &R = w.r[k2];
                const char *what = "";
                {
                    // what the call hands back must be an object of its own, not (a reference to) a part of some live string: a caller that binds
                    // the result to a reference (auto &&r = s.to_utf8();) keeps using it after s was modified
                    va::LibScope l;
                    const void *ret_addr = nullptr;
                    switch (op) {
                    case 36: { auto &&ret = S->to_utf8(); ret_addr = &ret; } break;
                    case 37: { auto &&ret = S->to_utf16(); ret_addr = &ret; } break;
                    case 38: { auto &&ret = S->to_utf32(); ret_addr = &ret; } break;
                    case 39: { auto &&ret = S->to_wchar(); ret_addr = &ret; } break;
                    case 40: { auto &&ret = S->to_latin_1(); ret_addr = &ret; } break;
                    default: break;
                    }
                    if (ret_addr) for (int q2 = 0; q2 < NS; q2++) if (w.inside(q2, ret_addr))
                        return "step " + verif::unum(k) + " (op " + verif::num(op) + " on string " + verif::num(i) + "): the call returns a reference to a part of the live ST::string object in slot " + verif::num(q2) + " instead of an object that owns its storage";
                }
                {
                    va::LibScope l;
                    switch (op) {
                    case 36: R.obj = new ST::char_buffer(S->to_utf8()); R.kind = 1; what = "to_utf8"; break;
                    case 37: R.obj = new ST::utf16_buffer(S->to_utf16()); R.kind = 2; what = "to_utf16"; break;
                    case 38: R.obj = new ST::utf32_buffer(S->to_utf32()); R.kind = 3; what = "to_utf32"; break;
                    case 39: R.obj = new ST::wchar_buffer(S->to_wchar()); R.kind = 4; what = "to_wchar"; break;
                    case 40: R.obj = new ST::char_buffer(S->to_latin_1()); R.kind = 1; what = "to_latin_1"; break;
                    case 41: R.obj = new std::vector<ST::string>(S->split(rd.flag() ? ',' : ' ', rd.flag() ? ST_AUTO_SIZE : rd.range(0, 3))); R.kind = 5; what = "split(char)"; break;
                    case 42: R.obj = new std::vector<ST::string>(S->split(*J, ST_AUTO_SIZE, rd.flag() ? ST::case_sensitive : ST::case_insensitive)); R.kind = 5; what = (i == j) ? "s.split(s)" : "split(string)"; break;
                    case 43: R.obj = new std::vector<ST::string>(S->split(rd.flag() ? ", " : "a")); R.kind = 5; what = "split(cstr)"; break;
                    default: R.obj = new std::vector<ST::string>(rd.flag() ? S->tokenize() : S->tokenize(", a")); R.kind = 5; what = "tokenize"; break;
                    }
                }
                switch (R.kind) {
                case 1: R.snap = w.raw_of(*static_cast<ST::char_buffer *>(R.obj)); break;
                case 2: R.snap = w.raw_of(*static_cast<ST::utf16_buffer *>(R.obj)); break;
                case 3: R.snap = w.raw_of(*static_cast<ST::utf32_buffer *>(R.obj)); break;
                case 4: R.snap = w.raw_of(*static_cast<ST::wchar_buffer *>(R.obj)); break;
                default: R.snap = w.raw_of_vec(*static_cast<std::vector<ST::string> *>(R.obj)); break;
                }
                R.derived_from = i; lab(c, what); w.note("result%d=%d.%s; ", k2, i, what);
                break; }
            // ============================================================ extended table (ops 64..79, reachable only with first byte >= 60)
            case 64: {   // rebuild slot i in an unusual pre-state; the slot becomes the preferred source of the following calls
                static const char *const kn[14] = {"pre:moved-from(ctor)", "pre:moved-from(set&&)", "pre:short-after-long", "pre:short-after-long,copied", "pre:short-after-long,moved",
                    "pre:short-after-long,whole-sliced", "pre:self-assigned", "pre:self-appended", "pre:long-after-short", "pre:cleared-after-long", "pre:self-move-assigned",
                    "pre:default", "pre:literal", "pre:null_t"};
                int kind = (int)rd.idx(14);
                std::string sh = short_value(rd, w.L), lg = long_value(rd, w.L);
                w.destroy_str(i);
                auto mk = [&](const std::string &v) { verif::Exact<char> e(v.data(), v.size()); ST::string *q = w.place(i); { va::LibScope l; w.s[i].obj = new (q) ST::string(e.data(), e.size(), ST::assume_valid); } w.born(i, -1); };
                auto assign_copy = [&](const std::string &v) { verif::Exact<char> e(v.data(), v.size()); { va::LibScope l; ST::string tmp(e.data(), e.size(), ST::assume_valid); *w.s[i].obj = tmp; } w.adopt(i); };
                int fs = i;
                switch (kind) {
                case 0: mk(lg); { va::LibScope l; ST::string t(std::move(*w.s[i].obj)); } w.adopt(i); break;
                case 1: mk(sh); { va::LibScope l; ST::string t; t.set(std::move(*w.s[i].obj)); } w.adopt(i); break;
                case 2: mk(lg); assign_copy(sh); break;
                case 3: case 4: case 5: {
                    mk(lg); assign_copy(sh);
                    { std::string why0 = w.check(i); if (!why0.empty()) return "step " + verif::unum(k) + " (" + kn[kind] + ", after the copy assignment): " + why0; }
                    int t = w.emplace([&](ST::string *q) { if (kind == 3) new (q) ST::string(*w.s[i].obj); else if (kind == 4) new (q) ST::string(std::move(*w.s[i].obj)); else new (q) ST::string(w.s[i].obj->substr(0)); }, kind == 4 ? -1 : i);
                    if (kind == 4) w.adopt(i);
                    if (t >= 0) { fs = t; if (kind != 4 && w.s[t].model != w.s[i].model) return "step " + verif::unum(k) + " (" + kn[kind] + "): the copy differs from its source"; }
                    break; }
                case 6: mk(lg); { va::LibScope l; ST::string &a = *w.s[i].obj; a = a; } w.adopt(i); break;
                case 7: mk(sh); { va::LibScope l; ST::string &a = *w.s[i].obj; a += a; } w.adopt(i); break;
                case 8: mk(sh); assign_copy(lg); break;
                case 9: mk(lg); { va::LibScope l; w.s[i].obj->clear(); } w.adopt(i); break;
                case 10: mk(lg); { va::LibScope l; ST::string &a = *w.s[i].obj; a = std::move(a); } w.adopt(i); break;
                case 11: { ST::string *q = w.place(i); va::LibScope l; w.s[i].obj = new (q) ST::string(); } w.born(i, -1); break;
                case 12: { const SLit &e = g_lits[sh.size() % NSLIT]; { ST::string *q = w.place(i); va::LibScope l; w.s[i].obj = new (q) ST::string(e.f[lg.size() % 6]()); } w.born(i, -1);
                           if (w.s[i].model != std::string(e.narrow, e.len)) return "step " + verif::unum(k) + ": a string literal of " + verif::unum(e.len) + " bytes produced a string of " + verif::unum(w.s[i].model.size()) + " bytes / other bytes"; break; }
                default: { ST::string *q = w.place(i); va::LibScope l; w.s[i].obj = new (q) ST::string(ST::null_t()); } w.born(i, -1); break;
                }
                w.focus = fs; target = i; target2 = fs;
                if (kind <= 5 || kind == 8 || kind == 10) w.nontrivial = true;
                lab(c, kn[kind]); w.note("%d:=<%s>%s; ", i, kn[kind] + 4, fs != i ? " (focus on the derived string)" : "");
                break; }
            case 65: {   // set_validated, four overloads; sources: harness bytes, a temporary buffer, a result-pool buffer by const reference / rvalue
                int v = (int)rd.range(0, 5); std::string val = value(rd, w.L); verif::Exact<char> e(val.data(), val.size());
                int k2 = (int)rd.idx(NR); for (int z = 0; z < NR && w.r[k2].kind != 1; z++) k2 = (k2 + 1) % NR;     // prefer a live char_buffer of the result pool
                bool pool = v >= 4 && w.r[k2].kind == 1;
                w.mutated(i);
                { va::LibScope l;
                  switch (v) {
                  case 0: S->set_validated(e.data(), e.size()); break;
                  case 1: S->set_validated(reinterpret_cast<const char8_t *>(e.data()), e.size()); break;
                  case 2: { ST::char_buffer b(e.data(), e.size()); S->set_validated(b); break; }
                  case 3: { ST::char_buffer b(e.data(), e.size()); S->set_validated(std::move(b)); break; }
                  case 4: if (pool) S->set_validated(*static_cast<const ST::char_buffer *>(w.r[k2].obj)); else { const ST::char_buffer b(e.data(), e.size()); S->set_validated(b); } break;
                  default: if (pool) S->set_validated(std::move(*static_cast<ST::char_buffer *>(w.r[k2].obj))); else S->set_validated(ST::char_buffer(e.data(), e.size())); break;
                  } }
                std::string want = pool ? w.r[k2].snap.substr(0, w.r[k2].snap.size() - 1) : val;
                if (pool && v == 5) w.snap(k2);      // the moved-from buffer holds an unspecified valid value from now on
                w.adopt(i); target = i;
                if (w.s[i].model != want) return "step " + verif::unum(k) + ": set_validated (form " + verif::num(v) + ") stored bytes other than the " + verif::unum(want.size()) + " given";
                lab(c, pool ? "set_validated(pool buffer)" : "set_validated"); w.note("%d.set_validated#%d(%zu); ", i, v, want.size()); break; }
            case 66: {   // ST_LITERAL and the _st literal operators: a new string, or move-assigned over a live one
                unsigned sel = (unsigned)rd.range(0, 6 * NSLIT - 1); const SLit &e = g_lits[sel % NSLIT]; unsigned form = sel / NSLIT; bool over = rd.flag();
                std::string want(e.narrow, e.len);
                int t = i;
                if (over) { w.mutated(i); { va::LibScope l; *S = e.f[form](); } w.adopt(i); target = i; }
                else { t = w.emplace([&](ST::string *q) { new (q) ST::string(e.f[form]()); }, -1); if (t < 0) { w.destroy_str((int)rd.idx(NS)); continue; } target = t; }
                if (w.s[t].model != want) return "step " + verif::unum(k) + ": literal form " + verif::unum(form) + " of " + verif::unum(e.len) + " bytes produced a string of " + verif::unum(w.s[t].model.size()) + " bytes / other bytes";
                lab(c, form == 0 ? "ST_LITERAL" : "_st literal"); if (memchr(e.narrow, 0, e.len)) lab(c, "literal-with-NUL"); w.note("%d=literal#%u.%u; ", t, sel % NSLIT, form); break; }
            case 67: {   // null_t forms
                int v = (int)rd.range(0, 3);
                if (v == 0) { w.mutated(i); { va::LibScope l; S->set(ST::null_t()); } w.adopt(i); target = i; }
                else if (v == 1) { w.mutated(i); { va::LibScope l; *S = ST::null_t(); } w.adopt(i); target = i; }
                else if (v == 2) { int t = w.emplace([&](ST::string *q) { new (q) ST::string(ST::null_t()); }, -1); if (t < 0) { w.destroy_str((int)rd.idx(NS)); continue; } target = t; i = t; }
                else { va::LibScope l; bool e = mi.empty(); if ((*S == ST::null_t()) != e || (*S != ST::null_t()) != !e || (ST::null_t() == *S) != e || (ST::null_t() != *S) != !e) return "step " + verif::unum(k) + ": comparison with null_t disagrees with empty()"; }
                if (v != 3 && !w.s[i].model.empty()) return "step " + verif::unum(k) + ": null_t form " + verif::num(v) + " left a non-empty string";
                lab(c, "null_t"); w.note("%d null_t#%d; ", i, v); break; }
            case 68: case 69: {   // the source pointer / view aliases the target itself: the value given is the bytes it denoted at the time of the call
                int v = (int)rd.range(0, 13); size_t sz = S->size(); size_t a = rd.range(0, sz), n = rd.range(0, sz - a);
                std::string want; bool exact = true, may_refuse = false;
                std::string tailz(mi.c_str() + a);      // what a const char* overload can see from offset a
                if ((v == 5 || v == 13) && capped(sz * 2 + 1)) break;
                w.mutated(i); target = i;
                try {
                    va::LibScope l;
                    switch (v) {
                    case 0: S->set(S->c_str() + a, n, ST::assume_valid); want = mi.substr(a, n); break;
                    case 1: S->set_validated(S->c_str() + a, n); want = mi.substr(a, n); break;
                    case 2: S->set(S->view(a, n), ST::assume_valid); want = mi.substr(a, n); break;
                    case 3: *S = S->c_str() + a; want = tailz; may_refuse = true; break;
                    case 4: *S = S->view(a, n); want = mi.substr(a, n); may_refuse = true; break;
                    case 5: *S += S->c_str() + a; want = mi + tailz; may_refuse = true; break;
                    case 6: S->set(S->u8_str() + a, n, ST::assume_valid); want = mi.substr(a, n); break;
                    case 7: *S = S->to_utf8(); want = mi; may_refuse = true; break;
                    case 8: S->set(std::move(*S)); exact = false; break;
                    case 9: S->set(S->c_str() + a); want = tailz; may_refuse = true; break;
                    case 10: S->set_validated(S->u8_str() + a, n); want = mi.substr(a, n); break;
                    case 11: S->set(S->to_utf8(), ST::substitute_invalid); exact = is_ascii(mi); want = mi; break;
                    case 12: S->set(S->data() + a, ST_AUTO_SIZE, ST::assume_valid); want = tailz; break;
                    default: *S = *S + S->c_str(); want = mi + std::string(mi.c_str()); may_refuse = true; break;
                    }
                } catch (const ST::unicode_error &) { (void)may_refuse; exact = false; lab(c, "refused-by-validation"); }
                w.adopt(i);
                if (exact && w.s[i].model != want) return "step " + verif::unum(k) + ": aliasing form " + verif::num(v) + " (offset " + verif::unum(a) + ", count " + verif::unum(n) + " of its own " + verif::unum(sz) +
                                                          " bytes) left " + verif::quoted(w.s[i].model, 40) + ", the bytes it was given are " + verif::quoted(want, 40);
                if (sz >= w.L - 1) w.nontrivial = true;
                lab(c, "set/assign-from-own-storage"); w.note("%d.alias#%d(%zu,%zu); ", i, v, a, n); break; }
            case 70: {   // to_buffer into a caller-supplied, live buffer of the result pool (all overloads incl. the deprecated one)
                int k2 = (int)rd.idx(NR); int v = (int)rd.range(0, 4); int kind = 1 + (int)rd.idx(4);
                if (w.r[k2].kind == 5) w.destroy_res(k2);
                if (!w.r[k2].kind) { va::LibScope l; switch (kind) { case 1: w.r[k2].obj = new ST::char_buffer(); break; case 2: w.r[k2].obj = new ST::utf16_buffer(); break; case 3: w.r[k2].obj = new ST::utf32_buffer(); break; default: w.r[k2].obj = new ST::wchar_buffer(); break; }
                                    w.r[k2].kind = kind; w.snap(k2); }
                Res &R = w.r[k2];
                try {
                    va::LibScope l;
                    switch (R.kind) {
                    case 1: { ST::char_buffer &b = *static_cast<ST::char_buffer *>(R.obj);
                              switch (v) { case 0: S->to_buffer(b); break; case 1: S->to_buffer(b, false); break; case 2: S->to_buffer(b, true, false); break; case 3: S->to_buffer(b, false, ST::substitute_invalid); break; default: S->to_buffer(b, false, false); break; } break; }
                    case 2: S->to_buffer(*static_cast<ST::utf16_buffer *>(R.obj)); break;
                    case 3: S->to_buffer(*static_cast<ST::utf32_buffer *>(R.obj)); break;
                    default: S->to_buffer(*static_cast<ST::wchar_buffer *>(R.obj)); break;
                    }
                } catch (const ST::unicode_error &) { lab(c, "refused-by-validation"); }      // to_latin_1(false) refuses characters above U+00FF; what the buffer holds then is C18's business
                w.snap(k2); R.derived_from = i;
                lab(c, "to_buffer(out-param)"); w.note("%d.to_buffer(result%d kind %d)#%d; ", i, k2, R.kind, v); break; }
            case 71: {   // strings made from result-pool buffers, taken by const reference or by rvalue
                static const int kinds[8] = {1, 1, 2, 3, 4, 1, 1, 1};
                int k2 = (int)rd.idx(NR); int kind = kinds[rd.idx(8)]; int v = (int)rd.range(0, 13);
                if (w.r[k2].kind != kind && (v & 1)) w.destroy_res(k2);      // half of the time a buffer of another kind makes room for the drawn kind
                static const ST::utf_validation_t vals[3] = {ST::assume_valid, ST::substitute_invalid, ST::check_validity};
                ST::utf_validation_t val = vals[rd.idx(3)];
                w.ensure_buffer(k2, kind, i);
                Res &R = w.r[k2]; bool moved = false; int from = R.derived_from;
                if (R.kind == 1 && (v == 3 || v >= 12) && capped(R.snap.size() * 2 + 8)) break;      // from_latin_1 / hex / base64 of a buffer grow it
                int t = w.emplace([&](ST::string *q) {
                    switch (R.kind) {
                    case 1: { ST::char_buffer &b = *static_cast<ST::char_buffer *>(R.obj); const ST::char_buffer &cb = b;
                        switch (v) {
                        case 0: new (q) ST::string(ST::string::from_validated(cb)); break;
                        case 1: moved = true; new (q) ST::string(ST::string::from_validated(std::move(b))); break;
                        case 2: new (q) ST::string(ST::string::from_utf8(cb, val)); break;
                        case 3: new (q) ST::string(ST::string::from_latin_1(cb)); break;
                        case 4: new (q) ST::string(cb, val); break;
                        case 5: moved = true; new (q) ST::string(std::move(b), val); break;
                        case 6: new (q) ST::string(); q->set(cb, val); break;
                        case 7: moved = true; new (q) ST::string(); q->set(std::move(b), val); break;
                        case 8: new (q) ST::string(); *q = cb; break;
                        case 9: moved = true; new (q) ST::string(); *q = std::move(b); break;
                        case 10: new (q) ST::string(); q->set_validated(cb); break;
                        case 11: moved = true; new (q) ST::string(); q->set_validated(std::move(b)); break;
                        case 12: new (q) ST::string(ST::hex_encode(cb)); break;
                        default: new (q) ST::string(ST::base64_encode(cb)); break;
                        } break; }
                    case 2: { const ST::utf16_buffer &cb = *static_cast<ST::utf16_buffer *>(R.obj);
                        switch (v % 5) { case 0: new (q) ST::string(ST::string::from_utf16(cb, val)); break; case 1: new (q) ST::string(cb, val); break; case 2: new (q) ST::string(); q->set(cb, val); break;
                                         case 3: new (q) ST::string(); *q = cb; break; default: new (q) ST::string(ST::string::from_utf16(cb.data(), cb.size(), val)); break; } break; }
                    case 3: { const ST::utf32_buffer &cb = *static_cast<ST::utf32_buffer *>(R.obj);
                        switch (v % 5) { case 0: new (q) ST::string(ST::string::from_utf32(cb, val)); break; case 1: new (q) ST::string(cb, val); break; case 2: new (q) ST::string(); q->set(cb, val); break;
                                         case 3: new (q) ST::string(); *q = cb; break; default: new (q) ST::string(ST::string::from_utf32(cb.data(), cb.size(), val)); break; } break; }
                    default: { const ST::wchar_buffer &cb = *static_cast<ST::wchar_buffer *>(R.obj);
                        switch (v % 5) { case 0: new (q) ST::string(ST::string::from_wchar(cb, val)); break; case 1: new (q) ST::string(cb, val); break; case 2: new (q) ST::string(); q->set(cb, val); break;
                                         case 3: new (q) ST::string(); *q = cb; break; default: new (q) ST::string(ST::string::from_wchar(cb.data(), cb.size(), val)); break; } break; }
                    } }, from);
                if (moved) w.snap(k2);      // a moved-from buffer holds an unspecified valid value from now on (also when the call then refused its input)
                if (t == -1) { w.destroy_str((int)rd.idx(NS)); continue; }
                if (t == -2) { lab(c, "refused-by-validation"); w.note("string(result%d)#%d refused; ", k2, v); break; }
                target = t; lab(c, moved ? "string-from-buffer(rvalue)" : "string-from-buffer(const&)"); w.note("%d=string(result%d kind %d)#%d; ", t, k2, R.kind, v); break; }
            case 72: {   // operator+ with a character or C string of every width on either side
                int v = (int)rd.range(0, 23);
                if (capped(S->size() + J->size() + 16)) break;
                const char *what = "operator+ (char/C string on the left)";
                int t = w.emplace([&](ST::string *q) {
                    switch (v) {
                    case 0: new (q) ST::string("head" + *S); break;
                    case 1: new (q) ST::string(u8"hé" + *S); break;
                    case 2: new (q) ST::string(L"wé€" + *S); break;
                    case 3: new (q) ST::string(u"ü€" + *S); break;
                    case 4: new (q) ST::string(U"\U0001F600x" + *S); break;
                    case 5: new (q) ST::string('c' + *S); break;
                    case 6: new (q) ST::string('\xE9' + *S); break;
                    case 7: new (q) ST::string(L'é' + *S); break;
                    case 8: new (q) ST::string(u'€' + *S); break;
                    case 9: new (q) ST::string(U'\U0001F600' + *S); break;
                    case 10: new (q) ST::string(J->c_str() + *S); break;
                    case 11: new (q) ST::string(S->c_str() + *S); break;
                    case 12: what = "operator+ (char/C string on the right)"; new (q) ST::string(*S + u8"té"); break;
                    case 13: what = "operator+ (char/C string on the right)"; new (q) ST::string(*S + L"w€"); break;
                    case 14: what = "operator+ (char/C string on the right)"; new (q) ST::string(*S + U"\U0001F600"); break;
                    case 15: what = "operator+ (char/C string on the right)"; new (q) ST::string(*S + '\xE9'); break;
                    case 16: what = "operator+ (char/C string on the right)"; new (q) ST::string(*S + L'é'); break;
                    case 17: what = "operator+ (char/C string on the right)"; new (q) ST::string(*S + u'€'); break;
                    case 18: what = "operator+ (char/C string on the right)"; new (q) ST::string(*S + U'\U0001F600'); break;
                    case 19: what = "operator+ (char/C string on the right)"; new (q) ST::string(*S + J->c_str()); break;
                    case 20: what = "operator+ (char/C string on the right)"; new (q) ST::string(*S + S->c_str()); break;
                    case 21: new (q) ST::string(J->u8_str() + *S); break;
                    case 22: what = "operator+ (char/C string on the right)"; new (q) ST::string(*S + J->u8_str()); break;
                    default: new (q) ST::string(u"" + *S + U"" + L""); break;
                    } }, i);
                if (t == -1) { w.destroy_str((int)rd.idx(NS)); continue; }
                if (t == -2) { lab(c, "refused-by-validation"); break; }
                target = t; lab(c, what); w.note("%d=plus#%d(%d,%d); ", t, v, i, j); break; }
            case 73: {   // copies of copies: a copy, a copy of the copy, the first copy changed or destroyed, a copy of the second copy
                int how = (int)rd.range(0, 3);
                int t1 = w.emplace([&](ST::string *q) { new (q) ST::string(*S); }, i);
                if (t1 < 0) { w.destroy_str((int)rd.idx(NS)); continue; }
                { std::string why1 = w.check(t1); if (!why1.empty()) return "step " + verif::unum(k) + " (copy of a copy, first copy): " + why1; }
                int t2 = w.emplace([&](ST::string *q) { new (q) ST::string(*w.s[t1].obj); }, t1);
                if (t2 >= 0) { std::string why2 = w.check(t2); if (!why2.empty()) return "step " + verif::unum(k) + " (copy of a copy, second copy): " + why2; }
                if (how == 0) w.destroy_str(t1);
                else if (how == 1) { w.mutated(t1); { va::LibScope l; w.s[t1].obj->clear(); } w.adopt(t1); }
                else if (how == 2) { w.mutated(t1); w.mutated(i); { va::LibScope l; *w.s[t1].obj = std::move(*S); } w.adopt(t1); w.adopt(i); }
                else if (t2 >= 0) { w.mutated(t1); { va::LibScope l; *w.s[t1].obj = *w.s[t2].obj; } w.adopt(t1); }
                { std::string why3 = w.check(t1, i); if (!why3.empty()) return "step " + verif::unum(k) + " (copy of a copy, after changing the first copy): " + why3; }
                if (t2 >= 0) { int t3 = w.emplace([&](ST::string *q) { new (q) ST::string(*w.s[t2].obj); }, t2); if (t3 >= 0 && w.s[t3].model != w.s[t2].model) return "step " + verif::unum(k) + ": third-generation copy differs from its source"; target2 = t3; }
                target = t1; if (mi.size() >= w.L - 1) w.nontrivial = true;
                lab(c, "copies-of-copies"); w.note("copies of %d (how %d); ", i, how); break; }
            case 74: case 75: {   // further const calls that return strings: C-string arguments point into pool strings, char8_t / deprecated overloads, converting round trips
                int v = (int)rd.range(0, 46); size_t sz = S->size(); size_t a = rd.range(0, sz), n = rd.range(0, sz - a);
                bool ci = rd.flag(); ST::case_sensitivity_t cs = ci ? ST::case_insensitive : ST::case_sensitive;
                {   // worst-case result sizes of the growing forms
                    size_t from_len = (v == 5 || v == 7) ? 1 : (v == 2 || v == 6 || v == 8) ? J->size() : strlen(J->c_str());
                    size_t to_len = v == 2 ? strlen(H->c_str()) : (v == 3 || v == 7 || v == 8) ? H->size() : v == 4 ? strlen(S->c_str()) : 2;
                    if (v >= 2 && v <= 8 && from_len && capped(sz + (sz / from_len) * to_len)) break;
                    if ((v == 13 || v == 14 || v == 15 || v == 16 || v == 35) && capped(2 * sz + 2 * J->size() + 64)) break;
                    if ((v == 33 || v == 34) && capped(sz * 2 + 4)) break;
                }
                const char *what = "more string results";
                int t = -1;
                try {
                    t = w.emplace([&](ST::string *q) {
                        switch (v) {
                        case 0: what = "string(view(a,n))"; new (q) ST::string(S->view(a, n), ST::assume_valid); break;
                        case 1: what = "fill"; new (q) ST::string(ST::string::fill(a, sz ? (*S)[0] : 'f')); break;
                        case 2: what = "replace(string,cstr)"; new (q) ST::string(S->replace(*J, H->c_str(), cs)); break;
                        case 3: what = "replace(cstr,string)"; new (q) ST::string(S->replace(J->c_str(), *H, cs)); break;
                        case 4: what = "replace(cstr,cstr) own storage"; new (q) ST::string(S->replace(J->c_str(), S->c_str(), cs)); break;
                        case 5: what = "replace(char8_t)"; new (q) ST::string(static_cast<const ST::string &>(*S).replace(u8"a", u8"é", cs)); break;   // through a const reference: the (char8_t*, string) overload lacks const and makes the call on a non-const string ambiguous
                        case 6: what = "replace(char8_t)"; new (q) ST::string(S->replace(*J, u8"x", cs)); break;
                        case 7: what = "replace(char8_t)"; new (q) ST::string(S->replace(u8"a", *H, cs)); break;
                        case 8: what = "replace(deprecated)"; new (q) ST::string(S->replace(*J, *H, cs, ST::assume_valid)); break;
                        case 9: what = "trim(charset)"; new (q) ST::string(ci ? S->trim(J->c_str()) : S->trim_left(J->c_str())); break;
                        case 10: what = "trim(charset)"; new (q) ST::string(ci ? S->trim_right(J->c_str()) : S->trim_right(" a")); break;
                        case 11: what = "before/after(char8_t)"; new (q) ST::string(ci ? S->before_first(u8"a", cs) : S->after_first(u8",")); break;
                        case 12: what = "before/after(char8_t)"; new (q) ST::string(ci ? S->before_last(u8" ") : S->after_last(u8"a", cs)); break;
                        case 13: what = "format(validation)"; new (q) ST::string(ST::format(ST::substitute_invalid, "{}{}", *S, *J)); break;
                        case 14: what = "format_latin_1"; new (q) ST::string(ST::format_latin_1("{}-{}", *S, J->c_str())); break;
                        case 15: what = "_stfmt"; new (q) ST::string("{}|{}"_stfmt(*S, *J)); break;
                        case 16: { what = "writef"; std::ostringstream os; ST::writef(os, "{}:{>3}", *S, *J); std::string out = os.str(); new (q) ST::string(out.data(), out.size(), ST::assume_valid); break; }
                        case 17: what = "before/after(own cstr)"; new (q) ST::string(ci ? S->before_first(J->c_str(), cs) : S->after_first(J->c_str(), cs)); break;
                        case 18: what = "before/after(own cstr)"; new (q) ST::string(ci ? S->before_last(J->c_str(), cs) : S->after_last(J->c_str(), cs)); break;
                        case 19: what = "before/after(char,ci)"; new (q) ST::string(ci ? S->before_first('A', ST::case_insensitive) : S->after_last('Z', ST::case_insensitive)); break;
                        case 20: what = "before/after(char,ci)"; new (q) ST::string(ci ? S->after_first('a', cs) : S->before_last(',', cs)); break;
                        case 21: what = "string(to_utf32())"; new (q) ST::string(S->to_utf32(), ST::assume_valid); break;
                        case 22: what = "string(to_wchar())"; new (q) ST::string(S->to_wchar(), ST::assume_valid); break;
                        case 23: what = "from_std_string"; new (q) ST::string(ST::string::from_std_string(S->to_std_string(), ST::assume_valid)); break;
                        case 24: what = "from_std_string"; new (q) ST::string(ST::string::from_std_string(S->view(a, n), ST::assume_valid)); break;
                        case 25: what = "from_std_string"; new (q) ST::string(ci ? ST::string::from_std_wstring(S->to_std_wstring(), ST::assume_valid) : ST::string::from_std_string(S->to_std_wstring(), ST::assume_valid)); break;
                        case 26: what = "from_std_string"; new (q) ST::string(ci ? ST::string::from_std_string(S->to_std_u16string(), ST::assume_valid) : ST::string::from_std_string(S->to_std_u32string(), ST::assume_valid)); break;
                        case 27: what = "from_std_string"; new (q) ST::string(ci ? ST::string::from_std_string(S->to_std_u8string(), ST::assume_valid) : ST::string(S->to_std_u8string(), ST::assume_valid)); break;
                        case 28: { what = "string(std string / view)"; std::u16string u = S->to_std_u16string(); new (q) ST::string(ci ? ST::string(u, ST::assume_valid) : ST::string(std::u16string_view(u), ST::assume_valid)); break; }
                        case 29: { what = "string(std string / view)"; std::u32string u = S->to_std_u32string(); new (q) ST::string(ci ? ST::string(u, ST::assume_valid) : ST::string(std::u32string_view(u), ST::assume_valid)); break; }
                        case 30: { what = "string(std string / view)"; std::wstring u = S->to_std_wstring(); new (q) ST::string(ci ? ST::string(u, ST::assume_valid) : ST::string(std::wstring_view(u), ST::assume_valid)); break; }
                        case 31: what = "string(own pointer)"; new (q) ST::string(ci ? ST::string(S->c_str() + a, n, ST::assume_valid) : ST::string::from_utf8(S->c_str() + a, n, ST::assume_valid)); break;
                        case 32: what = "string(own pointer)"; new (q) ST::string(ci ? ST::string::from_validated(S->u8_str() + a, n) : ST::string::from_utf8(S->u8_str() + a, n, ST::assume_valid)); break;
                        case 33: what = "from_latin_1"; new (q) ST::string(ST::string::from_latin_1(S->c_str() + a, n)); break;
                        case 34: what = "hex/base64 encode"; new (q) ST::string(ci ? ST::hex_encode(S->c_str(), sz) : ST::base64_encode(S->c_str(), sz)); break;
                        case 35: { what = "string_stream.append"; ST::string_stream ss; ss.append(S->c_str(), sz); ss << J->c_str(); ss.append_char('x', 3); new (q) ST::string(ss.to_string(true, ST::assume_valid)); break; }
                        case 36: what = "string(own c_str)"; new (q) ST::string(ci ? ST::string(S->c_str()) : ST::string::from_utf8(S->c_str())); break;
                        case 37: what = "from_path(to_path)"; new (q) ST::string(ci ? ST::string::from_path(S->to_path()) : ST::string(S->to_path())); break;
                        case 40: what = "from_int/uint/float/bool"; new (q) ST::string(ci ? ST::string::from_int((long long)0x7FFFFFFFFFFFFFFFll - (long long)sz, 2) : ST::string::from_int(-(int)sz - 1, 10)); break;
                        case 41: what = "from_int/uint/float/bool"; new (q) ST::string(ci ? ST::string::from_uint((unsigned long long)-1 - sz, 2, true) : ST::string::from_uint((unsigned)sz, 16, true)); break;
                        case 42: what = "from_int/uint/float/bool"; new (q) ST::string(ci ? ST::string::from_int((short)-(short)(sz & 0x7FFF), 8) : ST::string::from_uint((unsigned short)sz, 36)); break;
                        case 43: what = "from_int/uint/float/bool"; new (q) ST::string(ci ? ST::string::from_int((long)sz, 3) : ST::string::from_uint((unsigned long)sz << 40, 2)); break;
                        case 44: what = "from_int/uint/float/bool"; new (q) ST::string(ci ? ST::string::from_double(1e100 + (double)sz, 'f') : ST::string::from_float(0.5f * (float)sz, 'e')); break;
                        case 45: what = "from_int/uint/float/bool"; new (q) ST::string(ci ? ST::string::from_int64(-(int64_t)sz - 5000000000ll, 2) : ST::string::from_uint64((uint64_t)sz * 0x100000001ull, 16)); break;
                        case 46: what = "from_int/uint/float/bool"; new (q) ST::string(ci ? ST::string::from_bool(sz & 1) : ST::string::from_float((double)sz / 7.0)); break;
                        case 38: what = "substr(negative)"; new (q) ST::string(S->substr(-(ST_ssize_t)a, n)); break;
                        default: what = "left/right(own size)"; new (q) ST::string(ci ? S->left(sz) : S->right(sz)); break;
                        } }, i);
                } catch (const std::filesystem::filesystem_error &) { t = -2; }
                if (t == -1) { w.destroy_str((int)rd.idx(NS)); continue; }
                if (t == -2) { lab(c, "refused-by-validation"); w.note("%d.%s refused; ", i, what); break; }
                target = t; if (w.s[t].model == mi) lab(c, "result-equals-source"); lab(c, what); w.note("%d=%d.%s; ", t, i, what); break; }
            case 76: {   // further const calls that return buffers / vectors
                int k2 = w.free_res(); if (k2 < 0) { w.destroy_res((int)rd.idx(NR)); continue; }
                int v = (int)rd.range(0, 9); size_t ms = rd.flag() ? ST_AUTO_SIZE : rd.range(0, 3); bool ci = rd.flag(); ST::case_sensitivity_t cs = ci ? ST::case_insensitive : ST::case_sensitive;
                Res &R = w.r[k2]; const char *what = "";
                try {
                    va::LibScope l;
                    switch (v) {
                    case 0: what = "split(char8_t)"; R.obj = new std::vector<ST::string>(S->split(u8",", ms, cs)); R.kind = 5; break;
                    case 1: what = "split(string,max)"; R.obj = new std::vector<ST::string>(S->split(*J, ms, cs)); R.kind = 5; break;
                    case 2: what = "split(own cstr)"; R.obj = new std::vector<ST::string>(S->split(J->c_str(), ms, cs)); R.kind = 5; break;
                    case 3: what = "tokenize(own cstr)"; R.obj = new std::vector<ST::string>(S->tokenize(J->c_str())); R.kind = 5; break;
                    case 4: what = "hex_decode"; R.obj = new ST::char_buffer(ST::hex_decode(*S)); R.kind = 1; break;
                    case 5: what = "base64_decode"; R.obj = new ST::char_buffer(ST::base64_decode(*S)); R.kind = 1; break;
                    case 6: what = "to_latin_1(deprecated)"; R.obj = new ST::char_buffer(S->to_latin_1(ST::substitute_invalid)); R.kind = 1; break;
                    case 7: what = "to_latin_1(false)"; R.obj = new ST::char_buffer(S->to_latin_1(false)); R.kind = 1; break;
                    case 8: what = "split(char,max,ci)"; R.obj = new std::vector<ST::string>(S->split('A', ms, ST::case_insensitive)); R.kind = 5; break;
                    default: { what = "hex_decode(hex_encode)"; ST::string hx = ST::hex_encode(S->c_str(), S->size()); R.obj = new ST::char_buffer(ST::hex_decode(hx)); R.kind = 1; break; }
                    }
                } catch (const ST::unicode_error &) { R.kind = 0; R.obj = nullptr; lab(c, "refused-by-validation"); }
                  catch (const ST::codec_error &) { R.kind = 0; R.obj = nullptr; lab(c, "refused-by-codec"); }
                if (R.kind) { w.snap(k2); R.derived_from = i; lab(c, what); w.note("result%d=%d.%s; ", k2, i, what); }
                break; }
            case 77: case 78: {   // further const calls that return scalars / std objects
                va::LibScope l;
                size_t sz = S->size(); size_t a = rd.range(0, sz), n = rd.range(0, sz - a); bool ci = rd.flag(); ST::case_sensitivity_t cs = ci ? ST::case_insensitive : ST::case_sensitive;
                static const int bases[6] = {0, 10, 16, 2, 8, 36}; int base = bases[rd.idx(6)];
                const char *jz = J->c_str(); size_t jn = J->size();
                unsigned long sink = 0;
                switch ((int)rd.range(0, 9)) {
                case 0: sink += S->find(jz, jn, cs) + S->find(a, 'a', cs) + S->find(a, jz, cs) + S->find(a, jz, jn, cs) + S->find(u8"a", cs) + S->find(u8"ab", 2, cs) + S->find(a, u8"b", cs) + S->find(a, u8"bc", 1, cs) + S->find(a, *J, cs) + S->find(jz, cs) + S->find(S->c_str() + a, n, cs); break;
                case 1: sink += S->find_last(a, 'a', cs) + S->find_last(a, jz, cs) + S->find_last(a, jz, jn, cs) + S->find_last(a, *J, cs) + S->find_last(u8"a", cs) + S->find_last(u8"ab", 1, cs) + S->find_last(a, u8"a", cs) + S->find_last(a, u8"ab", 2, cs) + S->find_last(jz, jn, cs) + S->find_last(jz, cs) + S->find_last(S->c_str() + a, n, cs); break;
                case 2: sink += S->contains(jz, jn, cs) + S->contains(u8"a", cs) + S->contains(u8"ab", 1, cs) + S->contains(jz, cs) + S->starts_with(u8"a", cs) + S->ends_with(u8"z", cs) + S->starts_with(jz, cs) + S->ends_with(jz, cs) + S->starts_with(S->c_str(), cs) + S->ends_with(S->c_str() + a, cs); break;
                case 3: sink += S->compare(u8"abc", cs) + S->compare(jz, cs) + S->compare_n(jz, a, cs) + S->compare_n(u8"abc", a, cs) + S->compare_i(u8"ABC") + S->compare_i(jz) + S->compare_ni(jz, a) + S->compare_ni(u8"abc", a) + S->compare_ni(*J, a) + S->compare_n(*J, a, cs)
                               + (*S == jz) + (*S != jz) + (*S == u8"abc") + (*S != u8"abc") + (*S == S->c_str()) + (*S != "abc") + S->compare(*J, cs); break;
                case 4: { ST::conversion_result cr; sink += (unsigned long)S->to_long(base) + (unsigned long)S->to_long(cr, base) + S->to_ulong(base) + S->to_ulong(cr, base) + (unsigned long)S->to_long_long(base) + (unsigned long)S->to_long_long(cr, base) + (unsigned long)S->to_ulong_long(base) + (unsigned long)S->to_ulong_long(cr, base)
                               + (unsigned long)S->to_int(cr, base) + S->to_uint(cr, base) + (unsigned long)S->to_short(cr, base) + S->to_ushort(cr, base) + (unsigned long)S->to_int64(base) + (unsigned long)S->to_int64(cr, base) + (unsigned long)S->to_uint64(base) + (unsigned long)S->to_uint64(cr, base)
                               + (unsigned long)S->to_int(base) + (unsigned long)S->to_short(base) + S->to_ushort(base) + cr.ok() + cr.full_match(); break; }
                case 5: { ST::conversion_result cr; sink += (S->to_float() > 1.0f) + (S->to_float(cr) > 1.0f) + (S->to_double() > 1.0) + (S->to_double(cr) > 1.0) + S->to_bool() + S->to_bool(cr) + cr.ok(); break; }
                case 6: { static const char subs[] = "?"; static const char8_t subs8[] = u8"?"; sink += (unsigned long)*S->c_str(subs) + (unsigned long)*S->u8_str(subs8) + (unsigned long)*S->data() + (S->c_str(subs) == (sz ? S->c_str() : subs));
                          for (auto it = S->cbegin(); it != S->cend(); ++it) sink += (unsigned char)*it; for (auto it = S->crbegin(); it != S->crend(); ++it) sink += (unsigned char)*it; for (auto it = S->rbegin(); it != S->rend(); ++it) sink += (unsigned char)*it;
                          std::string_view vw = S->view(a, n); for (char ch : vw) sink += (unsigned char)ch; sink += (unsigned long)S->view(a).size() + (unsigned long)(S->end() - S->begin()) + (sz ? (unsigned long)S->at(a < sz ? a : sz - 1) + (unsigned long)(*S)[a < sz ? a : 0] : 0); break; }
                case 7: { std::string o1("previous content that is long enough to live on the heap"); S->to_std_string(o1); std::string o2("x"); S->to_std_string(o2, false); std::string o3; S->to_std_string(o3, false, ST::substitute_invalid); std::wstring ow(L"w"); S->to_std_string(ow);
                          std::u16string o16(u"u"); S->to_std_string(o16); std::u32string o32(U"U"); S->to_std_string(o32); std::u8string o8(u8"8"); S->to_std_string(o8); std::string d = S->to_std_string(false, ST::substitute_invalid); std::u8string p8 = S->to_std_u8string();
                          sink += (unsigned long)(o1.size() + o2.size() + o3.size() + ow.size() + o16.size() + o32.size() + o8.size() + d.size() + p8.size()); break; }
                case 8: { try { std::filesystem::path p = S->to_path(); sink += (unsigned long)p.native().size(); } catch (const std::exception &) { }
                          if (!capped(2 * sz + jn + 64)) { ST::printf(devnull(), "{}{>2}", *S, *J); std::wostringstream wo; try { ST::writef(wo, "{}", *S); } catch (const ST::unicode_error &) { } sink += (unsigned long)wo.str().size(); } break; }
                default: { unsigned char out[64]; sink += (unsigned long)ST::hex_decode(*S, out, sizeof out) + (unsigned long)ST::base64_decode(*S, out, sizeof out) + (unsigned long)ST::hex_decode(*S, nullptr, 0) + (unsigned long)ST::base64_decode(*S, nullptr, 0); break; }
                }
                g_sink = sink;
                lab(c, "scalar-read-2"); w.note("readx(%d,%d); ", i, j); break; }
            case 79: {   // stream extraction into a live string (a mutation of that string only)
                std::string src = J->to_std_string();
                w.mutated(i); target = i;
                if (rd.flag()) { std::istringstream in(src); va::LibScope l; in >> *S; }
                else { std::wstring ws; { va::LibScope l; ws = J->to_std_wstring(); } std::wistringstream in(ws); va::LibScope l; in >> *S; }
                w.adopt(i); lab(c, "istream>>"); w.note("in(%d)>>%d; ", j, i); break; }
            case 80: {   // a LIVE string (any pre-state, often long) is set / assigned from a pool char_buffer (lvalue or rvalue) or from its own storage,
                         // under each of the three validation modes; later steps copy / move / slice it
                int k2 = (int)rd.idx(NR); int v = (int)rd.range(0, 9);
                static const ST::utf_validation_t vals[3] = {ST::assume_valid, ST::substitute_invalid, ST::check_validity};
                ST::utf_validation_t val = vals[rd.idx(3)];
                if (w.r[k2].kind != 1) w.destroy_res(k2);
                w.ensure_buffer(k2, 1, w.s[j].obj ? j : i);
                Res &R = w.r[k2]; ST::char_buffer &b = *static_cast<ST::char_buffer *>(R.obj); const ST::char_buffer &cb = b;
                size_t sz = S->size(); size_t a = rd.range(0, sz), n = rd.range(0, sz - a);
                std::string want(cb.data(), cb.size()); bool moved = false, refused = false;      // the buffer's bytes before the call
                std::string tailz(mi.c_str() + a); std::string refused_what; const std::string before(S->c_str(), S->size());
                w.mutated(i); target = i;
                try {
                    va::LibScope l;
                    switch (v) {
                    case 0: S->set(cb, val); break;
                    case 1: moved = true; S->set(std::move(b), val); break;
                    case 2: *S = cb; val = ST::check_validity; break;
                    case 3: moved = true; *S = std::move(b); val = ST::check_validity; break;
                    case 4: S->set_validated(cb); val = ST::assume_valid; break;
                    case 5: *S = ST::string(cb, val); break;
                    case 6: want = mi.substr(a, n); S->set(S->c_str() + a, n, val); break;
                    case 7: want = mi.substr(a, n); S->set(S->view(a, n), val); break;
                    case 8: want = mi.substr(a, n); S->set(S->u8_str() + a, n, val); break;
                    default: want = tailz; S->set(S->c_str() + a, ST_AUTO_SIZE, val); break;
                    }
                } catch (const ST::unicode_error &e) { refused = true; refused_what = e.what(); lab(c, "refused-by-validation"); }
                if (moved) w.snap(k2);
                w.adopt(i);
                // the value is determined when the mode copies verbatim or the bytes are plain ASCII (no repair, no refusal possible)
                if (!refused && (val == ST::assume_valid || is_ascii(want)) && w.s[i].model != want)
                    return "step " + verif::unum(k) + ": set/assign form " + verif::num(v) + " (mode " + verif::num((int)val) + ") of a live string left " + verif::quoted(w.s[i].model, 40) + ", the value given is " + verif::quoted(want, 40);
                if (refused && is_ascii(want)) return "step " + verif::unum(k) + ": set/assign form " + verif::num(v) + " (mode " + verif::num((int)val) + ", offset " + verif::unum(a) + " of " + verif::unum(sz) + ") refused plain ASCII text " + verif::quoted(want, 40) + ": " + refused_what + " [model " + verif::hexs(mi.data(), mi.size()) + " | object before " + verif::hexs(before.data(), before.size()) + "]";
                if (sz >= w.L - 1) w.nontrivial = true;
                lab(c, v >= 6 ? "live-string-set-from-own-storage(mode)" : "live-string-set-from-buffer(mode)"); w.note("%d.setx#%d(mode %d); ", i, v, (int)val); break; }
            // ------------------------------------------------------------ const calls returning scalars
            default: {
                if (!S) continue;
                va::LibScope l;
                size_t sz = S->size();
                unsigned long sink = 0;
                switch (op % 10) {
                case 0: sink += S->find(*J) + S->find(rd.range(0, sz + 1), *J, ST::case_insensitive) + S->find('a') + S->find("ab") + S->find_last(*J) + S->find_last(rd.range(0, sz + 1), "a") + S->find_last('z', ST::case_insensitive); break;
                case 1: sink += S->contains(*J) + S->contains('x') + S->contains("ab", ST::case_insensitive) + S->starts_with(*J) + S->ends_with(*J) + S->starts_with("a") + S->ends_with("z", ST::case_insensitive); break;
                case 2: sink += S->compare(*J) + S->compare_i(*J) + S->compare_n(*J, rd.range(0, sz + 1)) + S->compare_ni(*J, 3) + S->compare("abc") + S->compare_i("ABC") + (*S == *J) + (*S != *J) + (*S < *J) + (*S == "abc"); break;
                case 3: { ST::conversion_result cr; sink += S->to_int() + S->to_uint(16) + (unsigned long)S->to_long_long(cr, 10) + (unsigned long)S->to_ulong_long(0) + (S->to_double() > 1.0) + (S->to_float(cr) > 1.0f) + S->to_bool() + S->to_short() + S->to_ushort(); break; }
                case 4: sink += (unsigned long)ST::hash()(*S) + (unsigned long)ST::hash_i()(*S) + (unsigned long)std::hash<ST::string>()(*S) + ST::less_i()(*S, *J) + ST::equal_i()(*S, *J); break;
                case 5: { for (char ch : *S) sink += ch; sink += S->front() + S->back() + (sz ? S->at(sz - 1) : 0) + (*S)[0] + (S->rbegin() != S->rend() ? *S->rbegin() : 0) + S->empty(); break; }
                case 6: { std::string a = S->to_std_string(); std::wstring b = S->to_std_wstring(); std::u16string c16 = S->to_std_u16string(); std::u32string c32 = S->to_std_u32string(); std::string lat = S->to_std_string(false); sink += (unsigned long)(a.size() + b.size() + c16.size() + c32.size() + lat.size()); break; }
                case 7: { std::wostringstream os; os << *S; sink += (unsigned long)os.str().size(); std::basic_ostringstream<char32_t> o32; o32 << *S; sink += (unsigned long)o32.str().size(); break; }
                case 8: { if (capped(2 * sz + 64)) break; ST::string_stream ss; ss << *S << *S; sink += (unsigned long)ss.size(); ST::string f = ST::format("{<20}{}", *S, *S); sink += (unsigned long)f.size(); break; }
                default: { ST::char_buffer b; S->to_buffer(b); ST::utf16_buffer b16; S->to_buffer(b16); ST::utf32_buffer b32; S->to_buffer(b32); ST::wchar_buffer bw; S->to_buffer(bw); sink += (unsigned long)(b.size() + b16.size() + b32.size() + bw.size()); sink += (unsigned long)S->view().size() + (unsigned long)S->u8_str()[0]; break; }
                }
                g_sink = sink;
                lab(c, "scalar-read"); w.note("read%d(%d,%d); ", op % 10, i, j);
                break; }
            }
        } catch (const ST::unicode_error &) {
            // a string holding bytes that are not valid UTF-8 (e.g. a substr that cut a character) may be refused by calls that
            // re-validate (format, replace, +=): that is no violation of C04; the invariant below still has to hold
            lab(c, "refused-by-validation"); w.note("(unicode_error); ");
            if (target >= 0 && w.s[target].obj) w.adopt(target);
            if (target2 >= 0 && w.s[target2].obj) w.adopt(target2);
        } catch (const verif::budget_exceeded &) {
            w.discard = true; return std::string();     // a resource bound of the harness (allocation registry), never a verdict
        } catch (const std::out_of_range &) {
            // at() on an empty string etc. is not generated; treat as unexpected
            return "step " + verif::unum(k) + ": unexpected std::out_of_range";
        } catch (...) {
            return "step " + verif::unum(k) + " (op " + verif::num(op) + "): unexpected " + verif::describe_current_exception();
        }
        std::string why = w.check(target, target2);
        if (!why.empty()) return "after step " + verif::unum(k) + " (op " + verif::num(op) + " on string " + verif::num(i) + "): " + why;
    }
    // teardown in a case-chosen order: results first or sources first
    bool results_first = rd.flag();
    if (results_first) for (int k = 0; k < NR; k++) { w.destroy_res(k); std::string why = w.check(-1); if (!why.empty()) return "teardown: " + why; }
    for (int i = 0; i < NS; i++) { int t = rd.flag() ? i : NS - 1 - i; w.destroy_str(t); std::string why = w.check(-1); if (!why.empty()) return "teardown: " + why; }
    for (int i = 0; i < NS; i++) w.destroy_str(i);
    for (int k = 0; k < NR; k++) { w.destroy_res(k); std::string why = w.check(-1); if (!why.empty()) return "teardown: " + why; }
    if (va::live_blocks() != 0) return "leak: " + verif::unum(va::live_blocks()) + " heap block(s) still allocated after every string and result was destroyed";
    return std::string();
}

}  // namespace

int verif_case(const uint8_t *data, size_t size, Case &c) {
    verif::Reader r(data, size, c);
    World w; w.want_log = c.want_text;
    std::string why = run(r, c, w);
    c.nontrivial = w.nontrivial;
    if (w.discard) { va::reset(); return verif::CASE_DISCARD; }
    if (c.want_text) c.text = "C04 limit=" + verif::unum(w.L) + "  " + (w.log.size() > 1000 ? w.log.substr(0, 1000) + "..." : w.log);
    if (!why.empty()) { va::reset(); return c.fail(why); }
    va::reset();
    return verif::CASE_OK;
}

long verif_enumerate(int, int, int, verif::EnumReport &) { return 0; }
void verif_corpus(std::vector<std::vector<uint8_t>> &out) {
    out.push_back({0, 0, 0, 0, 5, 1, 18, 0, 0, 0, 0, 1, 16, 0, 0, 0});
    // extended table: string(300); pre-state short-after-long,whole-sliced; alias set from own tail; string from a moved pool buffer; to_buffer into it
    out.push_back({64, 0, 0, 0, 0, 6, 1, 64, 0, 0, 0, 5, 1, 3, 3, 9, 68, 0x40, 0, 0, 0, 2, 1, 71, 0, 0, 0, 1, 0, 1, 0, 70, 0, 0, 0, 1, 0, 0});
    out.push_back({63, 0, 0, 0, 0, 5, 2, 66, 0, 0, 0, 20, 1, 72, 0, 0, 0, 11, 73, 0, 0, 0, 2});
    out.push_back({1, 1, 0, 0, 6, 2, 4, 1, 0, 0, 12, 1, 1, 0});
}
