// C04: ST::string has value semantics - reads never mutate, results never alias.
#include <string_theory/format>
#include <string_theory/iostream>
#include <string_theory/string>
#include <string_theory/string_stream>

#include <cstdarg>
#include <sstream>
#include <string>
#include <vector>

#include "common/alloc_track.h"
#include "common/verif.h"

using verif::Case;
namespace va = verif::alloc;

const verif::Info verif_info = {
    "C04", 500,
    "histories of 1..60 operations over a pool of 8 heap-placed ST::string objects plus a pool of result objects (buffers of all 4 widths, vectors of "
    "strings). Values from size classes {0,1,limit-1,limit,limit+1,2*limit,300} with ASCII, multi-byte and NUL content. Operations: construct, copy/move "
    "construct, copy/move assign (incl. s=s), set, += (all overloads, incl. s+=s), clear, destroy, and const calls drawn from find*/contains/starts/ends, "
    "compare*, substr/left/right/trim*, before/after_*, to_upper/lower, replace, split x3, tokenize, to_utf8/16/32/wchar/latin_1, to_std_*string, to_int.., "
    "hash, ST::format, string_stream<<, ostream<<, operator+ in every form - arguments drawn from the pool with replacement (s.replace(s,s), s.split(s), s+s) "
    "and results that equal the source produced deliberately - whose results are stored and later mutated/destroyed in either order. Oracle (after every "
    "step): every live string not targeted by the step has the same bytes, size and data() pointer as before, is NUL-terminated and equals its model; every "
    "live string/buffer/vector element uses storage inside its own object or an exclusively owned live heap block; results keep their creation-time "
    "content; nothing leaks. Non-trivial: a result is outlived by / outlives a mutation or destruction of its source, or a move occurs, with a value "
    "crossing the small-string limit.",
    false, "exploration"};

namespace {

enum { NS = 8, NR = 6 };
volatile unsigned long g_sink;   // keeps the results of read-only calls observable

struct Str { ST::string *obj = nullptr; void *raw = nullptr; std::string model; const char *last_data = nullptr; int derived_from = -1; };
struct Res {
    int kind = 0;      // 0 none, 1 char_buffer, 2 utf16, 3 utf32, 4 wchar, 5 vector<ST::string>
    void *obj = nullptr;
    std::string snap;  // raw bytes at creation
    int derived_from = -1;
};

struct World {
    Str s[NS]; Res r[NR];
    std::string log; bool want_log = false;
    size_t L = 16;
    bool nontrivial = false;

    void note(const char *fmt, ...) __attribute__((format(printf, 2, 3))) {
        if (!want_log) return;
        char b[200]; va_list ap; va_start(ap, fmt); vsnprintf(b, sizeof b, fmt, ap); va_end(ap); log += b;
    }
    ST::string *place(int i) { s[i].raw = ::malloc(sizeof(ST::string)); memset(s[i].raw, 0xEE, sizeof(ST::string)); return static_cast<ST::string *>(s[i].raw); }
    bool inside(int i, const void *p) const { const char *lo = (const char *)s[i].raw; return s[i].raw && (const char *)p >= lo && (const char *)p < lo + sizeof(ST::string); }
    void adopt(int i) { const ST::string &t = *s[i].obj; s[i].model.assign(t.c_str(), t.size()); s[i].last_data = t.c_str(); }
    void born(int i, int from) { adopt(i); s[i].derived_from = from; }
    void mutated(int i) {   // slot i was changed or destroyed: anything derived from it (or it from) now demonstrates independence
        for (int k = 0; k < NS; k++) if (s[k].obj && k != i && (s[k].derived_from == i || (s[i].derived_from == k))) nontrivial_if_big(k, i);
        for (int k = 0; k < NR; k++) if (r[k].kind && r[k].derived_from == i) nontrivial = true;
    }
    void nontrivial_if_big(int a, int b) { if (s[a].model.size() >= L - 1 || s[b].model.size() >= L - 1) nontrivial = true; }
    void destroy_str(int i) {
        if (!s[i].obj) return;
        mutated(i);
        { va::LibScope l; s[i].obj->~string(); }
        memset(s[i].raw, 0xDD, sizeof(ST::string)); ::free(s[i].raw); s[i].raw = nullptr; s[i].obj = nullptr; s[i].derived_from = -1;
        for (int k = 0; k < NS; k++) if (s[k].derived_from == i) s[k].derived_from = -1;
        for (int k = 0; k < NR; k++) if (r[k].derived_from == i) r[k].derived_from = -1;
    }
    void destroy_res(int k) {
        if (!r[k].kind) return;
        va::LibScope l;
        switch (r[k].kind) {
        case 1: delete static_cast<ST::char_buffer *>(r[k].obj); break;
        case 2: delete static_cast<ST::utf16_buffer *>(r[k].obj); break;
        case 3: delete static_cast<ST::utf32_buffer *>(r[k].obj); break;
        case 4: delete static_cast<ST::wchar_buffer *>(r[k].obj); break;
        case 5: delete static_cast<std::vector<ST::string> *>(r[k].obj); break;
        }
        r[k].kind = 0; r[k].obj = nullptr; r[k].derived_from = -1;
    }
    int free_str() const { for (int i = 0; i < NS; i++) if (!s[i].obj) return i; return -1; }
    int free_res() const { for (int k = 0; k < NR; k++) if (!r[k].kind) return k; return -1; }

    template <class T> std::string raw_of(const ST::buffer<T> &b) { return std::string(reinterpret_cast<const char *>(b.data()), (b.size() + 1) * sizeof(T)); }
    std::string raw_of_vec(const std::vector<ST::string> &v) { std::string o; for (const ST::string &e : v) { o.append(e.c_str(), e.size() + 1); o += '|'; } return o; }

    // storage of an ST::string / buffer living at [obj, obj+objsize): inside itself or an exclusively owned block
    std::string storage_ok(const char *who, int idx, const void *obj, size_t objsize, const void *data, size_t bytes, std::vector<const void *> &seen) {
        char msg[240];
        const char *o = (const char *)obj;
        bool in = (const char *)data >= o && (const char *)data < o + objsize;
        if (in) { if ((const char *)data + bytes > o + objsize) { snprintf(msg, sizeof msg, "%s %d keeps %zu bytes in-object but they do not fit", who, idx, bytes); return msg; } return std::string(); }
        for (int j = 0; j < NS; j++) if (s[j].raw && s[j].raw != obj && inside(j, data)) { snprintf(msg, sizeof msg, "%s %d stores its text inside the ST::string object in slot %d", who, idx, j); return msg; }
        if (!va::owns(data, bytes)) { snprintf(msg, sizeof msg, "%s %d (%zu bytes) data() is neither inside the object nor the start of a live heap block of its own%s", who, idx, bytes, va::inside_any_block(data) ? " (it points into the middle of another block)" : ""); return msg; }
        for (const void *p : seen) if (p == data) { snprintf(msg, sizeof msg, "%s %d shares its heap block with another live object", who, idx); return msg; }
        seen.push_back(data);
        return std::string();
    }

    // the invariant; `target` (or -1) is the slot the step was allowed to change
    std::string check(int target, int target2 = -1) {
        char msg[300];
        std::vector<const void *> seen;
        for (int i = 0; i < NS; i++) {
            if (!s[i].obj) continue;
            const ST::string &t = *s[i].obj; const std::string &m = s[i].model;
            if (t.size() != m.size() || memcmp(t.c_str(), m.data(), m.size()) != 0) {
                snprintf(msg, sizeof msg, "string %d changed without being the target of the step: now %s (size %zu), was %s (size %zu)", i, verif::quoted(std::string(t.c_str(), t.size()), 30).c_str(), t.size(), verif::quoted(m, 30).c_str(), m.size());
                return msg;
            }
            if (t.c_str()[t.size()] != 0) { snprintf(msg, sizeof msg, "string %d is not NUL-terminated", i); return msg; }
            if (i != target && i != target2 && t.c_str() != s[i].last_data) { snprintf(msg, sizeof msg, "string %d: data pointer changed although the string was not the target of the step", i); return msg; }
            s[i].last_data = t.c_str();
            std::string w = storage_ok("string", i, s[i].raw, sizeof(ST::string), t.c_str(), t.size() + 1, seen);
            if (!w.empty()) return w;
        }
        for (int k = 0; k < NR; k++) {
            if (!r[k].kind) continue;
            std::string now, w;
            switch (r[k].kind) {
            case 1: { auto *b = static_cast<ST::char_buffer *>(r[k].obj); now = raw_of(*b); w = storage_ok("result buffer", k, b, sizeof *b, b->data(), b->size() + 1, seen); break; }
            case 2: { auto *b = static_cast<ST::utf16_buffer *>(r[k].obj); now = raw_of(*b); w = storage_ok("result buffer", k, b, sizeof *b, b->data(), (b->size() + 1) * 2, seen); break; }
            case 3: { auto *b = static_cast<ST::utf32_buffer *>(r[k].obj); now = raw_of(*b); w = storage_ok("result buffer", k, b, sizeof *b, b->data(), (b->size() + 1) * 4, seen); break; }
            case 4: { auto *b = static_cast<ST::wchar_buffer *>(r[k].obj); now = raw_of(*b); w = storage_ok("result buffer", k, b, sizeof *b, b->data(), (b->size() + 1) * sizeof(wchar_t), seen); break; }
            case 5: { auto *v = static_cast<std::vector<ST::string> *>(r[k].obj); now = raw_of_vec(*v);
                      for (size_t e = 0; e < v->size() && w.empty(); e++) w = storage_ok("piece of result vector", k, &(*v)[e], sizeof(ST::string), (*v)[e].c_str(), (*v)[e].size() + 1, seen); break; }
            }
            if (!w.empty()) return w;
            if (now != r[k].snap) { snprintf(msg, sizeof msg, "result %d (kind %d) changed after it was returned", k, r[k].kind); return msg; }
        }
        if (const char *e = va::error()) { std::string w = e; va::clear_error(); return w; }
        return std::string();
    }
    ~World() {
        for (int k = 0; k < NR; k++) { try { destroy_res(k); } catch (...) {} }
        for (int i = 0; i < NS; i++) if (s[i].raw) { if (s[i].obj) { try { va::LibScope l; s[i].obj->~string(); } catch (...) {} } ::free(s[i].raw); }
    }
};

std::string value(verif::Reader &r, size_t L) {
    const size_t lens[] = {0, 1, L - 1, L, L + 1, 2 * L, 300, 3, 7};
    size_t n = r.pick(lens);
    uint8_t st = r.u8();
    std::string v;
    while (v.size() < n) {
        size_t i = v.size();
        if ((st & 3) == 1 && i % 5 == 2 && v.size() + 2 <= n) { v += "\xC3\xA9"; continue; }          // é
        if ((st & 3) == 2 && i % 7 == 3 && v.size() + 3 <= n) { v += "\xE2\x82\xAC"; continue; }      // €
        if ((st & 12) == 4 && i % 6 == 1) { v.push_back('\0'); continue; }
        if ((st & 48) == 16 && i % 4 == 0) { v.push_back(' '); continue; }
        if ((st & 48) == 32 && i % 5 == 4) { v.push_back(','); continue; }
        v.push_back((char)(((st >> 6) & 1 ? 'A' : 'a') + (i + st) % 26));
    }
    return v;
}

std::string run(verif::Reader &rd, Case &c, World &w) {
    va::reset();
    {   // observe the small-string limit
        for (size_t n = 0; n < 64; n++) { void *raw = ::malloc(sizeof(ST::string)); ST::string *t; { va::LibScope l; t = new (raw) ST::string(ST::string::fill(n, 'q')); }
            const char *d = t->c_str(); bool in = d >= (const char *)raw && d < (const char *)raw + sizeof(ST::string); { va::LibScope l; t->~string(); } ::free(raw); if (!in) { w.L = n; break; } }
    }
    size_t nops = 1 + rd.range(0, 59);
    for (size_t k = 0; k < nops; k++) {
        int op = (int)rd.range(0, 63), i = (int)rd.idx(NS), j = (int)rd.idx(NS), h = (int)rd.idx(NS);
        int target = -1, target2 = -1;
        if (op >= 3 && !w.s[i].obj) op = 0;
        if (!w.s[j].obj) j = i;
        if (!w.s[h].obj) h = i;
        ST::string *S = w.s[i].obj, *J = w.s[j].obj, *H = w.s[h].obj;
        const std::string mi = S ? w.s[i].model : std::string();
        if (op >= 6 && op <= 16) target = i;       // mutating operations: whatever happens, slot i is the one allowed to change
        if (op == 8) target2 = j;
        try {
            switch (op) {
            // ------------------------------------------------------------ construction / mutation
            case 0: case 1: case 2: { if (w.s[i].obj) continue; std::string v = value(rd, w.L); verif::Exact<char> e(v.data(), v.size());
                { ST::string *q = w.place(i); va::LibScope l; w.s[i].obj = new (q) ST::string(e.data(), e.size(), ST::assume_valid); } w.born(i, -1); target = i; w.note("%d=string(%zu); ", i, v.size()); break; }
            case 3: { int t = w.free_str(); if (t < 0) continue; { ST::string *q = w.place(t); va::LibScope l; w.s[t].obj = new (q) ST::string(*S); } w.born(t, i); target = t; c.label("copy-construct"); w.note("%d=string(copy %d); ", t, i); break; }
            case 4: { int t = w.free_str(); if (t < 0) continue; { ST::string *q = w.place(t); va::LibScope l; w.s[t].obj = new (q) ST::string(std::move(*S)); } w.born(t, -1); w.adopt(i); target = t; target2 = i;
                if (w.s[t].model.size() >= w.L - 1) w.nontrivial = true; c.label("move-construct"); w.note("%d=string(move %d); ", t, i); break; }
            case 5: w.destroy_str(i); w.note("~%d; ", i); break;
            case 6: case 7: { w.mutated(i); { va::LibScope l; *S = *J; } w.adopt(i); w.s[i].derived_from = (i == j) ? w.s[i].derived_from : j; target = i; c.label(i == j ? "self-copy-assign" : "copy-assign"); w.note("%d=copy %d; ", i, j); break; }
            case 8: { w.mutated(i); { va::LibScope l; *S = std::move(*J); } w.adopt(i); if (i != j) { w.adopt(j); w.s[i].derived_from = -1; } target = i; target2 = j;
                if (w.s[i].model.size() >= w.L - 1) w.nontrivial = true; c.label(i == j ? "self-move-assign" : "move-assign"); w.note("%d=move %d; ", i, j); break; }
            case 9: { w.mutated(i); std::string v = value(rd, w.L); verif::Exact<char> e(v.data(), v.size()); { va::LibScope l; S->set(e.data(), e.size(), ST::assume_valid); } w.adopt(i); target = i; w.note("%d.set(%zu); ", i, v.size()); break; }
            case 10: { w.mutated(i); { va::LibScope l; S->set(*J); } w.adopt(i); target = i; w.note("%d.set(%d); ", i, j); break; }
            case 11: { w.mutated(i); { va::LibScope l; S->set(J->to_utf8(), ST::assume_valid); } w.adopt(i); target = i; w.note("%d.set(%d.to_utf8()); ", i, j); break; }
            case 12: case 13: { w.mutated(i); { va::LibScope l; *S += *J; } w.adopt(i); target = i; c.label(i == j ? "s+=s" : "+=string"); w.note("%d+=%d; ", i, j); break; }
            case 14: { w.mutated(i); std::string v = value(rd, w.L); for (char &ch : v) if (!ch) ch = '0'; verif::Exact<char> e(v.data(), v.size(), true); { va::LibScope l; *S += e.data(); } w.adopt(i); target = i; w.note("%d+=cstr(%zu); ", i, v.size()); break; }
            case 15: { w.mutated(i); { va::LibScope l; switch (rd.range(0, 3)) { case 0: *S += 'x'; break; case 1: *S += U'€'; break; case 2: *S += u'é'; break; default: *S += L'\U0001F600'; break; } } w.adopt(i); target = i; w.note("%d+=char; ", i); break; }
            case 16: { w.mutated(i); { va::LibScope l; S->clear(); } w.adopt(i); target = i; w.note("%d.clear(); ", i); break; }
            case 17: { int k2 = (int)rd.idx(NR); if (w.r[k2].kind) { if (w.r[k2].derived_from >= 0) w.nontrivial = true; w.destroy_res(k2); w.note("~result%d; ", k2); } break; }
            // ------------------------------------------------------------ const calls returning strings (stored in a free slot)
            case 18: case 19: case 20: case 21: case 22: case 23: case 24: case 25: case 26: case 27: case 28: case 29: case 30: case 31: case 32: case 33: case 34: case 35: {
                int t = w.free_str(); if (t < 0) { w.destroy_str((int)rd.idx(NS)); continue; }
                ST::string *q = w.place(t);
                size_t sz = S->size();
                const char *what = "";
                bool made = false;
                try {
                    va::LibScope l;
                    switch (op) {
                    case 18: { const size_t a = rd.range(0, 3); ST_ssize_t st = a == 0 ? 0 : a == 1 ? (ST_ssize_t)rd.range(0, sz + 1) : a == 2 ? -(ST_ssize_t)rd.range(0, sz + 1) : (ST_ssize_t)(sz / 2);
                        size_t cnt = a == 0 ? (rd.flag() ? sz : ST_AUTO_SIZE) : rd.range(0, sz + 2); new (q) ST::string(S->substr(st, cnt)); what = a == 0 ? "substr(whole)" : "substr"; break; }
                    case 19: new (q) ST::string(rd.flag() ? S->left(rd.range(0, sz + 2)) : S->right(rd.range(0, sz + 2))); what = "left/right"; break;
                    case 20: { int v = (int)rd.range(0, 3); new (q) ST::string(v == 0 ? S->trim() : v == 1 ? S->trim_left() : v == 2 ? S->trim_right() : S->trim("\x01")); what = "trim"; break; }
                    case 21: new (q) ST::string(rd.flag() ? S->to_upper() : S->to_lower()); what = "to_upper/lower"; break;
                    case 22: new (q) ST::string(S->replace(*J, *H)); what = (i == j && i == h) ? "s.replace(s,s)" : "replace(string,string)"; break;
                    case 23: new (q) ST::string(S->replace("\x01\x02", "zz")); what = "replace(no match)"; break;
                    case 24: new (q) ST::string(S->replace("a", "\xC3\xA9\xC3\xA9", rd.flag() ? ST::case_sensitive : ST::case_insensitive)); what = "replace(cstr)"; break;
                    case 25: { int v = (int)rd.range(0, 3); new (q) ST::string(v == 0 ? S->before_first(*J) : v == 1 ? S->after_first(*J) : v == 2 ? S->before_last(*J) : S->after_last(*J)); what = "before/after(string)"; break; }
                    case 26: { int v = (int)rd.range(0, 3); new (q) ST::string(v == 0 ? S->before_first(',') : v == 1 ? S->after_first(' ') : v == 2 ? S->before_last("a") : S->after_last("\x01")); what = "before/after(char,cstr)"; break; }
                    case 27: new (q) ST::string(*S + *J); what = (i == j) ? "s+s" : "string+string"; break;
                    case 28: { int v = (int)rd.range(0, 5); new (q) ST::string(v == 0 ? *S + "tail" : v == 1 ? "head" + *S : v == 2 ? *S + 'c' : v == 3 ? U'€' + *S : v == 4 ? *S + u"éx" : L"w" + *S); what = "operator+ (mixed)"; break; }
                    case 29: new (q) ST::string(ST::format("{}|{>4}|{}", *S, *J, S->size())); what = "ST::format"; break;
                    case 30: { ST::string_stream ss; ss << *S << 42 << *J; new (q) ST::string(ss.to_string(true, ST::assume_valid)); what = "string_stream<<"; break; }
                    case 31: new (q) ST::string(ST::string::from_validated(S->to_utf8())); what = "from_validated(to_utf8())"; break;
                    case 32: new (q) ST::string(S->to_std_string()); what = "string(to_std_string())"; break;
                    case 33: new (q) ST::string(S->to_utf16(), ST::assume_valid); what = "string(to_utf16())"; break;
                    case 34: new (q) ST::string(S->view(), ST::assume_valid); what = "string(view())"; break;
                    default: { std::ostringstream os; os << *S; std::string out = os.str(); new (q) ST::string(out.data(), out.size(), ST::assume_valid); what = "ostream<<"; break; }
                    }
                    made = true;
                } catch (const ST::unicode_error &) { }      // replace()/+ re-validate: a refused result is no result (C04 does not judge content)
                if (made) { w.s[t].obj = q; w.born(t, i); target = t; if (w.s[t].model == mi) c.label("result-equals-source"); c.label(what); w.note("%d=%d.%s; ", t, i, what); }
                else { ::free(w.s[t].raw); w.s[t].raw = nullptr; w.note("%d.%s threw unicode_error; ", i, what); }
                break; }
            // ------------------------------------------------------------ const calls returning buffers / vectors (stored in the result pool)
            case 36: case 37: case 38: case 39: case 40: case 41: case 42: case 43: case 44: {
                int k2 = w.free_res(); if (k2 < 0) { w.destroy_res((int)rd.idx(NR)); continue; }
                Res &R = w.r[k2];
                const char *what = "";
                {
                    va::LibScope l;
                    switch (op) {
                    case 36: R.obj = new ST::char_buffer(S->to_utf8()); R.kind = 1; what = "to_utf8"; break;
                    case 37: R.obj = new ST::utf16_buffer(S->to_utf16()); R.kind = 2; what = "to_utf16"; break;
                    case 38: R.obj = new ST::utf32_buffer(S->to_utf32()); R.kind = 3; what = "to_utf32"; break;
                    case 39: R.obj = new ST::wchar_buffer(S->to_wchar()); R.kind = 4; what = "to_wchar"; break;
                    case 40: R.obj = new ST::char_buffer(S->to_latin_1()); R.kind = 1; what = "to_latin_1"; break;
                    case 41: R.obj = new std::vector<ST::string>(S->split(rd.flag() ? ',' : ' ', rd.flag() ? ST_AUTO_SIZE : rd.range(0, 3))); R.kind = 5; what = "split(char)"; break;
                    case 42: R.obj = new std::vector<ST::string>(S->split(*J, ST_AUTO_SIZE, rd.flag() ? ST::case_sensitive : ST::case_insensitive)); R.kind = 5; what = (i == j) ? "s.split(s)" : "split(string)"; break;
                    case 43: R.obj = new std::vector<ST::string>(S->split(rd.flag() ? ", " : "a")); R.kind = 5; what = "split(cstr)"; break;
                    default: R.obj = new std::vector<ST::string>(rd.flag() ? S->tokenize() : S->tokenize(", a")); R.kind = 5; what = "tokenize"; break;
                    }
                }
                switch (R.kind) {
                case 1: R.snap = w.raw_of(*static_cast<ST::char_buffer *>(R.obj)); break;
                case 2: R.snap = w.raw_of(*static_cast<ST::utf16_buffer *>(R.obj)); break;
                case 3: R.snap = w.raw_of(*static_cast<ST::utf32_buffer *>(R.obj)); break;
                case 4: R.snap = w.raw_of(*static_cast<ST::wchar_buffer *>(R.obj)); break;
                default: R.snap = w.raw_of_vec(*static_cast<std::vector<ST::string> *>(R.obj)); break;
                }
                R.derived_from = i; c.label(what); w.note("result%d=%d.%s; ", k2, i, what);
                break; }
            // ------------------------------------------------------------ const calls returning scalars
            default: {
                if (!S) continue;
                va::LibScope l;
                size_t sz = S->size();
                unsigned long sink = 0;
                switch (op % 10) {
                case 0: sink += S->find(*J) + S->find(rd.range(0, sz + 1), *J, ST::case_insensitive) + S->find('a') + S->find("ab") + S->find_last(*J) + S->find_last(rd.range(0, sz + 1), "a") + S->find_last('z', ST::case_insensitive); break;
                case 1: sink += S->contains(*J) + S->contains('x') + S->contains("ab", ST::case_insensitive) + S->starts_with(*J) + S->ends_with(*J) + S->starts_with("a") + S->ends_with("z", ST::case_insensitive); break;
                case 2: sink += S->compare(*J) + S->compare_i(*J) + S->compare_n(*J, rd.range(0, sz + 1)) + S->compare_ni(*J, 3) + S->compare("abc") + S->compare_i("ABC") + (*S == *J) + (*S != *J) + (*S < *J) + (*S == "abc"); break;
                case 3: { ST::conversion_result cr; sink += S->to_int() + S->to_uint(16) + (unsigned long)S->to_long_long(cr, 10) + (unsigned long)S->to_ulong_long(0) + (S->to_double() > 1.0) + (S->to_float(cr) > 1.0f) + S->to_bool() + S->to_short() + S->to_ushort(); break; }
                case 4: sink += (unsigned long)ST::hash()(*S) + (unsigned long)ST::hash_i()(*S) + (unsigned long)std::hash<ST::string>()(*S) + ST::less_i()(*S, *J) + ST::equal_i()(*S, *J); break;
                case 5: { for (char ch : *S) sink += ch; sink += S->front() + S->back() + (sz ? S->at(sz - 1) : 0) + (*S)[0] + (S->rbegin() != S->rend() ? *S->rbegin() : 0) + S->empty(); break; }
                case 6: { std::string a = S->to_std_string(); std::wstring b = S->to_std_wstring(); std::u16string c16 = S->to_std_u16string(); std::u32string c32 = S->to_std_u32string(); std::string lat = S->to_std_string(false); sink += (unsigned long)(a.size() + b.size() + c16.size() + c32.size() + lat.size()); break; }
                case 7: { std::wostringstream os; os << *S; sink += (unsigned long)os.str().size(); std::basic_ostringstream<char32_t> o32; o32 << *S; sink += (unsigned long)o32.str().size(); break; }
                case 8: { ST::string_stream ss; ss << *S << *S; sink += (unsigned long)ss.size(); ST::string f = ST::format("{<20}{}", *S, *S); sink += (unsigned long)f.size(); break; }
                default: { ST::char_buffer b; S->to_buffer(b); ST::utf16_buffer b16; S->to_buffer(b16); ST::utf32_buffer b32; S->to_buffer(b32); ST::wchar_buffer bw; S->to_buffer(bw); sink += (unsigned long)(b.size() + b16.size() + b32.size() + bw.size()); sink += (unsigned long)S->view().size() + (unsigned long)S->u8_str()[0]; break; }
                }
                g_sink = sink;
                c.label("scalar-read"); w.note("read%d(%d,%d); ", op % 10, i, j);
                break; }
            }
        } catch (const ST::unicode_error &) {
            // a string holding bytes that are not valid UTF-8 (e.g. a substr that cut a character) may be refused by calls that
            // re-validate (format, replace, +=): that is no violation of C04; the invariant below still has to hold
            c.label("refused-by-validation"); w.note("(unicode_error); ");
            if (target >= 0 && w.s[target].obj) w.adopt(target);
            if (target2 >= 0 && w.s[target2].obj) w.adopt(target2);
        } catch (const std::out_of_range &) {
            // at() on an empty string etc. is not generated; treat as unexpected
            return "step " + verif::unum(k) + ": unexpected std::out_of_range";
        } catch (...) {
            return "step " + verif::unum(k) + " (op " + verif::num(op) + "): unexpected " + verif::describe_current_exception();
        }
        std::string why = w.check(target, target2);
        if (!why.empty()) return "after step " + verif::unum(k) + " (op " + verif::num(op) + " on string " + verif::num(i) + "): " + why;
    }
    // teardown in a case-chosen order: results first or sources first
    bool results_first = rd.flag();
    if (results_first) for (int k = 0; k < NR; k++) { w.destroy_res(k); std::string why = w.check(-1); if (!why.empty()) return "teardown: " + why; }
    for (int i = 0; i < NS; i++) { int t = rd.flag() ? i : NS - 1 - i; w.destroy_str(t); std::string why = w.check(-1); if (!why.empty()) return "teardown: " + why; }
    for (int i = 0; i < NS; i++) w.destroy_str(i);
    for (int k = 0; k < NR; k++) { w.destroy_res(k); std::string why = w.check(-1); if (!why.empty()) return "teardown: " + why; }
    if (va::live_blocks() != 0) return "leak: " + verif::unum(va::live_blocks()) + " heap block(s) still allocated after every string and result was destroyed";
    return std::string();
}

}  // namespace

int verif_case(const uint8_t *data, size_t size, Case &c) {
    verif::Reader r(data, size, c);
    World w; w.want_log = c.want_text;
    std::string why = run(r, c, w);
    c.nontrivial = w.nontrivial;
    if (c.want_text) c.text = "C04 limit=" + verif::unum(w.L) + "  " + (w.log.size() > 1000 ? w.log.substr(0, 1000) + "..." : w.log);
    if (!why.empty()) { va::reset(); return c.fail(why); }
    va::reset();
    return verif::CASE_OK;
}

long verif_enumerate(int, int, int, verif::EnumReport &) { return 0; }
void verif_corpus(std::vector<std::vector<uint8_t>> &out) {
    out.push_back({0, 0, 0, 0, 5, 1, 18, 0, 0, 0, 0, 1, 16, 0, 0, 0});
    out.push_back({1, 1, 0, 0, 6, 2, 4, 1, 0, 0, 12, 1, 1, 0});
}
