// C05: buffers keep size, content, terminator and exclusive ownership over any history.
#include <string_theory/char_buffer>

#include <algorithm>
#include <string>
#include <string_view>
#include <cstdarg>

#include "common/alloc_track.h"
#include "common/verif.h"

using verif::Case;
namespace va = verif::alloc;

const verif::Info verif_info = {
    "C05", 400,
    "histories of 1..80 operations (default/ptr+len/count+fill/copy/move construction, copy and move assignment incl. self-assignment, "
    "allocate(n)+write, allocate(n,fill), clear, destroy, reads) over a pool of 6 individually heap-placed ST::buffer<T>, T in "
    "{char,wchar_t,char16_t,char32_t}; lengths from {0,1,L-2,L-1,L,L+1,2L,100} with L the observed in-object limit. Oracle: per-slot "
    "std::basic_string model; after every step every live buffer has the model's size and elements, a NUL terminator, storage inside its own "
    "footprint (always when size<L) or an exclusively owned live heap block of >= size+1 elements, no invalid/double free; at the end nothing is "
    "left allocated. Moved-from objects must satisfy the same for the value they report. Non-trivial: a move or a cross-limit assignment "
    "followed by at least one later step that touches a participant. "
    "Extended histories (leading byte 4..19; 0..3 keep the original operation table) add: construction from null_t, (nullptr,0), the "
    "ST_CHAR/WCHAR/UTF16/UTF32_LITERAL macros and the _stbuf literal operators (15 literals of length 0..43 around both limits, with embedded "
    "and trailing NULs: size must be the literal's length), assignment from null_t and from temporaries, (count,fill) and allocate(n,fill) with "
    "every fill value incl. 0, allocate(n) followed by partial writes, writes through at()/operator[]/front()/back()/begin()/end()/rbegin()/rend(), "
    "std::swap (incl. with itself), the chain a=move(b); b=a; a=a; b=move(b), 3..6-step shrink/grow histories across the limit, "
    "compare / compare_n / static compare / == / != / < / null_t comparisons between pool members and against a freshly built buffer of the same "
    "elements (equality depends on current contents only), view(start,length), all eight iterator pairs, c_str(substitute), and a compound step "
    "that rebuilds a slot in one of 18 pre-states (fresh, short, long, limit-1, limit, long-after-short by copy/move assignment, short-after-long, "
    "cleared, moved-from by constructor/assignment, copy of a long value, self-assigned, shrunk by allocate, three-step, literal) and applies one "
    "of 16 actions to it. The enumerator runs every (type, pre-state, action, length class, fill) combination, every chain over 8x8 length "
    "classes and every 3-step shrink/grow method triple as directed cases.",
    true, "exploration"};

namespace {

using namespace ST::literals;

// ---------------------------------------------------------------------------------------------------------------------
// literal table: every entry is built by the library macro and by the literal operator; the expected value is the
// narrow spelling, element by element, sizeof-1 elements long (embedded NULs count)
#define C05_LITS(X) \
    X("") X("a") X("ab\0cd") X("\0") X("\0\0z") X("0123456789A") X("0123456789AB") X("0123456789ABC") X("0123456789ABCDE") \
    X("0123456789ABCDEF") X("0123456789ABCDEFG") X("0123456\0zzABCDE") X("0123456789\0zCDEF") X("The quick brown fox\0jumps over the lazy dog") \
    X("trailing nul\0")

template <class T> struct LitEntry { ST::buffer<T> (*macro)(); ST::buffer<T> (*udl)(); ST::buffer<T> (*udl8)(); const char *narrow; size_t len; };
template <class T> struct Lits;
template <> struct Lits<char> { static const LitEntry<char> tab[]; };
template <> struct Lits<wchar_t> { static const LitEntry<wchar_t> tab[]; };
template <> struct Lits<char16_t> { static const LitEntry<char16_t> tab[]; };
template <> struct Lits<char32_t> { static const LitEntry<char32_t> tab[]; };
#define X(s) { +[]() -> ST::char_buffer { return ST_CHAR_LITERAL(s); }, +[]() -> ST::char_buffer { return s##_stbuf; }, +[]() -> ST::char_buffer { return u8##s##_stbuf; }, s, sizeof(s) - 1 },
const LitEntry<char> Lits<char>::tab[] = { C05_LITS(X) };
#undef X
#define X(s) { +[]() -> ST::wchar_buffer { return ST_WCHAR_LITERAL(s); }, +[]() -> ST::wchar_buffer { return L##s##_stbuf; }, nullptr, s, sizeof(s) - 1 },
const LitEntry<wchar_t> Lits<wchar_t>::tab[] = { C05_LITS(X) };
#undef X
#define X(s) { +[]() -> ST::utf16_buffer { return ST_UTF16_LITERAL(s); }, +[]() -> ST::utf16_buffer { return u##s##_stbuf; }, nullptr, s, sizeof(s) - 1 },
const LitEntry<char16_t> Lits<char16_t>::tab[] = { C05_LITS(X) };
#undef X
#define X(s) { +[]() -> ST::utf32_buffer { return ST_UTF32_LITERAL(s); }, +[]() -> ST::utf32_buffer { return U##s##_stbuf; }, nullptr, s, sizeof(s) - 1 },
const LitEntry<char32_t> Lits<char32_t>::tab[] = { C05_LITS(X) };
#undef X
#define X(s) +1
enum { NLIT = 0 C05_LITS(X) };
#undef X

inline int sgn(int v) { return v < 0 ? -1 : v > 0 ? 1 : 0; }
void lab(Case &c, const char *l) { for (int i = 0; i < c.nlabels; i++) if (c.labels[i] == l || !strcmp(c.labels[i], l)) return; c.label(l); }

enum { OPS_LEGACY = 18, OPS_EXT = 40, NKIND = 18, NACT = 16 };

template <class T> struct Pool {
    typedef ST::buffer<T> B;
    typedef std::basic_string<T> M;
    enum { NSLOT = 6 };
    struct Slot { B *obj = nullptr; void *raw = nullptr; M model; bool touched_by_move = false; };
    Slot s[NSLOT];
    std::string log;
    bool want_log;
    bool ext = false;
    bool discard = false;
    size_t L = 0;    // observed limit: smallest length whose storage leaves the object

    B *place(int i) { s[i].raw = ::malloc(sizeof(B)); memset(s[i].raw, 0xEE, sizeof(B)); return static_cast<B *>(s[i].raw); }
    void unplace(int i) { memset(s[i].raw, 0xDD, sizeof(B)); ::free(s[i].raw); s[i].raw = nullptr; s[i].obj = nullptr; }
    void destroy(int i) { if (!s[i].obj) return; { va::LibScope l; s[i].obj->~B(); } unplace(i); }

    bool inside(int i, const void *p) const { const char *lo = (const char *)s[i].raw; return (const char *)p >= lo && (const char *)p < lo + sizeof(B); }

    void observe_limit() {
        for (size_t n = 0; n < 200; n++) {
            void *raw = ::malloc(sizeof(B));
            B *b; { va::LibScope l; b = new (raw) B(n, (T)'q'); }
            const char *d = (const char *)b->data();
            bool in = d >= (const char *)raw && d < (const char *)raw + sizeof(B);
            { va::LibScope l; b->~B(); }
            ::free(raw);
            if (!in) { L = n; return; }
        }
        L = 200;
    }

    // invariant over every live object; returns "" when fine
    std::string check(const char *when) {
        char msg[256];
        for (int i = 0; i < NSLOT; i++) {
            if (!s[i].obj) continue;
            const B &b = *s[i].obj;
            size_t n = b.size();
            if (n != s[i].model.size()) { snprintf(msg, sizeof msg, "%s: slot %d reports size %zu, the value given to it has %zu elements", when, i, n, s[i].model.size()); return msg; }
            const T *d = b.data();
            if (!d) { snprintf(msg, sizeof msg, "%s: slot %d data() is null", when, i); return msg; }
            if (b.c_str() != d) { snprintf(msg, sizeof msg, "%s: slot %d c_str() != data()", when, i); return msg; }
            bool in = inside(i, d);
            if (in) {
                if ((const char *)(d + n + 1) > (const char *)s[i].raw + sizeof(B)) { snprintf(msg, sizeof msg, "%s: slot %d keeps %zu elements in-object but they do not fit the object", when, i, n); return msg; }
            } else {
                for (int j = 0; j < NSLOT; j++) if (j != i && s[j].raw && inside(j, d)) { snprintf(msg, sizeof msg, "%s: slot %d data() points into the object in slot %d", when, i, j); return msg; }
                if (!va::owns(d, (n + 1) * sizeof(T))) {
                    snprintf(msg, sizeof msg, "%s: slot %d (size %zu) data() is neither inside the object nor the start of a live heap block of >= size+1 elements%s", when, i, n,
                             va::inside_any_block(d) ? " (it points into the middle of a block)" : " (released or foreign storage)");
                    return msg;
                }
                if (n < L) { snprintf(msg, sizeof msg, "%s: slot %d holds a short value (%zu < limit %zu) on the heap instead of inside the object", when, i, n, L); return msg; }
                for (int j = 0; j < i; j++) if (s[j].obj && s[j].obj->data() == d) { snprintf(msg, sizeof msg, "%s: slots %d and %d share one heap block", when, j, i); return msg; }
            }
            for (size_t k = 0; k < n; k++) if (d[k] != s[i].model[k]) { snprintf(msg, sizeof msg, "%s: slot %d element %zu is %X, expected %X", when, i, k, (unsigned)d[k], (unsigned)s[i].model[k]); return msg; }
            if (d[n] != 0) { snprintf(msg, sizeof msg, "%s: slot %d has no NUL after its last element (size %zu)", when, i, n); return msg; }
            if (b.empty() != (n == 0)) { snprintf(msg, sizeof msg, "%s: slot %d empty() inconsistent with size", when, i); return msg; }
        }
        if (const char *e = va::error()) { snprintf(msg, sizeof msg, "%s: %s", when, e); va::clear_error(); return msg; }
        return std::string();
    }

    // a moved-from (or self-moved) object has an unspecified but valid value: adopt what it reports
    void adopt(int i) { const B &b = *s[i].obj; s[i].model.assign(b.data(), b.size()); }

    static M content(size_t n, uint8_t style) {
        M m;
        for (size_t k = 0; k < n; k++) {
            unsigned v = 'a' + ((style + k) % 26);
            if ((style & 0x30) == 0x10 && (k % 5) == 3) v = (sizeof(T) == 1) ? 0xC3 : (sizeof(T) == 2 ? 0x20AC : 0x1F600);
            if ((style & 0xC0) == 0x40 && (k % 7) == 2) v = 0;     // embedded NUL element
            m.push_back((T)v);
        }
        return m;
    }
    M value(verif::Reader &r) {
        const size_t lens[] = {0, 1, L >= 2 ? L - 2 : 0, L >= 1 ? L - 1 : 0, L, L + 1, 2 * L, 100};
        size_t n = r.pick(lens);
        uint8_t style = r.u8();
        return content(n, style);
    }
    M short_value(verif::Reader &r) { const size_t lens[] = {1, L >= 1 ? L - 1 : 0, L >= 2 ? L - 2 : 0, L / 2}; size_t n = r.pick(lens); return content(n, r.u8()); }
    M long_value(verif::Reader &r) { const size_t lens[] = {L, L + 1, 100, 2 * L}; size_t n = r.pick(lens); return content(n, r.u8()); }
    // every element value: 0 first (zeros decode to the simplest choice), a few extremes, then any byte value
    static T fillv(verif::Reader &r) {
        static const uint32_t tab[8] = {0, 1, 'x', 0x7F, 0x80, 0xFF, 0xFFFF, 0xFFFFFFFFu};
        uint8_t v = r.u8();
        return v < 8 ? (T)tab[v] : (T)v;
    }

    void note(const char *fmt, ...) __attribute__((format(printf, 2, 3))) {
        if (!want_log) return;
        char b[160]; va_list ap; va_start(ap, fmt); vsnprintf(b, sizeof b, fmt, ap); va_end(ap); log += b;
    }

    // ---- helpers for the extended operations ------------------------------------------------------------------------
    void make(int i, const M &m) {      // slot i must be free
        verif::Exact<T> src(m.data(), m.size());
        { B *q = place(i); va::LibScope l; s[i].obj = new (q) B(src.data(), src.size()); }
        s[i].model = m;
    }
    void copy_assign_value(int i, const M &m) {     // *slot = (temporary built from m), through an lvalue
        verif::Exact<T> src(m.data(), m.size());
        { va::LibScope l; B tmp(src.data(), src.size()); *s[i].obj = tmp; }
        s[i].model = m;
    }
    void move_assign_value(int i, const M &m) {
        verif::Exact<T> src(m.data(), m.size());
        { va::LibScope l; B tmp(src.data(), src.size()); *s[i].obj = std::move(tmp); }
        s[i].model = m;
    }
    void allocate_write(int i, const M &m) {
        { va::LibScope l; s[i].obj->allocate(m.size()); }
        if (s[i].obj->size() == m.size()) for (size_t e = 0; e < m.size(); e++) s[i].obj->data()[e] = m[e];
        s[i].model = m;
    }
    static M lit_model(const LitEntry<T> &e) { M m; for (size_t k = 0; k < e.len; k++) m.push_back((T)(unsigned char)e.narrow[k]); return m; }
    int free_slot() const { for (int i = 0; i < NSLOT; i++) if (!s[i].obj) return i; return -1; }

    // write element k of slot i through one of the non-const accessors
    void poke(int i, size_t k, T v, int how) {
        B &b = *s[i].obj; size_t n = b.size();
        va::LibScope l;
        switch (how & 7) {
        case 0: b.at(k) = v; break;
        case 1: b[k] = v; break;
        case 2: *(b.begin() + k) = v; break;
        case 3: *(b.end() - (n - k)) = v; break;
        case 4: *(b.rbegin() + (n - 1 - k)) = v; break;
        case 5: *(b.rend() - 1 - k) = v; break;
        case 6: if (k == 0) b.front() = v; else b.data()[k] = v; break;
        default: if (k == n - 1) b.back() = v; else b.at(k) = v; break;
        }
        s[i].model[k] = v;
    }

    // rebuild slot i in pre-state `kind`; every intermediate state is checked.  Returns "" or the violation.
    static const char *kind_name(int kind) {
        static const char *const names[NKIND] = {"fresh", "short", "long", "limit-1", "limit", "long-after-short(copy=)", "short-after-long(copy=)", "cleared-after-long",
            "cleared-after-short", "moved-from(ctor,long)", "moved-from(=,short)", "copy-of-long", "self-assigned-long", "shrunk-by-allocate", "long-after-short(move=)",
            "long-short-long(copy=)", "moved-from(=,long)", "literal"};
        return names[kind];
    }
    static bool kind_crosses(int kind) { return kind == 5 || kind == 6 || kind == 9 || kind == 10 || kind == 12 || kind == 13 || kind == 14 || kind == 15 || kind == 16; }
    std::string prestate(int i, int kind, const M &sh, const M &lg, unsigned litsel) {
        destroy(i);
        std::string why;
        #define C05_STEP(what) do { why = check(what); if (!why.empty()) return why; } while (0)
        switch (kind) {
        case 0: { B *q = place(i); va::LibScope l; s[i].obj = new (q) B(); } s[i].model.clear(); break;
        case 1: make(i, sh); break;
        case 2: make(i, lg); break;
        case 3: make(i, content(L >= 1 ? L - 1 : 0, (uint8_t)sh.size())); break;
        case 4: make(i, content(L, (uint8_t)lg.size())); break;
        case 5: make(i, sh); C05_STEP("pre-state step 1"); copy_assign_value(i, lg); break;
        case 6: make(i, lg); C05_STEP("pre-state step 1"); copy_assign_value(i, sh); break;
        case 7: make(i, lg); C05_STEP("pre-state step 1"); { va::LibScope l; s[i].obj->clear(); } s[i].model.clear(); break;
        case 8: make(i, sh); C05_STEP("pre-state step 1"); { va::LibScope l; s[i].obj->clear(); } s[i].model.clear(); break;
        case 9: make(i, lg); C05_STEP("pre-state step 1"); { va::LibScope l; B t(std::move(*s[i].obj)); } adopt(i); break;
        case 10: make(i, sh); C05_STEP("pre-state step 1"); { va::LibScope l; B t; t = std::move(*s[i].obj); } adopt(i); break;
        case 11: { verif::Exact<T> src(lg.data(), lg.size()); B *q = place(i); va::LibScope l; B tmp(src.data(), src.size()); s[i].obj = new (q) B(tmp); } s[i].model = lg; break;
        case 12: make(i, lg); C05_STEP("pre-state step 1"); { va::LibScope l; B &b = *s[i].obj; b = b; } C05_STEP("pre-state step 2 (self copy assignment)");
                 { va::LibScope l; B &b = *s[i].obj; b = std::move(b); } adopt(i); break;
        case 13: make(i, lg); C05_STEP("pre-state step 1"); allocate_write(i, sh); break;
        case 14: make(i, sh); C05_STEP("pre-state step 1"); move_assign_value(i, lg); break;
        case 15: make(i, lg); C05_STEP("pre-state step 1"); copy_assign_value(i, sh); C05_STEP("pre-state step 2"); copy_assign_value(i, content(lg.size() + 1, (uint8_t)(sh.size() + 7))); break;
        case 16: make(i, lg); C05_STEP("pre-state step 1"); { verif::Exact<T> src(sh.data(), sh.size()); va::LibScope l; B t(src.data(), src.size()); t = std::move(*s[i].obj); } adopt(i); break;
        default: { const LitEntry<T> &e = Lits<T>::tab[litsel % NLIT]; { B *q = place(i); va::LibScope l; s[i].obj = new (q) B((litsel / NLIT) & 1 ? e.udl() : e.macro()); } s[i].model = lit_model(e); break; }
        }
        #undef C05_STEP
        return check("after building the pre-state");
    }

    // comparisons of slot i with slot j; returns "" or the violation
    std::string compare_ops(int i, int j, size_t nsel) {
        const B &a = *s[i].obj, &b = *s[j].obj; const M &ma = s[i].model, &mb = s[j].model;
        char msg[200];
        va::LibScope l;
        bool eq = ma == mb;
        if ((a == b) != eq || (a != b) != !eq || (b == a) != eq) { snprintf(msg, sizeof msg, "operator==/!= of slots %d and %d say %s although their contents are %s", i, j, eq ? "different" : "equal", eq ? "equal" : "different"); return msg; }
        int want = sgn(ma.compare(mb));
        if (sgn(a.compare(b)) != want) { snprintf(msg, sizeof msg, "slot %d .compare(slot %d) has sign %d, contents compare %d", i, j, sgn(a.compare(b)), want); return msg; }
        if ((a < b) != (want < 0)) { snprintf(msg, sizeof msg, "operator< of slots %d and %d disagrees with their contents", i, j); return msg; }
        if (sgn(B::compare(a.data(), a.size(), b.data(), b.size())) != want) return "static compare(p,n,q,m) disagrees with the contents of slots " + verif::num(i) + "," + verif::num(j);
        M mbz(mb.c_str());   // what a const T* overload can see
        if (sgn(a.compare(b.c_str())) != sgn(ma.compare(mbz))) return "compare(const T*) disagrees with the contents of slots " + verif::num(i) + "," + verif::num(j);
        size_t top = std::max(ma.size(), mb.size()) + 1, n = nsel % (top + 1);
        int wn = sgn(ma.substr(0, n).compare(mb.substr(0, n)));
        if (sgn(a.compare_n(b, n)) != wn) return "compare_n(buffer," + verif::unum(n) + ") disagrees with the contents of slots " + verif::num(i) + "," + verif::num(j);
        if (sgn(B::compare(a.data(), a.size(), b.data(), b.size(), n)) != wn) return "static compare(p,n,q,m,max) disagrees with the contents of slots " + verif::num(i) + "," + verif::num(j);
        if (sgn(a.compare_n(b.c_str(), n)) != sgn(ma.substr(0, n).compare(mbz.substr(0, n)))) return "compare_n(const T*,n) disagrees with the contents of slots " + verif::num(i) + "," + verif::num(j);
        if ((a == ST::null_t()) != ma.empty() || (a != ST::null_t()) != !ma.empty() || (ST::null_t() == a) != ma.empty() || (ST::null_t() != a) != !ma.empty()) return "comparison with null_t disagrees with empty() in slot " + verif::num(i);
        return fresh_equal(i);
    }
    // equality must depend on the current contents only: a freshly built buffer with the same elements is equal, one that differs in one element is not
    std::string fresh_equal(int i) {
        const B &a = *s[i].obj; const M &ma = s[i].model;
        verif::Exact<T> src(ma.data(), ma.size());
        va::LibScope l;
        B same(src.data(), src.size());
        if (!(a == same) || (a != same) || !(same == a) || a.compare(same) != 0 || same.compare(a) != 0 || (a < same) || (same < a))
            return "slot " + verif::num(i) + " does not compare equal to a freshly built buffer holding the same " + verif::unum(ma.size()) + " elements";
        if (!ma.empty()) {
            M md = ma; size_t k = md.size() - 1; md[k] = (T)(md[k] ^ 1);
            verif::Exact<T> sd(md.data(), md.size());
            B diff(sd.data(), sd.size());
            if ((a == diff) || !(a != diff) || a.compare(diff) == 0) return "slot " + verif::num(i) + " compares equal to a buffer that differs in its last element";
            B shorter(src.data(), src.size() - 1);
            if ((a == shorter) || a.compare(shorter) <= 0 || shorter.compare(a) >= 0) return "slot " + verif::num(i) + " does not compare greater than its own proper prefix";
        }
        return std::string();
    }

    // extended reads of slot i
    std::string reads_ext(int i, size_t sel1, size_t sel2) {
        B &b = *s[i].obj; const B &cb = b; const M &m = s[i].model;
        size_t n = m.size();
        std::string at = " in slot " + verif::num(i);
        va::LibScope l;
        if (cb.size() != n) return std::string();   // reported by check()
        size_t start = sel1 % (n + 1), len = sel2 % (n - start + 2);
        bool autolen = len == n - start + 1;
        std::basic_string_view<T> v = autolen ? cb.view(start) : cb.view(start, len);
        size_t wlen = autolen ? n - start : len;
        if (v.data() != cb.data() + start || v.size() != wlen) return "view(" + verif::unum(start) + "," + (autolen ? std::string("auto") : verif::unum(len)) + ") does not denote that range of the buffer" + at;
        if (M(v) != m.substr(start, wlen)) return "view(start,length) content differs from the stored value" + at;
        if (M(cb.view()) != m) return "view() differs from the stored value" + at;
        if ((size_t)(cb.end() - cb.begin()) != n || (size_t)(cb.cend() - cb.cbegin()) != n || (size_t)(b.end() - b.begin()) != n) return "iterator range != size" + at;
        if ((size_t)(cb.rend() - cb.rbegin()) != n || (size_t)(cb.crend() - cb.crbegin()) != n || (size_t)(b.rend() - b.rbegin()) != n) return "reverse iterator range != size" + at;
        if (cb.begin() != cb.data() || cb.cbegin() != cb.data() || b.begin() != b.data()) return "begin() != data()" + at;
        if (!std::equal(cb.begin(), cb.end(), m.begin()) || !std::equal(cb.cbegin(), cb.cend(), m.begin()) || !std::equal(b.begin(), b.end(), m.begin())) return "forward iteration differs from the stored value" + at;
        if (!std::equal(cb.rbegin(), cb.rend(), m.rbegin()) || !std::equal(cb.crbegin(), cb.crend(), m.rbegin()) || !std::equal(b.rbegin(), b.rend(), m.rbegin())) return "reverse iteration differs from the stored value" + at;
        if (n) {
            size_t k = sel1 % n;
            if (&cb.at(k) != cb.data() + k || &cb[k] != cb.data() + k || &b.at(k) != b.data() + k || &b[k] != b.data() + k) return "at()/operator[] do not refer to the buffer's own element" + at;
            if (cb.at(k) != m[k] || cb[k] != m[k]) return "at()/operator[] differ from the stored value" + at;
            if (&cb.front() != cb.data() || &b.front() != b.data() || &cb.back() != cb.data() + n - 1 || &b.back() != b.data() + n - 1) return "front()/back() do not refer to the first/last element" + at;
        } else {
            if (&cb.front() != cb.data() || &cb.back() != cb.data() || cb.front() != 0 || cb.back() != 0) return "front()/back() of an empty buffer are not its terminator" + at;
        }
        if (cb[n] != 0) return "operator[](size()) is not the terminator" + at;
        const size_t bad[] = {n, n + 1, n + 1000, (size_t)-1};
        for (size_t x : bad) {
            bool t1 = false, t2 = false;
            try { (void)cb.at(x); } catch (const std::out_of_range &) { t1 = true; }
            try { (void)b.at(x); } catch (const std::out_of_range &) { t2 = true; }
            if (!t1 || !t2) return "at(" + verif::unum(x) + ") did not throw std::out_of_range (size " + verif::unum(n) + ")" + at;
        }
        static const T sub[2] = {(T)'?', 0};
        if (cb.c_str(sub) != (n ? cb.data() : sub)) return "c_str(substitute) wrong" + at;
        if (cb.to_std_string() != m) return "to_std_string() differs from the stored value" + at;
        if (B::strlen(cb.c_str()) != std::char_traits<T>::length(m.c_str()) || B::strlen(sub) != 1) return "strlen disagrees with the stored value" + at;
        return std::string();
    }

    // returns "" or the violation
    std::string run(verif::Reader &r, Case &c) {
        va::reset();
        observe_limit();
        size_t nops = 1 + r.range(0, 79);
        bool pending = false;      // a move / cross-limit assignment happened; next touch of a participant makes the case non-trivial
        for (size_t k = 0; k < nops; k++) {
            int op = (int)r.range(0, (ext ? OPS_EXT : OPS_LEGACY) - 1), i = (int)r.idx(NSLOT), j = (int)r.idx(NSLOT);
            bool touches = false;
            std::string w;
            try {
                switch (op) {
                case 0: if (s[i].obj) continue; { B *q = place(i); va::LibScope l; s[i].obj = new (q) B(); } s[i].model.clear(); note("%d=B(); ", i); break;
                case 1: case 2: { if (s[i].obj) continue; M m = value(r); verif::Exact<T> src(m.data(), m.size());
                          { B *q = place(i); va::LibScope l; s[i].obj = new (q) B(src.data(), src.size()); } s[i].model = m; note("%d=B(ptr,%zu); ", i, m.size()); break; }
                case 3: { if (s[i].obj) continue; size_t n = value(r).size(); T f = (T)('A' + (n % 26));
                          { B *q = place(i); va::LibScope l; s[i].obj = new (q) B(n, f); } s[i].model = M(n, f); note("%d=B(%zu,fill); ", i, n); break; }
                case 4: if (s[i].obj || !s[j].obj) continue; { B *q = place(i); va::LibScope l; s[i].obj = new (q) B(*s[j].obj); } s[i].model = s[j].model;
                          touches = s[j].touched_by_move; note("%d=B(copy %d); ", i, j); break;
                case 5: case 6: if (s[i].obj || !s[j].obj) continue; { B *q = place(i); va::LibScope l; s[i].obj = new (q) B(std::move(*s[j].obj)); }
                          s[i].model = s[j].model; note("%d=B(move %d); ", i, j); adopt(j); s[i].touched_by_move = s[j].touched_by_move = true; pending = true; lab(c, "move-construct"); break;
                case 7: case 8: if (!s[i].obj || !s[j].obj) continue; {
                          bool cross = (s[i].model.size() < L) != (s[j].model.size() < L);
                          touches = s[i].touched_by_move || s[j].touched_by_move;
                          { va::LibScope l; *s[i].obj = *s[j].obj; } s[i].model = s[j].model;
                          if (i == j) lab(c, "self-copy-assign"); else if (cross) { lab(c, "cross-limit-copy-assign"); pending = true; s[i].touched_by_move = true; }
                          note("%d=copy %d; ", i, j); break; }
                case 9: case 10: case 11: if (!s[i].obj || !s[j].obj) continue; {
                          M mj = s[j].model; touches = s[i].touched_by_move || s[j].touched_by_move;
                          { va::LibScope l; *s[i].obj = std::move(*s[j].obj); }
                          note("%d=move %d; ", i, j);
                          if (i != j) { s[i].model = mj; adopt(j); lab(c, mj.size() < L ? "move-assign-short-source" : "move-assign-long-source"); }
                          else { adopt(i); lab(c, "self-move-assign"); }
                          s[i].touched_by_move = s[j].touched_by_move = true; pending = true; break; }
                case 12: if (!s[i].obj) continue; { M m = value(r); touches = s[i].touched_by_move;
                          { va::LibScope l; s[i].obj->allocate(m.size()); }
                          if (s[i].obj->size() != m.size()) return "allocate(" + verif::unum(m.size()) + ") left size " + verif::unum(s[i].obj->size());
                          for (size_t e = 0; e < m.size(); e++) s[i].obj->data()[e] = m[e];
                          s[i].model = m; note("%d.allocate(%zu)+write; ", i, m.size()); break; }
                case 13: if (!s[i].obj) continue; { size_t n = value(r).size(); T f = (T)('0' + (n % 10)); touches = s[i].touched_by_move;
                          { va::LibScope l; s[i].obj->allocate(n, f); } s[i].model = M(n, f); note("%d.allocate(%zu,fill); ", i, n); break; }
                case 14: if (!s[i].obj) continue; touches = s[i].touched_by_move; { va::LibScope l; s[i].obj->clear(); } s[i].model.clear(); note("%d.clear(); ", i); break;
                case 15: if (!s[i].obj) continue; touches = s[i].touched_by_move; destroy(i); s[i].touched_by_move = false; note("~%d; ", i); break;
                case 16: case 17: {   // reads
                    if (!s[i].obj) continue;
                    touches = s[i].touched_by_move;
                    const B &b = *s[i].obj; const M &m = s[i].model;
                    va::LibScope l;
                    if (b.size() != m.size()) break;   // reported by check()
                    size_t n = m.size();
                    if (n) {
                        if (b.front() != m.front() || b.back() != m.back()) return "front()/back() differ from the stored value in slot " + verif::num(i);
                        if (b.at(n - 1) != m[n - 1] || b[0] != m[0]) return "at()/operator[] differ from the stored value in slot " + verif::num(i);
                    }
                    bool threw = false;
                    try { (void)b.at(n); } catch (const std::out_of_range &) { threw = true; }
                    if (!threw) return "at(size()) did not throw std::out_of_range";
                    if ((size_t)(b.end() - b.begin()) != n || (size_t)(b.cend() - b.cbegin()) != n) return "iterator range != size in slot " + verif::num(i);
                    if (n && (*b.rbegin() != m[n - 1] || *(b.rend() - 1) != m[0])) return "reverse iterators disagree with content in slot " + verif::num(i);
                    if (b.to_std_string() != m) return "to_std_string() differs from the stored value in slot " + verif::num(i);
                    if (M(b.view()) != m) return "view() differs from the stored value in slot " + verif::num(i);
                    if (n >= 2 && M(b.view(1, n - 1)) != m.substr(1)) return "view(1,n-1) differs from the stored value in slot " + verif::num(i);
                    if (B::strlen(b.c_str()) != std::char_traits<T>::length(m.c_str())) return "strlen(c_str()) disagrees with the stored value in slot " + verif::num(i);
                    note("read %d; ", i);
                    break; }
                // ------------------------------------------------------------------------------------------ extended table
                case 18: if (s[i].obj) continue; { B *q = place(i); va::LibScope l; s[i].obj = new (q) B(ST::null_t()); } s[i].model.clear(); lab(c, "construct(null_t)"); note("%d=B(null); ", i); break;
                case 19: if (s[i].obj) continue; { B *q = place(i); va::LibScope l; s[i].obj = new (q) B(nullptr, 0); } s[i].model.clear(); lab(c, "construct(nullptr,0)"); note("%d=B(nullptr,0); ", i); break;
                case 20: case 21: {   // literal: construct into a free slot, or move-assign the temporary into a live one
                    unsigned sel = (unsigned)r.range(0, 3 * NLIT - 1); const LitEntry<T> &e = Lits<T>::tab[sel % NLIT]; unsigned form = sel / NLIT;
                    ST::buffer<T> (*fn)() = form == 0 ? e.macro : (form == 2 && e.udl8) ? e.udl8 : e.udl;
                    touches = s[i].touched_by_move;
                    if (!s[i].obj) { B *q = place(i); va::LibScope l; s[i].obj = new (q) B(fn()); }
                    else { va::LibScope l; *s[i].obj = fn(); }
                    s[i].model = lit_model(e);
                    lab(c, form == 0 ? "literal-macro" : "literal-operator"); if (memchr(e.narrow, 0, e.len)) lab(c, "literal-with-NUL");
                    note("%d=%s#%u(len %zu); ", i, form == 0 ? "ST_xxx_LITERAL" : "_stbuf", sel % NLIT, e.len); break; }
                case 22: if (!s[i].obj) continue; touches = s[i].touched_by_move; { va::LibScope l; *s[i].obj = ST::null_t(); } s[i].model.clear(); lab(c, "assign(null_t)"); note("%d=null; ", i); break;
                case 23: case 24: { if (!s[i].obj || !s[j].obj) continue; touches = s[i].touched_by_move || s[j].touched_by_move; size_t nsel = r.u8();
                          w = compare_ops(i, j, nsel); if (!w.empty()) return "step " + verif::unum(k) + ": " + w; lab(c, "compare/=="); note("cmp %d,%d; ", i, j); break; }
                case 25: case 26: { if (!s[i].obj) continue; touches = s[i].touched_by_move; size_t n = s[i].model.size(); size_t ksel = r.u8(); T v = fillv(r); int how = (int)r.idx(8);
                          if (n) { poke(i, ksel % n, v, how); lab(c, "write-through-accessor"); note("%d.poke(%zu,how %d); ", i, ksel % n, how); } break; }
                case 27: { if (!s[i].obj || !s[j].obj) continue; touches = s[i].touched_by_move || s[j].touched_by_move;
                          { va::LibScope l; std::swap(*s[i].obj, *s[j].obj); }
                          if (i != j) std::swap(s[i].model, s[j].model);
                          s[i].touched_by_move = s[j].touched_by_move = true; pending = true; lab(c, i == j ? "self-swap" : "std::swap"); note("swap %d,%d; ", i, j); break; }
                case 28: {  // a = std::move(b); b = a; a = a; b = std::move(b)
                    if (!s[i].obj || !s[j].obj) continue;
                    B &a = *s[i].obj, &b = *s[j].obj; M mb = s[j].model;
                    { va::LibScope l; a = std::move(b); } if (i != j) { s[i].model = mb; adopt(j); } else adopt(i);
                    w = check("chain step a=move(b)"); if (!w.empty()) return "step " + verif::unum(k) + " " + w;
                    { va::LibScope l; b = a; } s[j].model = s[i].model;
                    w = check("chain step b=a"); if (!w.empty()) return "step " + verif::unum(k) + " " + w;
                    { va::LibScope l; B &a2 = a; a = a2; }
                    w = check("chain step a=a"); if (!w.empty()) return "step " + verif::unum(k) + " " + w;
                    { va::LibScope l; B &b2 = b; b = std::move(b2); } adopt(j);
                    s[i].touched_by_move = s[j].touched_by_move = true; pending = true; c.nontrivial = true; lab(c, "chain a=move(b);b=a;a=a;b=move(b)"); note("chain %d,%d; ", i, j); break; }
                case 29: case 30: {   // pre-state + action
                    int kind = (int)r.idx(NKIND), act = (int)r.idx(NACT);
                    M sh = short_value(r), lg = long_value(r), v = value(r); T f = fillv(r); unsigned litsel = (unsigned)(sh.size() + lg.size() + v.size());
                    note("%d:=<%s>; ", i, kind_name(kind));
                    w = prestate(i, kind, sh, lg, litsel); if (!w.empty()) return "step " + verif::unum(k) + " (pre-state " + kind_name(kind) + ") " + w;
                    s[i].touched_by_move = kind_crosses(kind); if (kind_crosses(kind)) { pending = true; c.nontrivial = true; }
                    lab(c, kind_name(kind));
                    size_t n = v.size();
                    switch (act) {
                    case 0: { va::LibScope l; s[i].obj->allocate(n, f); } s[i].model = M(n, f); lab(c, f == 0 ? "allocate(n,0)" : "allocate(n,fill)"); note("%d.allocate(%zu,%X); ", i, n, (unsigned)f); break;
                    case 1: allocate_write(i, v); note("%d.allocate(%zu)+write; ", i, n); break;
                    case 2: { { va::LibScope l; s[i].obj->allocate(n, f); } s[i].model = M(n, f); w = check("after allocate(n,fill)"); if (!w.empty()) return "step " + verif::unum(k) + " " + w;
                              for (size_t e = 0; e < n; e += 3) poke(i, e, v[e], (int)e); lab(c, "allocate(n,fill)+partial-writes"); note("%d.allocate(%zu,%X)+partial; ", i, n, (unsigned)f); break; }
                    case 3: { { va::LibScope l; s[i].obj->allocate(n); } if (s[i].obj->size() != n) return "allocate(" + verif::unum(n) + ") left size " + verif::unum(s[i].obj->size());
                              adopt(i); for (size_t e = 0; e < n; e += 2) poke(i, e, v[e], (int)e + 1); lab(c, "allocate(n)+partial-writes"); note("%d.allocate(%zu)+partial; ", i, n); break; }
                    case 4: { va::LibScope l; s[i].obj->clear(); } s[i].model.clear(); note("%d.clear(); ", i); break;
                    case 5: { va::LibScope l; *s[i].obj = ST::null_t(); } s[i].model.clear(); note("%d=null; ", i); break;
                    case 6: copy_assign_value(i, v); note("%d=copy tmp(%zu); ", i, n); break;
                    case 7: move_assign_value(i, v); note("%d=move tmp(%zu); ", i, n); break;
                    case 8: { int t = free_slot(); if (t < 0) break; { B *q = place(t); va::LibScope l; s[t].obj = new (q) B(*s[i].obj); } s[t].model = s[i].model; note("%d=B(copy %d); ", t, i); break; }
                    case 9: { int t = free_slot(); if (t < 0) break; { B *q = place(t); va::LibScope l; s[t].obj = new (q) B(std::move(*s[i].obj)); } s[t].model = s[i].model; adopt(i);
                              s[t].touched_by_move = s[i].touched_by_move = true; note("%d=B(move %d); ", t, i); break; }
                    case 10: { verif::Exact<T> src(v.data(), v.size()); M old = s[i].model; bool ok;
                              { va::LibScope l; B tmp(src.data(), src.size()); std::swap(*s[i].obj, tmp); ok = tmp.size() == old.size() && std::equal(old.begin(), old.end(), tmp.data()) && tmp.data()[tmp.size()] == 0; }
                              s[i].model = v; if (!ok) return "step " + verif::unum(k) + ": after std::swap the other buffer does not hold slot " + verif::num(i) + "'s former value";
                              note("swap %d,tmp(%zu); ", i, n); break; }
                    case 11: w = fresh_equal(i); if (!w.empty()) return "step " + verif::unum(k) + " (pre-state " + kind_name(kind) + "): " + w; note("%d==fresh; ", i); break;
                    case 12: { va::LibScope l; B &b = *s[i].obj; *s[i].obj = b; } note("%d=copy %d; ", i, i); break;
                    case 13: { va::LibScope l; B &b = *s[i].obj; *s[i].obj = std::move(b); } adopt(i); note("%d=move %d; ", i, i); break;
                    case 14: w = reads_ext(i, v.size(), (size_t)(uint8_t)f); if (!w.empty()) return "step " + verif::unum(k) + " (pre-state " + kind_name(kind) + "): " + w; note("readx %d; ", i); break;
                    default: destroy(i); s[i].touched_by_move = false; note("~%d; ", i); break;
                    }
                    break; }
                case 31: case 32: {   // shrink / grow history: long, short, long, ... with a drawn method for every step
                    size_t steps = 3 + r.idx(4);
                    if (!s[i].obj) { B *q = place(i); va::LibScope l; s[i].obj = new (q) B(); s[i].model.clear(); }
                    note("%d:", i);
                    for (size_t st = 0; st < steps; st++) {
                        bool grow = (st % 2) == 0;
                        int method = (int)r.idx(grow ? 4 : 6);
                        M v = grow ? long_value(r) : short_value(r);
                        switch (method) {
                        case 0: allocate_write(i, v); break;
                        case 1: copy_assign_value(i, v); break;
                        case 2: move_assign_value(i, v); break;
                        case 3: { T f = fillv(r); { va::LibScope l; s[i].obj->allocate(v.size(), f); } s[i].model = M(v.size(), f); break; }
                        case 4: { va::LibScope l; s[i].obj->clear(); } s[i].model.clear(); break;
                        default: { va::LibScope l; *s[i].obj = ST::null_t(); } s[i].model.clear(); break;
                        }
                        note("%s%d(%zu) ", grow ? "grow" : "shrink", method, s[i].model.size());
                        w = check(grow ? "after a grow step" : "after a shrink step"); if (!w.empty()) return "step " + verif::unum(k) + "." + verif::unum(st) + " " + w;
                    }
                    note("; ");
                    s[i].touched_by_move = true; pending = true; c.nontrivial = true; lab(c, "shrink-grow-history"); break; }
                case 33: case 34: { if (!s[i].obj) continue; touches = s[i].touched_by_move; size_t a = r.u8(), b = r.u8();
                          w = reads_ext(i, a, b); if (!w.empty()) return "step " + verif::unum(k) + ": " + w; lab(c, "extended-reads"); note("readx %d; ", i); break; }
                case 35: { if (!s[i].obj) continue; touches = s[i].touched_by_move; M v = value(r); size_t n = v.size();   // allocate(n) then partial writes; unwritten elements are indeterminate
                          { va::LibScope l; s[i].obj->allocate(n); } if (s[i].obj->size() != n) return "allocate(" + verif::unum(n) + ") left size " + verif::unum(s[i].obj->size());
                          adopt(i); int how = (int)r.idx(8); for (size_t e = 0; e < n; e += 2) poke(i, e, v[e], how + (int)e);
                          lab(c, "allocate(n)+partial-writes"); note("%d.allocate(%zu)+partial; ", i, n); break; }
                case 36: { if (s[i].obj) continue; size_t n = value(r).size(); T f = fillv(r);
                          { B *q = place(i); va::LibScope l; s[i].obj = new (q) B(n, f); } s[i].model = M(n, f); lab(c, f == 0 ? "construct(n,0)" : "construct(n,any fill)"); note("%d=B(%zu,%X); ", i, n, (unsigned)f); break; }
                case 37: case 38: { if (!s[i].obj) continue; size_t n = value(r).size(); T f = fillv(r); touches = s[i].touched_by_move;
                          { va::LibScope l; s[i].obj->allocate(n, f); } s[i].model = M(n, f); lab(c, f == 0 ? "allocate(n,0)" : "allocate(n,fill)"); note("%d.allocate(%zu,%X); ", i, n, (unsigned)f); break; }
                default: { if (!s[i].obj) continue; M v = value(r); touches = s[i].touched_by_move;   // assignment from a temporary (copy through an lvalue / move)
                          bool cross = (s[i].model.size() < L) != (v.size() < L);
                          if (r.flag()) move_assign_value(i, v); else copy_assign_value(i, v);
                          if (cross) { pending = true; s[i].touched_by_move = true; }
                          lab(c, "assign-from-temporary"); note("%d=tmp(%zu); ", i, v.size()); break; }
                }
            } catch (const verif::budget_exceeded &) {
                discard = true; return std::string();      // a resource bound of the harness, never a verdict (sizes here are <= 100 elements, so this is not expected)
            } catch (...) {
                return "step " + verif::unum(k) + ": unexpected " + verif::describe_current_exception();
            }
            if (pending && touches) c.nontrivial = true;
            std::string why = check("after step");
            if (!why.empty()) return "step " + verif::unum(k) + " " + why;
        }
        // teardown in an order chosen by the case: forwards or backwards
        bool backwards = r.flag();
        for (int t = 0; t < NSLOT; t++) { destroy(backwards ? NSLOT - 1 - t : t); std::string why = check("during teardown"); if (!why.empty()) return why; }
        if (va::live_blocks() != 0) return "leak: " + verif::unum(va::live_blocks()) + " heap block(s) still allocated after every buffer was destroyed";
        return std::string();
    }
    ~Pool() { for (int i = 0; i < NSLOT; i++) if (s[i].raw) { if (s[i].obj) { try { va::LibScope l; s[i].obj->~B(); } catch (...) {} } ::free(s[i].raw); } }
};

template <class T> int run_type(verif::Reader &r, Case &c, const char *tname, bool ext) {
    Pool<T> p;
    p.want_log = c.want_text;
    p.ext = ext;
    c.label(tname);
    if (ext) c.label("extended-table");
    std::string why = p.run(r, c);
    if (c.want_text) c.text = std::string("C05<") + tname + (ext ? ",ext" : "") + "> L=" + verif::unum(p.L) + "  " + p.log;
    va::reset();
    if (p.discard) return verif::CASE_DISCARD;
    if (!why.empty()) return c.fail(why);
    return verif::CASE_OK;
}

}  // namespace

// leading byte: 0..3 = original operation table (char, char16_t, char32_t, wchar_t); 4..19 = extended table, type = (byte - 4) % 4
int verif_case(const uint8_t *data, size_t size, Case &c) {
    verif::Reader r(data, size, c);
    unsigned m = (unsigned)r.range(0, 19);
    bool ext = m >= 4;
    switch (ext ? (m - 4) % 4 : m) {
    case 0: return run_type<char>(r, c, "char", ext);
    case 1: return run_type<char16_t>(r, c, "char16_t", ext);
    case 2: return run_type<char32_t>(r, c, "char32_t", ext);
    default: return run_type<wchar_t>(r, c, "wchar_t", ext);
    }
}

// Directed cases: every (type, pre-state, action, length class, fill), every chain over 8x8 length classes, every 3-step shrink/grow method triple
long verif_enumerate(int shard, int nshards, int tier, verif::EnumReport &r) {
    (void)tier;
    auto run = [&](const std::vector<uint8_t> &b) -> bool {
        verif::set_current(b.data(), b.size());
        Case c; c.want_text = r.want_sample() && (r.evaluations % 997) == 3;
        int v = verif_case(b.data(), b.size(), c);
        r.evaluations++; if (c.nontrivial) r.nontrivial++;
        if (c.want_text && v == verif::CASE_OK) r.samples.push_back(c.text);
        if (v == verif::CASE_VIOLATION) {
            Case c2; c2.want_text = true; verif_case(b.data(), b.size(), c2);
            r.failure = c2.failure.empty() ? c.failure : c2.failure; r.failing_case = c2.text; r.failing_bytes = b;
            return false;
        }
        return true;
    };
    static const uint8_t fills[] = {0, 1, 2, 3, 4, 5, 6, 7, 0x41};   // 0, 1, 'x', 0x7F, 0x80, 0xFF, 0xFFFF, all-ones, 'A'
    for (int kind = shard; kind < NKIND; kind += nshards)
        for (uint8_t type = 0; type < 4; type++)
            for (uint8_t act = 0; act < NACT; act++) {
                bool uses_len = act <= 3 || act == 6 || act == 7 || act == 10 || act == 14, uses_fill = act == 0 || act == 2;
                for (uint8_t shsel = 0; shsel < 4; shsel++)
                    for (uint8_t lgsel = 0; lgsel < 4; lgsel++)
                        for (uint8_t vlen = 0; vlen < (uses_len ? 8 : 1); vlen++)
                            for (size_t fi = 0; fi < (uses_fill ? sizeof fills : 1); fi++) {
                                // mode, nops-1, op, i, j, kind, action, short(len,style), long(len,style), value(len,style), fill, teardown order
                                std::vector<uint8_t> b = {(uint8_t)(4 + type), 0, 29, 1, 0, (uint8_t)kind, act, shsel, 0x13, lgsel, 0x45, vlen, (uint8_t)(vlen == 3 ? 0x40 : 7), fills[fi], (uint8_t)(kind & 1)};
                                if (!run(b)) return r.evaluations;
                            }
            }
    for (int la = shard; la < 8; la += nshards)
        for (uint8_t lb = 0; lb < 8; lb++)
            for (uint8_t type = 0; type < 4; type++)
                for (uint8_t same = 0; same < 2; same++) {
                    // slot 0 = B(ptr,len a); slot 1 = B(ptr,len b); chain(0,1) or chain(0,0); read; teardown order
                    std::vector<uint8_t> b = {(uint8_t)(4 + type), 3, 1, 0, 0, (uint8_t)la, 3, 1, 1, 0, lb, 0x11, 28, 0, (uint8_t)(same ? 0 : 1), 33, 1, 0, 5, 9, lb};
                    if (!run(b)) return r.evaluations;
                }
    for (int m1 = shard; m1 < 4; m1 += nshards)
        for (uint8_t m2 = 0; m2 < 6; m2++)
            for (uint8_t m3 = 0; m3 < 4; m3++)
                for (uint8_t type = 0; type < 4; type++)
                    for (uint8_t lsel = 0; lsel < 4; lsel++) {
                        std::vector<uint8_t> b = {(uint8_t)(4 + type), 0, 31, 2, 0, 0, (uint8_t)m1, lsel, 3};
                        if (m1 == 3) b.push_back(0);
                        b.insert(b.end(), {m2, (uint8_t)(lsel & 1), 9}); if (m2 == 3) b.push_back(0);
                        b.insert(b.end(), {m3, (uint8_t)(3 - lsel), 21}); if (m3 == 3) b.push_back(0);
                        if (!run(b)) return r.evaluations;
                    }
    for (int lit = shard; lit < NLIT; lit += nshards)
        for (uint8_t form = 0; form < 3; form++)
            for (uint8_t type = 0; type < 4; type++)
                for (uint8_t pre = 0; pre < 9; pre++) {   // target: free slot, or a live one of each length class (move assignment of the temporary)
                    std::vector<uint8_t> b = {(uint8_t)(4 + type), 3};
                    if (pre) b.insert(b.end(), {1, 0, 0, (uint8_t)(pre - 1), 0x13}); else b[1] = 2;
                    b.insert(b.end(), {20, 0, 0, (uint8_t)(form * NLIT + lit), 33, 0, 0, (uint8_t)lit, 3, 23, 0, 0, 5, pre});
                    if (!run(b)) return r.evaluations;
                }
    if (shard == 0) {
        r.exhausted.push_back("every (element type, pre-state of 18, action of 16, short length of 4, long length of 4, length class of 8, fill of {0,1,'x',0x7F,0x80,0xFF,0xFFFF,all-ones,'A'}) compound step, over all shards");
        r.exhausted.push_back("every literal of the table x {ST_xxx_LITERAL macro, _stbuf operator, u8 _stbuf operator} x 4 element types, constructed into a free slot or assigned over a value of each of the 8 length classes, followed by reads and comparisons");
        r.exhausted.push_back("the chain a=move(b); b=a; a=a; b=move(b) for all 8x8 length classes of a and b (and with a and b the same object), 4 element types");
        r.exhausted.push_back("all 4x6x4 method triples of a long-short-long history (allocate+write, copy=, move=, allocate(n,0), clear, =null_t), 4 long lengths, 4 element types");
    }
    return r.evaluations;
}

void verif_corpus(std::vector<std::vector<uint8_t>> &out) {
    // 0=B(ptr,17) ; 2=B() ; 2 = move 0 ; ~2 ; read 0   (the shape of the repaired move-assignment defect)
    out.push_back({0, 4, 1, 0, 0, 5, 7, 0, 2, 0, 9, 2, 0, 15, 2, 0, 16, 0, 0});
    out.push_back({2, 10, 1, 0, 0, 4, 3, 5, 1, 0, 9, 0, 1, 12, 1, 0, 6, 1, 16, 1, 1});
    // extended table: pre-state long-after-short, allocate(L-1, 0); literal with embedded NUL; chain; shrink/grow
    out.push_back({4, 0, 29, 1, 0, 5, 0, 0, 0x13, 0, 0x45, 3, 7, 0, 0});
    out.push_back({7, 2, 20, 0, 0, 2, 20, 1, 0, 18, 23, 0, 1, 9});
    out.push_back({5, 3, 1, 0, 0, 5, 3, 1, 1, 0, 1, 0x11, 28, 0, 1, 33, 1, 0, 5, 9});
    out.push_back({6, 0, 31, 2, 0, 1, 1, 2, 3, 4, 0, 9, 2, 1, 21, 5, 0, 0});
}
