// C05: buffers keep size, content, terminator and exclusive ownership over any history.
#include <string_theory/char_buffer>

#include <string>
#include <string_view>
#include <cstdarg>

#include "common/alloc_track.h"
#include "common/verif.h"

using verif::Case;
namespace va = verif::alloc;

const verif::Info verif_info = {
    "C05", 400,
    "histories of 1..80 operations (default/ptr+len/count+fill/copy/move construction, copy and move assignment incl. self-assignment, "
    "allocate(n)+write, allocate(n,fill), clear, destroy, reads) over a pool of 6 individually heap-placed ST::buffer<T>, T in "
    "{char,wchar_t,char16_t,char32_t}; lengths from {0,1,L-2,L-1,L,L+1,2L,100} with L the observed in-object limit. Oracle: per-slot "
    "std::basic_string model; after every step every live buffer has the model's size and elements, a NUL terminator, storage inside its own "
    "footprint (always when size<L) or an exclusively owned live heap block of >= size+1 elements, no invalid/double free; at the end nothing is "
    "left allocated. Moved-from objects must satisfy the same for the value they report. Non-trivial: a move or a cross-limit assignment "
    "followed by at least one later step that touches a participant.",
    false, "exploration"};

namespace {

template <class T> struct Pool {
    typedef ST::buffer<T> B;
    typedef std::basic_string<T> M;
    enum { NSLOT = 6 };
    struct Slot { B *obj = nullptr; void *raw = nullptr; M model; bool touched_by_move = false; };
    Slot s[NSLOT];
    std::string log;
    bool want_log;
    size_t L = 0;    // observed limit: smallest length whose storage leaves the object

    B *place(int i) { s[i].raw = ::malloc(sizeof(B)); memset(s[i].raw, 0xEE, sizeof(B)); return static_cast<B *>(s[i].raw); }
    void unplace(int i) { memset(s[i].raw, 0xDD, sizeof(B)); ::free(s[i].raw); s[i].raw = nullptr; s[i].obj = nullptr; }
    void destroy(int i) { if (!s[i].obj) return; { va::LibScope l; s[i].obj->~B(); } unplace(i); }

    bool inside(int i, const void *p) const { const char *lo = (const char *)s[i].raw; return (const char *)p >= lo && (const char *)p < lo + sizeof(B); }

    void observe_limit() {
        for (size_t n = 0; n < 200; n++) {
            void *raw = ::malloc(sizeof(B));
            B *b; { va::LibScope l; b = new (raw) B(n, (T)'q'); }
            const char *d = (const char *)b->data();
            bool in = d >= (const char *)raw && d < (const char *)raw + sizeof(B);
            { va::LibScope l; b->~B(); }
            ::free(raw);
            if (!in) { L = n; return; }
        }
        L = 200;
    }

    // invariant over every live object; returns "" when fine
    std::string check(const char *when) {
        char msg[256];
        for (int i = 0; i < NSLOT; i++) {
            if (!s[i].obj) continue;
            const B &b = *s[i].obj;
            size_t n = b.size();
            if (n != s[i].model.size()) { snprintf(msg, sizeof msg, "%s: slot %d reports size %zu, the value given to it has %zu elements", when, i, n, s[i].model.size()); return msg; }
            const T *d = b.data();
            if (!d) { snprintf(msg, sizeof msg, "%s: slot %d data() is null", when, i); return msg; }
            if (b.c_str() != d) { snprintf(msg, sizeof msg, "%s: slot %d c_str() != data()", when, i); return msg; }
            bool in = inside(i, d);
            if (in) {
                if ((const char *)(d + n + 1) > (const char *)s[i].raw + sizeof(B)) { snprintf(msg, sizeof msg, "%s: slot %d keeps %zu elements in-object but they do not fit the object", when, i, n); return msg; }
            } else {
                for (int j = 0; j < NSLOT; j++) if (j != i && s[j].raw && inside(j, d)) { snprintf(msg, sizeof msg, "%s: slot %d data() points into the object in slot %d", when, i, j); return msg; }
                if (!va::owns(d, (n + 1) * sizeof(T))) {
                    snprintf(msg, sizeof msg, "%s: slot %d (size %zu) data() is neither inside the object nor the start of a live heap block of >= size+1 elements%s", when, i, n,
                             va::inside_any_block(d) ? " (it points into the middle of a block)" : " (released or foreign storage)");
                    return msg;
                }
                if (n < L) { snprintf(msg, sizeof msg, "%s: slot %d holds a short value (%zu < limit %zu) on the heap instead of inside the object", when, i, n, L); return msg; }
                for (int j = 0; j < i; j++) if (s[j].obj && s[j].obj->data() == d) { snprintf(msg, sizeof msg, "%s: slots %d and %d share one heap block", when, j, i); return msg; }
            }
            for (size_t k = 0; k < n; k++) if (d[k] != s[i].model[k]) { snprintf(msg, sizeof msg, "%s: slot %d element %zu is %X, expected %X", when, i, k, (unsigned)d[k], (unsigned)s[i].model[k]); return msg; }
            if (d[n] != 0) { snprintf(msg, sizeof msg, "%s: slot %d has no NUL after its last element (size %zu)", when, i, n); return msg; }
            if (b.empty() != (n == 0)) { snprintf(msg, sizeof msg, "%s: slot %d empty() inconsistent with size", when, i); return msg; }
        }
        if (const char *e = va::error()) { snprintf(msg, sizeof msg, "%s: %s", when, e); va::clear_error(); return msg; }
        return std::string();
    }

    // a moved-from (or self-moved) object has an unspecified but valid value: adopt what it reports
    void adopt(int i) { const B &b = *s[i].obj; s[i].model.assign(b.data(), b.size()); }

    M value(verif::Reader &r) {
        const size_t lens[] = {0, 1, L >= 2 ? L - 2 : 0, L >= 1 ? L - 1 : 0, L, L + 1, 2 * L, 100};
        size_t n = r.pick(lens);
        uint8_t style = r.u8();
        M m;
        for (size_t k = 0; k < n; k++) {
            unsigned v = 'a' + ((style + k) % 26);
            if ((style & 0x30) == 0x10 && (k % 5) == 3) v = (sizeof(T) == 1) ? 0xC3 : (sizeof(T) == 2 ? 0x20AC : 0x1F600);
            if ((style & 0xC0) == 0x40 && (k % 7) == 2) v = 0;     // embedded NUL element
            m.push_back((T)v);
        }
        return m;
    }

    void note(const char *fmt, ...) __attribute__((format(printf, 2, 3))) {
        if (!want_log) return;
        char b[160]; va_list ap; va_start(ap, fmt); vsnprintf(b, sizeof b, fmt, ap); va_end(ap); log += b;
    }

    // returns "" or the violation
    std::string run(verif::Reader &r, Case &c) {
        va::reset();
        observe_limit();
        size_t nops = 1 + r.range(0, 79);
        bool pending = false;      // a move / cross-limit assignment happened; next touch of a participant makes the case non-trivial
        for (size_t k = 0; k < nops; k++) {
            int op = (int)r.range(0, 17), i = (int)r.idx(NSLOT), j = (int)r.idx(NSLOT);
            bool touches = false;
            try {
                switch (op) {
                case 0: if (s[i].obj) continue; { B *q = place(i); va::LibScope l; s[i].obj = new (q) B(); } s[i].model.clear(); note("%d=B(); ", i); break;
                case 1: case 2: { if (s[i].obj) continue; M m = value(r); verif::Exact<T> src(m.data(), m.size());
                          { B *q = place(i); va::LibScope l; s[i].obj = new (q) B(src.data(), src.size()); } s[i].model = m; note("%d=B(ptr,%zu); ", i, m.size()); break; }
                case 3: { if (s[i].obj) continue; size_t n = value(r).size(); T f = (T)('A' + (n % 26));
                          { B *q = place(i); va::LibScope l; s[i].obj = new (q) B(n, f); } s[i].model = M(n, f); note("%d=B(%zu,fill); ", i, n); break; }
                case 4: if (s[i].obj || !s[j].obj) continue; { B *q = place(i); va::LibScope l; s[i].obj = new (q) B(*s[j].obj); } s[i].model = s[j].model;
                          touches = s[j].touched_by_move; note("%d=B(copy %d); ", i, j); break;
                case 5: case 6: if (s[i].obj || !s[j].obj) continue; { B *q = place(i); va::LibScope l; s[i].obj = new (q) B(std::move(*s[j].obj)); }
                          s[i].model = s[j].model; note("%d=B(move %d); ", i, j); adopt(j); s[i].touched_by_move = s[j].touched_by_move = true; pending = true; c.label("move-construct"); break;
                case 7: case 8: if (!s[i].obj || !s[j].obj) continue; {
                          bool cross = (s[i].model.size() < L) != (s[j].model.size() < L);
                          touches = s[i].touched_by_move || s[j].touched_by_move;
                          { va::LibScope l; *s[i].obj = *s[j].obj; } s[i].model = s[j].model;
                          if (i == j) c.label("self-copy-assign"); else if (cross) { c.label("cross-limit-copy-assign"); pending = true; s[i].touched_by_move = true; }
                          note("%d=copy %d; ", i, j); break; }
                case 9: case 10: case 11: if (!s[i].obj || !s[j].obj) continue; {
                          M mj = s[j].model; touches = s[i].touched_by_move || s[j].touched_by_move;
                          { va::LibScope l; *s[i].obj = std::move(*s[j].obj); }
                          note("%d=move %d; ", i, j);
                          if (i != j) { s[i].model = mj; adopt(j); c.label(mj.size() < L ? "move-assign-short-source" : "move-assign-long-source"); }
                          else { adopt(i); c.label("self-move-assign"); }
                          s[i].touched_by_move = s[j].touched_by_move = true; pending = true; break; }
                case 12: if (!s[i].obj) continue; { M m = value(r); touches = s[i].touched_by_move;
                          { va::LibScope l; s[i].obj->allocate(m.size()); }
                          if (s[i].obj->size() != m.size()) return "allocate(" + verif::unum(m.size()) + ") left size " + verif::unum(s[i].obj->size());
                          for (size_t e = 0; e < m.size(); e++) s[i].obj->data()[e] = m[e];
                          s[i].model = m; note("%d.allocate(%zu)+write; ", i, m.size()); break; }
                case 13: if (!s[i].obj) continue; { size_t n = value(r).size(); T f = (T)('0' + (n % 10)); touches = s[i].touched_by_move;
                          { va::LibScope l; s[i].obj->allocate(n, f); } s[i].model = M(n, f); note("%d.allocate(%zu,fill); ", i, n); break; }
                case 14: if (!s[i].obj) continue; touches = s[i].touched_by_move; { va::LibScope l; s[i].obj->clear(); } s[i].model.clear(); note("%d.clear(); ", i); break;
                case 15: if (!s[i].obj) continue; touches = s[i].touched_by_move; destroy(i); s[i].touched_by_move = false; note("~%d; ", i); break;
                default: {   // reads
                    if (!s[i].obj) continue;
                    touches = s[i].touched_by_move;
                    const B &b = *s[i].obj; const M &m = s[i].model;
                    va::LibScope l;
                    if (b.size() != m.size()) break;   // reported by check()
                    size_t n = m.size();
                    if (n) {
                        if (b.front() != m.front() || b.back() != m.back()) return "front()/back() differ from the stored value in slot " + verif::num(i);
                        if (b.at(n - 1) != m[n - 1] || b[0] != m[0]) return "at()/operator[] differ from the stored value in slot " + verif::num(i);
                    }
                    bool threw = false;
                    try { (void)b.at(n); } catch (const std::out_of_range &) { threw = true; }
                    if (!threw) return "at(size()) did not throw std::out_of_range";
                    if ((size_t)(b.end() - b.begin()) != n || (size_t)(b.cend() - b.cbegin()) != n) return "iterator range != size in slot " + verif::num(i);
                    if (n && (*b.rbegin() != m[n - 1] || *(b.rend() - 1) != m[0])) return "reverse iterators disagree with content in slot " + verif::num(i);
                    if (b.to_std_string() != m) return "to_std_string() differs from the stored value in slot " + verif::num(i);
                    if (M(b.view()) != m) return "view() differs from the stored value in slot " + verif::num(i);
                    if (n >= 2 && M(b.view(1, n - 1)) != m.substr(1)) return "view(1,n-1) differs from the stored value in slot " + verif::num(i);
                    if (B::strlen(b.c_str()) != std::char_traits<T>::length(m.c_str())) return "strlen(c_str()) disagrees with the stored value in slot " + verif::num(i);
                    note("read %d; ", i);
                    break; }
                }
            } catch (...) {
                return "step " + verif::unum(k) + ": unexpected " + verif::describe_current_exception();
            }
            if (pending && touches) c.nontrivial = true;
            std::string why = check("after step");
            if (!why.empty()) return "step " + verif::unum(k) + " " + why;
        }
        // teardown in an order chosen by the case: forwards or backwards
        bool backwards = r.flag();
        for (int t = 0; t < NSLOT; t++) { destroy(backwards ? NSLOT - 1 - t : t); std::string why = check("during teardown"); if (!why.empty()) return why; }
        if (va::live_blocks() != 0) return "leak: " + verif::unum(va::live_blocks()) + " heap block(s) still allocated after every buffer was destroyed";
        return std::string();
    }
    ~Pool() { for (int i = 0; i < NSLOT; i++) if (s[i].raw) { if (s[i].obj) { try { va::LibScope l; s[i].obj->~B(); } catch (...) {} } ::free(s[i].raw); } }
};

template <class T> int run_type(verif::Reader &r, Case &c, const char *tname) {
    Pool<T> p;
    p.want_log = c.want_text;
    c.label(tname);
    std::string why = p.run(r, c);
    if (c.want_text) c.text = std::string("C05<") + tname + "> L=" + verif::unum(p.L) + "  " + p.log;
    va::reset();
    if (!why.empty()) return c.fail(why);
    return verif::CASE_OK;
}

}  // namespace

int verif_case(const uint8_t *data, size_t size, Case &c) {
    verif::Reader r(data, size, c);
    switch (r.range(0, 3)) {
    case 0: return run_type<char>(r, c, "char");
    case 1: return run_type<char16_t>(r, c, "char16_t");
    case 2: return run_type<char32_t>(r, c, "char32_t");
    default: return run_type<wchar_t>(r, c, "wchar_t");
    }
}

long verif_enumerate(int, int, int, verif::EnumReport &) { return 0; }

void verif_corpus(std::vector<std::vector<uint8_t>> &out) {
    // 0=B(ptr,17) ; 2=B() ; 2 = move 0 ; ~2 ; read 0   (the shape of the repaired move-assignment defect)
    out.push_back({0, 4, 1, 0, 0, 5, 7, 0, 2, 0, 9, 2, 0, 15, 2, 0, 16, 0, 0});
    out.push_back({2, 10, 1, 0, 0, 4, 3, 5, 1, 0, 9, 0, 1, 12, 1, 0, 6, 1, 16, 1, 1});
}
