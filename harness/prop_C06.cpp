// C06: comparison is a total order; operators, overloads and hashes agree with it.
#include <string_theory/string>

#include <algorithm>
#include <concepts>
#include <functional>
#include <map>
#include <memory>
#include <set>
#include <unordered_map>
#include <unordered_set>

#include "common/verif.h"
#include "ref/ref_compare.h"

using verif::Case;

const verif::Info verif_info = {
    "C06", 400,
    "triples (a,b,c) of close strings: a base over a boundary alphabet (NUL, A Z a z @ [ ` {, 7F 80 C3 FF; for wide units also 100 7FFF 8000 FFFF 10000 "
    "7FFFFFFF, char32_t up to FFFFFFFF, wchar_t kept <= 7FFFFFFF) and derivations - copy, proper prefix, one unit changed, xor 0x20 (case flip), NUL "
    "inserted/substituted, extension, high bit toggled, unit +-1, case of one/all letters flipped, independent. char triples run ST::string, char_buffer, the static pointer+length forms and "
    "compare_cs/compare_ci; wchar_t/char16_t/char32_t triples run buffer<T>. Prefix limits n = 0, 1, common prefix -1/+0/+1, both sizes, max+1, 2^31, "
    "SIZE_MAX and a drawn one. Huge lengths: static compare(p,ls,q,rs[,n]) with ls/rs in {k, 2^31-1+k, 2^31+k, 2^32-1+k, 2^32+k, 3*2^32+k, 2^63+k, SIZE_MAX}, "
    "both pointers backed by blocks of exactly the min(ls,rs,n) units that may be read. Enumerated: all ordered pairs and all triples of strings of length "
    "<= 3 over {00,41,61,80,FF,5A,7B,40} and of length <= 4 over 6 (thorough 7) of them for char, of length <= 3 (thorough 4) over 6 boundary units for each wide type, "
    "all 65536 pairs of one-byte strings, the huge-length table; the triples are checked for transitivity on the matrix of the library's own signs. Oracle: sign(compare) = sign of the reference unsigned lexicographic order (prefix first) for every form, operators ==, !=, <, compare_n = "
    "comparison of the first n units, const T* operand = units before its first NUL; case-insensitive forms: zero iff equal after folding A-Z, sign "
    "negated when swapped, transitive, compare_i/compare_ni/compare(...,case_insensitive)/less_i/equal_i/compare_ci agree in sign; hash/std::hash equal "
    "for equal strings built directly, by assignment over a longer value and as substr of a longer string; hash_i equal for fold-equal strings; "
    "to_upper/to_lower = per-byte ASCII reference. Non-trivial: some pair of the triple shares a prefix >= 1 and differs, or is fold-equal but not equal, "
    "or its lengths differ by >= 2^31. Enumerated triples are checked on the sign matrix and are not counted as evaluations (their number is in exhausted_subdomains). "
    "Extension: every pair also runs the C string / char8_t string on the LEFT of == and != (where the expression is well-formed), all char8_t overloads with an explicit case mode, "
    "the three-argument compare_cs/compare_ci helpers, less_i/equal_i in both operand orders; prefix limits additionally each size -1/+1 and the position of the first NUL of the right operand (+1). "
    "Every operand is compared with 'nothing' in every spelling: ST::null on either side (operator and explicit free-function call), a null const T* / const char8_t* (modelled as empty), default-constructed, (nullptr,0), ST::null-constructed, "
    "(0,fill) and clear()ed objects. Objects in unusual pre-states: each operand is brought into a buffer<T> by 15 histories (short text then copy-assigned a long one then allocate(n)[,fill] and refilled = stale in-object bytes; moved-from and refilled; "
    "clear()ed and refilled; copy/move-constructed and copy/move-assigned from such a buffer; _stbuf literal operator; (count,fill) overwritten; assigned ST::null; moved-from and clear()ed as they are; self-assigned) and into an ST::string by 13 histories "
    "(from_validated of such buffers, set_validated over longer/shorter values, _st literal operator, char8_t forms, clear()/ST::null then assignment, moved-from, substr); a third of the histories per case; the oracle works on the units the object itself reports. "
    "Standard containers: std::set/map keyed by < and by less_i, unordered_set/map keyed by std::hash / ST::hash with == and by hash_i with equal_i, std::sort: sizes = number of distinct values / of fold classes, iteration = reference order, every value found again "
    "through an equal string of another history and through its to_upper/to_lower forms. Long operands (first byte FD; FC directed): periodic texts of 41..8192 units, lengths on and next to powers of two, derived as above; enumerated: lengths 15..8192 on/next to powers of two x "
    "{last, first, middle, block-boundary unit differs, all/one letter case-flipped, one unit shorter/longer, equal copy} for all four unit types.",
    true, "exploration"};

namespace {

template <class T> using Vec = std::vector<T>;
using ref::sgn;

// exact-size heap copy; zero units -> the one-past-the-end pointer of a minimal block, so any read at all is out of bounds
template <class T> struct Blk {
    T *base; T *p; size_t n;
    Blk(const T *src, size_t count, bool nul = false) : n(count) {
        size_t tot = count + (nul ? 1 : 0);
        // the block still ends where the data ends; it starts verif::g_misalign bytes (whole units) past a 16-byte boundary, so that the
        // two operands of a comparison have every relative and absolute alignment (a function of the case bytes; 0 for half of the cases)
        const size_t off = (verif::next_misalign() & 7) / sizeof(T);
        base = static_cast<T *>(::malloc((off + (tot ? tot : 1)) * sizeof(T)));
        p = (tot ? base : base + 1) + off;
        if (count) memcpy(p, src, count * sizeof(T));
        if (nul) p[count] = 0;
    }
    ~Blk() { ::free(base); }
    Blk(const Blk &) = delete; Blk &operator=(const Blk &) = delete;
};

template <class T> const char *tname();
template <> const char *tname<char>() { return "char"; }
template <> const char *tname<wchar_t>() { return "wchar_t"; }
template <> const char *tname<char16_t>() { return "char16_t"; }
template <> const char *tname<char32_t>() { return "char32_t"; }

template <class T> std::string show(const Vec<T> &v) { return "[" + verif::units(v.data(), v.size(), 40) + "]"; }
template <> std::string show<char>(const Vec<char> &v) { return verif::quoted(std::string(v.data(), v.size()), 60); }

std::string nstr(size_t n) {
    if (n == SIZE_MAX) return "SIZE_MAX";
    for (int sh : {63, 32, 31}) {
        size_t b = (size_t)1 << sh;
        if (n >= b - 1 && n - (b - 1) <= 200) return "2^" + std::to_string(sh) + (n == b - 1 ? "-1" : n == b ? "" : "+" + std::to_string(n - b));
    }
    if (n >= 3 * ((size_t)1 << 32) && n - 3 * ((size_t)1 << 32) <= 200) return "3*2^32+" + std::to_string(n - 3 * ((size_t)1 << 32));
    return std::to_string(n);
}

// prefix limits worth trying for a pair (deterministic in the pair, plus one drawn value)
template <class T> int nlist(const Vec<T> &x, const Vec<T> &y, size_t extra, size_t *out) {
    size_t cpl = ref::common_prefix(x.data(), x.size(), y.data(), y.size());
    size_t mx = x.size() > y.size() ? x.size() : y.size();
    const size_t yz = ref::zlen(y.data(), y.size());     // what a NUL-terminated view of y can see
    size_t cand[] = {0, 1, cpl ? cpl - 1 : 0, cpl, cpl + 1, x.size(), y.size(), mx + 1, (size_t)1 << 31, SIZE_MAX, extra,
                     x.size() ? x.size() - 1 : 0, x.size() + 1, y.size() ? y.size() - 1 : 0, y.size() + 1, yz, yz + 1};
    int k = 0;
    for (size_t c : cand) { bool dup = false; for (int i = 0; i < k; i++) dup |= out[i] == c; if (!dup) out[k++] = c; }
    return k;
}

static const char *const opn[3] = {"a", "b", "c"};

struct Fail {
    std::string why;
    bool has_n = false; size_t n = 0;          // prefix limit of the call being checked (rendered only on failure)
    std::string ctx(const char *xn, const char *yn, const char *note) const {
        return std::string(" with x=") + xn + ", y=" + yn + (has_n ? ", n=" + nstr(n) : std::string()) + (note ? std::string(" ") + note : std::string());
    }
    bool sign(int got, int want, const char *form, const char *xn, const char *yn, const char *note = nullptr) {
        if (sgn(got) == want) return true;
        if (why.empty()) why = std::string(form) + ctx(xn, yn, note) + ": sign " + verif::num(sgn(got)) + " (value " + verif::num(got) + "), expected sign " + verif::num(want);
        return false;
    }
    bool truth(bool got, bool want, const char *form, const char *xn, const char *yn, const char *note = nullptr) {
        if (got == want) return true;
        if (why.empty()) why = std::string(form) + ctx(xn, yn, note) + ": " + (got ? "true" : "false") + ", expected " + (want ? "true" : "false");
        return false;
    }
    bool bad() const { return !why.empty(); }
};

// Operand of another type on the LEFT of == / != (C++20 rewritten candidates, or a free operator where the library has one).
// -1: the expression is not well-formed with this toolchain / tree, so there is nothing to check.
template <class L, class R> int try_eq(const L &l, const R &r) {
    if constexpr (requires { { l == r } -> std::convertible_to<bool>; }) return (l == r) ? 1 : 0; else return -1;
}
template <class L, class R> int try_ne(const L &l, const R &r) {
    if constexpr (requires { { l != r } -> std::convertible_to<bool>; }) return (l != r) ? 1 : 0; else return -1;
}

// the small-buffer rule, from the library's configuration macros (never a hard-coded number)
template <class T> constexpr size_t in_object_units() {
    return (ST_MAX_SSO_LENGTH * sizeof(T)) > ST_MAX_SSO_SIZE ? (ST_MAX_SSO_SIZE / sizeof(T)) : (size_t)ST_MAX_SSO_LENGTH;
}

// ---- buffer<T>: every form of one ordered pair --------------------------------------------------------------
template <class T> void check_pair_buffer(const Vec<T> &x, const Vec<T> &y, size_t extra_n, const char *xn, const char *yn, Fail &f) {
    typedef ST::buffer<T> B;
    Blk<T> bx(x.data(), x.size()), by(y.data(), y.size()), cy(y.data(), y.size(), true);
    const B X(bx.p, x.size()), Y(by.p, y.size());
    const int want = ref::cmp(x.data(), x.size(), y.data(), y.size());
    const size_t yz = ref::zlen(y.data(), y.size());
    const int wantz = ref::cmp(x.data(), x.size(), y.data(), yz);
    if (!f.sign(X.compare(Y), want, "buffer::compare(buffer)", xn, yn)) return;
    if (!f.truth(X == Y, want == 0, "buffer ==", xn, yn)) return;
    if (!f.truth(X != Y, want != 0, "buffer !=", xn, yn)) return;
    if (!f.truth(X < Y, want < 0, "buffer <", xn, yn)) return;
    if (!f.sign(B::compare(bx.p, x.size(), by.p, y.size()), want, "buffer::compare(p,ls,q,rs)", xn, yn)) return;
    if (!f.sign(X.compare(cy.p), wantz, "buffer::compare(const T*)", xn, yn, "(pointer operand ends at its first NUL)")) return;
    size_t ns[20]; int k = nlist(x, y, extra_n, ns);
    for (int i = 0; i < k; i++) {
        const size_t n = ns[i];
        f.has_n = true; f.n = n;
        const int wn = ref::cmp_n(x.data(), x.size(), y.data(), y.size(), n);
        if (!f.sign(X.compare_n(Y, n), wn, "buffer::compare_n(buffer,n)", xn, yn)) return;
        if (!f.sign(B::compare(bx.p, x.size(), by.p, y.size(), n), wn, "buffer::compare(p,ls,q,rs,n)", xn, yn)) return;
        if (!f.sign(X.compare_n(cy.p, n), ref::cmp_n(x.data(), x.size(), y.data(), yz, n), "buffer::compare_n(const T*,n)", xn, yn)) return;
    }
    f.has_n = false;
}

// ---- ST::string and the char-only helpers: every form of one ordered pair ----------------------------------
void check_pair_string(const Vec<char> &x, const Vec<char> &y, size_t extra_n, const char *xn, const char *yn, Fail &f) {
    Blk<char> bx(x.data(), x.size()), by(y.data(), y.size()), cy(y.data(), y.size(), true);
    const ST::string X = ST::string::from_validated(bx.p, x.size()), Y = ST::string::from_validated(by.p, y.size());
    const size_t lx = x.size(), ly = y.size();
    const int want = ref::cmp(x.data(), lx, y.data(), ly);
    const size_t yz = ref::zlen(y.data(), ly);
    const int wantz = ref::cmp(x.data(), lx, y.data(), yz);
    const ST::string Yz = ST::string::from_validated(by.p, yz);
    const char8_t *cy8 = reinterpret_cast<const char8_t *>(cy.p);

    if (!f.sign(X.compare(Y), want, "string::compare(string)", xn, yn)) return;
    if (!f.sign(X.compare(Y, ST::case_sensitive), want, "string::compare(string,case_sensitive)", xn, yn)) return;
    if (!f.truth(X == Y, want == 0, "string == string", xn, yn)) return;
    if (!f.truth(X != Y, want != 0, "string != string", xn, yn)) return;
    if (!f.truth(X < Y, want < 0, "string < string", xn, yn)) return;
    if (!f.sign(_ST_PRIVATE::compare_cs(bx.p, lx, by.p, ly), want, "compare_cs(p,ls,q,rs)", xn, yn)) return;
    if (!f.sign(X.compare(cy.p), wantz, "string::compare(const char*)", xn, yn, "(pointer operand ends at its first NUL)")) return;
    if (!f.sign(X.compare(cy.p, ST::case_sensitive), wantz, "string::compare(const char*,case_sensitive)", xn, yn)) return;
    if (!f.truth(X == cy.p, wantz == 0, "string == const char*", xn, yn)) return;
    if (!f.truth(X != cy.p, wantz != 0, "string != const char*", xn, yn)) return;
    if (!f.sign(X.compare(cy8), wantz, "string::compare(const char8_t*)", xn, yn)) return;
    if (!f.truth(X == cy8, wantz == 0, "string == const char8_t*", xn, yn)) return;
    if (!f.truth(X != cy8, wantz != 0, "string != const char8_t*", xn, yn)) return;
    if (!f.sign(X.compare(cy8, ST::case_sensitive), wantz, "string::compare(const char8_t*,case_sensitive)", xn, yn)) return;
    {   // the string's OWN storage as the pointer operand (x against x.c_str() / x.c_str()+k): the pointer operand still ends at its first NUL
        const size_t xz = ref::zlen(x.data(), lx);
        const int wself = ref::cmp(x.data(), lx, x.data(), xz);
        if (!f.sign(X.compare(X.c_str()), wself, "x.compare(x.c_str())", xn, xn, "(own storage as the pointer operand)")) return;
        if (!f.truth(X == X.c_str(), wself == 0, "x == x.c_str()", xn, xn, "(own storage as the pointer operand)")) return;
        if (!f.truth(X != X.c_str(), wself != 0, "x != x.c_str()", xn, xn, "(own storage as the pointer operand)")) return;
        if (!f.truth(X.compare_i(X.c_str()) == 0, xz == lx, "x.compare_i(x.c_str()) == 0", xn, xn, "(own storage as the pointer operand)")) return;
        if (!f.truth(X.compare(X.c_str(), ST::case_insensitive) == 0, xz == lx, "x.compare(x.c_str(),case_insensitive) == 0", xn, xn, "(own storage as the pointer operand)")) return;
        for (size_t n : {lx, xz, xz + 1, (size_t)-1}) {
            if (!f.sign(X.compare_n(X.c_str(), n), ref::cmp_n(x.data(), lx, x.data(), xz, n), "x.compare_n(x.c_str(),n)", xn, xn, "(own storage as the pointer operand)")) return;
            if (!f.truth(X.compare_ni(X.c_str(), n) == 0, ref::fold_equal_n(x.data(), lx, x.data(), xz, n), "x.compare_ni(x.c_str(),n) == 0", xn, xn, "(own storage as the pointer operand)")) return;
        }
        if (lx > 1) { const size_t k = 1, tz = ref::zlen(x.data() + k, lx - k);
            if (!f.sign(X.compare(X.c_str() + k), ref::cmp(x.data(), lx, x.data() + k, tz), "x.compare(x.c_str()+1)", xn, xn, "(own storage as the pointer operand)")) return; }
        if (!f.sign(_ST_PRIVATE::compare_cs(bx.p, lx, bx.p, lx), 0, "compare_cs(p,ls,p,ls)", xn, xn) || !f.sign(_ST_PRIVATE::compare_cs(bx.p, lx, bx.p, xz), wself, "compare_cs(p,ls,p,zlen)", xn, xn)) return;
        if (!f.truth(_ST_PRIVATE::compare_ci(bx.p, lx, bx.p, xz) == 0, xz == lx, "compare_ci(p,ls,p,zlen) == 0", xn, xn)) return;
    }
    {   // the C string / char8_t string on the LEFT
        const char *lp = cy.p; int v;
        if ((v = try_eq(lp, X)) >= 0 && !f.truth(v != 0, wantz == 0, "const char*(y) == string(x)", xn, yn)) return;
        if ((v = try_ne(lp, X)) >= 0 && !f.truth(v != 0, wantz != 0, "const char*(y) != string(x)", xn, yn)) return;
        if ((v = try_eq(cy8, X)) >= 0 && !f.truth(v != 0, wantz == 0, "const char8_t*(y) == string(x)", xn, yn)) return;
        if ((v = try_ne(cy8, X)) >= 0 && !f.truth(v != 0, wantz != 0, "const char8_t*(y) != string(x)", xn, yn)) return;
    }
    {   // the three-argument helpers behind ends_with: exactly m units of each side
        const size_t m = lx < ly ? lx : ly;
        if (!f.sign(_ST_PRIVATE::compare_cs(bx.p, by.p, m), ref::cmp(x.data(), m, y.data(), m), "compare_cs(p,q,min(ls,rs))", xn, yn)) return;
        const int c3 = _ST_PRIVATE::compare_ci(bx.p, by.p, m);
        if (!f.truth(c3 == 0, ref::fold_equal(x.data(), m, y.data(), m), "compare_ci(p,q,min(ls,rs)) == 0", xn, yn)) return;
        if (!f.sign(_ST_PRIVATE::compare_ci(by.p, bx.p, m), -sgn(c3), "compare_ci(q,p,m) against -compare_ci(p,q,m)", xn, yn)) return;
    }

    // case-insensitive: only the equivalence and the preorder laws are fixed (soundness rule 3d)
    const int ci = X.compare_i(Y), rev = Y.compare_i(X);
    const bool feq = ref::fold_equal(x.data(), lx, y.data(), ly);
    if (!f.truth(ci == 0, feq, "string::compare_i(string) == 0", xn, yn, "(zero iff equal after folding A-Z)")) return;
    if (!f.sign(rev, -sgn(ci), "string::compare_i: y.compare_i(x) against -x.compare_i(y)", xn, yn)) return;
    if (!f.sign(X.compare(Y, ST::case_insensitive), sgn(ci), "string::compare(string,case_insensitive) against compare_i", xn, yn)) return;
    if (!f.truth(ST::less_i()(X, Y), ci < 0, "less_i against compare_i", xn, yn)) return;
    if (!f.truth(ST::equal_i()(X, Y), ci == 0, "equal_i against compare_i", xn, yn)) return;
    if (!f.sign(_ST_PRIVATE::compare_ci(bx.p, lx, by.p, ly), sgn(ci), "compare_ci(p,ls,q,rs) against compare_i", xn, yn)) return;
    const int ciz = X.compare_i(Yz);
    if (!f.truth(ciz == 0, ref::fold_equal(x.data(), lx, y.data(), yz), "string::compare_i(y cut at its first NUL) == 0", xn, yn)) return;
    if (!f.sign(X.compare_i(cy.p), sgn(ciz), "string::compare_i(const char*) against compare_i(string cut at first NUL)", xn, yn)) return;
    if (!f.sign(X.compare(cy.p, ST::case_insensitive), sgn(ciz), "string::compare(const char*,case_insensitive) against compare_i", xn, yn)) return;
    if (!f.sign(X.compare_i(cy8), sgn(ciz), "string::compare_i(const char8_t*) against compare_i", xn, yn)) return;
    if (!f.sign(X.compare(cy8, ST::case_insensitive), sgn(ciz), "string::compare(const char8_t*,case_insensitive) against compare_i", xn, yn)) return;
    if (!f.truth(ciz == 0 ? !ST::less_i()(X, Yz) && !ST::less_i()(Yz, X) && ST::equal_i()(X, Yz) : ST::less_i()(X, Yz) == (ciz < 0) && ST::less_i()(Yz, X) == (ciz > 0) && !ST::equal_i()(Yz, X),
                 true, "less_i / equal_i (both orders) against compare_i(y cut at its first NUL)", xn, yn)) return;
    if (feq && ST::hash_i()(X) != ST::hash_i()(Y)) { f.truth(false, true, "hash_i(x) == hash_i(y) for fold-equal strings", xn, yn); return; }
    if (want == 0 && (ST::hash()(X) != ST::hash()(Y) || std::hash<ST::string>()(X) != std::hash<ST::string>()(Y))) { f.truth(false, true, "hash(x) == hash(y) for equal strings", xn, yn); return; }

    size_t ns[20]; int k = nlist(x, y, extra_n, ns);
    for (int i = 0; i < k; i++) {
        const size_t n = ns[i];
        f.has_n = true; f.n = n;
        const int wn = ref::cmp_n(x.data(), lx, y.data(), ly, n);
        const int wnz = ref::cmp_n(x.data(), lx, y.data(), yz, n);
        if (!f.sign(X.compare_n(Y, n), wn, "string::compare_n(string,n)", xn, yn)) return;
        if (!f.sign(X.compare_n(Y, n, ST::case_sensitive), wn, "string::compare_n(string,n,case_sensitive)", xn, yn)) return;
        if (!f.sign(_ST_PRIVATE::compare_cs(bx.p, lx, by.p, ly, n), wn, "compare_cs(p,ls,q,rs,n)", xn, yn)) return;
        if (!f.sign(X.compare_n(cy.p, n), wnz, "string::compare_n(const char*,n)", xn, yn)) return;
        if (!f.sign(X.compare_n(cy8, n), wnz, "string::compare_n(const char8_t*,n)", xn, yn)) return;
        // compare_ni = compare_i of the first n units
        const ST::string Xn = ST::string::from_validated(bx.p, lx < n ? lx : n), Yn = ST::string::from_validated(by.p, ly < n ? ly : n);
        const ST::string Yzn = ST::string::from_validated(by.p, yz < n ? yz : n);
        const int cin = X.compare_ni(Y, n);
        if (!f.truth(cin == 0, ref::fold_equal_n(x.data(), lx, y.data(), ly, n), "string::compare_ni(string,n) == 0", xn, yn, "(zero iff the first n units are equal after folding)")) return;
        if (!f.sign(cin, sgn(Xn.compare_i(Yn)), "string::compare_ni(string,n) against compare_i of the first n units", xn, yn)) return;
        if (!f.sign(Y.compare_ni(X, n), -sgn(cin), "string::compare_ni: y.compare_ni(x,n) against -x.compare_ni(y,n)", xn, yn)) return;
        if (!f.sign(X.compare_n(Y, n, ST::case_insensitive), sgn(cin), "string::compare_n(string,n,case_insensitive) against compare_ni", xn, yn)) return;
        if (!f.sign(_ST_PRIVATE::compare_ci(bx.p, lx, by.p, ly, n), sgn(cin), "compare_ci(p,ls,q,rs,n) against compare_ni", xn, yn)) return;
        const int cinz = X.compare_ni(cy.p, n);
        if (!f.sign(cinz, sgn(Xn.compare_i(Yzn)), "string::compare_ni(const char*,n) against compare_i of the first n units", xn, yn)) return;
        if (!f.sign(X.compare_n(cy.p, n, ST::case_insensitive), sgn(cinz), "string::compare_n(const char*,n,case_insensitive) against compare_ni", xn, yn)) return;
        if (!f.sign(X.compare_ni(cy8, n), sgn(cinz), "string::compare_ni(const char8_t*,n) against compare_ni(const char*)", xn, yn)) return;
        if (!f.sign(X.compare_n(cy8, n, ST::case_sensitive), wnz, "string::compare_n(const char8_t*,n,case_sensitive)", xn, yn)) return;
        if (!f.sign(X.compare_n(cy8, n, ST::case_insensitive), sgn(cinz), "string::compare_n(const char8_t*,n,case_insensitive) against compare_ni", xn, yn)) return;
        if (!f.sign(X.compare_n(cy.p, n, ST::case_sensitive), wnz, "string::compare_n(const char*,n,case_sensitive)", xn, yn)) return;
    }
    f.has_n = false;
}

// ---- one operand: equal strings with different histories, case conversion ----------------------------------
void check_operand_string(const Vec<char> &x, const char *xn, Fail &f) {
    Blk<char> bx(x.data(), x.size());
    const std::string sx(x.data(), x.size());
    const ST::string X = ST::string::from_validated(bx.p, x.size());
    // history 2: assignment over a longer value; history 3: substr of a longer string; history 4: through a char_buffer move
    std::string longer = "The quick brown fox jumps over the lazy dog \xC3\xBF\xFF" + sx + sx;
    ST::string H2 = ST::string::from_validated(longer.data(), longer.size());
    H2 = X;
    ST::string H2b = ST::string::from_validated(longer.data(), longer.size());
    H2b = ST::string::from_validated(bx.p, x.size());
    std::string framed = "\x7F<<" + sx + ">>\x80 tail tail tail";
    const ST::string big = ST::string::from_validated(framed.data(), framed.size());
    const ST::string H3 = big.substr(3, x.size());
    ST::char_buffer cb(bx.p, x.size());
    const ST::string H4 = ST::string::from_validated(std::move(cb));
    const ST::string *hs[] = {&H2, &H2b, &H3, &H4};
    static const char *hn[] = {"(y = the same bytes, copy-assigned over a longer value)", "(y = the same bytes, move-assigned over a longer value)",
                               "(y = the same bytes, substr of a longer string)", "(y = the same bytes, adopted from a char_buffer)"};
    for (int i = 0; i < 4; i++) {
        const ST::string &H = *hs[i];
        if (H.size() != x.size() || memcmp(H.c_str(), x.data(), x.size()) != 0) continue;   // content is C04/C08's business; here only equal strings matter
        const char *en = hn[i];
        if (!f.sign(X.compare(H), 0, "string::compare(string)", xn, xn, en)) return;
        if (!f.sign(H.compare(X), 0, "string::compare(string) swapped", xn, xn, en)) return;
        if (!f.truth(X == H, true, "string == string", xn, xn, en)) return;
        if (!f.truth(X != H, false, "string != string", xn, xn, en)) return;
        if (!f.truth(X < H || H < X, false, "string < string", xn, xn, en)) return;
        if (!f.sign(X.compare_i(H), 0, "string::compare_i(string)", xn, xn, en)) return;
        if (!f.truth(ST::hash()(X) == ST::hash()(H), true, "hash(x) == hash(y)", xn, xn, en)) return;
        if (!f.truth(std::hash<ST::string>()(X) == std::hash<ST::string>()(H), true, "std::hash(x) == std::hash(y)", xn, xn, en)) return;
        if (!f.truth(ST::hash_i()(X) == ST::hash_i()(H), true, "hash_i(x) == hash_i(y)", xn, xn, en)) return;
    }
    if (!f.truth(std::hash<ST::string>()(X) == ST::hash()(X), true, "std::hash(x) == ST::hash(x)", xn, xn)) return;
    const ST::string up = X.to_upper(), lo = X.to_lower();
    const std::string wu = ref::upper(sx), wl = ref::lower(sx);
    if (up.size() != wu.size() || memcmp(up.c_str(), wu.data(), wu.size()) != 0) { f.why = std::string("to_upper(") + xn + ") = " + verif::quoted(std::string(up.c_str(), up.size())) + ", per-byte ASCII reference " + verif::quoted(wu); return; }
    if (lo.size() != wl.size() || memcmp(lo.c_str(), wl.data(), wl.size()) != 0) { f.why = std::string("to_lower(") + xn + ") = " + verif::quoted(std::string(lo.c_str(), lo.size())) + ", per-byte ASCII reference " + verif::quoted(wl); return; }
    // x, to_upper(x), to_lower(x) are equal after folding
    if (!f.sign(X.compare_i(up), 0, "string::compare_i(to_upper(x))", xn, xn)) return;
    if (!f.truth(ST::equal_i()(lo, X), true, "equal_i(to_lower(x), x)", xn, xn)) return;
    if (!f.truth(ST::hash_i()(X) == ST::hash_i()(up) && ST::hash_i()(X) == ST::hash_i()(lo), true, "hash_i(x) == hash_i(to_upper(x)) == hash_i(to_lower(x))", xn, xn)) return;
}

// ---- one operand against "nothing": ST::null on either side, a null pointer, empty buffers of every origin ----------
// (a null `const T *` is modelled as the empty text: every such overload tests for it explicitly)
template <class T> void check_operand_buffer(const Vec<T> &x, const char *xn, Fail &f) {
    typedef ST::buffer<T> B;
    Blk<T> bx(x.data(), x.size());
    const B X(bx.p, x.size());
    const bool e = x.empty();
    const int vs_empty = e ? 0 : 1;
    const char *en = "(y = nothing)";
    if (!f.truth(X == ST::null, e, "buffer == ST::null", xn, xn)) return;
    if (!f.truth(X != ST::null, !e, "buffer != ST::null", xn, xn)) return;
    if (!f.truth(ST::operator==(ST::null, X), e, "operator==(ST::null, buffer)", xn, xn)) return;
    if (!f.truth(ST::operator!=(ST::null, X), !e, "operator!=(ST::null, buffer)", xn, xn)) return;
    int v;
    if ((v = try_eq(ST::null, X)) >= 0 && !f.truth(v != 0, e, "ST::null == buffer", xn, xn)) return;
    if ((v = try_ne(ST::null, X)) >= 0 && !f.truth(v != 0, !e, "ST::null != buffer", xn, xn)) return;
    const T *np = nullptr;
    if (!f.sign(X.compare(np), vs_empty, "buffer::compare((const T*)nullptr)", xn, xn, en)) return;
    for (size_t n : {(size_t)0, (size_t)1, x.size(), SIZE_MAX}) {
        f.has_n = true; f.n = n;
        if (!f.sign(X.compare_n(np, n), n ? vs_empty : 0, "buffer::compare_n((const T*)nullptr,n)", xn, xn, en)) return;
    }
    f.has_n = false;
    const B E0, E1(np, 0), E2(ST::null), E3((size_t)0, (T)'x');
    B E4(bx.p, x.size()); E4.clear();
    static const char *const ename[] = {"(y = default-constructed buffer)", "(y = buffer(nullptr, 0))", "(y = buffer(ST::null))", "(y = buffer(0, fill))", "(y = a copy of x after clear())"};
    const B *es[] = {&E0, &E1, &E2, &E3, &E4};
    for (int i = 0; i < 5; i++) {
        const B &E = *es[i];
        if (E.size() != 0) continue;                // what clear()/construction leave behind is C03/C05's business
        if (!f.sign(X.compare(E), vs_empty, "buffer::compare(buffer)", xn, xn, ename[i])) return;
        if (!f.sign(E.compare(X), -vs_empty, "buffer::compare(buffer) swapped", xn, xn, ename[i])) return;
        if (!f.truth(X == E, e, "buffer ==", xn, xn, ename[i])) return;
        if (!f.truth(E != X, !e, "buffer != swapped", xn, xn, ename[i])) return;
        if (!f.truth(E < X, !e, "buffer < swapped", xn, xn, ename[i])) return;
        if (!f.truth(X < E, false, "buffer <", xn, xn, ename[i])) return;
        if (!f.sign(X.compare_n(E, SIZE_MAX), vs_empty, "buffer::compare_n(buffer,SIZE_MAX)", xn, xn, ename[i])) return;
        if (!f.sign(B::compare(bx.p, x.size(), E.data(), 0), vs_empty, "buffer::compare(p,ls,q,0)", xn, xn, ename[i])) return;
    }
}

void check_operand_string_nothing(const Vec<char> &x, const char *xn, Fail &f) {
    Blk<char> bx(x.data(), x.size());
    const ST::string X = ST::string::from_validated(bx.p, x.size());
    const bool e = x.empty();
    const int vs_empty = e ? 0 : 1;
    const char *en = "(y = nothing)";
    if (!f.truth(X == ST::null, e, "string == ST::null", xn, xn)) return;
    if (!f.truth(X != ST::null, !e, "string != ST::null", xn, xn)) return;
    if (!f.truth(ST::operator==(ST::null, X), e, "operator==(ST::null, string)", xn, xn)) return;
    if (!f.truth(ST::operator!=(ST::null, X), !e, "operator!=(ST::null, string)", xn, xn)) return;
    int v;
    if ((v = try_eq(ST::null, X)) >= 0 && !f.truth(v != 0, e, "ST::null == string", xn, xn)) return;
    if ((v = try_ne(ST::null, X)) >= 0 && !f.truth(v != 0, !e, "ST::null != string", xn, xn)) return;
    const char *np = nullptr; const char8_t *np8 = nullptr;
    if (!f.sign(X.compare(np), vs_empty, "string::compare((const char*)nullptr)", xn, xn, en)) return;
    if (!f.sign(X.compare(np8), vs_empty, "string::compare((const char8_t*)nullptr)", xn, xn, en)) return;
    if (!f.sign(X.compare(np, ST::case_insensitive), vs_empty, "string::compare((const char*)nullptr,case_insensitive)", xn, xn, en)) return;
    if (!f.sign(X.compare_i(np), vs_empty, "string::compare_i((const char*)nullptr)", xn, xn, en)) return;
    if (!f.sign(X.compare_i(np8), vs_empty, "string::compare_i((const char8_t*)nullptr)", xn, xn, en)) return;
    if (!f.truth(X == np, e, "string == (const char*)nullptr", xn, xn, en)) return;
    if (!f.truth(X != np, !e, "string != (const char*)nullptr", xn, xn, en)) return;
    if (!f.truth(X == np8, e, "string == (const char8_t*)nullptr", xn, xn, en)) return;
    if (!f.truth(X != np8, !e, "string != (const char8_t*)nullptr", xn, xn, en)) return;
    for (size_t n : {(size_t)0, (size_t)1, x.size(), SIZE_MAX}) {
        f.has_n = true; f.n = n;
        const int w = n ? vs_empty : 0;
        if (!f.sign(X.compare_n(np, n), w, "string::compare_n((const char*)nullptr,n)", xn, xn, en)) return;
        if (!f.sign(X.compare_n(np8, n), w, "string::compare_n((const char8_t*)nullptr,n)", xn, xn, en)) return;
        if (!f.sign(X.compare_ni(np, n), w, "string::compare_ni((const char*)nullptr,n)", xn, xn, en)) return;
        if (!f.sign(X.compare_ni(np8, n), w, "string::compare_ni((const char8_t*)nullptr,n)", xn, xn, en)) return;
    }
    f.has_n = false;
    const ST::string E0, E1(ST::null), E2 = ST::string::from_validated(np, 0);
    ST::string E3 = X; E3.clear();
    static const char *const ename[] = {"(y = default-constructed string)", "(y = string(ST::null))", "(y = from_validated(nullptr, 0))", "(y = a copy of x after clear())"};
    const ST::string *es[] = {&E0, &E1, &E2, &E3};
    for (int i = 0; i < 4; i++) {
        const ST::string &E = *es[i];
        if (E.size() != 0) continue;
        if (!f.sign(X.compare(E), vs_empty, "string::compare(string)", xn, xn, ename[i])) return;
        if (!f.sign(E.compare(X), -vs_empty, "string::compare(string) swapped", xn, xn, ename[i])) return;
        if (!f.sign(X.compare_i(E), vs_empty, "string::compare_i(string)", xn, xn, ename[i])) return;
        if (!f.sign(E.compare_ni(X, SIZE_MAX), -vs_empty, "string::compare_ni(string,SIZE_MAX) swapped", xn, xn, ename[i])) return;
        if (!f.truth(X == E, e, "string == string", xn, xn, ename[i])) return;
        if (!f.truth(E != X, !e, "string != string swapped", xn, xn, ename[i])) return;
        if (!f.truth(E < X, !e, "string < string swapped", xn, xn, ename[i])) return;
        if (!f.truth(ST::less_i()(E, X), !e, "less_i swapped", xn, xn, ename[i])) return;
        if (!f.truth(ST::equal_i()(E, X), e, "equal_i swapped", xn, xn, ename[i])) return;
        if (!f.truth(ST::hash()(E) == ST::hash()(E0) && ST::hash_i()(E) == ST::hash_i()(E0) && std::hash<ST::string>()(E) == std::hash<ST::string>()(E0), true, "hash/hash_i/std::hash of two empty strings", xn, xn, ename[i])) return;
    }
}

// ---- objects in unusual pre-states: a comparison may depend on the current contents only, never on stale bytes -----------
// Every object is brought to hold the operand's units through a different sequence of public operations; the oracle then
// works on the contents the object itself reports (size(), data()), so a moved-from or cleared object takes part with
// whatever valid value it has.
enum { N_BSTATE = 15 };
static const char *const bstate_name[N_BSTATE] = {
    "built from (pointer,length)",
    "held a short text, was copy-assigned a long one, allocate(n), refilled",
    "held a short text, was copy-assigned a long one, allocate(n, fill), refilled",
    "moved-from, then allocate(n), refilled",
    "held a short text, clear(), allocate(n), refilled",
    "copy-constructed from a buffer with stale in-object bytes",
    "move-constructed from a buffer with stale in-object bytes",
    "a long value, copy-assigned from a buffer with stale in-object bytes",
    "a short value, move-assigned from a buffer with stale in-object bytes",
    "made by operator\"\"_stbuf(pointer,length)",
    "buffer(count, fill) overwritten [buffer(nullptr,0) when empty]",
    "assigned ST::null, allocate(n), refilled [buffer(ST::null) when empty]",
    "moved-from (value as the object reports it)",
    "clear()ed (value as the object reports it)",
    "self-copy-assigned and self-move-assigned",
};

template <class T> std::unique_ptr<ST::buffer<T>> make_buffer(int k, const T *p, size_t n) {
    typedef ST::buffer<T> B;
    static const T shortText[7] = {(T)'s', (T)'t', (T)'A', (T)'l', (T)'e', (T)0xFF, (T)'Z'};
    T longText[40];
    for (int i = 0; i < 40; i++) longText[i] = (T)(unsigned char)"Lorem-IPSUM"[i % 11];
    auto put = [&](B &b) { if (n) memcpy(b.data(), p, n * sizeof(T)); };
    auto refill = [&](B &b) { b.allocate(n); put(b); };
    auto stale = [&]() { auto b = std::make_unique<B>(shortText, 7); const B lg(longText, 40); *b = lg; refill(*b); return b; };
    switch (k) {
    default: return std::make_unique<B>(p, n);
    case 1: return stale();
    case 2: { auto b = std::make_unique<B>(shortText, 7); const B lg(longText, 40); *b = lg; b->allocate(n, (T)'#'); put(*b); return b; }
    case 3: { auto t = std::make_unique<B>(longText, 40); B u(std::move(*t)); refill(*t); return t; }
    case 4: { auto b = std::make_unique<B>(shortText, 7); b->clear(); refill(*b); return b; }
    case 5: { auto s = stale(); return std::make_unique<B>(*s); }
    case 6: { auto s = stale(); return std::make_unique<B>(std::move(*s)); }
    case 7: { auto s = stale(); auto b = std::make_unique<B>(longText, 40); *b = *s; return b; }
    case 8: { auto s = stale(); auto b = std::make_unique<B>(shortText, 7); *b = std::move(*s); return b; }
    case 9: return std::make_unique<B>(ST::literals::operator""_stbuf(p, n));
    case 10: { if (!n) return std::make_unique<B>((const T *)nullptr, (size_t)0); auto b = std::make_unique<B>(n, p[0]); put(*b); return b; }
    case 11: { if (!n) return std::make_unique<B>(ST::null); auto b = std::make_unique<B>(longText, 40); *b = ST::null; refill(*b); return b; }
    case 12: { auto t = std::make_unique<B>(p, n); B u(std::move(*t)); return t; }
    case 13: { auto t = std::make_unique<B>(p, n); t->clear(); return t; }
    case 14: { auto t = std::make_unique<B>(p, n); B &r = *t; *t = r; *t = std::move(r); return t; }
    }
}

template <class T> struct StateBuf { int k; std::unique_ptr<ST::buffer<T>> b; Vec<T> v; };
// state 0 and every state k with k % 3 == third (a third of the table per case keeps a case cheap; the selector is a
// function of the operands, so all states meet all kinds of operands over a run)
template <class T> void make_buffer_states(const Vec<T> &x, unsigned third, std::vector<StateBuf<T>> &out) {
    Blk<T> bx(x.data(), x.size());
    for (int k = 0; k < N_BSTATE; k++) {
        if (k && (unsigned)k % 3 != third) continue;
        out.emplace_back();
        StateBuf<T> &s = out.back();
        s.k = k;
        s.b = make_buffer<T>(k, bx.p, x.size());
        s.v.assign(s.b->data(), s.b->data() + s.b->size());     // the value the object reports now
    }
}
template <class T> bool check_state_pair_buffer(const StateBuf<T> &sx, const StateBuf<T> &sy, const char *xn, const char *yn, Fail &f) {
    typedef ST::buffer<T> B;
    const B &X = *sx.b, &Y = *sy.b;
    const Vec<T> &x = sx.v, &y = sy.v;
    const int want = ref::cmp(x.data(), x.size(), y.data(), y.size());
    const size_t cpl = ref::common_prefix(x.data(), x.size(), y.data(), y.size());
    bool ok = f.sign(X.compare(Y), want, "buffer::compare(buffer)", xn, yn) && f.sign(Y.compare(X), -want, "buffer::compare(buffer) swapped", xn, yn) &&
              f.truth(X == Y, want == 0, "buffer ==", xn, yn) && f.truth(Y != X, want != 0, "buffer != swapped", xn, yn) &&
              f.truth(X < Y, want < 0, "buffer <", xn, yn) && f.truth(Y < X, want > 0, "buffer < swapped", xn, yn) &&
              f.sign(X.compare_n(Y, cpl + 1), ref::cmp_n(x.data(), x.size(), y.data(), y.size(), cpl + 1), "buffer::compare_n(buffer, common prefix + 1)", xn, yn) &&
              f.sign(Y.compare_n(X, cpl), 0, "buffer::compare_n(buffer, common prefix) swapped", xn, yn);
    if (!ok) f.why += std::string(" [the units are those the objects report; x: ") + bstate_name[sx.k] + "; y: " + bstate_name[sy.k] + "]";
    return ok;
}

enum { N_SSTATE = 13 };
static const char *const sstate_name[N_SSTATE] = {
    "from_validated(pointer,length)",
    "from_validated(char_buffer&&) of a buffer with stale in-object bytes",
    "from_validated(const char_buffer&) of a buffer with stale in-object bytes",
    "a long value, then set_validated(pointer,length)",
    "a short value, then set_validated(const char_buffer&) of a buffer with stale in-object bytes",
    "a long value, then set_validated(char_buffer&&)",
    "made by operator\"\"_st(pointer,length)",
    "from_validated(const char8_t*,length)",
    "a long value, clear(), then copy-assigned",
    "moved-from, then move-assigned",
    "a long value, assigned ST::null, then set_validated(const char8_t*,length)",
    "moved-from (value as the object reports it)",
    "substr of a longer string",
};
std::unique_ptr<ST::string> make_string(int k, const char *p, size_t n) {
    typedef ST::string S;
    static const char longText[] = "The quick brown fox jumps over the lazy dog \xC3\xBF";
    switch (k) {
    default: return std::make_unique<S>(S::from_validated(p, n));
    case 1: { auto b = make_buffer<char>(1, p, n); return std::make_unique<S>(S::from_validated(std::move(*b))); }
    case 2: { auto b = make_buffer<char>(1, p, n); const ST::char_buffer &cb = *b; return std::make_unique<S>(S::from_validated(cb)); }
    case 3: { auto s = std::make_unique<S>(S::from_validated(longText, sizeof longText - 1)); s->set_validated(p, n); return s; }
    case 4: { auto b = make_buffer<char>(1, p, n); const ST::char_buffer &cb = *b; auto s = std::make_unique<S>(S::from_validated("short", 5)); s->set_validated(cb); return s; }
    case 5: { auto b = make_buffer<char>(2, p, n); auto s = std::make_unique<S>(S::from_validated(longText, sizeof longText - 1)); s->set_validated(std::move(*b)); return s; }
    case 6: return std::make_unique<S>(ST::literals::operator""_st(p, n));
    case 7: return std::make_unique<S>(S::from_validated(reinterpret_cast<const char8_t *>(p), n));
    case 8: { const S x = S::from_validated(p, n); auto s = std::make_unique<S>(S::from_validated(longText, sizeof longText - 1)); s->clear(); *s = x; return s; }
    case 9: { auto t = std::make_unique<S>(S::from_validated(longText, sizeof longText - 1)); S u(std::move(*t)); *t = S::from_validated(p, n); return t; }
    case 10: { auto s = std::make_unique<S>(S::from_validated(longText, sizeof longText - 1)); *s = ST::null; s->set_validated(reinterpret_cast<const char8_t *>(p), n); return s; }
    case 11: { auto t = std::make_unique<S>(S::from_validated(p, n)); S u(std::move(*t)); return t; }
    case 12: { std::string framed = "\x7F<<" + std::string(p, n) + ">>\x80 tail tail tail"; const S big = S::from_validated(framed.data(), framed.size()); return std::make_unique<S>(big.substr(3, n)); }
    }
}
struct StateStr { int k; std::unique_ptr<ST::string> s; Vec<char> v; };
void make_string_states(const Vec<char> &x, unsigned third, std::vector<StateStr> &out) {
    Blk<char> bx(x.data(), x.size());
    for (int k = 0; k < N_SSTATE; k++) {
        if (k && (unsigned)k % 3 != third) continue;
        out.emplace_back();
        StateStr &s = out.back();
        s.k = k;
        s.s = make_string(k, bx.p, x.size());
        s.v.assign(s.s->c_str(), s.s->c_str() + s.s->size());
    }
}
bool check_state_pair_string(const StateStr &sx, const StateStr &sy, const char *xn, const char *yn, Fail &f) {
    const ST::string &X = *sx.s, &Y = *sy.s;
    const Vec<char> &x = sx.v, &y = sy.v;
    const int want = ref::cmp(x.data(), x.size(), y.data(), y.size());
    const bool feq = ref::fold_equal(x.data(), x.size(), y.data(), y.size());
    const int ci = X.compare_i(Y);
    bool ok = f.sign(X.compare(Y), want, "string::compare(string)", xn, yn) && f.sign(Y.compare(X), -want, "string::compare(string) swapped", xn, yn) &&
              f.truth(X == Y, want == 0, "string == string", xn, yn) && f.truth(Y != X, want != 0, "string != string swapped", xn, yn) &&
              f.truth(X < Y, want < 0, "string < string", xn, yn) && f.truth(Y < X, want > 0, "string < string swapped", xn, yn) &&
              f.truth(ci == 0, feq, "string::compare_i(string) == 0", xn, yn) && f.sign(Y.compare_i(X), -sgn(ci), "string::compare_i swapped against the negated sign", xn, yn) &&
              f.truth(ST::equal_i()(Y, X), feq, "equal_i swapped", xn, yn) && f.truth(ST::less_i()(X, Y), ci < 0, "less_i against compare_i", xn, yn) &&
              f.sign(X.compare_n(Y, SIZE_MAX), want, "string::compare_n(string,SIZE_MAX)", xn, yn) &&
              (want != 0 || (f.truth(ST::hash()(X) == ST::hash()(Y), true, "hash(x) == hash(y) for equal strings", xn, yn) &&
                             f.truth(std::hash<ST::string>()(X) == std::hash<ST::string>()(Y), true, "std::hash(x) == std::hash(y) for equal strings", xn, yn))) &&
              (!feq || f.truth(ST::hash_i()(X) == ST::hash_i()(Y), true, "hash_i(x) == hash_i(y) for fold-equal strings", xn, yn));
    if (!ok) f.why += std::string(" [the bytes are those the objects report; x: ") + sstate_name[sx.k] + "; y: " + sstate_name[sy.k] + "]";
    return ok;
}

// ---- the order, the equality and the hashes at work inside standard containers ----------------------------------------------
template <class T> std::string values(const std::vector<Vec<T>> &v) { std::string o; for (const Vec<T> &x : v) { if (!o.empty()) o += ", "; o += show(x); } return o; }

template <class T> std::string check_containers_buffer(const std::vector<StateBuf<T>> (&st)[3]) {
    typedef ST::buffer<T> B;
    std::vector<Vec<T>> vals; std::vector<const B *> objs;
    for (int i = 0; i < 3; i++) for (size_t k : {(size_t)0, 1 + (st[i][0].v.size() + i) % (st[i].size() - 1)}) { vals.push_back(st[i][k].v); objs.push_back(st[i][k].b.get()); }
    const size_t nd = ref::count_distinct(vals);
    const std::vector<Vec<T>> order = ref::sorted_by_cmp(vals);
    std::set<B> s;
    for (const B *b : objs) s.insert(*b);
    if (s.size() != nd) return "std::set<buffer> (operator<) of the values {" + values(vals) + "} holds " + verif::unum(s.size()) + " elements, distinct values: " + verif::unum(nd);
    { size_t i = 0; const Vec<T> *prev = nullptr;
      for (const B &b : s) { while (prev && i < order.size() && ref::cmp(order[i].data(), order[i].size(), prev->data(), prev->size()) == 0) i++;
          if (i >= order.size() || b.size() != order[i].size() || (b.size() && memcmp(b.data(), order[i].data(), b.size() * sizeof(T)) != 0))
              return "std::set<buffer> (operator<) of the values {" + values(vals) + "} does not iterate in the reference order";
          prev = &order[i]; } }
    for (const B *b : objs) if (s.count(*b) != 1) return "std::set<buffer>::count of an inserted value is not 1 (values {" + values(vals) + "})";
    std::vector<B> sv;
    for (const B *b : objs) sv.push_back(*b);
    std::sort(sv.begin(), sv.end());
    for (size_t i = 0; i < sv.size(); i++)
        if (sv[i].size() != order[i].size() || (order[i].size() && memcmp(sv[i].data(), order[i].data(), order[i].size() * sizeof(T)) != 0))
            return "std::sort (operator<) of the buffers {" + values(vals) + "} differs from the reference order at position " + verif::unum(i);
    return std::string();
}

std::string check_containers_string(const std::vector<StateStr> (&st)[3]) {
    typedef ST::string S;
    std::vector<Vec<char>> vals; std::vector<const S *> objs;
    for (int i = 0; i < 3; i++) for (size_t k : {(size_t)0, 1 + (st[i][0].v.size() + i) % (st[i].size() - 1)}) { vals.push_back(st[i][k].v); objs.push_back(st[i][k].s.get()); }
    const size_t nd = ref::count_distinct(vals), nf = ref::count_fold_classes(vals);
    const std::vector<Vec<char>> order = ref::sorted_by_cmp(vals);
    const std::string among = " (values {" + values(vals) + "})";
    auto same = [](const S &a, const Vec<char> &b) { return a.size() == b.size() && (b.empty() || memcmp(a.c_str(), b.data(), b.size()) == 0); };
    std::set<S> s1; std::set<S, ST::less_i> s2; std::map<S, size_t> m1;
    std::unordered_set<S> u1; std::unordered_set<S, ST::hash> u2; std::unordered_set<S, ST::hash_i, ST::equal_i> u3;
    std::unordered_map<S, size_t, ST::hash_i, ST::equal_i> um; std::map<S, size_t, ST::less_i> m2;
    for (size_t i = 0; i < objs.size(); i++) { const S &x = *objs[i]; s1.insert(x); s2.insert(x); m1[x] = i; u1.insert(x); u2.insert(x); u3.insert(x); um[x] = i; m2[x] = i; }
    if (s1.size() != nd) return "std::set<ST::string> holds " + verif::unum(s1.size()) + " elements, distinct values: " + verif::unum(nd) + among;
    if (m1.size() != nd) return "std::map<ST::string,...> holds " + verif::unum(m1.size()) + " keys, distinct values: " + verif::unum(nd) + among;
    if (u1.size() != nd) return "std::unordered_set<ST::string> (std::hash, ==) holds " + verif::unum(u1.size()) + " elements, distinct values: " + verif::unum(nd) + among;
    if (u2.size() != nd) return "std::unordered_set<ST::string, ST::hash> holds " + verif::unum(u2.size()) + " elements, distinct values: " + verif::unum(nd) + among;
    if (s2.size() != nf) return "std::set<ST::string, ST::less_i> holds " + verif::unum(s2.size()) + " elements, classes after folding A-Z: " + verif::unum(nf) + among;
    if (m2.size() != nf) return "std::map<ST::string,..., ST::less_i> holds " + verif::unum(m2.size()) + " keys, classes after folding A-Z: " + verif::unum(nf) + among;
    if (u3.size() != nf) return "std::unordered_set<ST::string, ST::hash_i, ST::equal_i> holds " + verif::unum(u3.size()) + " elements, classes after folding A-Z: " + verif::unum(nf) + among;
    if (um.size() != nf) return "std::unordered_map<ST::string,..., ST::hash_i, ST::equal_i> holds " + verif::unum(um.size()) + " keys, classes after folding A-Z: " + verif::unum(nf) + among;
    { size_t i = 0; const Vec<char> *prev = nullptr;
      for (const S &x : s1) { while (prev && i < order.size() && ref::cmp(order[i].data(), order[i].size(), prev->data(), prev->size()) == 0) i++;
          if (i >= order.size() || !same(x, order[i])) return "std::set<ST::string> does not iterate in the reference order" + among;
          prev = &order[i]; } }
    for (size_t i = 0; i < objs.size(); i++) {
        const S &x = *objs[i];
        // look every value up through an equal string with another history, and through its upper/lower-cased forms
        const S alt = ST::string::from_validated(vals[i].data(), vals[i].size());
        const S up = alt.to_upper(), lo = alt.to_lower();
        if (s1.count(alt) != 1 || m1.count(alt) != 1 || u1.count(alt) != 1 || u2.count(alt) != 1) return "an inserted value is not found again in set/map/unordered_set keyed by <, == and hash: " + show(vals[i]) + among;
        if (!same(*s1.find(alt), vals[i]) || !same(*u1.find(alt), vals[i])) return "set/unordered_set lookup of " + show(vals[i]) + " returns a different value" + among;
        for (const S *q : {&x, &up, &lo}) {
            if (s2.count(*q) != 1 || m2.count(*q) != 1 || u3.count(*q) != 1 || um.count(*q) != 1)
                return "a value equal after folding A-Z to an inserted one is not found in a container keyed by less_i or hash_i/equal_i: " + show(vals[i]) + among;
            const S &hit = *u3.find(*q);
            if (!ref::fold_equal(hit.c_str(), hit.size(), vals[i].data(), vals[i].size())) return "hash_i/equal_i lookup of " + show(vals[i]) + " returns a value that is not equal to it after folding" + among;
        }
    }
    std::vector<S> sv;
    for (const S *x : objs) sv.push_back(*x);
    std::sort(sv.begin(), sv.end());
    for (size_t i = 0; i < sv.size(); i++) if (!same(sv[i], order[i])) return "std::sort (operator<) of the strings differs from the reference order at position " + verif::unum(i) + among;
    std::sort(sv.begin(), sv.end(), ST::less_i());
    for (size_t i = 1; i < sv.size(); i++) if (sv[i].compare_i(sv[i - 1]) < 0) return "std::sort with ST::less_i leaves a descending neighbour pair at position " + verif::unum(i) + among;
    return std::string();
}

// all of the above for one triple
template <class T> std::string check_states_and_containers(const Vec<T> (&v)[3], bool containers) {
    Fail f;
    unsigned h = (unsigned)(v[0].size() + 3 * v[1].size() + 5 * v[2].size());
    if (!v[0].empty()) h += ref::ukey(v[0][0]);
    if (!v[1].empty()) h += ref::ukey(v[1].back()) >> 1;
    std::vector<StateBuf<T>> sb[3];
    for (int i = 0; i < 3; i++) { check_operand_buffer<T>(v[i], opn[i], f); if (f.bad()) return f.why; make_buffer_states<T>(v[i], h % 3, sb[i]); }
    for (int i = 0; i < 3; i++) for (int j = i; j < 3; j++) for (size_t k = 0; k < sb[i].size(); k++)
        if (!check_state_pair_buffer<T>(sb[i][k], sb[j][(k + 1 + i + j) % sb[j].size()], opn[i], opn[j], f)) return f.why;
    if (containers) { std::string why = check_containers_buffer<T>(sb); if (!why.empty()) return why; }
    if constexpr (std::is_same<T, char>::value) {
        std::vector<StateStr> ss[3];
        for (int i = 0; i < 3; i++) { check_operand_string_nothing(v[i], opn[i], f); if (f.bad()) return f.why; make_string_states(v[i], (h / 3) % 3, ss[i]); }
        for (int i = 0; i < 3; i++) for (int j = i; j < 3; j++) for (size_t k = 0; k < ss[i].size(); k++)
            if (!check_state_pair_string(ss[i][k], ss[j][(k + 1 + i + j) % ss[j].size()], opn[i], opn[j], f)) return f.why;
        if (containers) { std::string why = check_containers_string(ss); if (!why.empty()) return why; }
    }
    return std::string();
}

// preorder laws on a sign matrix M[i][j] = sign(compare(v_i, v_j))
bool transitive(const int *M, int n, int &bi, int &bj, int &bk) {
    for (int i = 0; i < n; i++) for (int j = 0; j < n; j++) {
        if (M[i * n + j] > 0) continue;
        for (int k = 0; k < n; k++) {
            if (M[j * n + k] > 0) continue;
            int need = (M[i * n + j] < 0 || M[j * n + k] < 0) ? -1 : 0;     // i<=j<=k, strict if either is
            if (M[i * n + k] != need) { bi = i; bj = j; bk = k; return false; }
        }
    }
    return true;
}

template <class T> struct Triple { Vec<T> v[3]; size_t extra_n = 0; };

template <class T> bool nontrivial_pair(const Vec<T> &x, const Vec<T> &y) {
    size_t cpl = ref::common_prefix(x.data(), x.size(), y.data(), y.size());
    return cpl >= 1 && !(x.size() == y.size() && cpl == x.size());
}
bool fold_only_pair(const Vec<char> &x, const Vec<char> &y) {
    return ref::fold_equal(x.data(), x.size(), y.data(), y.size()) && ref::cmp(x.data(), x.size(), y.data(), y.size()) != 0;
}

template <class T> std::string check_triple(const Triple<T> &t) {
    Fail f;
    try {
        for (int i = 0; i < 3 && !f.bad(); i++) for (int j = 0; j < 3 && !f.bad(); j++) {
            check_pair_buffer<T>(t.v[i], t.v[j], t.extra_n, opn[i], opn[j], f);
            if constexpr (std::is_same<T, char>::value) if (!f.bad()) check_pair_string(t.v[i], t.v[j], t.extra_n, opn[i], opn[j], f);
        }
        if (f.bad()) return f.why;
        // transitivity over the triple, from the library's own answers
        int M[9], bi, bj, bk;
        {
            Blk<T> b0(t.v[0].data(), t.v[0].size()), b1(t.v[1].data(), t.v[1].size()), b2(t.v[2].data(), t.v[2].size());
            const ST::buffer<T> B[3] = {ST::buffer<T>(b0.p, b0.n), ST::buffer<T>(b1.p, b1.n), ST::buffer<T>(b2.p, b2.n)};
            for (int i = 0; i < 3; i++) for (int j = 0; j < 3; j++) M[i * 3 + j] = sgn(B[i].compare(B[j]));
            if (!transitive(M, 3, bi, bj, bk)) return std::string("buffer::compare is not transitive on (") + opn[bi] + "," + opn[bj] + "," + opn[bk] + ")";
        }
        if constexpr (std::is_same<T, char>::value) {
            ST::string S[3];
            for (int i = 0; i < 3; i++) { Blk<char> b(t.v[i].data(), t.v[i].size()); S[i] = ST::string::from_validated(b.p, b.n); }
            for (int i = 0; i < 3; i++) for (int j = 0; j < 3; j++) M[i * 3 + j] = sgn(S[i].compare(S[j]));
            if (!transitive(M, 3, bi, bj, bk)) return std::string("string::compare is not transitive on (") + opn[bi] + "," + opn[bj] + "," + opn[bk] + ")";
            for (int i = 0; i < 3; i++) for (int j = 0; j < 3; j++) M[i * 3 + j] = sgn(S[i].compare_i(S[j]));
            if (!transitive(M, 3, bi, bj, bk)) return std::string("string::compare_i is not transitive on (") + opn[bi] + "," + opn[bj] + "," + opn[bk] + "): signs " +
                                                      verif::num(M[bi * 3 + bj]) + ", " + verif::num(M[bj * 3 + bk]) + " but " + verif::num(M[bi * 3 + bk]);
            for (int i = 0; i < 3 && !f.bad(); i++) check_operand_string(t.v[i], opn[i], f);
            if (f.bad()) return f.why;
        }
        // ST::null / null pointers / empty objects, objects in unusual pre-states, standard containers
        { std::string why = check_states_and_containers<T>(t.v, true); if (!why.empty()) return why; }
    } catch (...) {
        return "unexpected " + verif::describe_current_exception();
    }
    return std::string();
}

// ---- huge lengths through the static pointer+length forms ---------------------------------------------------
size_t huge_len(int i, size_t k) {
    switch (i) {
    case 0: return k;
    case 1: return ((size_t)1 << 31) - 1 + k;
    case 2: return ((size_t)1 << 31) + k;
    case 3: return ((size_t)1 << 32) + k;
    case 4: return SIZE_MAX;
    case 5: return ((size_t)1 << 32) - 1 + k;
    case 6: return ((size_t)1 << 63) + k;
    default: return 3 * ((size_t)1 << 32) + k;
    }
}
enum { N_HUGE = 8 };

template <class T> struct Huge { Vec<T> a, b; int ia = 0, ib = 0; };   // readable parts and indexes into huge_len

// One call site: both pointers are backed by blocks of exactly the m units that may be read.
template <class T> std::string check_huge_call(const Vec<T> &a, size_t la, const Vec<T> &b, size_t lb, bool with_n, size_t n) {
    size_t ea = with_n && n < la ? n : la, eb = with_n && n < lb ? n : lb;
    size_t m = ea < eb ? ea : eb;
    if (m > a.size() || m > b.size()) return "harness error: huge-length case would need unreadable units";
    Blk<T> pa(a.data(), m), pb(b.data(), m);
    const int want = ref::cmp(a.data(), ea, b.data(), eb);
    Fail f;
    f.has_n = with_n; f.n = n;
    const char *en = nullptr;
    typedef ST::buffer<T> B;
    int r1 = with_n ? B::compare(pa.p, la, pb.p, lb, n) : B::compare(pa.p, la, pb.p, lb);
    int r2 = with_n ? B::compare(pb.p, lb, pa.p, la, n) : B::compare(pb.p, lb, pa.p, la);
    f.sign(r1, want, with_n ? "buffer::compare(p,ls,q,rs,n)" : "buffer::compare(p,ls,q,rs)", "a", "b", en);
    f.sign(r2, -want, with_n ? "buffer::compare(p,ls,q,rs,n)" : "buffer::compare(p,ls,q,rs)", "b", "a", en);
    if constexpr (std::is_same<T, char>::value) {
        int c1 = with_n ? _ST_PRIVATE::compare_cs(pa.p, la, pb.p, lb, n) : _ST_PRIVATE::compare_cs(pa.p, la, pb.p, lb);
        int c2 = with_n ? _ST_PRIVATE::compare_cs(pb.p, lb, pa.p, la, n) : _ST_PRIVATE::compare_cs(pb.p, lb, pa.p, la);
        f.sign(c1, want, "compare_cs(p,ls,q,rs[,n])", "a", "b", en);
        f.sign(c2, -want, "compare_cs(p,ls,q,rs[,n])", "b", "a", en);
        int i1 = with_n ? _ST_PRIVATE::compare_ci(pa.p, la, pb.p, lb, n) : _ST_PRIVATE::compare_ci(pa.p, la, pb.p, lb);
        int i2 = with_n ? _ST_PRIVATE::compare_ci(pb.p, lb, pa.p, la, n) : _ST_PRIVATE::compare_ci(pb.p, lb, pa.p, la);
        f.truth(i1 == 0, ref::fold_equal(a.data(), ea, b.data(), eb), "compare_ci(p,ls,q,rs[,n]) == 0", "a", "b", en);
        f.sign(i2, -sgn(i1), "compare_ci: swapped operands against the negated sign", "b", "a", en);
    }
    if (f.bad()) f.why += " [declared lengths a: " + nstr(la) + ", b: " + nstr(lb) + "; x is the left argument]";
    return f.why;
}

template <class T> std::string check_huge(const Huge<T> &h) {
    const size_t ka = h.a.size(), kb = h.b.size();
    const size_t la = huge_len(h.ia, ka), lb = huge_len(h.ib, kb);
    const size_t rd = ka < kb ? ka : kb;
    try {
        std::string why;
        if ((la < lb ? la : lb) <= rd) {
            why = check_huge_call<T>(h.a, la, h.b, lb, false, 0);
            if (!why.empty()) return why;
            size_t m = la < lb ? la : lb;
            const size_t ns[] = {0, 1, m ? m - 1 : 0, m, m + 1, ((size_t)1 << 31) - 1, (size_t)1 << 31, (size_t)1 << 32, SIZE_MAX};
            for (size_t n : ns) { why = check_huge_call<T>(h.a, la, h.b, lb, true, n); if (!why.empty()) return why; }
        } else {
            // both declared lengths exceed the storage: only the n-limited form with n inside the readable part
            const size_t ns[] = {0, rd ? (size_t)1 : 0, rd ? rd - 1 : 0, rd};
            for (size_t n : ns) { why = check_huge_call<T>(h.a, la, h.b, lb, true, n); if (!why.empty()) return why; }
        }
    } catch (...) {
        return "unexpected " + verif::describe_current_exception();
    }
    return std::string();
}

// ---- alphabets and the decoder ----------------------------------------------------------------------------------
template <class T> struct Alpha;
template <> struct Alpha<char> { static constexpr unsigned char tab[] = {'a', 'A', 'b', 'B', 'z', 'Z', '@', '[', '`', '{', 0x00, 0x7F, 0x80, 0xC3, 0xFF, '0', ' ', 'm', 'M', 0x01, 0xE9, 0xC0, 0xA0, 0xE1}; };
template <> struct Alpha<wchar_t> { static constexpr uint32_t tab[] = {'a', 'A', 'b', 'z', 'Z', '[', '{', 0, 0x7F, 0x80, 0xFF, 0x100, 0x7FFF, 0x8000, 0xFFFF, 0x10000, 0x10FFFF, 0x7FFFFFFF}; };
template <> struct Alpha<char16_t> { static constexpr uint32_t tab[] = {'a', 'A', 'b', 'z', 'Z', '[', '{', 0, 0x7F, 0x80, 0xFF, 0x100, 0x7FFF, 0x8000, 0xD800, 0xDFFF, 0xFF00, 0xFFFF}; };
template <> struct Alpha<char32_t> { static constexpr uint32_t tab[] = {'a', 'A', 'b', 'z', 'Z', '[', '{', 0, 0x7F, 0x80, 0xFF, 0x100, 0x7FFF, 0x8000, 0xFFFF, 0x10000, 0x10FFFF, 0x7FFFFFFF, 0x80000000u, 0xFFFFFFFFu}; };
template <class T> T alpha_pick(verif::Reader &r) { constexpr size_t N = sizeof(Alpha<T>::tab) / sizeof(Alpha<T>::tab[0]); return (T)Alpha<T>::tab[r.idx(N)]; }
template <class T> T clampT(uint32_t v) { if (std::is_same<T, wchar_t>::value && v > 0x7FFFFFFFu) v &= 0x7FFFFFFFu; return (T)v; }

static const char *const deriv_label[] = {"derive:copy", "derive:proper-prefix", "derive:one-unit-changed", "derive:xor-0x20", "derive:NUL-inserted", "derive:extension",
                                          "derive:independent", "derive:unit-set-to-NUL", "derive:high-bit-toggled", "derive:unit+-1", "derive:case-of-all-letters-flipped", "derive:case-of-one-letter-flipped"};

template <class T> Vec<T> gen_base(verif::Reader &r, size_t maxlen) {
    static const uint8_t lens[] = {1, 0, 2, 3, 4, 5, 7, 8, 12, 15, 16, 17, 24, 31, 32, 33, 40};
    size_t n = r.flag() ? r.pick(lens) : r.range(0, 6);
    if (n > maxlen) n = maxlen;
    Vec<T> v(n);
    for (size_t i = 0; i < n; i++) v[i] = alpha_pick<T>(r);
    return v;
}
template <class T> Vec<T> derive(verif::Reader &r, const Vec<T> &s, Case &c) {
    Vec<T> o = s;
    int kind = (int)r.idx(12);
    size_t L = s.size();
    size_t pos = L ? (r.flag() ? L - 1 - r.idx(L < 3 ? L : 3) : r.idx(L)) : 0;       // near the end, or anywhere
    c.label(deriv_label[kind]);
    switch (kind) {
    case 0: break;
    case 1: if (L) o.resize(pos); break;
    case 2: if (L) o[pos] = alpha_pick<T>(r); break;
    case 3: if (L) o[pos] = clampT<T>(ref::ukey(o[pos]) ^ 0x20); break;
    case 4: o.insert(o.begin() + pos, (T)0); break;
    case 5: { size_t k = 1 + r.idx(3); for (size_t i = 0; i < k; i++) o.push_back(alpha_pick<T>(r)); } break;
    case 6: o = gen_base<T>(r, 40); break;
    case 7: if (L) o[pos] = (T)0; break;
    case 8: if (L) o[pos] = clampT<T>(ref::ukey(o[pos]) ^ (sizeof(T) == 1 ? 0x80u : sizeof(T) == 2 ? 0x8000u : std::is_same<T, wchar_t>::value ? 0x40000000u : 0x80000000u)); break;
    case 10: for (T &u : o) { uint32_t v = ref::ukey(u); if ((v >= 'A' && v <= 'Z') || (v >= 'a' && v <= 'z')) u = (T)(v ^ 0x20); } break;
    case 11: for (size_t i = 0; i < L; i++) { T &u = o[(pos + i) % L]; uint32_t v = ref::ukey(u); if ((v >= 'A' && v <= 'Z') || (v >= 'a' && v <= 'z')) { u = (T)(v ^ 0x20); break; } } break;
    default: if (L) { uint32_t v = ref::ukey(o[pos]); uint32_t top = sizeof(T) == 1 ? 0xFFu : sizeof(T) == 2 ? 0xFFFFu : std::is_same<T, wchar_t>::value ? 0x7FFFFFFFu : 0xFFFFFFFFu;
                      o[pos] = (T)(r.flag() ? (v == top ? v : v + 1) : (v == 0 ? v : v - 1)); } break;
    }
    return o;
}

template <class T> void put_units(std::vector<uint8_t> &o, const Vec<T> &v) {
    for (T u : v) { uint32_t x = ref::ukey(u); for (size_t i = 0; i < sizeof(T); i++) o.push_back((uint8_t)(x >> (8 * i))); }
}
template <class T> Vec<T> get_units(verif::Reader &r, size_t n) {
    Vec<T> v(n);
    for (size_t i = 0; i < n; i++) { uint32_t x = 0; for (size_t k = 0; k < sizeof(T); k++) x |= (uint32_t)r.u8() << (8 * k); v[i] = clampT<T>(x); }
    return v;
}
// directed encodings used by the enumerators (and accepted from any engine)
template <class T> std::vector<uint8_t> encode_triple(int type, const Triple<T> &t) {
    std::vector<uint8_t> o = {0xFF, (uint8_t)type, (uint8_t)t.v[0].size(), (uint8_t)t.v[1].size(), (uint8_t)t.v[2].size()};
    for (int i = 0; i < 3; i++) put_units(o, t.v[i]);
    return o;
}
template <class T> std::vector<uint8_t> encode_huge(int type, const Huge<T> &h) {
    std::vector<uint8_t> o = {0xFE, (uint8_t)type, (uint8_t)h.a.size(), (uint8_t)h.b.size(), (uint8_t)h.ia, (uint8_t)h.ib};
    put_units(o, h.a); put_units(o, h.b);
    return o;
}

template <class T> std::string render_triple(const Triple<T> &t) {
    return std::string("C06<") + tname<T>() + "> a=" + show(t.v[0]) + " b=" + show(t.v[1]) + " c=" + show(t.v[2]) + " extra n=" + nstr(t.extra_n) +
           (std::is_same<T, char>::value ? "; all ordered pairs through ST::string, char_buffer, static, const char*, _n, _i, _ni, less_i/equal_i, hashes, to_upper/to_lower; transitivity"
                                         : "; all ordered pairs through buffer compare/compare_n/==/!=/</static/const T*; transitivity");
}
template <class T> std::string render_huge(const Huge<T> &h) {
    return std::string("C06<") + tname<T>() + "> static compare: a=" + show(h.a) + " declared length " + nstr(huge_len(h.ia, h.a.size())) + ", b=" + show(h.b) + " declared length " +
           nstr(huge_len(h.ib, h.b.size())) + "; 4- and 5-argument forms, both orders" + (std::is_same<T, char>::value ? ", compare_cs, compare_ci" : "");
}

template <class T> int finish_triple(const Triple<T> &t, Case &c);

template <class T> int run_triple(verif::Reader &r, Case &c, bool directed) {
    Triple<T> t;
    if (directed) {
        size_t l0 = r.u8() % 65, l1 = r.u8() % 65, l2 = r.u8() % 65;
        t.v[0] = get_units<T>(r, l0); t.v[1] = get_units<T>(r, l1); t.v[2] = get_units<T>(r, l2);
        c.label("directed-triple");
    } else {
        t.v[0] = gen_base<T>(r, 40);
        t.v[1] = derive<T>(r, t.v[0], c);
        t.v[2] = derive<T>(r, r.flag() ? t.v[1] : t.v[0], c);
        static const size_t extra[] = {0, 2, 3, 5, 9, 14, 15, 16, 17, 30, 33, ((size_t)1 << 32), ((size_t)1 << 32) + 1, SIZE_MAX - 1, ((size_t)1 << 63), ((size_t)1 << 31) - 1};
        t.extra_n = r.pick(extra);
    }
    return finish_triple<T>(t, c);
}

// long operands: a periodic text (period 1..16 over the boundary alphabet, so that the operands agree over long stretches)
// of a length on or next to a power of two, with up to two units altered; the other operands are derived from it as usual
template <class T> Vec<T> gen_long(verif::Reader &r) {
    static const uint16_t lens[] = {64, 63, 65, 41, 127, 128, 129, 255, 256, 257, 511, 512, 513, 1023, 1024, 1025, 100, 1000, 2047, 2048, 2049, 3000, 4095, 4096, 4097, 8191, 8192, 300, 700, 1500};
    const size_t L = r.chance(64) ? (size_t)r.range(41, 8192) : (size_t)r.pick(lens);
    const size_t period = 1 + r.idx(16);
    T pat[16];
    for (size_t i = 0; i < period; i++) pat[i] = alpha_pick<T>(r);
    Vec<T> v(L);
    for (size_t i = 0; i < L; i++) v[i] = pat[i % period];
    for (size_t k = r.idx(3); k > 0; k--) { size_t at = r.idx(L); v[at] = alpha_pick<T>(r); }
    return v;
}
enum { LONG_MAX_UNITS = 8200 };
template <class T> std::vector<uint8_t> encode_long(int type, const Triple<T> &t) {
    std::vector<uint8_t> o = {0xFC, (uint8_t)type};
    for (int i = 0; i < 3; i++) { o.push_back((uint8_t)(t.v[i].size() & 0xFF)); o.push_back((uint8_t)(t.v[i].size() >> 8)); }
    for (int i = 0; i < 8; i++) o.push_back((uint8_t)((uint64_t)t.extra_n >> (8 * i)));
    for (int i = 0; i < 3; i++) put_units(o, t.v[i]);
    return o;
}
template <class T> int run_long(verif::Reader &r, Case &c, bool directed) {
    Triple<T> t;
    if (directed) {
        size_t l[3];
        for (int i = 0; i < 3; i++) { l[i] = r.u8(); l[i] |= (size_t)r.u8() << 8; if (l[i] > LONG_MAX_UNITS) l[i] = LONG_MAX_UNITS; }
        t.extra_n = (size_t)r.bits64();
        // explicit content only: the lengths are cut to the units that are really there (a short input does not turn into 8 K zeros)
        size_t avail = (r.pos < r.n ? r.n - r.pos : 0) / sizeof(T);
        for (int i = 0; i < 3; i++) { if (l[i] > avail) l[i] = avail; avail -= l[i]; }
        for (int i = 0; i < 3; i++) t.v[i] = get_units<T>(r, l[i]);
        c.label("directed-triple");
    } else {
        t.v[0] = gen_long<T>(r);
        t.v[1] = derive<T>(r, t.v[0], c);
        t.v[2] = derive<T>(r, r.flag() ? t.v[1] : t.v[0], c);
        static const size_t extra[] = {0, 63, 64, 65, 255, 256, 257, 1023, 1024, 1025, 4096, 8191, ((size_t)1 << 32), SIZE_MAX - 1, ((size_t)1 << 63), ((size_t)1 << 31) - 1};
        t.extra_n = r.pick(extra);
    }
    c.label("long-operands(41..8200 units)");
    const size_t L = t.v[0].size();
    if (L >= 63 && (((L + 1) & L) == 0 || (L & (L - 1)) == 0 || ((L - 1) & (L - 2)) == 0)) c.label("long:length-2^k-1/2^k/2^k+1");
    return finish_triple<T>(t, c);
}

template <class T> int finish_triple(const Triple<T> &t, Case &c) {
    bool nt = false, fo = false, hasnul = false, hi = false, longv = false;
    for (int i = 0; i < 3; i++) {
        for (int j = 0; j < 3; j++) if (i != j) {
            nt |= nontrivial_pair(t.v[i], t.v[j]);
            if constexpr (std::is_same<T, char>::value) fo |= fold_only_pair(t.v[i], t.v[j]);
        }
        for (T u : t.v[i]) { hasnul |= u == 0; hi |= ref::ukey(u) >= (sizeof(T) == 1 ? 0x80u : sizeof(T) == 2 ? 0x8000u : 0x10000u); }
        longv |= t.v[i].size() >= 16;
    }
    c.nontrivial = nt || fo;
    c.label(std::is_same<T, char>::value ? "type:char" : std::is_same<T, wchar_t>::value ? "type:wchar_t" : std::is_same<T, char16_t>::value ? "type:char16_t" : "type:char32_t");
    if (nt) c.label("shared-prefix-and-differ");
    if (fo) c.label("fold-equal-not-equal");
    if (hasnul) c.label("embedded-NUL");
    if (hi) c.label(sizeof(T) == 1 ? "byte>=0x80" : "high-unit");
    if (longv) c.label("operand>=16-units(heap)");
    {   // classes of the added checks: which storage the pre-state objects use, whether containers have anything to collapse
        bool inobj = false, emptyop = false;
        for (int i = 0; i < 3; i++) { inobj |= t.v[i].size() < in_object_units<T>(); emptyop |= t.v[i].empty(); }
        if (inobj) c.label("pre-states:in-object-storage");
        if (emptyop) c.label("operand:empty(ST::null/null-pointer/empty-buffer forms bite)");
        std::vector<Vec<T>> vals(t.v, t.v + 3);
        const size_t nd = ref::count_distinct(vals);
        if (nd < 3) c.label("containers:equal-values-collapse");
        if constexpr (std::is_same<T, char>::value) if (ref::count_fold_classes(vals) < nd) c.label("containers:fold-classes<distinct-values");
    }
    if (c.want_text) c.text = render_triple(t);
    std::string why = check_triple(t);
    if (!why.empty()) return c.fail(why);
    return verif::CASE_OK;
}

template <class T> int run_huge(verif::Reader &r, Case &c, bool directed) {
    Huge<T> h;
    if (directed) {
        size_t ka = r.u8() % 65, kb = r.u8() % 65;
        h.ia = r.u8() % N_HUGE; h.ib = r.u8() % N_HUGE;
        h.a = get_units<T>(r, ka); h.b = get_units<T>(r, kb);
    } else {
        size_t side = r.idx(8);                      // 0-2: a huge, 3-5: b huge, 6: both (n-limited form only), 7: neither
        int hv = 1 + (int)r.idx(N_HUGE - 1), hw = 1 + (int)r.idx(N_HUGE - 1);
        h.ia = side <= 2 || side == 6 ? hv : 0; h.ib = (side >= 3 && side <= 6) ? hw : 0;
        h.a = gen_base<T>(r, 64);
        h.b = derive<T>(r, h.a, c);
        if (h.b.size() > 64) h.b.resize(64);
    }
    // a call reads min(declared lengths) units: make that fit the storage of both operands
    const bool a_huge = h.ia != 0, b_huge = h.ib != 0;
    if (a_huge && !b_huge && h.b.size() > h.a.size()) h.b.resize(h.a.size());
    if (b_huge && !a_huge && h.a.size() > h.b.size()) h.a.resize(h.b.size());
    const size_t la = huge_len(h.ia, h.a.size()), lb = huge_len(h.ib, h.b.size());
    const size_t diff = la > lb ? la - lb : lb - la;
    c.nontrivial = diff >= ((size_t)1 << 31) || nontrivial_pair(h.a, h.b);
    c.label("huge-length-static-compare");
    c.label(a_huge && b_huge ? "huge:both(n-limited)" : (a_huge || b_huge) ? "huge:one-side" : "huge:neither");
    if (diff >= ((size_t)1 << 31)) c.label("length-difference>=2^31");
    if (diff && (diff & 0xFFFFFFFFu) == 0) c.label("length-difference-multiple-of-2^32");
    c.label(std::is_same<T, char>::value ? "type:char" : std::is_same<T, wchar_t>::value ? "type:wchar_t" : std::is_same<T, char16_t>::value ? "type:char16_t" : "type:char32_t");
    if (c.want_text) c.text = render_huge(h);
    std::string why = check_huge(h);
    if (!why.empty()) return c.fail(why);
    return verif::CASE_OK;
}

}  // namespace

int verif_case(const uint8_t *data, size_t size, Case &c) {
    verif::Reader r(data, size, c);
    uint8_t mode = r.u8();
    if (mode == 0xFD || mode == 0xFC) {          // long operands: 0xFD generated, 0xFC directed (explicit units, 16-bit lengths)
        const bool dir = mode == 0xFC;
        const uint8_t sel = r.u8();
        const int type = dir ? (sel & 3) : (sel % 6 < 3 ? 0 : (int)(sel % 6) - 2);      // half char, the rest spread over the wide types
        switch (type) {
        case 0: return run_long<char>(r, c, dir);
        case 1: return run_long<wchar_t>(r, c, dir);
        case 2: return run_long<char16_t>(r, c, dir);
        default: return run_long<char32_t>(r, c, dir);
        }
    }
    bool directed = mode >= 0xFE;
    bool huge;
    int type;
    if (directed) { huge = mode == 0xFE; type = r.u8() & 3; }
    else {
        // half of the cases are char triples, a quarter wide triples, a quarter huge-length calls
        int kind = mode & 3;
        huge = kind == 3;
        type = kind <= 1 ? 0 : kind == 2 ? 1 + ((mode >> 2) % 3) : ((mode >> 2) & 3);
    }
    switch (type + (huge ? 4 : 0)) {
    case 0: return run_triple<char>(r, c, directed);
    case 1: return run_triple<wchar_t>(r, c, directed);
    case 2: return run_triple<char16_t>(r, c, directed);
    case 3: return run_triple<char32_t>(r, c, directed);
    case 4: return run_huge<char>(r, c, directed);
    case 5: return run_huge<wchar_t>(r, c, directed);
    case 6: return run_huge<char16_t>(r, c, directed);
    default: return run_huge<char32_t>(r, c, directed);
    }
}

// ---- enumerations -----------------------------------------------------------------------------------------------
namespace {

template <class T> Vec<Vec<T>> short_strings(const uint32_t *units, int nu, int maxlen) {
    Vec<Vec<T>> out;
    for (int L = 0; L <= maxlen; L++) {
        long total = 1; for (int i = 0; i < L; i++) total *= nu;
        for (long v = 0; v < total; v++) { Vec<T> s(L); long q = v; for (int i = L - 1; i >= 0; i--) { s[i] = (T)units[q % nu]; q /= nu; } out.push_back(s); }
    }
    return out;
}

struct EnumCtx {
    int shard, nshards; verif::EnumReport &r; std::vector<uint8_t> cur; bool failed = false;
    template <class T> bool pair(int type, const Vec<T> &x, const Vec<T> &y, bool operands, bool states = false) {
        Triple<T> t; t.v[0] = x; t.v[1] = y; t.v[2] = x; t.extra_n = 2;
        cur = encode_triple(type, t); verif::set_current(cur.data(), cur.size());
        r.evaluations++;
        if (nontrivial_pair(x, y)) r.nontrivial++;
        else if constexpr (std::is_same<T, char>::value) { if (fold_only_pair(x, y)) r.nontrivial++; }
        Fail f;
        try {
            check_pair_buffer<T>(x, y, 2, "a", "b", f);
            if constexpr (std::is_same<T, char>::value) {
                if (!f.bad()) check_pair_string(x, y, 2, "a", "b", f);
                if (!f.bad() && operands) check_operand_string(x, "a", f);
            }
            if (!f.bad() && states) f.why = check_states_and_containers<T>(t.v, true);
        } catch (...) { f.why = "unexpected " + verif::describe_current_exception(); }
        if (f.bad()) { fail(f.why, render_triple(t)); return false; }
        return true;
    }
    void fail(const std::string &why, const std::string &text) {
        if (r.failure.empty()) { r.failure = why; r.failing_case = text; r.failing_bytes = cur; }
        failed = true;
    }
    // all ordered pairs (sharded on the left operand) and all triples (matrix of the library's own signs)
    // min_new: pairs whose operands are both shorter were enumerated by an earlier call over a superset alphabet
    template <class T> bool short_domain(int type, const uint32_t *units, int nu, int maxlen, const char *what, size_t min_new = 0) {
        const Vec<Vec<T>> S = short_strings<T>(units, nu, maxlen);
        const int N = (int)S.size();
        for (int i = shard; i < N; i += nshards) for (int j = 0; j < N; j++) {
            if (S[i].size() < min_new && S[j].size() < min_new) continue;
            if (std::is_same<T, char>::value && S[i].size() == 1 && S[j].size() == 1) continue;     // the one-byte sweep has all of these
            if (!pair<T>(type, S[i], S[j], j == 0, (i * 7 + j) % 16 == 0)) return false;
            if (i == shard && shard == type && j == N / 2 + 3) { Triple<T> t; t.v[0] = S[i]; t.v[1] = S[j]; t.v[2] = S[i]; t.extra_n = 2; r.samples.push_back(render_triple(t)); }
        }
        // matrices are cheap (N^2 plain calls): every shard builds them, then checks the triples whose first index it owns
        std::vector<int> Mb((size_t)N * N), Ms, Mi;
        {
            std::vector<ST::buffer<T>> B; B.reserve(N);
            for (int i = 0; i < N; i++) B.emplace_back(S[i].data(), S[i].size());
            for (int i = 0; i < N; i++) for (int j = 0; j < N; j++) Mb[(size_t)i * N + j] = sgn(B[i].compare(B[j]));
            if constexpr (std::is_same<T, char>::value) {
                Ms.resize((size_t)N * N); Mi.resize((size_t)N * N);
                std::vector<ST::string> Z; Z.reserve(N);
                for (int i = 0; i < N; i++) Z.push_back(ST::string::from_validated(B[i].data(), B[i].size()));
                for (int i = 0; i < N; i++) for (int j = 0; j < N; j++) { Ms[(size_t)i * N + j] = sgn(Z[i].compare(Z[j])); Mi[(size_t)i * N + j] = sgn(Z[i].compare_i(Z[j])); }
            }
        }
        auto triples = [&](const std::vector<int> &M, const char *form) -> bool {
            for (int i = shard; i < N; i += nshards) for (int j = 0; j < N; j++) {
                const int ij = M[(size_t)i * N + j];
                for (int k = 0; k < N; k++) {
                    if (ij > 0 || M[(size_t)j * N + k] > 0) continue;
                    int need = (ij < 0 || M[(size_t)j * N + k] < 0) ? -1 : 0;
                    if (M[(size_t)i * N + k] != need) {
                        Triple<T> t; t.v[0] = S[i]; t.v[1] = S[j]; t.v[2] = S[k]; t.extra_n = 2;
                        cur = encode_triple(type, t);
                        fail(std::string(form) + " is not transitive: a<=b, b<=c but sign(compare(a,c)) = " + verif::num(M[(size_t)i * N + k]) + ", needed " + verif::num(need), render_triple(t));
                        return false;
                    }
                }
            }
            return true;
        };
        if (!triples(Mb, "buffer::compare")) return false;
        if constexpr (std::is_same<T, char>::value) { if (!triples(Ms, "string::compare")) return false; if (!triples(Mi, "string::compare_i")) return false; }
        if (shard == 0) r.exhausted.push_back(std::string(tname<T>()) + ": all " + verif::num((long)N * N) + " ordered pairs (every form) and all " + verif::num((long)N * N * N) + " triples (transitivity on the sign matrices) of the " + verif::num(N) + " strings of length <= " +
                                              verif::num(maxlen) + " over " + what);
        return true;
    }
    // long operands on and next to powers of two, differing at the far end, in the middle, at a block boundary, by case, by length
    template <class T> bool long_table(int type) {
        static const uint16_t LL[] = {15, 16, 17, 31, 32, 33, 63, 64, 65, 127, 128, 129, 255, 256, 257, 1023, 1024, 1025, 4095, 4096, 4097, 8191, 8192};
        static const uint32_t PAT[7] = {'a', 'B', 0x80, 'z', 0, 'M', sizeof(T) == 1 ? 0xFFu : sizeof(T) == 2 ? 0xFFFFu : 0x7FFFFFFFu};
        int idx = 0;
        for (uint16_t L : LL) for (int variant = 0; variant < 6; variant++) {
            if ((idx++ % nshards) != shard) continue;
            Triple<T> t;
            Vec<T> x(L);
            for (size_t i = 0; i < L; i++) x[i] = (T)PAT[i % 7];
            Vec<T> y = x, z = x;
            auto bump = [](T &u) { const uint32_t v = ref::ukey(u); u = (T)(v == PAT[6] ? v - 1 : v + 1); };     // another unit, never above the alphabet's top
            const size_t blk = (size_t)(L - 1) & ~(size_t)7;          // last multiple of 8 below L
            switch (variant) {
            case 0: bump(y[L - 1]); z.resize(L - 1); break;                              // last unit differs; proper prefix
            case 1: bump(y[0]); z.push_back((T)0); break;                                // first unit differs; extension by a NUL
            case 2: y[L / 2] = (T)0; z[L / 2 + 1] = clampT<T>(ref::ukey(z[L / 2 + 1]) ^ (sizeof(T) == 1 ? 0x80u : 0x8000u)); break;
            case 3: for (T &u : y) { uint32_t v = ref::ukey(u); if ((v >= 'A' && v <= 'Z') || (v >= 'a' && v <= 'z')) u = (T)(v ^ 0x20); }    // all letters flipped
                    for (size_t i = L; i-- > 0;) { uint32_t v = ref::ukey(z[i]); if ((v >= 'A' && v <= 'Z') || (v >= 'a' && v <= 'z')) { z[i] = (T)(v ^ 0x20); break; } } break;   // last letter flipped
            case 4: bump(y[L - 2]); break;                                               // z stays an equal copy
            default: bump(y[blk]); if (blk) bump(z[blk - 1]); else z.push_back((T)'a'); break;
            }
            t.v[0] = x; t.v[1] = y; t.v[2] = z; t.extra_n = L - 1;
            cur = encode_long(type, t); verif::set_current(cur.data(), cur.size());
            r.evaluations++; r.nontrivial++;
            std::string why = check_triple(t);
            if (!why.empty()) { fail(why, render_triple(t)); return false; }
            if (L == 257 && variant == 0 && type == 0) r.samples.push_back(render_triple(t));
        }
        if (shard == 0) r.exhausted.push_back(std::string(tname<T>()) + ": triples of long operands of 15..8192 units (on and next to powers of two) differing in the last / first / middle / block-boundary unit, by case, by one unit of length, plus an equal copy - every form, pre-states, containers");
        return true;
    }
    // the literal macros and literal operators (contents fixed at compile time): NUL and bytes >= 0x80 inside, every pair, every form
    bool literal_table() {
        using namespace ST::literals;
        if (shard != 0) return true;
        {
            const ST::string L[] = {ST_LITERAL(""), ST_LITERAL("a"), ST_LITERAL("A"), ST_LITERAL("a\0b"), ST_LITERAL("a\0B"), ST_LITERAL("a\0"), ST_LITERAL("\xC3\xA9"), ST_LITERAL("\xC3\x89"),
                                    "a\0b"_st, "Z\xFF"_st, u8"z\u00FF"_st, ST_LITERAL("0123456789abcdef"), "0123456789ABCDEF"_st, ST_LITERAL("0123456789abcdef\0")};
            const int N = (int)(sizeof L / sizeof L[0]);
            for (int i = 0; i < N; i++) for (int j = 0; j < N; j++) {
                const Vec<char> x(L[i].c_str(), L[i].c_str() + L[i].size()), y(L[j].c_str(), L[j].c_str() + L[j].size());
                if (!pair<char>(0, x, y, true, true)) return false;
                Fail f;
                const int want = ref::cmp(x.data(), x.size(), y.data(), y.size());
                f.sign(L[i].compare(L[j]), want, "string::compare(string) on literal-made strings", "a", "b");
                f.truth(L[i] == L[j], want == 0, "string == string on literal-made strings", "a", "b");
                f.truth(L[i] < L[j], want < 0, "string < string on literal-made strings", "a", "b");
                f.truth(L[i].compare_i(L[j]) == 0, ref::fold_equal(x.data(), x.size(), y.data(), y.size()), "string::compare_i == 0 on literal-made strings", "a", "b");
                f.truth(want != 0 || ST::hash()(L[i]) == ST::hash()(L[j]), true, "hash equal for equal literal-made strings", "a", "b");
                if (f.bad()) { Triple<char> t; t.v[0] = x; t.v[1] = y; t.v[2] = x; fail(f.why, render_triple(t)); return false; }
            }
        }
        auto buffers = [&](auto &B, int type, const char *what) -> bool {
            typedef typename std::remove_reference<decltype(B[0])>::type Buf; typedef typename Buf::value_type T;
            const int N = 6;
            for (int i = 0; i < N; i++) for (int j = 0; j < N; j++) {
                const Vec<T> x(B[i].data(), B[i].data() + B[i].size()), y(B[j].data(), B[j].data() + B[j].size());
                if (!pair<T>(type, x, y, false, true)) return false;
                Fail f;
                const int want = ref::cmp(x.data(), x.size(), y.data(), y.size());
                f.sign(B[i].compare(B[j]), want, what, "a", "b");
                f.truth(B[i] == B[j], want == 0, what, "a", "b");
                f.truth(B[i] != B[j], want != 0, what, "a", "b");
                f.truth(B[i] < B[j], want < 0, what, "a", "b");
                if (f.bad()) { Triple<T> t; t.v[0] = x; t.v[1] = y; t.v[2] = x; fail(f.why, render_triple(t)); return false; }
            }
            return true;
        };
        const ST::char_buffer C[] = {ST_CHAR_LITERAL(""), ST_CHAR_LITERAL("a\0b"), ST_CHAR_LITERAL("a\0"), "a\0B"_stbuf, u8"\u00E9"_stbuf, ST_CHAR_LITERAL("0123456789abcdefg")};
        const ST::wchar_buffer W[] = {ST_WCHAR_LITERAL(""), ST_WCHAR_LITERAL("a\0b"), ST_WCHAR_LITERAL("a\0"), L"a\0B"_stbuf, L"\u00E9"_stbuf, ST_WCHAR_LITERAL("0123456789abc")};
        const ST::utf16_buffer U[] = {ST_UTF16_LITERAL(""), ST_UTF16_LITERAL("a\0b"), ST_UTF16_LITERAL("a\0"), u"a\0B"_stbuf, u"\uFFFF"_stbuf, ST_UTF16_LITERAL("0123456789abcdefg")};
        const ST::utf32_buffer V[] = {ST_UTF32_LITERAL(""), ST_UTF32_LITERAL("a\0b"), ST_UTF32_LITERAL("a\0"), U"a\0B"_stbuf, U"\U0010FFFF"_stbuf, ST_UTF32_LITERAL("0123456789abc")};
        if (!buffers(C, 0, "char_buffer made by ST_CHAR_LITERAL / _stbuf") || !buffers(W, 1, "wchar_buffer made by ST_WCHAR_LITERAL / _stbuf") ||
            !buffers(U, 2, "utf16_buffer made by ST_UTF16_LITERAL / _stbuf") || !buffers(V, 3, "utf32_buffer made by ST_UTF32_LITERAL / _stbuf")) return false;
        r.exhausted.push_back("strings and buffers made by ST_LITERAL, ST_CHAR/WCHAR/UTF16/UTF32_LITERAL and the _st / _stbuf literal operators (NUL inside, bytes >= 0x80, 16+ units): all ordered pairs, every form, pre-states, containers");
        return true;
    }
    template <class T> bool huge_table(int type) {
        static const uint32_t A[][3] = {{0, 0, 0}, {'a', 0, 0}, {'a', 'b', 0}, {'A', 'b', 0}, {'a', 0x80, 0}, {'a', 'b', 'c'}};
        static const int AL[] = {0, 1, 2, 2, 2, 3};
        int idx = 0;
        for (int x = 0; x < 6; x++) for (int y = 0; y < 6; y++) for (int ia = 0; ia < N_HUGE; ia++) for (int ib = 0; ib < N_HUGE; ib++) {
            if ((idx++ % nshards) != shard) continue;
            Huge<T> h; h.ia = ia; h.ib = ib;
            for (int i = 0; i < AL[x]; i++) h.a.push_back((T)A[x][i]);
            for (int i = 0; i < AL[y]; i++) h.b.push_back((T)A[y][i]);
            if (ia && !ib && h.b.size() > h.a.size()) h.b.resize(h.a.size());
            if (ib && !ia && h.a.size() > h.b.size()) h.a.resize(h.b.size());
            cur = encode_huge(type, h); verif::set_current(cur.data(), cur.size());
            r.evaluations++;
            size_t la = huge_len(ia, h.a.size()), lb = huge_len(ib, h.b.size());
            if ((la > lb ? la - lb : lb - la) >= ((size_t)1 << 31) || nontrivial_pair(h.a, h.b)) r.nontrivial++;
            std::string why = check_huge(h);
            if (!why.empty()) { fail(why, render_huge(h)); return false; }
            if (x == 2 && y == 1 && ia == 3 && ib == 0) r.samples.push_back(render_huge(h));
        }
        if (shard == 0) r.exhausted.push_back(std::string(tname<T>()) + ": static compare, 6x6 short contents x 8x8 declared lengths {k, 2^31-1+k, 2^31+k, 2^32+k, SIZE_MAX, 2^32-1+k, 2^63+k, 3*2^32+k} x prefix limits, both operand orders");
        return true;
    }
};

}  // namespace

long verif_enumerate(int shard, int nshards, int tier, verif::EnumReport &r) {
    EnumCtx e{shard, nshards, r, {}, false};
    // huge lengths first: tiny, and the size arithmetic is where the shipped defect was
    if (!e.huge_table<char>(0) || !e.huge_table<wchar_t>(1) || !e.huge_table<char16_t>(2) || !e.huge_table<char32_t>(3)) return r.evaluations;
    if (!e.literal_table()) return r.evaluations;
    if (!e.long_table<char>(0) || !e.long_table<wchar_t>(1) || !e.long_table<char16_t>(2) || !e.long_table<char32_t>(3)) return r.evaluations;
    // all pairs of one-byte strings: the whole fold table, signedness of every byte
    {
        for (int a = shard; a < 256; a += nshards) for (int b = 0; b < 256; b++) {
            Vec<char> x(1, (char)a), y(1, (char)b);
            if (!e.pair<char>(0, x, y, b == 0, a == b || (a * 5 + b) % 32 == 0)) return r.evaluations;
            Vec<char> x2 = {'m', (char)a, 'Q'}, y2 = {'M', (char)b};
            if (!e.pair<char>(0, x2, y2, false)) return r.evaluations;
        }
        if (shard == 0) r.exhausted.push_back("char: all 65536 ordered pairs of one-byte strings, and of \"m\"+x+\"Q\" against \"M\"+y (every form, case-insensitive forms included)");
    }
    static const uint32_t c5[] = {0x00, 0x41, 0x61, 0x80, 0xFF, 0x5A, 0x7B, 0x40};
    if (!e.short_domain<char>(0, c5, 8, 3, "{00,41,61,80,FF,5A,7B,40}")) return r.evaluations;
    if (!e.short_domain<char>(0, c5, tier ? 7 : 6, 4, tier ? "{00,41,61,80,FF,5A,7B}" : "{00,41,61,80,FF,5A}", 4)) return r.evaluations;
    static const uint32_t w5[] = {0x00, 0x41, 0x80, 0xFFFF, 0x7FFFFFFF, 0x10000};
    if (!e.short_domain<wchar_t>(1, w5, 6, tier ? 4 : 3, "{0,41,80,FFFF,7FFFFFFF,10000}")) return r.evaluations;
    static const uint32_t h5[] = {0x00, 0x41, 0x7FFF, 0x8000, 0xFFFF, 0xD800};
    if (!e.short_domain<char16_t>(2, h5, 6, tier ? 4 : 3, "{0,41,7FFF,8000,FFFF,D800}")) return r.evaluations;
    static const uint32_t u5[] = {0x00, 0x41, 0x7FFFFFFF, 0x80000000u, 0xFFFFFFFFu, 0xFFFF};
    if (!e.short_domain<char32_t>(3, u5, 6, tier ? 4 : 3, "{0,41,7FFFFFFF,80000000,FFFFFFFF,FFFF}")) return r.evaluations;
    return r.evaluations;
}

void verif_corpus(std::vector<std::vector<uint8_t>> &out) {
    Triple<char> t; t.v[0] = {'a', 'b', 'c'}; t.v[1] = {'a', 'b', 'C'}; t.v[2] = {'a', 'b'};
    out.push_back(encode_triple(0, t));
    Huge<char> h; h.ia = 3; h.ib = 0;            // compare("",2^32, "",0): the shipped size-difference defect
    out.push_back(encode_huge(0, h));
    out.push_back({0x00, 1, 3, 0, 1, 2, 3, 2, 1, 0, 3, 0, 1, 0, 5});
    out.push_back({0x03, 2, 1, 2, 0, 1, 1, 1, 0});
}
