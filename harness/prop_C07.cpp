// C07: searching returns exactly the first/last occurrence for any haystack and needle.
// find / find_last / contains / starts_with / ends_with of ST::string, every needle form
// (char, const char*, (pointer,length), ST::string), both case modes, against ref/ref_text.h.
#include <string_theory/string>

#include "common/verif.h"
#include "gen/gen_text.h"
#include "ref/ref_text.h"

using verif::Case;

// Local workaround (see report): with the driver's ASAN_OPTIONS the allocation-stack depot grows by ~2 KB per
// rapidcheck case (deep, ever-different generator stacks) and the 256 MB quarantine adds ~1 GB of RSS, so a
// 2 M-case process reaches 4-5 GB and gets OOM-killed on the shared machine.  Options given in the environment
// still override these defaults.
extern "C" const char *__asan_default_options() { return "quarantine_size_mb=32:malloc_context_size=4"; }

const verif::Info verif_info = {
    "C07", 160,
    "one case = (haystack, needle, start, limit), executed in both case modes through every needle form. Enumerated: every haystack "
    "of length <= 6 over {a,b,A} and over {a,NUL,A} x every needle of length 1..3 over the same alphabet x start=limit in 0..len+1 and "
    "SIZE_MAX. Generated: haystacks of 0..40 bytes (size classes 0, 1-14, 15/16 = small-string limit, 17+) over {a b A B NUL e-acute euro}, "
    "{a b A}, an extended alphabet (E-acute, 4-byte character, @ ` [ { = neighbours of the letter range) or raw bytes; needles cut out of "
    "the haystack (optionally case-flipped, last byte altered, extended past the end, the whole haystack, haystack+1 symbol), unrelated, "
    "single arbitrary byte, empty, null; start/limit inside, at, beyond the end, SIZE_MAX, and aimed at the first/last occurrence. "
    "Oracle: naive scan with ASCII-only fold; -1 for empty/null needle or start >= size; find_last = largest i with i+|n| <= min(limit,size); "
    "contains <=> find >= 0; starts_with/ends_with by direct comparison (true for empty/null text); const char* forms are compared on "
    "the needle truncated at its first NUL, all other forms on the full bytes. Non-trivial: in either case mode the needle occurs >= 2 "
    "times, or two occurrences overlap, or a first-byte hit fails later, or an occurrence straddles start or limit, or a proper prefix of "
    "the needle runs past the end of the haystack.",
    true, "exploration"};

namespace {

typedef long long ll;

struct SearchCase {
    std::string hay, needle;
    bool null_needle = false;      // needle presented as a null pointer (needle is then empty)
    size_t start = 0, limit = (size_t)-1;
};

// Everything the library is handed, built once per (haystack, needle): exact-size heap copies.
struct Forms {
    verif::Exact<char> hx;         // source of the haystack
    ST::string hs, ns;
    verif::Exact<char> pl;         // (pointer,length) form: exactly n bytes, no terminator
    verif::Exact<char> cz;         // C string form: n bytes + NUL (the library sees it cut at the first NUL)
    std::string cview;             // what the C string form can see
    const char *plp, *czp;
    Forms(const SearchCase &k)
        : hx(k.hay), hs(ST::string::from_validated(hx.data(), hx.size())), ns(ST::string::from_validated(k.needle.data(), k.needle.size())),
          pl(k.needle, false), cz(k.needle, true), cview(ref::c_view(k.needle)),
          plp(k.null_needle ? nullptr : pl.data()), czp(k.null_needle ? nullptr : cz.data()) {}
};

std::string mismatch(const char *what, ll got, ll want, bool ci) {
    return std::string(what) + (ci ? " [case_insensitive]" : " [case_sensitive]") + " returned " + verif::num(got) + ", reference " + verif::num(want);
}

#define WANT(call, want, what) \
    do { ll g_ = (ll)(call); ll w_ = (ll)(want); if (g_ != w_) return mismatch(what, g_, w_, ci); } while (0)

// All search operations of one case in one case mode.  Empty result = property holds.
std::string check_mode(const SearchCase &k, const Forms &f, bool ci) {
    const std::string &H = k.hay, &N = k.needle, &C = f.cview;
    const ST::case_sensitivity_t cs = ci ? ST::case_insensitive : ST::case_sensitive;
    const size_t st = k.start, lim = k.limit, n = N.size();
    const ST::string &hs = f.hs;

    // model, full needle
    const ll mf = ref::find(H, st, N, ci), mf0 = ref::find(H, 0, N, ci);
    const ll ml = ref::find_last(H, lim, N, ci), mla = ref::find_last(H, (size_t)-1, N, ci);
    // model, needle as a C string sees it
    const ll cf = ref::find(H, st, C, ci), cf0 = ref::find(H, 0, C, ci);
    const ll cl = ref::find_last(H, lim, C, ci), cla = ref::find_last(H, (size_t)-1, C, ci);

    // ST::string form
    WANT(hs.find(st, f.ns, cs), mf, "find(start, ST::string)");
    WANT(hs.find(f.ns, cs), mf0, "find(ST::string)");
    WANT(hs.find_last(lim, f.ns, cs), ml, "find_last(limit, ST::string)");
    WANT(hs.find_last(f.ns, cs), mla, "find_last(ST::string)");
    WANT(hs.contains(f.ns, cs), mf0 >= 0, "contains(ST::string)");
    WANT(hs.starts_with(f.ns, cs), ref::starts_with(H, N, ci), "starts_with(ST::string)");
    WANT(hs.ends_with(f.ns, cs), ref::ends_with(H, N, ci), "ends_with(ST::string)");

    // (pointer,length) form; a null pointer only with length 0
    WANT(hs.find(st, f.plp, n, cs), mf, "find(start, ptr, len)");
    WANT(hs.find(f.plp, n, cs), mf0, "find(ptr, len)");
    WANT(hs.find_last(lim, f.plp, n, cs), ml, "find_last(limit, ptr, len)");
    WANT(hs.find_last(f.plp, n, cs), mla, "find_last(ptr, len)");
    WANT(hs.contains(f.plp, n, cs), mf0 >= 0, "contains(ptr, len)");

    // const char* form
    WANT(hs.find(st, f.czp, cs), cf, "find(start, const char*)");
    WANT(hs.find(f.czp, cs), cf0, "find(const char*)");
    WANT(hs.find_last(lim, f.czp, cs), cl, "find_last(limit, const char*)");
    WANT(hs.find_last(f.czp, cs), cla, "find_last(const char*)");
    WANT(hs.contains(f.czp, cs), cf0 >= 0, "contains(const char*)");
    WANT(hs.starts_with(f.czp, cs), ref::starts_with(H, C, ci), "starts_with(const char*)");
    WANT(hs.ends_with(f.czp, cs), ref::ends_with(H, C, ci), "ends_with(const char*)");

    // char form (any byte, NUL included: a one-byte needle)
    if (n == 1) {
        const char ch = N[0];
        WANT(hs.find(st, ch, cs), mf, "find(start, char)");
        WANT(hs.find(ch, cs), mf0, "find(char)");
        WANT(hs.find_last(lim, ch, cs), ml, "find_last(limit, char)");
        WANT(hs.find_last(ch, cs), mla, "find_last(char)");
        WANT(hs.contains(ch, cs), mf0 >= 0, "contains(char)");
    }

    // the default case mode is the case-sensitive one
    if (!ci) {
        WANT(hs.find(st, f.ns), mf, "find(start, ST::string) default mode");
        WANT(hs.find_last(lim, f.ns), ml, "find_last(limit, ST::string) default mode");
        WANT(hs.find(st, f.plp, n), mf, "find(start, ptr, len) default mode");
        WANT(hs.find_last(lim, f.plp, n), ml, "find_last(limit, ptr, len) default mode");
        WANT(hs.find(st, f.czp), cf, "find(start, const char*) default mode");
        WANT(hs.find_last(lim, f.czp), cl, "find_last(limit, const char*) default mode");
        WANT(hs.contains(f.ns), mf0 >= 0, "contains(ST::string) default mode");
        WANT(hs.starts_with(f.ns), ref::starts_with(H, N, false), "starts_with(ST::string) default mode");
        WANT(hs.ends_with(f.czp), ref::ends_with(H, C, false), "ends_with(const char*) default mode");
        if (n == 1) {
            WANT(hs.find(st, N[0]), mf, "find(start, char) default mode");
            WANT(hs.find_last(lim, N[0]), ml, "find_last(limit, char) default mode");
        }
    }
    return std::string();
}

std::string check_case(const SearchCase &k, const Forms &f) {
    try {
        std::string why = check_mode(k, f, false);
        if (why.empty()) why = check_mode(k, f, true);
        return why;
    } catch (...) {
        return "unexpected " + verif::describe_current_exception();
    }
}

// the property's non-triviality rule, in either case mode
struct Why { bool multi = false, overlap = false, false_start = false, straddle_start = false, straddle_limit = false, past_end = false;
             bool any() const { return multi || overlap || false_start || straddle_start || straddle_limit || past_end; } };
Why classify(const SearchCase &k) {
    Why w;
    if (k.needle.empty()) return w;
    for (int m = 0; m < 2; m++) {
        bool ci = m != 0;
        if (ref::count_occurrences(k.hay, k.needle, ci) >= 2) w.multi = true;
        if (ref::has_overlapping_occurrences(k.hay, k.needle, ci)) w.overlap = true;
        if (ref::has_false_start(k.hay, k.needle, ci)) w.false_start = true;
        if (ref::occurrence_straddles(k.hay, k.needle, ci, k.start)) w.straddle_start = true;
        if (ref::occurrence_straddles(k.hay, k.needle, ci, k.limit)) w.straddle_limit = true;
        if (ref::prefix_runs_past_end(k.hay, k.needle, ci)) w.past_end = true;
    }
    return w;
}

std::string pos(size_t v) {
    if (v == (size_t)-1) return "SIZE_MAX";
    if (v > ((size_t)-1) - 1000) return "SIZE_MAX-" + verif::unum(((size_t)-1) - v);
    return verif::unum(v);
}
std::string render(const SearchCase &k) {
    std::string o = "C07 hay=" + verif::quoted(k.hay) + "[" + verif::unum(k.hay.size()) + "] needle=" +
                    (k.null_needle ? std::string("null") : verif::quoted(k.needle)) + " start=" + pos(k.start) + " limit=" + pos(k.limit) +
                    " forms={string,ptrlen,cstr" + (k.needle.size() == 1 ? ",char}" : "}");
    o += " -> find " + verif::num(ref::find(k.hay, k.start, k.needle, false)) + "/ci " + verif::num(ref::find(k.hay, k.start, k.needle, true));
    o += " find_last " + verif::num(ref::find_last(k.hay, k.limit, k.needle, false)) + "/ci " + verif::num(ref::find_last(k.hay, k.limit, k.needle, true));
    o += std::string(" starts ") + (ref::starts_with(k.hay, k.needle, false) ? "1" : "0") + " ends " + (ref::ends_with(k.hay, k.needle, false) ? "1" : "0") + " (model)";
    return o;
}

void put64(std::vector<uint8_t> &v, uint64_t x) { for (int i = 0; i < 8; i++) v.push_back((uint8_t)(x >> (8 * i))); }
// directed encoding understood by verif_case (first byte 0xFF)
std::vector<uint8_t> encode(const SearchCase &k) {
    std::vector<uint8_t> v;
    v.push_back(0xFF); v.push_back((uint8_t)k.hay.size()); v.push_back((uint8_t)k.needle.size()); v.push_back(k.null_needle ? 1 : 0);
    put64(v, k.start); put64(v, k.limit);
    v.insert(v.end(), k.hay.begin(), k.hay.end());
    v.insert(v.end(), k.needle.begin(), k.needle.end());
    return v;
}

size_t pick_position(unsigned sel, unsigned v, size_t size, ll anchor, size_t nlen, bool is_limit) {
    switch (sel) {
        case 0: return is_limit ? (size_t)-1 : 0;
        case 1: return v % (size + 2);
        case 2: return size;
        case 3: return size + 1;
        case 4: return is_limit ? 0 : (size_t)-1;
        case 5: return size ? size - 1 : 0;
        case 6:   // aimed at the first (start) / last (limit) occurrence: just before, inside, at its end, after
            if (anchor < 0) return v % (size + 2);
            return is_limit ? (size_t)anchor + v % (nlen + 2) : (size_t)(anchor + (ll)(v % (nlen + 2))) - ((size_t)anchor > 0 ? 1 : 0);
        default: return ((size_t)-1) - v;     // within 255 of SIZE_MAX
    }
}

}  // namespace

int verif_case(const uint8_t *data, size_t size, Case &c) {
    verif::Reader r(data, size, c);
    SearchCase k;
    uint8_t mode = r.u8();
    if (mode == 0xFF) {
        size_t hl = r.u8(), nl = r.u8();
        k.null_needle = (r.u8() & 1) != 0;
        k.start = (size_t)r.bits64(); k.limit = (size_t)r.bits64();
        for (size_t i = 0; i < hl; i++) k.hay += (char)r.u8();
        for (size_t i = 0; i < nl; i++) k.needle += (char)r.u8();
        if (!k.needle.empty()) k.null_needle = false;
        c.label("directed");
    } else {
        // structural choices first, content afterwards
        gen::Plan hp = gen::plan(r, 40, 2);
        unsigned nm = (unsigned)r.range(0, 11);
        unsigned np1 = r.u8(), np2 = r.u8();
        unsigned ssel = (unsigned)r.range(0, 7), sv = r.u8();
        unsigned lsel = (unsigned)r.range(0, 7), lv = r.u8();
        gen::Text ht = gen::fill_text(r, hp);
        k.hay = ht.bytes;
        const std::string &H = k.hay;
        const size_t hs = H.size();
        auto cut = [&](size_t maxlen) {
            if (!hs) return std::string();
            size_t p = np1 % hs, l = 1 + np2 % maxlen;
            return H.substr(p, l);
        };
        switch (nm) {
            case 0: k.needle = cut(4); break;
            case 1: k.needle = gen::flip_case(cut(4), r.bits32() | 1u); break;
            case 2: { size_t tail = 1 + np2 % 3; if (tail > hs) tail = hs;             // straddles the end
                      k.needle = H.substr(hs - tail); gen::append_sym(r, k.needle, 4, ht.alpha); if (np1 & 1) gen::append_sym(r, k.needle, 4, ht.alpha); break; }
            case 3: k.needle = H; break;                                                  // equals the whole haystack
            case 4: k.needle = H; gen::append_sym(r, k.needle, 4, ht.alpha); break;      // longer than the haystack
            case 5: k.needle = gen::fill(r, 1 + np1 % 3, ht.alpha); break;              // unrelated
            case 6: k.needle = hs ? std::string(1, H[np1 % hs]) : std::string(); break;  // one byte of the haystack: char form
            case 7: break;                                                                // empty
            case 8: k.null_needle = true; break;                                          // null
            case 9: { k.needle = cut(4); if (!k.needle.empty()) { std::string alt; gen::append_sym(r, alt, 1, ht.alpha); k.needle[k.needle.size() - 1] = alt[0]; } break; }
            case 10: k.needle = cut(8); break;
            default: k.needle = std::string(1, (char)r.u8()); break;                     // one arbitrary byte: char form
        }
        if (np2 & 0x80 && !k.needle.empty() && nm != 1) k.needle = gen::flip_case(k.needle, np1 | 0x100u);
        ll first = ref::find(H, 0, k.needle, (np1 & 2) != 0), last = ref::find_last(H, (size_t)-1, k.needle, (np1 & 2) != 0);
        k.start = pick_position(ssel, sv, hs, first, k.needle.size(), false);
        k.limit = pick_position(lsel, lv, hs, last, k.needle.size(), true);

        c.label(gen::size_label(hs));
        if (gen::has_nul(H)) c.label("hay:has-NUL");
        if (ht.alpha == gen::A_RAW) c.label("hay:raw-bytes"); else if (gen::has_high(H)) c.label("hay:multibyte");
        c.label(k.null_needle ? "needle:null" : k.needle.empty() ? "needle:empty" : k.needle.size() == 1 ? "needle:1-byte(char form)" : "needle:2+bytes");
        if (!k.needle.empty() && k.needle == H) c.label("needle:whole-haystack"); else if (k.needle.size() > hs) c.label("needle:longer-than-haystack");
        if (gen::has_nul(k.needle)) c.label("needle:has-NUL");
    }
    Why w = classify(k);
    c.nontrivial = w.any();
    if (w.multi) c.label("nt:occurs>=2");
    if (w.overlap) c.label("nt:overlapping-occurrences");
    if (w.false_start) c.label("nt:first-byte-hit-fails-later");
    if (w.straddle_start || w.straddle_limit) c.label("nt:occurrence-straddles-start/limit");
    if (w.past_end) c.label("nt:prefix-runs-past-end");
    if (mode != 0xFF) {
        c.label(k.start == (size_t)-1 ? "start:SIZE_MAX" : k.start > k.hay.size() ? "start:past-end" : k.start == k.hay.size() ? "start:at-end" : "start:inside");
        c.label(k.limit == (size_t)-1 ? "limit:SIZE_MAX" : k.limit > k.hay.size() ? "limit:past-end" : k.limit == k.hay.size() ? "limit:at-end" : "limit:inside");
        if (ref::find(k.hay, k.start, k.needle, true) >= 0 && ref::find(k.hay, k.start, k.needle, false) != ref::find(k.hay, k.start, k.needle, true)) c.label("ci-answer-differs");
    }
    if (c.want_text) c.text = render(k);
    Forms f(k);
    std::string why = check_case(k, f);
    if (!why.empty()) return c.fail(why);
    return verif::CASE_OK;
}

// Bounded-exhaustive part.  Shards split on the haystack index.
long verif_enumerate(int shard, int nshards, int tier, verif::EnumReport &r) {
    (void)tier;   // the whole domain is enumerated in both tiers (a few seconds over 16 shards)
    static const char ALPHA[2][3] = {{'a', 'b', 'A'}, {'a', '\0', 'A'}};
    std::vector<std::string> hays[2], needles[2];
    for (int al = 0; al < 2; al++) {
        for (int len = 0; len <= 6; len++) {
            int total = 1; for (int i = 0; i < len; i++) total *= 3;
            for (int x = 0; x < total; x++) {
                std::string s; int y = x;
                for (int i = 0; i < len; i++) { s += ALPHA[al][y % 3]; y /= 3; }
                hays[al].push_back(s);
                if (len >= 1 && len <= 3) needles[al].push_back(s);
            }
        }
    }
    std::vector<uint8_t> cur;
    for (int al = 0; al < 2; al++) {
        for (size_t hi = (size_t)shard; hi < hays[al].size(); hi += (size_t)nshards) {
            for (const std::string &nd : needles[al]) {
                SearchCase k; k.hay = hays[al][hi]; k.needle = nd;
                Forms f(k);
                const size_t len = k.hay.size();
                for (size_t vi = 0; vi <= len + 2; vi++) {
                    size_t v = vi <= len + 1 ? vi : (size_t)-1;
                    k.start = v; k.limit = v;
                    cur = encode(k); verif::set_current(cur.data(), cur.size());
                    r.evaluations++;
                    if (classify(k).any()) r.nontrivial++;
                    std::string why = check_case(k, f);
                    if (!why.empty()) {
                        if (r.failure.empty()) { r.failure = why; r.failing_case = render(k); r.failing_bytes = cur; }
                        return r.evaluations;
                    }
                    if (r.samples.empty() && hi % 197 == 45 && nd.size() == 2 + (size_t)(shard & 1) && vi == 1 + (size_t)(shard % 3) && classify(k).any()) r.samples.push_back(render(k));
                }
            }
        }
    }
    if (shard == 0) {
        r.exhausted.push_back("every haystack of length <= 6 over {a,b,A} (1093) x every needle of length 1..3 over {a,b,A} (39) x start=limit in 0..len+1 and SIZE_MAX, both case modes, all needle forms");
        r.exhausted.push_back("the same over the alphabet {a,NUL,A} (NUL inside haystack and needle; C string forms see the needle cut at its first NUL)");
    }
    return r.evaluations;
}

void verif_corpus(std::vector<std::vector<uint8_t>> &out) {
    SearchCase k; k.hay = "aaab"; k.needle = "aab"; out.push_back(encode(k));
    k.hay = std::string("xx\0yy\0zz", 8); k.needle = std::string("\0z", 2); k.limit = 7; out.push_back(encode(k));
    k.hay = "Hello World hello"; k.needle = "HELLO"; k.start = 1; k.limit = 16; out.push_back(encode(k));
    out.push_back({1, 2, 3, 4, 5, 6, 7, 8, 9, 10, 11, 12, 13, 14, 15, 16});
}
