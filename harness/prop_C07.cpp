// C07: searching returns exactly the first/last occurrence for any haystack and needle.
// find / find_last / contains / starts_with / ends_with of ST::string, every needle form
// (char, const char*, (pointer,length), ST::string), both case modes, against ref/ref_text.h.
#include <string_theory/string>

#include "common/verif.h"
#include "gen/gen_text.h"
#include "ref/ref_text.h"

using verif::Case;

// Local workaround (see report): with the driver's ASAN_OPTIONS the allocation-stack depot grows by ~2 KB per
// rapidcheck case (deep, ever-different generator stacks) and the 256 MB quarantine adds ~1 GB of RSS, so a
// 2 M-case process reaches 4-5 GB and gets OOM-killed on the shared machine.  Options given in the environment
// still override these defaults.
extern "C" const char *__asan_default_options() { return "quarantine_size_mb=32:malloc_context_size=4"; }

const verif::Info verif_info = {
    "C07", 160,
    "one case = (haystack, needle, start, limit), executed in both case modes through every needle form. Enumerated: every haystack "
    "of length <= 6 over {a,b,A} and over {a,NUL,A} x every needle of length 1..3 over the same alphabet x start=limit in 0..len+1 and "
    "SIZE_MAX. Generated: haystacks of 0..40 bytes (size classes 0, 1-14, 15/16 = small-string limit, 17+) over {a b A B NUL e-acute euro}, "
    "{a b A}, an extended alphabet (E-acute, 4-byte character, @ ` [ { = neighbours of the letter range) or raw bytes; needles cut out of "
    "the haystack (optionally case-flipped, last byte altered, extended past the end, the whole haystack, haystack+1 symbol), unrelated, "
    "single arbitrary byte, empty, null; start/limit inside, at, beyond the end, SIZE_MAX, and aimed at the first/last occurrence. "
    "Oracle: naive scan with ASCII-only fold; -1 for empty/null needle or start >= size; find_last = largest i with i+|n| <= min(limit,size); "
    "contains <=> find >= 0; starts_with/ends_with by direct comparison (true for empty/null text); const char* forms are compared on "
    "the needle truncated at its first NUL, all other forms on the full bytes. Non-trivial: in either case mode the needle occurs >= 2 "
    "times, or two occurrences overlap, or a first-byte hit fails later, or an occurrence straddles start or limit, or a proper prefix of "
    "the needle runs past the end of the haystack. Extension: every case also runs ALL char8_t overloads (find/find_last/contains with (pointer,length) and C string, starts_with/ends_with) against the same "
    "model as their const char* siblings, and every overload in the default case mode; new needle kinds: a lone lead byte / the head of a multi-byte character cut short / continuation bytes only (not well-formed UTF-8 "
    "on their own). Long haystacks (first byte FE or F8: 41..8192 bytes; F9..FC: 8..48 KB; FD: directed, explicit content): periodic background (period 1..8 over {a b A B c NUL e-acute euro z Z @ [ `}), needle of 2..3000 bytes "
    "(lengths 17, 31/32/33, 63/64/65, 127/128, 255/256/257, 511/512, 1023/1024/1025, 1500, 2047/2048, 3000 or drawn) that is a chunk of the background with one foreign breaker byte late or early (a partial match at every period, "
    "overlapping the real match), a foreign text (optionally with an embedded NUL), or a pure chunk (dense overlapping occurrences; <= 300 in <= 1200 bytes), planted 0..3 times: exactly at the end, at 0, anywhere, one before the end, with "
    "0..len of its bytes before the edge of block 1..3 of 64/256/1024/4096/16384/16386 bytes counted from the start or from the END, adjacent to / overlapping the previous plant, as a near miss, case-flipped; start in {0, first occurrence -1/+0/+1, "
    "last occurrence, size-len, drawn, size-1, size, size+1, SIZE_MAX}, limit in {SIZE_MAX, last occurrence + len (just fits) / + len-1 / + any offset inside it / + 0, size, drawn, size-1, size+1, 0}. The model for long cases is the list of all occurrences "
    "(one naive pass per needle view and case mode); haystacks above 8 KB run a rotating selection of the overloads. Enumerated: for needles of 17..3000 bytes EVERY offset of start inside the first and of limit inside the last occurrence (the last one exactly at the end), "
    "sparse and dense layouts; and 49152/40001-byte haystacks whose only/last occurrence of a 2/3/4-byte character, a 2-byte and an 18-byte needle straddles a 4096/16384/16386-byte block edge counted from either end at every split.",
    true, "exploration"};

namespace {

typedef long long ll;

struct SearchCase {
    std::string hay, needle;
    bool null_needle = false;      // needle presented as a null pointer (needle is then empty)
    size_t start = 0, limit = (size_t)-1;
};

// Everything the library is handed, built once per (haystack, needle): exact-size heap copies.
struct Forms {
    verif::Exact<char> hx;         // source of the haystack
    ST::string hs, ns;
    verif::Exact<char> pl;         // (pointer,length) form: exactly n bytes, no terminator
    verif::Exact<char> cz;         // C string form: n bytes + NUL (the library sees it cut at the first NUL)
    std::string cview;             // what the C string form can see
    const char *plp, *czp;
    const char8_t *pl8, *cz8;      // the same two blocks seen through the char8_t overloads
    // A second haystack object with the same contents but stale bytes behind its terminator (only possible while the text fits the
    // in-object array): a buffer that held needle-like text, was copy-assigned a long one, then allocate(n)'d and refilled.
    bool has2 = false; ST::string hs2;
    void make_stale(const SearchCase &k) {
        if (k.hay.size() + 1 >= (size_t)ST_MAX_SSO_LENGTH) return;
        char junk[ST_MAX_SSO_LENGTH];
        const size_t jn = ST_MAX_SSO_LENGTH - 1;
        for (size_t i = 0; i < jn; i++) junk[i] = k.needle.empty() ? 'a' : k.needle[i % k.needle.size()];
        ST::char_buffer b(junk, jn);
        const ST::char_buffer lg("a long text that does not fit the in-object array", 49);
        b = lg;
        b.allocate(k.hay.size());
        if (!k.hay.empty()) memcpy(b.data(), k.hay.data(), k.hay.size());
        hs2 = ST::string::from_validated(std::move(b));
        has2 = hs2.size() == k.hay.size() && memcmp(hs2.c_str(), k.hay.data(), k.hay.size()) == 0;     // what it holds is C04/C05's business
    }
    Forms(const SearchCase &k, bool stale) : Forms(k) { if (stale) make_stale(k); }
    Forms(const SearchCase &k)
        : hx(k.hay), hs(ST::string::from_validated(hx.data(), hx.size())), ns(ST::string::from_validated(k.needle.data(), k.needle.size())),
          pl(k.needle, false), cz(k.needle, true), cview(ref::c_view(k.needle)),
          plp(k.null_needle ? nullptr : pl.data()), czp(k.null_needle ? nullptr : cz.data()),
          pl8(reinterpret_cast<const char8_t *>(plp)), cz8(reinterpret_cast<const char8_t *>(czp)) {}
};

std::string mismatch(const char *what, ll got, ll want, bool ci) {
    return std::string(what) + (ci ? " [case_insensitive]" : " [case_sensitive]") + " returned " + verif::num(got) + ", reference " + verif::num(want);
}

#define WANT(call, want, what) \
    do { ll g_ = (ll)(call); ll w_ = (ll)(want); if (g_ != w_) return mismatch(what, g_, w_, ci); } while (0)

// All search operations of one case in one case mode.  Empty result = property holds.
std::string check_mode(const SearchCase &k, const Forms &f, bool ci) {
    const std::string &H = k.hay, &N = k.needle, &C = f.cview;
    const ST::case_sensitivity_t cs = ci ? ST::case_insensitive : ST::case_sensitive;
    const size_t st = k.start, lim = k.limit, n = N.size();
    const ST::string &hs = f.hs;

    // model, full needle
    const ll mf = ref::find(H, st, N, ci), mf0 = ref::find(H, 0, N, ci);
    const ll ml = ref::find_last(H, lim, N, ci), mla = ref::find_last(H, (size_t)-1, N, ci);
    // model, needle as a C string sees it
    const ll cf = ref::find(H, st, C, ci), cf0 = ref::find(H, 0, C, ci);
    const ll cl = ref::find_last(H, lim, C, ci), cla = ref::find_last(H, (size_t)-1, C, ci);

    // ST::string form
    WANT(hs.find(st, f.ns, cs), mf, "find(start, ST::string)");
    WANT(hs.find(f.ns, cs), mf0, "find(ST::string)");
    WANT(hs.find_last(lim, f.ns, cs), ml, "find_last(limit, ST::string)");
    WANT(hs.find_last(f.ns, cs), mla, "find_last(ST::string)");
    WANT(hs.contains(f.ns, cs), mf0 >= 0, "contains(ST::string)");
    WANT(hs.starts_with(f.ns, cs), ref::starts_with(H, N, ci), "starts_with(ST::string)");
    WANT(hs.ends_with(f.ns, cs), ref::ends_with(H, N, ci), "ends_with(ST::string)");

    // (pointer,length) form; a null pointer only with length 0
    WANT(hs.find(st, f.plp, n, cs), mf, "find(start, ptr, len)");
    WANT(hs.find(f.plp, n, cs), mf0, "find(ptr, len)");
    WANT(hs.find_last(lim, f.plp, n, cs), ml, "find_last(limit, ptr, len)");
    WANT(hs.find_last(f.plp, n, cs), mla, "find_last(ptr, len)");
    WANT(hs.contains(f.plp, n, cs), mf0 >= 0, "contains(ptr, len)");

    // const char* form
    WANT(hs.find(st, f.czp, cs), cf, "find(start, const char*)");
    WANT(hs.find(f.czp, cs), cf0, "find(const char*)");
    WANT(hs.find_last(lim, f.czp, cs), cl, "find_last(limit, const char*)");
    WANT(hs.find_last(f.czp, cs), cla, "find_last(const char*)");
    WANT(hs.contains(f.czp, cs), cf0 >= 0, "contains(const char*)");
    WANT(hs.starts_with(f.czp, cs), ref::starts_with(H, C, ci), "starts_with(const char*)");
    WANT(hs.ends_with(f.czp, cs), ref::ends_with(H, C, ci), "ends_with(const char*)");

    if (f.has2) {   // the same text in an object with stale bytes behind the terminator: only size() bytes may take part
        const ST::string &h2 = f.hs2;
        WANT(h2.find(st, f.ns, cs), mf, "find(start, ST::string) [haystack object with stale in-object bytes]");
        WANT(h2.find_last(lim, f.ns, cs), ml, "find_last(limit, ST::string) [haystack object with stale in-object bytes]");
        WANT(h2.find(f.czp, cs), cf0, "find(const char*) [haystack object with stale in-object bytes]");
        WANT(h2.find_last(f.plp, n, cs), mla, "find_last(ptr, len) [haystack object with stale in-object bytes]");
        WANT(h2.contains(f.ns, cs), mf0 >= 0, "contains(ST::string) [haystack object with stale in-object bytes]");
        WANT(h2.starts_with(f.ns, cs), ref::starts_with(H, N, ci), "starts_with(ST::string) [haystack object with stale in-object bytes]");
        WANT(h2.ends_with(f.ns, cs), ref::ends_with(H, N, ci), "ends_with(ST::string) [haystack object with stale in-object bytes]");
        WANT(h2.ends_with(f.czp, cs), ref::ends_with(H, C, ci), "ends_with(const char*) [haystack object with stale in-object bytes]");
        if (n == 1) {
            WANT(h2.find(st, N[0], cs), mf, "find(start, char) [haystack object with stale in-object bytes]");
            WANT(h2.find_last(lim, N[0], cs), ml, "find_last(limit, char) [haystack object with stale in-object bytes]");
        }
    }

    // char8_t forms: (pointer,length) sees the full bytes - well-formed UTF-8 or not -, the C string form the bytes before the first NUL;
    // each must give what its const char* sibling gives
    WANT(hs.find(st, f.pl8, n, cs), mf, "find(start, const char8_t*, len)");
    WANT(hs.find(f.pl8, n, cs), mf0, "find(const char8_t*, len)");
    WANT(hs.find_last(lim, f.pl8, n, cs), ml, "find_last(limit, const char8_t*, len)");
    WANT(hs.find_last(f.pl8, n, cs), mla, "find_last(const char8_t*, len)");
    WANT(hs.contains(f.pl8, n, cs), mf0 >= 0, "contains(const char8_t*, len)");
    WANT(hs.find(st, f.cz8, cs), cf, "find(start, const char8_t*)");
    WANT(hs.find(f.cz8, cs), cf0, "find(const char8_t*)");
    WANT(hs.find_last(lim, f.cz8, cs), cl, "find_last(limit, const char8_t*)");
    WANT(hs.find_last(f.cz8, cs), cla, "find_last(const char8_t*)");
    WANT(hs.contains(f.cz8, cs), cf0 >= 0, "contains(const char8_t*)");
    WANT(hs.starts_with(f.cz8, cs), ref::starts_with(H, C, ci), "starts_with(const char8_t*)");
    WANT(hs.ends_with(f.cz8, cs), ref::ends_with(H, C, ci), "ends_with(const char8_t*)");

    // char form (any byte, NUL included: a one-byte needle)
    if (n == 1) {
        const char ch = N[0];
        WANT(hs.find(st, ch, cs), mf, "find(start, char)");
        WANT(hs.find(ch, cs), mf0, "find(char)");
        WANT(hs.find_last(lim, ch, cs), ml, "find_last(limit, char)");
        WANT(hs.find_last(ch, cs), mla, "find_last(char)");
        WANT(hs.contains(ch, cs), mf0 >= 0, "contains(char)");
    }

    // the default case mode is the case-sensitive one
    if (!ci) {
        WANT(hs.find(st, f.ns), mf, "find(start, ST::string) default mode");
        WANT(hs.find_last(lim, f.ns), ml, "find_last(limit, ST::string) default mode");
        WANT(hs.find(st, f.plp, n), mf, "find(start, ptr, len) default mode");
        WANT(hs.find_last(lim, f.plp, n), ml, "find_last(limit, ptr, len) default mode");
        WANT(hs.find(st, f.czp), cf, "find(start, const char*) default mode");
        WANT(hs.find_last(lim, f.czp), cl, "find_last(limit, const char*) default mode");
        WANT(hs.contains(f.ns), mf0 >= 0, "contains(ST::string) default mode");
        WANT(hs.starts_with(f.ns), ref::starts_with(H, N, false), "starts_with(ST::string) default mode");
        WANT(hs.ends_with(f.czp), ref::ends_with(H, C, false), "ends_with(const char*) default mode");
        if (n == 1) {
            WANT(hs.find(st, N[0]), mf, "find(start, char) default mode");
            WANT(hs.find_last(lim, N[0]), ml, "find_last(limit, char) default mode");
            WANT(hs.find(N[0]), mf0, "find(char) default mode");
            WANT(hs.find_last(N[0]), mla, "find_last(char) default mode");
            WANT(hs.contains(N[0]), mf0 >= 0, "contains(char) default mode");
        }
        WANT(hs.find(f.ns), mf0, "find(ST::string) default mode");
        WANT(hs.find_last(f.ns), mla, "find_last(ST::string) default mode");
        WANT(hs.find(f.plp, n), mf0, "find(ptr, len) default mode");
        WANT(hs.find_last(f.plp, n), mla, "find_last(ptr, len) default mode");
        WANT(hs.contains(f.plp, n), mf0 >= 0, "contains(ptr, len) default mode");
        WANT(hs.find(f.czp), cf0, "find(const char*) default mode");
        WANT(hs.find_last(f.czp), cla, "find_last(const char*) default mode");
        WANT(hs.contains(f.czp), cf0 >= 0, "contains(const char*) default mode");
        WANT(hs.starts_with(f.czp), ref::starts_with(H, C, false), "starts_with(const char*) default mode");
        WANT(hs.ends_with(f.ns), ref::ends_with(H, N, false), "ends_with(ST::string) default mode");
        WANT(hs.find(st, f.pl8, n), mf, "find(start, const char8_t*, len) default mode");
        WANT(hs.find(f.pl8, n), mf0, "find(const char8_t*, len) default mode");
        WANT(hs.find_last(lim, f.pl8, n), ml, "find_last(limit, const char8_t*, len) default mode");
        WANT(hs.find_last(f.pl8, n), mla, "find_last(const char8_t*, len) default mode");
        WANT(hs.contains(f.pl8, n), mf0 >= 0, "contains(const char8_t*, len) default mode");
        WANT(hs.find(st, f.cz8), cf, "find(start, const char8_t*) default mode");
        WANT(hs.find(f.cz8), cf0, "find(const char8_t*) default mode");
        WANT(hs.find_last(lim, f.cz8), cl, "find_last(limit, const char8_t*) default mode");
        WANT(hs.find_last(f.cz8), cla, "find_last(const char8_t*) default mode");
        WANT(hs.contains(f.cz8), cf0 >= 0, "contains(const char8_t*) default mode");
        WANT(hs.starts_with(f.cz8), ref::starts_with(H, C, false), "starts_with(const char8_t*) default mode");
        WANT(hs.ends_with(f.cz8), ref::ends_with(H, C, false), "ends_with(const char8_t*) default mode");
    }
    return std::string();
}

// ---- long haystacks: the model is the list of all occurrences (one naive pass per needle view and case mode) ---------------
struct Occ {
    std::vector<size_t> n[2], c[2];     // [case mode]: full needle, needle as a C string sees it
    bool c_same;                        // the needle has no NUL: both views coincide
    Occ(const SearchCase &k, const std::string &cview) : c_same(cview.size() == k.needle.size()) {
        for (int m = 0; m < 2; m++) { n[m] = ref::all_occurrences(k.hay, k.needle, m != 0); if (!c_same) c[m] = ref::all_occurrences(k.hay, cview, m != 0); }
    }
    const std::vector<size_t> &full(bool ci) const { return n[ci]; }
    const std::vector<size_t> &cstr(bool ci) const { return c_same ? n[ci] : c[ci]; }
};

// rot == ALL_FORMS: every overload; otherwise a rotating selection (two of the five needle forms for find(start,..) and
// find_last(limit,..), one each for the forms without position and for contains) - used for haystacks of tens of KB
enum : unsigned { ALL_FORMS = ~0u };
std::string check_long_mode(const SearchCase &k, const Forms &f, const Occ &o, bool ci, unsigned rot) {
    const std::string &H = k.hay, &N = k.needle, &C = f.cview;
    const ST::case_sensitivity_t cs = ci ? ST::case_insensitive : ST::case_sensitive;
    const size_t st = k.start, lim = k.limit, n = N.size(), hz = H.size();
    const ST::string &hs = f.hs;
    const ll mf = ref::find_in(o.full(ci), hz, st), mf0 = ref::find_in(o.full(ci), hz, 0);
    const ll ml = ref::find_last_in(o.full(ci), hz, n, lim), mla = ref::find_last_in(o.full(ci), hz, n, (size_t)-1);
    const ll cf = ref::find_in(o.cstr(ci), hz, st), cf0 = ref::find_in(o.cstr(ci), hz, 0);
    const ll cl = ref::find_last_in(o.cstr(ci), hz, C.size(), lim), cla = ref::find_last_in(o.cstr(ci), hz, C.size(), (size_t)-1);
    auto on = [rot](unsigned group, unsigned idx, unsigned take) {
        if (rot == ALL_FORMS) return true;
        for (unsigned t = 0; t < take; t++) if ((rot + 2 * t) % group == idx) return true;
        return false;
    };
    const unsigned r2 = rot == ALL_FORMS ? rot : rot / 5;      // a second, independent rotation for the limit group

    if (on(5, 0, 2)) WANT(hs.find(st, f.ns, cs), mf, "find(start, ST::string)");
    if (on(5, 1, 2)) WANT(hs.find(st, f.plp, n, cs), mf, "find(start, ptr, len)");
    if (on(5, 2, 2)) WANT(hs.find(st, f.pl8, n, cs), mf, "find(start, const char8_t*, len)");
    if (on(5, 3, 2)) WANT(hs.find(st, f.czp, cs), cf, "find(start, const char*)");
    if (on(5, 4, 2)) WANT(hs.find(st, f.cz8, cs), cf, "find(start, const char8_t*)");
    auto onl = [r2](unsigned group, unsigned idx, unsigned take) {
        if (r2 == ALL_FORMS) return true;
        for (unsigned t = 0; t < take; t++) if ((r2 + 2 * t) % group == idx) return true;
        return false;
    };
    if (onl(5, 0, 2)) WANT(hs.find_last(lim, f.ns, cs), ml, "find_last(limit, ST::string)");
    if (onl(5, 1, 2)) WANT(hs.find_last(lim, f.plp, n, cs), ml, "find_last(limit, ptr, len)");
    if (onl(5, 2, 2)) WANT(hs.find_last(lim, f.pl8, n, cs), ml, "find_last(limit, const char8_t*, len)");
    if (onl(5, 3, 2)) WANT(hs.find_last(lim, f.czp, cs), cl, "find_last(limit, const char*)");
    if (onl(5, 4, 2)) WANT(hs.find_last(lim, f.cz8, cs), cl, "find_last(limit, const char8_t*)");
    if (on(3, 0, 1)) WANT(hs.find(f.ns, cs), mf0, "find(ST::string)");
    if (on(3, 1, 1)) WANT(hs.find(f.plp, n, cs), mf0, "find(ptr, len)");
    if (on(3, 2, 1)) WANT(hs.find(f.czp, cs), cf0, "find(const char*)");
    if (onl(3, 0, 1)) WANT(hs.find_last(f.ns, cs), mla, "find_last(ST::string)");
    if (onl(3, 1, 1)) WANT(hs.find_last(f.plp, n, cs), mla, "find_last(ptr, len)");
    if (onl(3, 2, 1)) WANT(hs.find_last(f.czp, cs), cla, "find_last(const char*)");
    if (on(4, 0, 1)) WANT(hs.contains(f.ns, cs), mf0 >= 0, "contains(ST::string)");
    if (on(4, 1, 1)) WANT(hs.contains(f.plp, n, cs), mf0 >= 0, "contains(ptr, len)");
    if (on(4, 2, 1)) WANT(hs.contains(f.pl8, n, cs), mf0 >= 0, "contains(const char8_t*, len)");
    if (on(4, 3, 1)) WANT(hs.contains(f.czp, cs), cf0 >= 0, "contains(const char*)");
    WANT(hs.starts_with(f.ns, cs), ref::starts_with(H, N, ci), "starts_with(ST::string)");
    WANT(hs.ends_with(f.ns, cs), ref::ends_with(H, N, ci), "ends_with(ST::string)");
    WANT(hs.starts_with(f.czp, cs), ref::starts_with(H, C, ci), "starts_with(const char*)");
    WANT(hs.ends_with(f.czp, cs), ref::ends_with(H, C, ci), "ends_with(const char*)");
    WANT(hs.starts_with(f.cz8, cs), ref::starts_with(H, C, ci), "starts_with(const char8_t*)");
    WANT(hs.ends_with(f.cz8, cs), ref::ends_with(H, C, ci), "ends_with(const char8_t*)");
    if (n == 1) {
        WANT(hs.find(st, N[0], cs), mf, "find(start, char)");
        WANT(hs.find_last(lim, N[0], cs), ml, "find_last(limit, char)");
        WANT(hs.contains(N[0], cs), mf0 >= 0, "contains(char)");
    }
    if (!ci && rot == ALL_FORMS) {
        WANT(hs.find(st, f.ns), mf, "find(start, ST::string) default mode");
        WANT(hs.find_last(lim, f.ns), ml, "find_last(limit, ST::string) default mode");
        WANT(hs.contains(f.ns), mf0 >= 0, "contains(ST::string) default mode");
    }
    return std::string();
}
// only the start- and limit-dependent calls (sweeps over every offset of one haystack/needle pair)
std::string check_long_positions(const SearchCase &k, const Forms &f, const Occ &o, bool ci) {
    const ST::case_sensitivity_t cs = ci ? ST::case_insensitive : ST::case_sensitive;
    const size_t st = k.start, lim = k.limit, n = k.needle.size(), hz = k.hay.size();
    const ST::string &hs = f.hs;
    const ll mf = ref::find_in(o.full(ci), hz, st), ml = ref::find_last_in(o.full(ci), hz, n, lim);
    const ll cf = ref::find_in(o.cstr(ci), hz, st), cl = ref::find_last_in(o.cstr(ci), hz, f.cview.size(), lim);
    WANT(hs.find(st, f.ns, cs), mf, "find(start, ST::string)");
    WANT(hs.find_last(lim, f.ns, cs), ml, "find_last(limit, ST::string)");
    WANT(hs.find(st, f.plp, n, cs), mf, "find(start, ptr, len)");
    WANT(hs.find_last(lim, f.plp, n, cs), ml, "find_last(limit, ptr, len)");
    WANT(hs.find(st, f.pl8, n, cs), mf, "find(start, const char8_t*, len)");
    WANT(hs.find_last(lim, f.pl8, n, cs), ml, "find_last(limit, const char8_t*, len)");
    WANT(hs.find(st, f.czp, cs), cf, "find(start, const char*)");
    WANT(hs.find_last(lim, f.czp, cs), cl, "find_last(limit, const char*)");
    WANT(hs.find(st, f.cz8, cs), cf, "find(start, const char8_t*)");
    WANT(hs.find_last(lim, f.cz8, cs), cl, "find_last(limit, const char8_t*)");
    return std::string();
}
std::string check_long_case(const SearchCase &k, const Forms &f, const Occ &o, bool positions_only = false, bool every_form = false) {
    // haystacks above 8 KB run a rotating selection of the overloads (a function of the case), everything else - and every
    // directed replay, so that whatever an enumerator saw is seen again - all of them
    const unsigned rot = k.hay.size() > 8192 && !every_form ? (unsigned)((k.hay.size() + 7 * k.needle.size() + 3 * k.start + k.limit + (unsigned char)k.needle[k.needle.size() / 2]) % 30) : ALL_FORMS;
    try {
        std::string why = positions_only ? check_long_positions(k, f, o, false) : check_long_mode(k, f, o, false, rot);
        if (why.empty()) why = positions_only ? check_long_positions(k, f, o, true) : check_long_mode(k, f, o, true, rot);
        return why;
    } catch (...) {
        return "unexpected " + verif::describe_current_exception();
    }
}

std::string check_case(const SearchCase &k, const Forms &f) {
    try {
        std::string why = check_mode(k, f, false);
        if (why.empty()) why = check_mode(k, f, true);
        return why;
    } catch (...) {
        return "unexpected " + verif::describe_current_exception();
    }
}

// the property's non-triviality rule, in either case mode
struct Why { bool multi = false, overlap = false, false_start = false, straddle_start = false, straddle_limit = false, past_end = false;
             bool any() const { return multi || overlap || false_start || straddle_start || straddle_limit || past_end; } };
Why classify(const SearchCase &k) {
    Why w;
    if (k.needle.empty()) return w;
    for (int m = 0; m < 2; m++) {
        bool ci = m != 0;
        if (ref::count_occurrences(k.hay, k.needle, ci) >= 2) w.multi = true;
        if (ref::has_overlapping_occurrences(k.hay, k.needle, ci)) w.overlap = true;
        if (ref::has_false_start(k.hay, k.needle, ci)) w.false_start = true;
        if (ref::occurrence_straddles(k.hay, k.needle, ci, k.start)) w.straddle_start = true;
        if (ref::occurrence_straddles(k.hay, k.needle, ci, k.limit)) w.straddle_limit = true;
        if (ref::prefix_runs_past_end(k.hay, k.needle, ci)) w.past_end = true;
    }
    return w;
}

std::string pos(size_t v) {
    if (v == (size_t)-1) return "SIZE_MAX";
    if (v > ((size_t)-1) - 1000) return "SIZE_MAX-" + verif::unum(((size_t)-1) - v);
    return verif::unum(v);
}
std::string render(const SearchCase &k) {
    std::string o = "C07 hay=" + verif::quoted(k.hay) + "[" + verif::unum(k.hay.size()) + "] needle=" +
                    (k.null_needle ? std::string("null") : verif::quoted(k.needle)) + " start=" + pos(k.start) + " limit=" + pos(k.limit) +
                    " forms={string,ptrlen,cstr" + (k.needle.size() == 1 ? ",char}" : "}");
    o += " -> find " + verif::num(ref::find(k.hay, k.start, k.needle, false)) + "/ci " + verif::num(ref::find(k.hay, k.start, k.needle, true));
    o += " find_last " + verif::num(ref::find_last(k.hay, k.limit, k.needle, false)) + "/ci " + verif::num(ref::find_last(k.hay, k.limit, k.needle, true));
    o += std::string(" starts ") + (ref::starts_with(k.hay, k.needle, false) ? "1" : "0") + " ends " + (ref::ends_with(k.hay, k.needle, false) ? "1" : "0") + " (model)";
    return o;
}

void put64(std::vector<uint8_t> &v, uint64_t x) { for (int i = 0; i < 8; i++) v.push_back((uint8_t)(x >> (8 * i))); }
// directed encoding understood by verif_case (first byte 0xFF)
std::vector<uint8_t> encode(const SearchCase &k) {
    std::vector<uint8_t> v;
    v.push_back(0xFF); v.push_back((uint8_t)k.hay.size()); v.push_back((uint8_t)k.needle.size()); v.push_back(k.null_needle ? 1 : 0);
    put64(v, k.start); put64(v, k.limit);
    v.insert(v.end(), k.hay.begin(), k.hay.end());
    v.insert(v.end(), k.needle.begin(), k.needle.end());
    return v;
}

// ---- long haystacks -----------------------------------------------------------------------------------------------------------
enum { LONG_MAX_HAY = 65536, LONG_MAX_NEEDLE = 4096 };
static const uint32_t EDGES[] = {4096, 16384, 16386};      // block sizes whose edges an occurrence is made to straddle

// directed encoding with explicit content (first byte 0xFD): 24-bit haystack length, 16-bit needle length
std::vector<uint8_t> encode_long(const SearchCase &k) {
    std::vector<uint8_t> v;
    v.reserve(24 + k.hay.size() + k.needle.size());
    const size_t hl = k.hay.size(), nl = k.needle.size();
    v.push_back(0xFD); v.push_back((uint8_t)hl); v.push_back((uint8_t)(hl >> 8)); v.push_back((uint8_t)(hl >> 16));
    v.push_back((uint8_t)nl); v.push_back((uint8_t)(nl >> 8)); v.push_back(k.null_needle ? 1 : 0);
    put64(v, k.start); put64(v, k.limit);            // bytes 7..14 and 15..22
    v.insert(v.end(), k.hay.begin(), k.hay.end());
    v.insert(v.end(), k.needle.begin(), k.needle.end());
    return v;
}
void patch_positions(std::vector<uint8_t> &v, size_t start, size_t limit) {
    for (int i = 0; i < 8; i++) { v[7 + i] = (uint8_t)((uint64_t)start >> (8 * i)); v[15 + i] = (uint8_t)((uint64_t)limit >> (8 * i)); }
}

// the property's non-triviality rule, from the occurrence lists (the naive classifiers are quadratic on long periodic text)
struct LongWhy : Why { bool at_end = false, limit_inside = false, limit_deep = false, edge = false; };
LongWhy classify_long(const SearchCase &k, const Occ &o) {
    LongWhy w;
    const std::string &H = k.hay, &N = k.needle;
    const size_t n = N.size(), hz = H.size();
    if (!n) return w;
    for (int m = 0; m < 2; m++) {
        const bool ci = m != 0;
        const std::vector<size_t> &oc = o.full(ci);
        if (oc.size() >= 2) w.multi = true;
        for (size_t i = 1; i < oc.size(); i++) if (oc[i] - oc[i - 1] < n) w.overlap = true;
        size_t oi = 0;
        if (n >= 2) for (size_t i = 0; i < hz && !w.false_start; i++) {
            while (oi < oc.size() && oc[oi] < i) oi++;
            if (ref::same(H[i], N[0], ci) && !(oi < oc.size() && oc[oi] == i)) w.false_start = true;
        }
        for (size_t i : oc) {
            if (i < k.start && k.start - i < n) w.straddle_start = true;
            if (i < k.limit && k.limit - i < n) { w.straddle_limit = w.limit_inside = true; if (k.limit - i > 1024) w.limit_deep = true; }
            if (i + n == hz) w.at_end = true;
            if (n >= 2) for (uint32_t B : EDGES) {
                const size_t a = (i + n - 1) / B * B;                          // from the start: an edge inside (i, i+n)
                if (a > i && a < i + n) w.edge = true;
                if (hz >= i + n) { const size_t ri = hz - (i + n), ra = (ri + n - 1) / B * B; if (ra > ri && ra < ri + n) w.edge = true; }   // counted from the end
            }
        }
        for (size_t q = 1; q < n && q <= hz && !w.past_end; q++) {
            bool all = true;
            for (size_t j = 0; j < q && all; j++) all = ref::same(H[hz - q + j], N[j], ci);
            if (all) w.past_end = true;
        }
    }
    return w;
}

std::string render_long(const SearchCase &k, const Occ &o) {
    auto few = [](const std::vector<size_t> &v) { std::string t = "["; for (size_t i = 0; i < v.size() && i < 6; i++) { if (i) t += ","; t += verif::unum(v[i]); } if (v.size() > 6) t += ",..(" + verif::unum(v.size()) + ")"; return t + "]"; };
    return "C07 long hay=" + verif::quoted(k.hay, 32) + "[" + verif::unum(k.hay.size()) + "] needle=" + (k.null_needle ? std::string("null") : verif::quoted(k.needle, 32)) + "[" + verif::unum(k.needle.size()) +
           "] start=" + pos(k.start) + " limit=" + pos(k.limit) + " forms={string,ptrlen,cstr,u8 ptrlen,u8 cstr" + (k.needle.size() == 1 ? ",char}" : "}") + " occurrences " + few(o.full(false)) + "/ci " + few(o.full(true)) +
           " -> find " + verif::num(ref::find_in(o.full(false), k.hay.size(), k.start)) + "/ci " + verif::num(ref::find_in(o.full(true), k.hay.size(), k.start)) +
           " find_last " + verif::num(ref::find_last_in(o.full(false), k.hay.size(), k.needle.size(), k.limit)) + "/ci " + verif::num(ref::find_last_in(o.full(true), k.hay.size(), k.needle.size(), k.limit)) + " (model)";
}

// A long case from few bytes: periodic background (period 1..8), a needle that is a chunk of the background with one foreign
// "breaker" byte (so every period-aligned position is a partial match), a foreign periodic text, or a pure chunk (dense, overlapping
// occurrences; kept small), planted 0..3 times: exactly at the end, at the start, anywhere, straddling an edge of a 64..16386-byte
// block counted from the start or from the END, adjacent to / overlapping the previous plant, as a near miss, case-flipped.
void gen_long(verif::Reader &r, bool big, SearchCase &k, Case &c) {
    static const uint8_t LB[] = {'a', 'b', 'A', 'B', 'c', 0, 0xC3, 0xA9, 0xE2, 0x82, 0xAC, 'z', 'Z', '@', '[', '`'};
    static const uint8_t FB[] = {'x', 'Y', 'w', 'Q', 0xE2, 0x98, 0x83, '#', 'q', 'X'};
    static const uint8_t BR[] = {'#', 'Q', 'q', 0x01, 0xE9};
    size_t H;
    if (big) { static const uint32_t HB[] = {49152, 16384, 16386, 32768, 32772, 40000, 20000, 49151, 16385, 12288, 12289, 45000}; H = r.chance(64) ? (size_t)r.range(8193, 49152) : (size_t)r.pick(HB); }
    else { static const uint16_t HS[] = {64, 255, 256, 257, 1023, 1024, 1025, 2048, 4095, 4096, 4097, 8191, 8192, 100, 500, 3000}; H = r.chance(64) ? (size_t)r.range(41, 8192) : (size_t)r.pick(HS); }
    const size_t P = 1 + r.idx(8);
    uint8_t pat[8];
    for (size_t i = 0; i < P; i++) pat[i] = r.pick(LB);
    size_t nl;
    if (big) { static const uint16_t NB[] = {2, 3, 4, 5, 8, 17, 33, 64, 257, 1025}; nl = r.chance(64) ? (size_t)r.range(2, 64) : (size_t)r.pick(NB); }
    else { static const uint16_t NS[] = {17, 31, 32, 33, 63, 64, 65, 127, 128, 255, 256, 257, 511, 512, 1023, 1024, 1025, 1500, 2047, 2048, 3000, 2, 3, 5}; nl = r.chance(64) ? (size_t)r.range(17, 3000) : (size_t)r.pick(NS); }
    if (nl > H) nl = H;
    unsigned kind = (unsigned)r.idx(big ? 2 : 4);       // 0 chunk + late breaker, 1 foreign text, 2 pure chunk (dense), 3 chunk + early breaker
    const size_t phase = r.idx(P);
    std::string N(nl, 'a');
    size_t bp = 0;
    if (kind == 1) {
        const size_t P2 = 1 + r.idx(7);
        uint8_t fp[7];
        for (size_t i = 0; i < P2; i++) fp[i] = r.pick(FB);
        // the first byte occurs (in either case) nowhere else in the needle: a start inside a planted copy then costs nothing extra
        // (a periodic needle would make every call quadratic in its length - a resource bound, not a verdict)
        N[0] = (char)fp[0];
        for (size_t i = 1; i < nl; i++) { uint8_t b = P2 > 1 ? fp[1 + i % (P2 - 1)] : 'w'; if (ref::fold(b) == ref::fold(fp[0])) b = 'k'; N[i] = (char)b; }
        if (r.chance(40)) N[r.idx(nl)] = '\0';                                   // C string forms then see a shorter needle
    } else {
        for (size_t i = 0; i < nl; i++) N[i] = (char)pat[(phase + i) % P];
        if (kind == 2) { if (H > 1200) H = 1200; if (nl > 300) { nl = 300; N.resize(nl); } }
        else {
            const unsigned bsel = (unsigned)r.idx(4);
            if (kind == 0) bp = bsel == 0 ? nl - 1 : bsel == 1 ? (nl >= 2 ? nl - 2 : 0) : bsel == 2 ? nl / 2 : r.idx(nl);
            else bp = bsel < 3 ? (bsel < nl ? bsel : 0) : r.idx(nl < 16 ? nl : 16);
            N[bp] = (char)r.pick(BR);
            // every period-aligned position costs about bp comparisons: keep the product bounded (a resource bound, not a verdict)
            while (H > nl + 64 && (H - nl) / P * (bp + 1) > (big ? 150000u : 400000u)) H = nl + (H - nl) / 2;
        }
    }
    std::string Hs(H, 'a');
    for (size_t i = 0; i < H; i++) Hs[i] = (char)pat[i % P];
    const size_t room = H - nl;                       // last position at which the needle fits
    const unsigned np = (unsigned)r.idx(4);
    size_t prev = 0; bool have_prev = false, edge_plant = false;
    for (unsigned q = 0; q < np; q++) {
        const unsigned sel = (unsigned)r.idx(8);
        const size_t drawn = (size_t)r.range(0, room);
        size_t at = drawn; bool near_miss = false;
        switch (sel) {
        case 0: at = room; break;                                                   // exactly at the end
        case 1: at = 0; break;
        case 2: break;
        case 3: case 4: {                                                         // straddling (or touching) the edge of a block counted from the start / from the END
            static const uint32_t BL[] = {4096, 16384, 16386, 1024, 256, 64};
            const size_t B = r.pick(BL), m = 1 + r.idx(3), sft = (size_t)r.range(0, nl);
            const size_t e = sel == 3 ? m * B : (H >= m * B ? H - m * B : H);      // the edge
            at = e >= sft ? e - sft : 0; edge_plant = true; break; }
        case 5: if (have_prev) { const size_t ov = (size_t)r.range(0, nl < 4 ? nl : 4); at = prev + nl - (ov < nl ? ov : 0); } break;   // adjacent to / overlapping the previous plant
        case 6: at = room ? room - 1 : 0; break;
        default: near_miss = true; break;
        }
        if (at > room) at = room;
        std::string piece = N;
        if (near_miss && nl) piece[r.flag() ? nl - 1 : nl / 2] ^= 0x04;            // one byte off (never a case difference)
        else if (r.chance(48)) piece = gen::flip_case(piece, r.bits32() | 1u);     // only the case-insensitive search sees this one
        Hs.replace(at, nl, piece);
        if (!near_miss) { prev = at; have_prev = true; }
    }
    k.hay = Hs; k.needle = N;
    const std::vector<size_t> oc = ref::all_occurrences(k.hay, k.needle, r.flag());
    const bool any = !oc.empty();
    const size_t first = any ? oc.front() : (size_t)r.range(0, H), last = any ? oc.back() : (size_t)r.range(0, H);
    switch (r.idx(8)) {
    case 0: k.start = 0; break;
    case 1: k.start = first; break;
    case 2: k.start = first + 1; break;
    case 3: k.start = first ? first - 1 : 0; break;
    case 4: k.start = last; break;
    case 5: k.start = room; break;
    case 6: k.start = (size_t)r.range(0, H + 1); break;
    default: { const size_t t[] = {H - 1, H, H + 1, (size_t)-1}; k.start = t[r.idx(4)]; } break;
    }
    switch (r.idx(8)) {
    case 0: k.limit = (size_t)-1; break;
    case 1: k.limit = last + nl; break;                                             // the last occurrence just fits
    case 2: k.limit = last + nl - 1; break;                                         // ... and just does not
    case 3: k.limit = last + (size_t)r.range(0, nl); break;                         // anywhere inside it
    case 4: k.limit = last; break;
    case 5: k.limit = H; break;
    case 6: k.limit = (size_t)r.range(0, H + 1); break;
    default: { const size_t t[] = {H - 1, H + 1, 0, first + nl}; k.limit = t[r.idx(4)]; } break;
    }
    c.label(big ? "long:haystack-8K..48K" : "long:haystack-41..8K");
    if (kind == 2) c.label("long:dense-overlapping-occurrences"); else if (kind != 1) c.label("long:partial-match-at-every-period");
    if (edge_plant) c.label("long:plant-at-block-edge");
    if (gen::has_nul(k.hay) || gen::has_nul(k.needle)) c.label(k.start > 0 && k.start < H ? "long:NUL-and-start>0" : "long:has-NUL");
}

size_t pick_position(unsigned sel, unsigned v, size_t size, ll anchor, size_t nlen, bool is_limit) {
    switch (sel) {
        case 0: return is_limit ? (size_t)-1 : 0;
        case 1: return v % (size + 2);
        case 2: return size;
        case 3: return size + 1;
        case 4: return is_limit ? 0 : (size_t)-1;
        case 5: return size ? size - 1 : 0;
        case 6:   // aimed at the first (start) / last (limit) occurrence: just before, inside, at its end, after
            if (anchor < 0) return v % (size + 2);
            return is_limit ? (size_t)anchor + v % (nlen + 2) : (size_t)(anchor + (ll)(v % (nlen + 2))) - ((size_t)anchor > 0 ? 1 : 0);
        default: return ((size_t)-1) - v;     // within 255 of SIZE_MAX
    }
}

}  // namespace

namespace {
int run_long(verif::Reader &r, Case &c, uint8_t mode) {
    SearchCase k;
    if (mode == 0xFD) {
        size_t hl = r.u8(); hl |= (size_t)r.u8() << 8; hl |= (size_t)r.u8() << 16;
        size_t nl = r.u8(); nl |= (size_t)r.u8() << 8;
        if (hl > LONG_MAX_HAY) hl = LONG_MAX_HAY;
        if (nl > LONG_MAX_NEEDLE) nl = LONG_MAX_NEEDLE;
        k.null_needle = (r.u8() & 1) != 0;
        k.start = (size_t)r.bits64(); k.limit = (size_t)r.bits64();
        // explicit content only: the lengths are cut to the bytes that are really there (a short input does not turn into 64 KB of zeros)
        const size_t avail = r.pos < r.n ? r.n - r.pos : 0;
        if (hl > avail) hl = avail;
        if (nl > avail - hl) nl = avail - hl;
        k.hay.resize(hl); k.needle.resize(nl);
        for (size_t i = 0; i < hl; i++) k.hay[i] = (char)r.u8();
        for (size_t i = 0; i < nl; i++) k.needle[i] = (char)r.u8();
        if (!k.needle.empty()) k.null_needle = false;
        c.label("directed");
    } else {
        gen_long(r, mode != 0xFE, k, c);
    }
    Forms f(k);
    Occ o(k, f.cview);
    const LongWhy w = classify_long(k, o);
    c.nontrivial = w.any();
    if (k.needle.size() >= 1024) c.label("long:needle>=1024"); else if (k.needle.size() >= 17) c.label("long:needle-17..1023");
    if (w.at_end) c.label("long:occurrence-exactly-at-end");
    if (w.limit_deep) c.label("long:limit>1024-bytes-into-an-occurrence"); else if (w.limit_inside) c.label("long:limit-inside-an-occurrence");
    if (w.edge) c.label("long:occurrence-straddles-4096/16384/16386-edge(from-start-or-end)");
    if (w.multi) c.label("nt:occurs>=2");
    if (w.overlap) c.label("nt:overlapping-occurrences");
    if (w.false_start) c.label("nt:first-byte-hit-fails-later");
    if (w.straddle_start || w.straddle_limit) c.label("nt:occurrence-straddles-start/limit");
    if (w.past_end) c.label("nt:prefix-runs-past-end");
    if (!o.full(true).empty() && ref::find_in(o.full(false), k.hay.size(), k.start) != ref::find_in(o.full(true), k.hay.size(), k.start)) c.label("ci-answer-differs");
    if (c.want_text) c.text = render_long(k, o);
    std::string why = check_long_case(k, f, o, false, mode == 0xFD);
    if (!why.empty()) return c.fail(why);
    return verif::CASE_OK;
}
}  // namespace

int verif_case(const uint8_t *data, size_t size, Case &c) {
    verif::Reader r(data, size, c);
    SearchCase k;
    uint8_t mode = r.u8();
    // FE, F8: generated long haystack (41..8192 bytes); F9..FC: generated big haystack (8..48 KB); FD: directed long (explicit content)
    if (mode >= 0xF8 && mode <= 0xFE) return run_long(r, c, mode == 0xF8 ? 0xFE : mode);
    if (mode >= 0xD0 && mode <= 0xF7) {
        // fold-stress layout: 8..96 bytes over pairs of bytes that differ only in bit 0x20 - letters, the neighbours of the letter range
        // (@ ` [ { \\ | ] } ^ ~ _ DEL), digits/punctuation, control bytes, and bytes >= 0x80 - so that whatever folds case several bytes at a
        // time (or by bit tricks) meets every carry / borrow / sign situation.  The needle is a slice of 1..40 bytes with 0..3 of its bytes XOR 0x20:
        // a match under case-insensitive search exactly when every changed byte is a letter.
        static const unsigned char FOLD[] = {'a', 'A', 'z', 'Z', 'm', 'M', '@', '`', '[', '{', '\\', '|', ']', '}', '^', '~', '_', 0x7F, '0', 0x10, '9', 0x19, ' ', 0x00, '!', 0x01,
                                             0xC1, 0xE1, 0xDA, 0xFA, 0xC0, 0xE0, 0xDF, 0xFF, 0x80, 0xA0, 0x9F, 0xBF, 0xC3, 0xE3, 0xE9, 0xC9};
        const size_t hl = 8 + (size_t)r.range(0, 88);
        const size_t nl0 = 1 + (size_t)r.range(0, 39);
        const unsigned flips = (unsigned)r.range(0, 3), np1 = r.u8(), f1 = r.u8(), f2 = r.u8(), f3 = r.u8();
        unsigned ssel = (unsigned)r.range(0, 7), sv = r.u8();
        unsigned lsel = (unsigned)r.range(0, 7), lv = r.u8();
        const bool lettery = r.flag();           // mostly letters with a few neighbours, or the whole table
        for (size_t i = 0; i < hl; i++) { unsigned v = r.u8(); k.hay += (char)(lettery && (v & 0xC0) ? FOLD[v % 6] : FOLD[v % sizeof FOLD]); }
        const size_t nl = nl0 > hl ? hl : nl0, at = np1 % (hl - nl + 1);
        k.needle = k.hay.substr(at, nl);
        const unsigned fp[3] = {f1, f2, f3};
        for (unsigned i = 0; i < flips; i++) k.needle[fp[i] % nl] = (char)(k.needle[fp[i] % nl] ^ 0x20);
        ll first = ref::find(k.hay, 0, k.needle, true), last = ref::find_last(k.hay, (size_t)-1, k.needle, true);
        k.start = pick_position(ssel, sv, hl, first, k.needle.size(), false);
        k.limit = pick_position(lsel, lv, hl, last, k.needle.size(), true);
        c.label("fold-stress"); c.label(nl >= 8 ? "fold-stress:needle>=8" : "fold-stress:needle<8");
        if (ref::find(k.hay, 0, k.needle, true) != ref::find(k.hay, 0, k.needle, false)) c.label("ci-answer-differs");
    } else if (mode == 0xFF) {
        size_t hl = r.u8(), nl = r.u8();
        k.null_needle = (r.u8() & 1) != 0;
        k.start = (size_t)r.bits64(); k.limit = (size_t)r.bits64();
        for (size_t i = 0; i < hl; i++) k.hay += (char)r.u8();
        for (size_t i = 0; i < nl; i++) k.needle += (char)r.u8();
        if (!k.needle.empty()) k.null_needle = false;
        c.label("directed");
    } else {
        // structural choices first, content afterwards
        gen::Plan hp = gen::plan(r, 40, 2);
        unsigned nm = (unsigned)r.range(0, 13);
        unsigned np1 = r.u8(), np2 = r.u8();
        unsigned ssel = (unsigned)r.range(0, 7), sv = r.u8();
        unsigned lsel = (unsigned)r.range(0, 7), lv = r.u8();
        gen::Text ht = gen::fill_text(r, hp);
        k.hay = ht.bytes;
        const std::string &H = k.hay;
        const size_t hs = H.size();
        auto cut = [&](size_t maxlen) {
            if (!hs) return std::string();
            size_t p = np1 % hs, l = 1 + np2 % maxlen;
            return H.substr(p, l);
        };
        switch (nm) {
            case 0: k.needle = cut(4); break;
            case 1: k.needle = gen::flip_case(cut(4), r.bits32() | 1u); break;
            case 2: { size_t tail = 1 + np2 % 3; if (tail > hs) tail = hs;             // straddles the end
                      k.needle = H.substr(hs - tail); gen::append_sym(r, k.needle, 4, ht.alpha); if (np1 & 1) gen::append_sym(r, k.needle, 4, ht.alpha); break; }
            case 3: k.needle = H; break;                                                  // equals the whole haystack
            case 4: k.needle = H; gen::append_sym(r, k.needle, 4, ht.alpha); break;      // longer than the haystack
            case 5: k.needle = gen::fill(r, 1 + np1 % 3, ht.alpha); break;              // unrelated
            case 6: k.needle = hs ? std::string(1, H[np1 % hs]) : std::string(); break;  // one byte of the haystack: char form
            case 7: break;                                                                // empty
            case 8: k.null_needle = true; break;                                          // null
            case 9: { k.needle = cut(4); if (!k.needle.empty()) { std::string alt; gen::append_sym(r, alt, 1, ht.alpha); k.needle[k.needle.size() - 1] = alt[0]; } break; }
            case 10: k.needle = cut(8); break;
            case 12: {   // a lone lead byte, or the head of a multi-byte character of the haystack cut short: not well-formed UTF-8 on its own
                size_t p = hs ? np1 % hs : 0, tries = 0;
                while (tries < hs && (unsigned char)H[p] < 0xC0) { p = (p + 1) % hs; tries++; }
                if (hs && (unsigned char)H[p] >= 0xC0) {
                    const unsigned char lead = (unsigned char)H[p];
                    const size_t full = lead >= 0xF0 ? 4 : lead >= 0xE0 ? 3 : 2;
                    k.needle = H.substr(p, 1 + np2 % (full - 1));
                } else k.needle = std::string(1, "\xC3\xE2\xF0"[np2 % 3]);
                break; }
            case 13: {   // the tail of a multi-byte character (continuation bytes first), optionally with what follows it
                size_t p = hs ? np1 % hs : 0, tries = 0;
                while (tries < hs && ((unsigned char)H[p] & 0xC0) != 0x80) { p = (p + 1) % hs; tries++; }
                if (hs && ((unsigned char)H[p] & 0xC0) == 0x80) k.needle = H.substr(p, 1 + np2 % 3);
                else k.needle = "\xA9";
                break; }
            default: k.needle = std::string(1, (char)r.u8()); break;                     // one arbitrary byte: char form
        }
        if (np2 & 0x80 && !k.needle.empty() && nm != 1) k.needle = gen::flip_case(k.needle, np1 | 0x100u);
        ll first = ref::find(H, 0, k.needle, (np1 & 2) != 0), last = ref::find_last(H, (size_t)-1, k.needle, (np1 & 2) != 0);
        k.start = pick_position(ssel, sv, hs, first, k.needle.size(), false);
        k.limit = pick_position(lsel, lv, hs, last, k.needle.size(), true);

        c.label(gen::size_label(hs));
        if (gen::has_nul(H)) c.label("hay:has-NUL");
        if (ht.alpha == gen::A_RAW) c.label("hay:raw-bytes"); else if (gen::has_high(H)) c.label("hay:multibyte");
        c.label(k.null_needle ? "needle:null" : k.needle.empty() ? "needle:empty" : k.needle.size() == 1 ? "needle:1-byte(char form)" : "needle:2+bytes");
        if (!k.needle.empty() && k.needle == H) c.label("needle:whole-haystack"); else if (k.needle.size() > hs) c.label("needle:longer-than-haystack");
        if (gen::has_nul(k.needle)) c.label("needle:has-NUL");
        if (!k.needle.empty() && !ref::utf8_structurally_valid(k.needle)) c.label("needle:not-well-formed-UTF-8-on-its-own");
        if ((gen::has_nul(H) || gen::has_nul(k.needle)) && k.start > 0 && k.start < hs) c.label("NUL-and-start-inside");
    }
    Why w = classify(k);
    c.nontrivial = w.any();
    if (w.multi) c.label("nt:occurs>=2");
    if (w.overlap) c.label("nt:overlapping-occurrences");
    if (w.false_start) c.label("nt:first-byte-hit-fails-later");
    if (w.straddle_start || w.straddle_limit) c.label("nt:occurrence-straddles-start/limit");
    if (w.past_end) c.label("nt:prefix-runs-past-end");
    if (mode != 0xFF && !(mode >= 0xD0 && mode <= 0xF7)) {
        c.label(k.start == (size_t)-1 ? "start:SIZE_MAX" : k.start > k.hay.size() ? "start:past-end" : k.start == k.hay.size() ? "start:at-end" : "start:inside");
        c.label(k.limit == (size_t)-1 ? "limit:SIZE_MAX" : k.limit > k.hay.size() ? "limit:past-end" : k.limit == k.hay.size() ? "limit:at-end" : "limit:inside");
        if (ref::find(k.hay, k.start, k.needle, true) >= 0 && ref::find(k.hay, k.start, k.needle, false) != ref::find(k.hay, k.start, k.needle, true)) c.label("ci-answer-differs");
    }
    if (c.want_text) c.text = render(k);
    Forms f(k, true);
    if (f.has2) c.label("haystack-object-with-stale-in-object-bytes");
    std::string why = check_case(k, f);
    if (why.empty() && !k.hay.empty() && k.hay.size() <= 64) {
        // the haystack's OWN storage as the needle (h.c_str() + j): a C-string needle still ends at its first NUL, wherever it points
        const ST::string H = ST::string::from_validated(k.hay.data(), k.hay.size());
        for (size_t j = 0; j < 2 && j < k.hay.size() && why.empty(); j++) {
            const std::string tail = k.hay.substr(j), nz = tail.substr(0, strlen(tail.c_str()));
            for (int ci = 0; ci < 2 && why.empty(); ci++) {
                const ST::case_sensitivity_t cs = ci ? ST::case_insensitive : ST::case_sensitive;
                const ll w1 = ref::find(k.hay, 0, nz, ci != 0), w2 = ref::find_last(k.hay, (size_t)-1, nz, ci != 0);
                const ll g1 = H.find(H.c_str() + j, cs), g2 = H.find_last(H.c_str() + j, cs);
                const bool g3 = H.contains(H.c_str() + j, cs), g4 = H.starts_with(H.c_str() + j, cs), g5 = H.ends_with(H.c_str() + j, cs);
                char msg[300]; msg[0] = 0;
                if (g1 != w1) snprintf(msg, sizeof msg, "h.find(h.c_str()+%zu) [%s] returned %lld, reference %lld", j, ci ? "case_insensitive" : "case_sensitive", (long long)g1, (long long)w1);
                else if (g2 != w2) snprintf(msg, sizeof msg, "h.find_last(h.c_str()+%zu) [%s] returned %lld, reference %lld", j, ci ? "case_insensitive" : "case_sensitive", (long long)g2, (long long)w2);
                else if (g3 != (w1 >= 0)) snprintf(msg, sizeof msg, "h.contains(h.c_str()+%zu) [%s] returned %d, reference %d", j, ci ? "case_insensitive" : "case_sensitive", (int)g3, (int)(w1 >= 0));
                else if (g4 != ref::starts_with(k.hay, nz, ci != 0)) snprintf(msg, sizeof msg, "h.starts_with(h.c_str()+%zu) [%s] returned %d", j, ci ? "case_insensitive" : "case_sensitive", (int)g4);
                else if (g5 != ref::ends_with(k.hay, nz, ci != 0)) snprintf(msg, sizeof msg, "h.ends_with(h.c_str()+%zu) [%s] returned %d", j, ci ? "case_insensitive" : "case_sensitive", (int)g5);
                if (msg[0]) why = std::string(msg) + " (the haystack's own storage as the needle)";
            }
        }
    }
    if (!why.empty()) return c.fail(why);
    return verif::CASE_OK;
}

// Bounded-exhaustive part.  Shards split on the haystack index.
long verif_enumerate(int shard, int nshards, int tier, verif::EnumReport &r) {
    (void)tier;   // the whole domain is enumerated in both tiers (a few seconds over 16 shards)
    static const char ALPHA[2][3] = {{'a', 'b', 'A'}, {'a', '\0', 'A'}};
    std::vector<std::string> hays[2], needles[2];
    for (int al = 0; al < 2; al++) {
        for (int len = 0; len <= 6; len++) {
            int total = 1; for (int i = 0; i < len; i++) total *= 3;
            for (int x = 0; x < total; x++) {
                std::string s; int y = x;
                for (int i = 0; i < len; i++) { s += ALPHA[al][y % 3]; y /= 3; }
                hays[al].push_back(s);
                if (len >= 1 && len <= 3) needles[al].push_back(s);
            }
        }
    }
    std::vector<uint8_t> cur;
    for (int al = 0; al < 2; al++) {
        for (size_t hi = (size_t)shard; hi < hays[al].size(); hi += (size_t)nshards) {
            for (const std::string &nd : needles[al]) {
                SearchCase k; k.hay = hays[al][hi]; k.needle = nd;
                Forms f(k, true);
                const size_t len = k.hay.size();
                for (size_t vi = 0; vi <= len + 2; vi++) {
                    size_t v = vi <= len + 1 ? vi : (size_t)-1;
                    k.start = v; k.limit = v;
                    cur = encode(k); verif::set_current(cur.data(), cur.size());
                    r.evaluations++;
                    if (classify(k).any()) r.nontrivial++;
                    std::string why = check_case(k, f);
                    if (!why.empty()) {
                        if (r.failure.empty()) { r.failure = why; r.failing_case = render(k); r.failing_bytes = cur; }
                        return r.evaluations;
                    }
                    if (r.samples.empty() && hi % 197 == 45 && nd.size() == 2 + (size_t)(shard & 1) && vi == 1 + (size_t)(shard % 3) && classify(k).any()) r.samples.push_back(render(k));
                }
            }
        }
    }
    // ---- long haystacks: every offset of start / limit inside an occurrence ---------------------------------------------------------
    {
        static const uint16_t NLT[] = {17, 31, 32, 33, 63, 64, 65, 127, 128, 129, 255, 256, 257, 511, 512, 513, 1023, 1024, 1025, 1500, 2047, 2048, 2049, 3000};
        int cfg = 0;
        for (uint16_t nl16 : NLT) for (int layout = 0; layout < 3; layout++) {
            const size_t nl = nl16;
            if (layout == 2 && nl > 1025) continue;
            if ((cfg++ % nshards) != shard) continue;
            SearchCase k;
            size_t first, last;
            if (layout < 2) {
                // sparse: background with NUL / multi-byte text, a foreign needle planted twice - the second one exactly at the end -
                // (layout 1: the needle has a NUL at index 5, so the C string forms look for its 5-byte head, and a case-flipped third copy)
                static const char BG0[] = {'a', 'b', '\0', 'A', 'c'}, BG1[] = {'a', '\xC3', '\xA9', 'b', 'x', '\xE2', '\x82'};
                static const char ND0[] = {'x', 'Y', 'z', 'W', '#', 'q', 'X'}, ND1[] = {'x', '\xE2', '\x82', '\xAC', 'Y', '\0', 'w', 'Q', 'x'};
                const size_t H = 2 * nl + 337 + (layout ? nl + 40 : 0);
                k.hay.resize(H); k.needle.resize(nl);
                for (size_t i = 0; i < H; i++) k.hay[i] = layout ? BG1[i % sizeof BG1] : BG0[i % sizeof BG0];
                for (size_t i = 0; i < nl; i++) k.needle[i] = layout ? ND1[i % sizeof ND1] : ND0[i % sizeof ND0];
                // 'x' / 'X' only at the front: a start inside a planted copy must not make every call quadratic in the needle length
                for (size_t i = 1; i < nl; i++) if (k.needle[i] == 'x' || k.needle[i] == 'X') k.needle[i] = (i % 3) ? 'k' : 'K';
                first = layout ? 7 : 100; last = H - nl;
                k.hay.replace(first, nl, k.needle); k.hay.replace(last, nl, k.needle);
                if (layout) k.hay.replace(first + nl + 20, nl, gen::flip_case(k.needle, 0x5A5A5A5Bu));
            } else {
                // dense partial matches: the needle is a chunk of the periodic background with a foreign last byte, so every
                // period-aligned position before the real occurrence matches up to the last byte and overlaps the real one
                static const char BG2[] = {'a', 'b', 'A', 'c'};
                const size_t H = nl + 4 * 64;                       // the last position is period-aligned
                k.hay.resize(H); k.needle.resize(nl);
                for (size_t i = 0; i < H; i++) k.hay[i] = BG2[i % 4];
                for (size_t i = 0; i < nl; i++) k.needle[i] = BG2[i % 4];
                k.needle[nl - 1] = 'Q';
                first = 8; last = H - nl;
                k.hay[first + nl - 1] = 'q';                       // found by the case-insensitive search only
                k.hay[last + nl - 1] = 'Q';
            }
            Forms f(k);
            Occ o(k, f.cview);
            cur = encode_long(k);
            for (size_t off = 0; off <= nl + 1; off++) {
                if (layout == 2 && !(off <= 40 || off + 40 >= nl || (off >= 1016 && off <= 1032) || off % 97 == 0)) continue;
                k.limit = last + off;                              // 0 < off < nl: the limit cuts the last occurrence at this offset
                k.start = first + off;                             // off > 0: the start lies this far inside the first occurrence
                patch_positions(cur, k.start, k.limit); verif::set_current(cur.data(), cur.size());
                r.evaluations++; r.nontrivial++;
                std::string why = check_long_case(k, f, o, off != nl / 2);      // one offset per haystack runs every overload
                if (!why.empty()) {
                    if (r.failure.empty()) { r.failure = why; r.failing_case = render_long(k, o); r.failing_bytes = cur; }
                    return r.evaluations;
                }
                if (shard == 1 && r.samples.size() < 2 && off == 1030 && nl >= 1500) r.samples.push_back(render_long(k, o));
            }
        }
        if (shard == 0) r.exhausted.push_back("needles of 17..3000 bytes (incl. 63/64/65, 255/256/257, 1023/1024/1025, 2047/2048/2049) in haystacks of 2-3 needle lengths, last occurrence exactly at the end: start = first occurrence + off and "
                                              "limit = last occurrence + off for EVERY off in 0..len+1 (sparse layouts, with NUL in haystack or needle and a case-flipped copy); dense layout (partial matches at every period overlapping the real match, "
                                              "needles <= 1025): off in 0..40, 1016..1032, len-40..len+1 and every 97th; find/find_last through ST::string, (ptr,len), const char*, const char8_t* (+len), both case modes");
    }
    // ---- haystacks of tens of KB: the only / the last occurrence straddling the edge of a 4096 / 16384 / 16386-byte block ----------------
    {
        struct Nd { const char *b; size_t n; };
        static const Nd ND[] = {{"\xC3\xA9", 2}, {"\xE2\x82\xAC", 3}, {"\xF0\x9F\x98\x80", 4}, {"Qx", 2}, {"needle-of-17-byteZ", 18}};
        // the background holds a near miss of every needle (same head, other last byte) and nothing else of them
        static const char BG[] = "a\xC3\xA8 \xE2\x82\xAB.\xF0\x9F\x98\x81Qy needle-of-17-bytez,q";
        static const size_t HS[] = {49152, 40001};
        static const size_t MS[] = {1, 2, 5};
        int cfg = 0;
        for (size_t H : HS) for (uint32_t B : EDGES) for (int from_end = 0; from_end < 2; from_end++) for (size_t m : MS) for (const Nd &nd : ND) for (int early = 0; early < 2; early++) {
            if (m * B >= H) continue;
            if ((cfg++ % nshards) != shard) continue;
            const size_t e = from_end ? H - m * B : m * B, nl = nd.n;
            SearchCase k;
            k.needle.assign(nd.b, nl);
            std::string base(H, 'a');
            for (size_t i = 0; i < H; i++) base[i] = BG[i % (sizeof BG - 1)];
            if (early) base.replace(5, nl, gen::flip_case(k.needle, 2) == k.needle ? k.needle : gen::flip_case(k.needle, 2));   // an early occurrence (case-flipped where the needle has letters)
            for (size_t sft = 0; sft <= nl; sft++) {              // sft bytes of the occurrence lie before the edge: 0 = starts at it, nl = ends at it
                if (e < sft || e - sft + nl > H) continue;
                const size_t at = e - sft;
                k.hay = base;
                k.hay.replace(at, nl, k.needle);
                Forms f(k);
                Occ o(k, f.cview);
                cur = encode_long(k);
                const size_t starts[] = {0, at, at + 1, at ? at - 1 : 0}, limits[] = {(size_t)-1, at + nl, at + nl - 1, at + nl + 1};
                for (int q = 0; q < 4; q++) {
                    k.start = starts[q]; k.limit = limits[q];
                    patch_positions(cur, k.start, k.limit); verif::set_current(cur.data(), cur.size());
                    r.evaluations++; r.nontrivial++;
                    std::string why = check_long_case(k, f, o, q != 0);
                    if (!why.empty()) {
                        if (r.failure.empty()) { r.failure = why; r.failing_case = render_long(k, o); r.failing_bytes = cur; }
                        return r.evaluations;
                    }
                }
                if (shard == 2 && r.samples.size() < 2 && sft == 1 && B == 16386 && from_end) r.samples.push_back(render_long(k, o));
            }
        }
        if (shard == 0) r.exhausted.push_back("haystacks of 49152 and 40001 bytes (near misses of the needle throughout): a 2/3/4-byte UTF-8 character, \"Qx\" and an 18-byte needle whose only (or last, after an early case-flipped one) occurrence has "
                                              "0..len of its bytes before the edge of block 1, 2 or 5 of 4096 / 16384 / 16386 bytes counted from the start and from the END; find / find_last / contains with and without start/limit "
                                              "(start at, 1 before, 1 after the occurrence; limit exactly at, 1 short of, 1 past its end), both case modes");
    }
    if (shard == 0) {
        r.exhausted.push_back("every haystack of length <= 6 over {a,b,A} (1093) x every needle of length 1..3 over {a,b,A} (39) x start=limit in 0..len+1 and SIZE_MAX, both case modes, all needle forms");
        r.exhausted.push_back("the same over the alphabet {a,NUL,A} (NUL inside haystack and needle; C string forms see the needle cut at its first NUL)");
    }
    return r.evaluations;
}

void verif_corpus(std::vector<std::vector<uint8_t>> &out) {
    SearchCase k; k.hay = "aaab"; k.needle = "aab"; out.push_back(encode(k));
    k.hay = std::string("xx\0yy\0zz", 8); k.needle = std::string("\0z", 2); k.limit = 7; out.push_back(encode(k));
    k.hay = "Hello World hello"; k.needle = "HELLO"; k.start = 1; k.limit = 16; out.push_back(encode(k));
    out.push_back({1, 2, 3, 4, 5, 6, 7, 8, 9, 10, 11, 12, 13, 14, 15, 16});
}
