// C08: slicing returns the clamped byte range for every position, count and separator.
// substr / left / right / trim_left / trim_right / trim / before_first / after_first / before_last /
// after_last of ST::string against ref/ref_text.h; allocation budget from common/alloc_track.h.
// Extended: every overload incl. the char8_t forms (on const and on mutable objects), default arguments next to explicit
// ones in every case, self-referential separators / trim sets, and a second case layout with subjects up to ~16 KB,
// separators of 1..300 bytes (255/256/257), long trim runs and character sets of up to 40 bytes (gen/gen_long89.h).
#include <string_theory/string>

#include <climits>

#include "common/verif.h"
#include "common/alloc_track.h"
#include "gen/gen_text.h"
#include "gen/gen_long89.h"
#include "ref/ref_text.h"
#include "ref/ref_text_ext89.h"

using verif::Case;

// Local workaround (see prop_C07.cpp): keep the ASan stack depot and quarantine small so that multi-million-case
// processes stay at tens of MB.  Options given in the environment still override these defaults.
extern "C" const char *__asan_default_options() { return "quarantine_size_mb=32:malloc_context_size=4"; }

const verif::Info verif_info = {
    "C08", 200,
    "one case = subject string + (start,count) + n + trim character set + separator, pushed through every slicing function. Subjects: "
    "0..60 bytes (size classes 0, 1-14, 15/16 = small-string limit, 17+) over {a b A B NUL e-acute euro}, {a b A}, an extended alphabet "
    "(whitespace, separators, 4-byte character) or raw bytes via from_validated, optionally padded with members of the trim set. start "
    "from {0, +-1, +-(size-1), +-size, +-(size+1), SSIZE_MIN(+k), SSIZE_MAX(-k), inside, random 64-bit}; count from {default, 0, 1, "
    "exact rest, rest+-1, size, size+1, SIZE_MAX, SIZE_MAX-1, SIZE_MAX-start+d, random 64-bit}; n for left/right from 0..2*size+2, "
    "SIZE_MAX, SIZE_MAX-1, random; trim sets: default, explicit whitespace, end bytes of the subject, all bytes of the subject, random, "
    "empty; separators of length 0, 1, 2+ (cut from the subject, case-flipped, at the ends, the whole subject, unrelated, one arbitrary "
    "byte) as char, const char* (judged on the separator cut at its first NUL) and ST::string, both case modes. Enumerated: strings of "
    "length 0..18 x every start in -(len+2)..len+2 and SSIZE_MIN/MAX(+-1) x every count in 0..len+2, SIZE_MAX-0..len+3, "
    "SIZE_MAX-start+-2, and left/right for every n in 0..2*len+2, SIZE_MAX-0..2. Oracle: reference slicing on std::string with "
    "non-wrapping arithmetic; before + matched separator + after == s checked on the library's own results; not-found rules; "
    "verif::budget_exceeded (allocation > 1 GiB inside a library call) or any other exception = violation. Non-trivial: substr clamping "
    "happens (start < -size, start > size, or count > size-begin), or n > size, or the separator has length >= 2. "
    "EXTENDED - every case additionally: substr(start) next to substr(start,count) and substr(start, ST_AUTO_SIZE); the defaulted trim set "
    "next to the explicit one; before/after_first/last through const char8_t* on the const subject and on a second, mutable subject object "
    "(own buffer), and the ST::string / const char* / char forms on that mutable object too; the subject as its own separator (ST::string "
    "and c_str()) and its own c_str() as trim set. Long layout (leading byte 0xE0..0xFD, ~12% of the cases): subjects of 17 bytes..~48 KB "
    "(half <= 300, block sizes 256..16384 +-1, 3 in 16 - about 1 case in 70 overall - between 16 and 48 KB) expanded from a 64-bit value over ordinary text / {a b A} / "
    "core alphabet with NUL and multi-byte / raw bytes / the neighbours of the letter ranges (@ ` [ { \\ | ] } ^ ~ _ DEL) / a whitespace "
    "mix (VT FF NBSP NEL NUL), with 0..700 planted separators of 1..300 bytes (255/256/257 among them): a ruler of dashes or distinct "
    "punctuation that occurs nowhere else, letters mixed with case neighbours, multi-byte characters, one containing NUL, or cut out of the "
    "subject (optionally with 1-3 bytes XOR 0x20); planted look-alikes (letter case flipped, every byte XOR 0x20, one byte short, one byte "
    "changed, doubled); first site at offset 0 / last site ending at the end; the LAST site starting B*m-1..B*m+|sep|+1 bytes before the END "
    "and the FIRST at B*m-|sep|-1..B*m+1 from the START for B in {32..16386} (block edges); runs of 0..600 trim-set members on both sides, "
    "fenced by VT/FF/NUL/NBSP/NEL bytes; trim sets of 0..40 bytes (33, 40, 17 with the last >= 0x80, lead/continuation bytes, bytes of the "
    "subject, random); positions from the same tables with 16-bit offsets. Enumerated in addition: separators of every length 1..300 x 6 "
    "placements x 2 kinds; a 70001-byte subject x positions around 255/256/65535/65536; the last/first/only occurrence of a 2/3/8/17-byte "
    "separator at every offset around block edges (16..16386 from END and START) of a 49157-byte text; whitespace runs of every length "
    "0..300, 600, 4096, 70000.",
    true, "exploration"};

namespace {

typedef long long ll;
typedef unsigned long long ull;

struct SliceCase {
    std::string s;
    ll start = 0; ull count = ULLONG_MAX; bool count_default = true;   // substr(start) vs substr(start,count)
    ull n = 0;                                                         // left(n), right(n)
    std::string set; bool set_default = true;                          // trim character set (no NUL)
    std::string sep;                                                   // separator
    bool prelude = false;                                              // first search another, four times longer separator case-insensitively (what an earlier call leaves behind must not matter)
};

std::string str(const ST::string &x) { return std::string(x.c_str(), x.size()); }

std::string diff(const char *what, const std::string &got, const std::string &want) {
    return std::string(what) + " returned " + verif::quoted(got) + "[" + verif::unum(got.size()) + "], reference " + verif::quoted(want) + "[" + verif::unum(want.size()) + "]";
}

#define SAME(expr, want, what) \
    do { std::string g_; { verif::alloc::LibScope ls_; ST::string t_ = (expr); g_ = str(t_); } \
         const std::string w_ = (want); if (g_ != w_) return diff(what, g_, w_); } while (0)

// before + matched separator + after == s, judged on the library's results alone
std::string reassembles(const std::string &s, const std::string &before, const std::string &after, const std::string &sep, bool ci, const char *which) {
    if (before.size() + sep.size() + after.size() != s.size())
        return std::string(which) + ": |before| + |separator| + |after| = " + verif::unum(before.size() + sep.size() + after.size()) + " != size " + verif::unum(s.size());
    if (s.compare(0, before.size(), before) != 0) return std::string(which) + ": before is not a prefix of the subject";
    if (s.compare(s.size() - after.size(), after.size(), after) != 0) return std::string(which) + ": after is not a suffix of the subject";
    if (!ref::occurs_at(s, before.size(), sep, ci)) return std::string(which) + ": the bytes between before and after do not match the separator";
    return std::string();
}

// separator functions for one separator form.  F yields the four results through the given overload.
// Subj is `const ST::string` or `ST::string` (overload resolution on a mutable object must end in the same functions).
// The model's answer for (subject, what the overload can see of the separator, case mode); computed once, used for every
// overload that sees the same bytes.
struct Model {
    ref::Sides f, l;
    Model(const std::string &S, const std::string &seen, bool ci)
        : f(ref::around_first(S, seen, ci)), l(S.size() > 256 ? ref89::around_last(S, seen, ci) : ref::around_last(S, seen, ci)) {}
};
template <class SepArg, class Subj>
std::string check_sep_form(Subj &ss, const std::string &S, const SepArg &arg, const std::string &seen, const Model &mdl, bool ci, const char *form) {
    const ST::case_sensitivity_t cs = ci ? ST::case_insensitive : ST::case_sensitive;
    const ref::Sides &f = mdl.f, &l = mdl.l;
    std::string bf, af, bl, al;
    {
        verif::alloc::LibScope ls;
        ST::string r1 = ss.before_first(arg, cs), r2 = ss.after_first(arg, cs), r3 = ss.before_last(arg, cs), r4 = ss.after_last(arg, cs);
        bf = str(r1); af = str(r2); bl = str(r3); al = str(r4);
    }
    std::string tag = std::string("(") + form + (ci ? ", case_insensitive)" : ", case_sensitive)");
    if (bf != f.before) return diff(("before_first" + tag).c_str(), bf, f.before);
    if (af != f.after) return diff(("after_first" + tag).c_str(), af, f.after);
    if (bl != l.before) return diff(("before_last" + tag).c_str(), bl, l.before);
    if (al != l.after) return diff(("after_last" + tag).c_str(), al, l.after);
    if (f.found) {   // the separator occurs: both pairs reassemble the original
        std::string why = reassembles(S, bf, af, seen, ci, ("before_first/after_first" + tag).c_str());
        if (why.empty()) why = reassembles(S, bl, al, seen, ci, ("before_last/after_last" + tag).c_str());
        if (!why.empty()) return why;
    } else {         // it does not: before_first and after_last whole, the other two empty
        if (bf != S || al != S || !af.empty() || !bl.empty()) return "not-found rule broken " + tag;
    }
    if (!ci) {       // default case mode is the case-sensitive one
        std::string d1, d2, d3, d4;
        { verif::alloc::LibScope ls; d1 = str(ss.before_first(arg)); d2 = str(ss.after_first(arg)); d3 = str(ss.before_last(arg)); d4 = str(ss.after_last(arg)); }
        if (d1 != bf || d2 != af || d3 != bl || d4 != al) return "default case mode differs from case_sensitive " + tag;
    }
    return std::string();
}

std::string check_slices(const SliceCase &k) {
    verif::alloc::reset();
    if (k.prelude) {
        const size_t L = 4 * k.sep.size() + 1000;
        std::string ls(L, '\0'); uint64_t x = 0x1234567 ^ L;
        for (size_t i = 0; i < L; i++) { x = x * 6364136223846793005ull + 1442695040888963407ull; ls[i] = "abcdefghijklmnopqrstuvwxyzABCDEFGHIJKLMNOPQRSTUVWXYZ"[(x >> 33) % 52]; }
        std::string twin = ls; for (char &ch : twin) ch = (char)(ch ^ 0x20);
        try { verif::alloc::LibScope l; const ST::string subj = ST::string::from_validated(("head " + twin + " tail").c_str(), L + 10), lsep = ST::string::from_validated(ls.data(), L);
              (void)subj.before_first(lsep, ST::case_insensitive); (void)subj.after_last(lsep, ST::case_insensitive); (void)subj.before_last(ls.c_str(), ST::case_insensitive); } catch (...) {}
        verif::alloc::reset();
    }
    const std::string &S = k.s;
    verif::Exact<char> sx(S);
    verif::Exact<char> setz(k.set, true), sepz(k.sep, true);
    const char8_t *sepz8 = reinterpret_cast<const char8_t *>(sepz.data());
    try {
        ST::string ss_;
        { verif::alloc::LibScope ls; ss_ = ST::string::from_validated(sx.data(), sx.size()); }
        const ST::string &ss = ss_;

        // substr: with the count given, with the count defaulted (= to the end), and the default spelled out as ST_AUTO_SIZE
        if (k.count_default) SAME(ss.substr((ST_ssize_t)k.start), ref::substr(S, k.start, ULLONG_MAX), "substr(start)");
        else SAME(ss.substr((ST_ssize_t)k.start, (size_t)k.count), ref::substr(S, k.start, k.count), "substr(start,count)");
        if (!k.count_default) SAME(ss.substr((ST_ssize_t)k.start), ref::substr(S, k.start, ULLONG_MAX), "substr(start) [count defaulted]");
        else SAME(ss.substr((ST_ssize_t)k.start, ST_AUTO_SIZE), ref::substr(S, k.start, ULLONG_MAX), "substr(start, ST_AUTO_SIZE)");
        // left / right
        SAME(ss.left((size_t)k.n), ref::left(S, k.n), "left(n)");
        SAME(ss.right((size_t)k.n), ref::right(S, k.n), "right(n)");
        // trims: the defaulted character set (documented: blank, tab, CR, LF) in every case, and the explicit set
        {
            const std::string ws = " \t\r\n";
            SAME(ss.trim_left(), ref::trim_left(S, ws), "trim_left()");
            SAME(ss.trim_right(), ref::trim_right(S, ws), "trim_right()");
            SAME(ss.trim(), ref::trim(S, ws), "trim()");
        }
        if (!k.set_default) {
            SAME(ss.trim_left(setz.data()), ref::trim_left(S, k.set), "trim_left(set)");
            SAME(ss.trim_right(setz.data()), ref::trim_right(S, k.set), "trim_right(set)");
            SAME(ss.trim(setz.data()), ref::trim(S, k.set), "trim(set)");
        }
        // separators: ST::string form sees all bytes, const char* / const char8_t* the part before the first NUL, char a single byte
        ST::string seps;
        { verif::alloc::LibScope ls; seps = ST::string::from_validated(k.sep.data(), k.sep.size()); }
        const std::string cview = ref::c_view(k.sep);
        // a second, mutable subject object built by another route (own buffer): the char8_t overloads and the others must
        // resolve to the same results on it
        ST::string ms;
        { verif::alloc::LibScope ls; ms = ST::string(sx.data(), sx.size(), ST::assume_valid); }
        const std::string own = ref::c_view(S);
        for (int m = 0; m < 2; m++) {
            const bool ci = m != 0;
            const Model full(S, k.sep, ci);
            const Model cut_(S, cview.size() == k.sep.size() ? std::string() : cview, ci);     // only needed when a NUL cuts the C view short
            const Model &cut = cview.size() == k.sep.size() ? full : cut_;
            std::string why = check_sep_form(ss, S, seps, k.sep, full, ci, "ST::string");
            if (why.empty()) why = check_sep_form<const char *>(ss, S, sepz.data(), cview, cut, ci, "const char*");
            if (why.empty() && k.sep.size() == 1) why = check_sep_form<char>(ss, S, k.sep[0], k.sep, full, ci, "char");
            if (why.empty()) why = check_sep_form<const char8_t *>(ss, S, sepz8, cview, cut, ci, "const char8_t*");
            if (why.empty()) why = check_sep_form<const char8_t *>(ms, S, sepz8, cview, cut, ci, "const char8_t*, mutable subject");
            if (why.empty()) why = check_sep_form(ms, S, seps, k.sep, full, ci, "ST::string, mutable subject");
            if (why.empty()) why = check_sep_form<const char *>(ms, S, sepz.data(), cview, cut, ci, "const char*, mutable subject");
            if (why.empty() && k.sep.size() == 1) why = check_sep_form<char>(ms, S, k.sep[0], k.sep, full, ci, "char, mutable subject");
            // self-referential: the subject is its own separator (it occurs once, at 0, when not empty)
            if (why.empty()) { const Model self(S, S, ci); why = check_sep_form(ss, S, ss, S, self, ci, "ST::string = the subject itself"); }
            if (why.empty()) { const Model selfc(S, own, ci); why = check_sep_form<const char *>(ss, S, ss.c_str(), own, selfc, ci, "const char* = the subject's own c_str()"); }
            if (!why.empty()) return why;
        }
        // ... and its own trim set (as a C string: the bytes before its first NUL)
        {
            SAME(ss.trim_left(ss.c_str()), ref89::trim_left(S, own), "trim_left(own c_str())");
            SAME(ss.trim_right(ss.c_str()), ref89::trim_right(S, own), "trim_right(own c_str())");
            SAME(ss.trim(ss.c_str()), ref89::trim(S, own), "trim(own c_str())");
        }
        { verif::alloc::LibScope ls; ss_ = ST::string(); seps = ST::string(); ms = ST::string(); }
    } catch (const verif::budget_exceeded &b) {
        return std::string("oversized allocation attempted inside a slicing call: ") + b.what;
    } catch (...) {
        return "unexpected " + verif::describe_current_exception();
    }
    return std::string();
}

// ------------------------------------------------------------------------------------------------
struct Cls { bool clamp_neg = false, start_past = false, count_clamped = false, n_over = false, sep_long = false;
             bool any() const { return clamp_neg || start_past || count_clamped || n_over || sep_long; } };
Cls classify(const SliceCase &k) {
    Cls c;
    const ull n = k.s.size();
    ull b = 0;
    if (k.start < 0) { ull back = 0ull - (ull)k.start; if (back > n) c.clamp_neg = true; b = back >= n ? 0 : n - back; }
    else if ((ull)k.start > n) c.start_past = true; else b = (ull)k.start;
    if (!c.start_past && !k.count_default && k.count > n - b) c.count_clamped = true;
    if (k.n > n) c.n_over = true;
    if (k.sep.size() >= 2) c.sep_long = true;
    return c;
}

std::string sstart(ll v) {
    if (v == LLONG_MIN) return "SSIZE_MIN";
    if (v == LLONG_MAX) return "SSIZE_MAX";
    if (v < LLONG_MIN + 1000) return "SSIZE_MIN+" + verif::num(v - LLONG_MIN);
    if (v > LLONG_MAX - 1000) return "SSIZE_MAX-" + verif::num(LLONG_MAX - v);
    return verif::num(v);
}
std::string ucount(ull v) {
    if (v == ULLONG_MAX) return "SIZE_MAX";
    if (v > ULLONG_MAX - 100000) return "SIZE_MAX-" + verif::unum(ULLONG_MAX - v);
    return verif::unum(v);
}
std::string render(const SliceCase &k) {
    std::string o = "C08 s=" + verif::quoted(k.s, 48) + "[" + verif::unum(k.s.size()) + "] substr(" + sstart(k.start) + (k.count_default ? std::string() : "," + ucount(k.count)) + ")=" +
                    verif::quoted(ref::substr(k.s, k.start, k.count_default ? ULLONG_MAX : k.count), 24);
    o += " left/right(" + ucount(k.n) + ")=" + verif::quoted(ref::left(k.s, k.n), 16) + "/" + verif::quoted(ref::right(k.s, k.n), 16);
    o += " trim(" + (k.set_default ? std::string("default") : verif::quoted(k.set, 16)) + ")=" + verif::quoted(ref::trim(k.s, k.set_default ? std::string(" \t\r\n") : k.set), 24);
    ref::Sides f = ref::around_first(k.s, k.sep, false), l = ref::around_last(k.s, k.sep, true);
    o += " sep=" + verif::quoted(k.sep, 16) + " forms={string,cstr" + (k.sep.size() == 1 ? ",char}" : "}") + " first(cs): " +
         (f.found ? verif::quoted(f.before, 16) + "|" + verif::quoted(f.after, 16) : std::string("absent")) + " last(ci): " +
         (l.found ? verif::quoted(l.before, 16) + "|" + verif::quoted(l.after, 16) : std::string("absent")) + " (model)";
    return o;
}

void put64(std::vector<uint8_t> &v, uint64_t x) { for (int i = 0; i < 8; i++) v.push_back((uint8_t)(x >> (8 * i))); }
// directed encoding understood by verif_case (first byte 0xFF)
std::vector<uint8_t> encode(const SliceCase &k) {
    std::vector<uint8_t> v;
    v.push_back(0xFF);
    v.push_back((uint8_t)((k.count_default ? 1 : 0) | (k.set_default ? 2 : 0)));
    put64(v, (uint64_t)k.start); put64(v, k.count); put64(v, k.n);
    v.push_back((uint8_t)k.s.size()); v.push_back((uint8_t)k.set.size()); v.push_back((uint8_t)k.sep.size());
    v.insert(v.end(), k.s.begin(), k.s.end());
    v.insert(v.end(), k.set.begin(), k.set.end());
    v.insert(v.end(), k.sep.begin(), k.sep.end());
    return v;
}

void put32(std::vector<uint8_t> &v, uint32_t x) { for (int i = 0; i < 4; i++) v.push_back((uint8_t)(x >> (8 * i))); }
// directed encoding for long fields (first bytes 0xFE 0xA5 0x5A): 32-bit lengths
std::vector<uint8_t> encode_long(const SliceCase &k) {
    std::vector<uint8_t> v;
    v.push_back(0xFE); v.push_back(0xA5); v.push_back(0x5A);
    v.push_back((uint8_t)((k.count_default ? 1 : 0) | (k.set_default ? 2 : 0) | (k.prelude ? 4 : 0)));
    put64(v, (uint64_t)k.start); put64(v, k.count); put64(v, k.n);
    put32(v, (uint32_t)k.s.size()); put32(v, (uint32_t)k.set.size()); put32(v, (uint32_t)k.sep.size());
    v.insert(v.end(), k.s.begin(), k.s.end());
    v.insert(v.end(), k.set.begin(), k.set.end());
    v.insert(v.end(), k.sep.begin(), k.sep.end());
    return v;
}
std::vector<uint8_t> encode_any(const SliceCase &k) { return (k.s.size() > 255 || k.set.size() > 255 || k.sep.size() > 255) ? encode_long(k) : encode(k); }

std::string strip_nul(const std::string &s) { std::string o; for (char ch : s) if (ch) o += ch; return o; }
std::string distinct_bytes(const std::string &s) { std::string o; for (char ch : s) if (ch && o.find(ch) == std::string::npos) o += ch; return o; }

// start / count / n relative to the subject's size (shared by the two generated layouts; sv, cv, nv are one byte in the
// original layout and two bytes in the long layout)
void choose_positions(SliceCase &k, unsigned ssel, ull sv, unsigned csel, ull cv, unsigned nsel, ull nv, uint64_t big1, uint64_t big2, uint64_t big3) {
    const ll n = (ll)k.s.size();
    switch (ssel) {
        case 0: k.start = 0; break;             case 1: k.start = 1; break;               case 2: k.start = -1; break;
        case 3: k.start = n - 1; break;         case 4: k.start = -(n - 1); break;        case 5: k.start = n; break;
        case 6: k.start = -n; break;            case 7: k.start = n + 1; break;           case 8: k.start = -(n + 1); break;
        case 9: k.start = LLONG_MIN; break;     case 10: k.start = LLONG_MAX; break;      case 11: k.start = (ll)(sv % (ull)(n + 2)); break;
        case 12: k.start = -(ll)(sv % (ull)(n + 2)); break;                                case 13: k.start = (ll)big1; break;
        case 14: k.start = LLONG_MIN + (ll)sv; break;                                      default: k.start = LLONG_MAX - (ll)sv; break;
    }
    // where the slice begins (to aim the count at the exact rest)
    ull begin = 0;
    if (k.start < 0) { ull back = 0ull - (ull)k.start; begin = back >= (ull)n ? 0 : (ull)n - back; } else begin = (ull)k.start > (ull)n ? (ull)n : (ull)k.start;
    const ull rest = (ull)n - begin;
    k.count_default = false;
    switch (csel) {
        case 0: k.count_default = true; k.count = ULLONG_MAX; break;
        case 1: k.count = 0; break;             case 2: k.count = 1; break;               case 3: k.count = rest; break;
        case 4: k.count = (ull)n; break;        case 5: k.count = (ull)n + 1; break;      case 6: k.count = ULLONG_MAX; break;
        case 7: k.count = ULLONG_MAX - 1; break;
        case 8: k.count = ULLONG_MAX - (ull)k.start + (ull)(cv % 5) - 2; break;            // SIZE_MAX - start + d, d in -2..2 (start + count wraps around 0)
        case 9: k.count = cv % ((ull)n + 2); break;
        case 10: k.count = rest + (cv & 1 ? 1 : 0) - (cv & 2 && rest ? 1 : 0); break;
        default: k.count = big2; break;
    }
    // n for left / right
    switch (nsel) {
        case 0: k.n = nv % (2 * (ull)n + 3); break;                                       // 0 .. 2*size+2
        case 1: k.n = (ull)n; break;            case 2: k.n = (ull)n + 1 + nv % ((ull)n + 1); break;   // size < n <= 2*size+1
        case 3: k.n = ULLONG_MAX; break;        case 4: k.n = ULLONG_MAX - 1 - nv % 4; break;
        case 5: k.n = 2 * (ull)n + nv % 3; break;                                          case 6: k.n = n ? (ull)n - 1 : 0; break;
        default: k.n = big3; break;
    }
}

const char *start_label(const SliceCase &k) {
    const ll n = (ll)k.s.size();
    return k.start == 0 ? "start:0" : k.start > 0 ? (k.start < n ? "start:inside" : k.start == n ? "start:==size" : k.start > (1ll << 62) ? "start:near-SSIZE_MAX" : "start:>size")
                        : ((0ull - (ull)k.start) < (ull)n ? "start:negative-inside" : (0ull - (ull)k.start) == (ull)n ? "start:==-size" : k.start < -(1ll << 62) ? "start:near-SSIZE_MIN" : "start:<-size");
}
const char *count_label(const SliceCase &k) {
    const ll n = (ll)k.s.size();
    ull begin = 0;
    if (k.start < 0) { ull back = 0ull - (ull)k.start; begin = back >= (ull)n ? 0 : (ull)n - back; } else begin = (ull)k.start > (ull)n ? (ull)n : (ull)k.start;
    const ull rest = (ull)n - begin;
    return k.count_default ? "count:default" : k.count == 0 ? "count:0" : k.count < rest ? "count:<rest" : k.count == rest ? "count:==rest"
           : k.count >= ULLONG_MAX - 1 ? "count:SIZE_MAX/-1" : (k.start > 0 && k.count >= ULLONG_MAX - (ull)k.start - 2) ? "count:SIZE_MAX-start+d" : k.count > (1ull << 62) ? "count:huge" : "count:>rest";
}
const char *n_label(const SliceCase &k) {
    const ull n = k.s.size();
    return k.n <= n ? "n:<=size" : k.n < 2 * n ? "n:size<n<2*size" : k.n >= ULLONG_MAX - 8 ? "n:SIZE_MAX(-k)" : "n:>=2*size";
}

// the long layout (leading byte 0xE0..0xFD): subject and separator from gen/gen_long89.h, padded with long runs of trim-set members
void decode_long(verif::Reader &r, SliceCase &k, Case &c) {
    gen89::LongPlan lp = gen89::plan_long(r, 3);     // 3 of 16 long cases (about 1 case in 70 overall) are 16..48 KB
    unsigned ssel = (unsigned)r.range(0, 15); ull sv = r.range(0, 65535);
    unsigned csel = (unsigned)r.range(0, 11); ull cv = r.range(0, 65535);
    unsigned nsel = (unsigned)r.range(0, 7); ull nv = r.range(0, 65535);
    unsigned tsel = (unsigned)r.range(0, gen89::NSETS - 1);
    size_t runl = r.pick(gen89::RUNLEN), runr = r.pick(gen89::RUNLEN);
    unsigned tf = r.u8();
    uint64_t big1 = (ssel == 13) ? r.bits64() : 0, big2 = (csel == 11) ? r.bits64() : 0, big3 = (nsel == 7) ? r.bits64() : 0;
    gen89::Long lt = gen89::build_long(lp);
    gen89::Mix m(lp.seed * 0x9E3779B97F4A7C15ull + tsel);
    k.set_default = tsel == 0;
    k.set = gen89::make_set((int)tsel, lt.s, m);
    const std::string set = k.set;       // tsel 0: the documented default, also passed to the model
    // runs of set members around the text (a whole-string run when tf says so), optionally fenced by a byte that looks like
    // whitespace but is not in the default set (VT, FF, NUL, NBSP / NEL bytes): trimming must stop there
    std::string l, t;
    if (!set.empty()) {
        for (size_t i = 0; i < runl; i++) l += set[m.below((uint32_t)set.size())];
        for (size_t i = 0; i < runr; i++) t += set[m.below((uint32_t)set.size())];
    }
    static const char fence[] = {'\v', '\f', '\0', '\xA0', '\x85', 'x'};
    std::string body = (tf & 0x30) == 0x30 && !lt.aligned_end && !lt.aligned_start ? std::string() : lt.s;   // 1 in 4: nothing but the runs (trim removes everything)
    if (lt.aligned_start) l.clear(); else if (tf & 1) body = std::string(1, fence[(tf >> 1) % sizeof fence]) + body;   // block-aligned texts keep their distances
    if (lt.aligned_end) t.clear(); else if (tf & 0x40) body += fence[(tf >> 1) % sizeof fence];
    k.s = l + body + t;
    k.sep = lt.sep;
    choose_positions(k, ssel, sv, csel, cv, nsel, nv, big1, big2, big3);

    const size_t sz = k.s.size();
    c.label("x:long-layout");
    c.label(sz <= 300 ? "x:size:<=300" : sz <= 1500 ? "x:size:301-1500" : sz <= 4200 ? "x:size:1501-4200" : sz <= 16500 ? "x:size:4201-16500" : "x:size:16501-50000");
    if (lt.aligned_end) c.label("x:last-occurrence-at-block-edge-from-END");
    if (lt.aligned_start) c.label("x:first-occurrence-at-block-edge-from-START");
    c.label(gen89::filler_name(lp.filler));
    c.label(gen89::sep_kind_name(lp.kind));
    { const size_t L = k.sep.size(); c.label(L < 8 ? "x:seplen:1-7" : L <= 64 ? "x:seplen:8-64" : L < 255 ? "x:seplen:65-254" : L <= 257 ? "x:seplen:255-257" : "x:seplen:258-300"); }
    c.label(gen89::set_name((int)tsel));
    { size_t occ = ref89::count_nonoverlapping(k.s, k.sep, true);
      c.label(occ == 0 ? "x:occ:0" : occ == 1 ? "x:occ:1" : occ < 17 ? "x:occ:2-16" : occ < 200 ? "x:occ:17-199" : "x:occ:200+");
      if (occ != ref89::count_nonoverlapping(k.s, k.sep, false)) c.label("x:ci-only-occurrences"); }
    if (!k.sep.empty() && ref::starts_with(k.s, k.sep, false)) c.label("x:sep-is-prefix");
    if (!k.sep.empty() && ref::ends_with(k.s, k.sep, false)) c.label("x:sep-ends-at-end");
    if (sz <= 6000 && ref89::has_xor20_near_miss(k.s, k.sep)) c.label("x:ci-xor-0x20-near-miss");
    { const std::string tl = ref::trim_left(k.s, set), tr = ref::trim_right(k.s, set);
      if (sz - tl.size() >= 255 || sz - tr.size() >= 255) c.label("x:trim-run>=255"); }
    if (k.start > 255 && (size_t)k.start < sz) c.label("x:start-inside>255");
}

}  // namespace

int verif_case(const uint8_t *data, size_t size, Case &c) {
    verif::Reader r(data, size, c);
    SliceCase k;
    uint8_t mode = r.u8();
    if (mode == 0xFF) {
        uint8_t fl = r.u8();
        k.count_default = fl & 1; k.set_default = (fl & 2) != 0;
        k.start = (ll)r.bits64(); k.count = r.bits64(); k.n = r.bits64();
        size_t sl = r.u8(), tl = r.u8(), pl = r.u8();
        for (size_t i = 0; i < sl; i++) k.s += (char)r.u8();
        for (size_t i = 0; i < tl; i++) k.set += (char)r.u8();
        for (size_t i = 0; i < pl; i++) k.sep += (char)r.u8();
        k.set = strip_nul(k.set);
        c.label("directed");
    } else if (mode == 0xFE && size >= 3 && data[1] == 0xA5 && data[2] == 0x5A) {
        // directed, long fields (written by the enumerators): 32-bit lengths, capped
        r.u8(); r.u8();
        uint8_t fl = r.u8();
        k.count_default = fl & 1; k.set_default = (fl & 2) != 0; k.prelude = (fl & 4) != 0;
        k.start = (ll)r.bits64(); k.count = r.bits64(); k.n = r.bits64();
        size_t sl = r.bits32(), tl = r.bits32(), pl = r.bits32();
        if (sl > (1u << 18)) sl = 1u << 18;
        if (tl > 4096) tl = 4096;
        if (pl > (1u << 18)) pl = 1u << 18;
        if (sl + tl + pl > size) { sl = sl < size ? sl : size; tl = tl < size ? tl : size; pl = pl < size ? pl : size; }   // never longer than the input itself
        k.s.reserve(sl);
        for (size_t i = 0; i < sl; i++) k.s += (char)r.u8();
        for (size_t i = 0; i < tl; i++) k.set += (char)r.u8();
        for (size_t i = 0; i < pl; i++) k.sep += (char)r.u8();
        k.set = strip_nul(k.set);
        c.label("directed-long");
    } else if (mode >= 0xE0 && mode <= 0xFD) {
        decode_long(r, k, c);
    } else if (mode >= 0xC8 && mode <= 0xDF) {
        // fold-stress layout (as in C07): the subject is 8..96 bytes over pairs of bytes that differ only in bit 0x20 (letters, the neighbours of
        // the letter range, digits/controls, bytes >= 0x80); the separator is a slice of 1..40 bytes with 0..3 bytes XOR 0x20, so that it matches
        // case-insensitively exactly when every changed byte is a letter.  The trim set is drawn from the same table.
        static const unsigned char FOLD[] = {'a', 'A', 'z', 'Z', 'm', 'M', '@', '`', '[', '{', '\\', '|', ']', '}', '^', '~', '_', 0x7F, '0', 0x10, '9', 0x19, ' ', 0x01, '!', 0x21,
                                             0xC1, 0xE1, 0xDA, 0xFA, 0xC0, 0xE0, 0xDF, 0xFF, 0x80, 0xA0, 0x9F, 0xBF, 0xC3, 0xE3, 0xE9, 0xC9};
        const size_t hl = 8 + (size_t)r.range(0, 88), nl0 = 1 + (size_t)r.range(0, 39);
        const unsigned flips = (unsigned)r.range(0, 3), np1 = r.u8(), f1 = r.u8(), f2 = r.u8(), f3 = r.u8(), ts = r.u8();
        const bool lettery = r.flag();
        for (size_t i = 0; i < hl; i++) { unsigned v = r.u8(); k.s += (char)(lettery && (v & 0xC0) ? FOLD[v % 6] : FOLD[v % sizeof FOLD]); }
        const size_t nl = nl0 > hl ? hl : nl0, at = np1 % (hl - nl + 1);
        k.sep = k.s.substr(at, nl);
        const unsigned fp[3] = {f1, f2, f3};
        for (unsigned i = 0; i < flips; i++) k.sep[fp[i] % nl] = (char)(k.sep[fp[i] % nl] ^ 0x20);
        k.set_default = false;
        for (unsigned i = 0; i < 1 + ts % 4; i++) { char ch = (char)FOLD[(ts / 4 + i * 7) % sizeof FOLD]; if (ch && k.set.find(ch) == std::string::npos) k.set += ch; }
        k.start = (ll)(np1 % (hl + 2)) - 1; k.count = f1 % (hl + 2); k.count_default = (f2 & 1) != 0; k.n = f3 % (2 * hl + 2);
        c.label("fold-stress"); c.label(nl >= 8 ? "fold-stress:sep>=8" : "fold-stress:sep<8");
        if (ref::count_occurrences(k.s, k.sep, true) != ref::count_occurrences(k.s, k.sep, false)) c.label("sep:ci-only-occurrences");
    } else {
        // structural choices first, content afterwards
        gen::Plan sp = gen::plan(r, 60, 2);
        unsigned ssel = (unsigned)r.range(0, 15), sv = r.u8();
        unsigned csel = (unsigned)r.range(0, 11), cv = r.u8();
        unsigned nsel = (unsigned)r.range(0, 7), nv = r.u8();
        unsigned tsel = (unsigned)r.range(0, 5), pad = r.u8();
        unsigned psel = (unsigned)r.range(0, 9), pv1 = r.u8(), pv2 = r.u8();
        uint64_t big1 = (ssel == 13) ? r.bits64() : 0, big2 = (csel == 11) ? r.bits64() : 0, big3 = (nsel == 7) ? r.bits64() : 0;
        gen::Text st = gen::fill_text(r, sp);
        std::string S = st.bytes;
        // trim set
        k.set_default = false;
        switch (tsel) {
            case 0: k.set_default = true; k.set = " \t\r\n"; break;
            case 1: k.set = " \t\r\n"; break;
            case 2: { if (!S.empty()) { k.set += S[0]; k.set += S[S.size() - 1]; if (S.size() > 2 && (pad & 0x40)) k.set += S[1]; } k.set = distinct_bytes(k.set); break; }
            case 3: k.set = distinct_bytes(S); break;                              // covers the whole string (unless it has NULs)
            case 4: k.set = distinct_bytes(gen::fill(r, 1 + pv2 % 3, st.alpha)); break;
            default: break;                                                        // empty set
        }
        // optional padding with members of the trim set, so that trimming has something to remove
        if ((pad & 0x80) && !k.set.empty()) {
            std::string l, t;
            for (unsigned i = 0; i < (pad & 3u); i++) l += k.set[(i + pad) % k.set.size()];
            for (unsigned i = 0; i < ((pad >> 2) & 3u); i++) t += k.set[(i + (pad >> 4)) % k.set.size()];
            S = l + S + t;
        }
        k.s = S;
        const ll n = (ll)S.size();
        choose_positions(k, ssel, sv, csel, cv, nsel, nv, big1, big2, big3);
        // separator
        const size_t sz = S.size();
        switch (psel) {
            case 0: if (sz) k.sep = S.substr(pv1 % sz, 1); break;
            case 1: if (sz) k.sep = S.substr(pv1 % sz, 2 + pv2 % 2); break;
            case 2: if (sz) k.sep = gen::flip_case(S.substr(pv1 % sz, 1 + pv2 % 3), r.bits32() | 1u); break;
            case 3: break;                                                                      // empty
            case 4: k.sep = gen::fill(r, 1 + pv1 % 3, st.alpha); break;                        // unrelated
            case 5: k.sep = S.substr(0, 1 + pv1 % 2); break;                                   // at the very start
            case 6: { size_t l = 1 + pv1 % 2; k.sep = sz >= l ? S.substr(sz - l) : S; break; } // at the very end
            case 7: k.sep = S; break;                                                           // the whole subject
            case 8: k.sep = std::string(1, (char)r.u8()); break;                               // one arbitrary byte
            default: if (sz) k.sep = S.substr(pv1 % sz, 1 + pv2 % 6); break;
        }

        c.label(gen::size_label(S.size()));
        if (gen::has_nul(S)) c.label("s:has-NUL");
        if (st.alpha == gen::A_RAW) c.label("s:raw-bytes"); else if (gen::has_high(S)) c.label("s:multibyte");
        c.label(start_label(k));
        c.label(count_label(k));
        c.label(n_label(k));
        { const std::string set = k.set_default ? std::string(" \t\r\n") : k.set; std::string t = ref::trim(S, set);
          c.label(t.size() == S.size() ? "trim:nothing" : t.empty() ? "trim:everything" : (ref::trim_left(S, set).size() < S.size() && ref::trim_right(S, set).size() < S.size()) ? "trim:both-ends" : "trim:one-end"); }
        c.label(k.sep.empty() ? "sep:empty" : k.sep.size() == 1 ? "sep:1-byte(char form)" : "sep:2+bytes");
        { size_t occ = ref::count_occurrences(S, k.sep, false), occi = ref::count_occurrences(S, k.sep, true);
          c.label(occi == 0 ? "sep:absent" : occi == 1 ? "sep:occurs-once" : "sep:occurs-many");
          if (occi != occ) c.label("sep:ci-only-occurrences");
          if (!k.sep.empty() && (ref::starts_with(S, k.sep, true) || ref::ends_with(S, k.sep, true))) c.label("sep:at-an-end"); }
    }
    Cls w = classify(k);
    c.nontrivial = w.any();
    if (c.want_text) c.text = render(k);
    std::string why = check_slices(k);
    if (!why.empty()) return c.fail(why);
    return verif::CASE_OK;
}

// Bounded-exhaustive positions: for strings of every length 0..18 (both sides of the small-string limit), every start
// around the string and at the ends of the signed range x every count around the string and near SIZE_MAX.
long verif_enumerate(int shard, int nshards, int tier, verif::EnumReport &r) {
    (void)tier;
    static const char LETTERS[] = "abcdefghijklmnopqrstuvwxyz";
    std::vector<uint8_t> cur;
    auto run = [&](const SliceCase &k) -> bool {
        cur = encode_any(k); verif::set_current(cur.data(), cur.size());
        r.evaluations++;
        if (classify(k).any()) r.nontrivial++;
        std::string why = check_slices(k);
        if (!why.empty()) { if (r.failure.empty()) { r.failure = why; r.failing_case = render(k); r.failing_bytes = cur; } return false; }
        return true;
    };
    for (int len = shard; len <= 18; len += nshards) {
        SliceCase k; k.s.assign(LETTERS, (size_t)len); k.sep = len >= 3 ? k.s.substr(1, 2) : std::string("b"); k.set_default = false; k.set = "az";
        std::vector<ll> starts;
        for (ll s = -(len + 2); s <= len + 2; s++) starts.push_back(s);
        starts.push_back(LLONG_MIN); starts.push_back(LLONG_MIN + 1); starts.push_back(LLONG_MAX); starts.push_back(LLONG_MAX - 1);
        for (ll s : starts) {
            std::vector<ull> counts;
            for (ull cnt = 0; cnt <= (ull)len + 2; cnt++) counts.push_back(cnt);
            for (ull j = 0; j <= (ull)len + 3; j++) counts.push_back(ULLONG_MAX - j);
            for (int d = -2; d <= 2; d++) counts.push_back(ULLONG_MAX - (ull)s + (ull)d);
            k.start = s;
            for (ull cnt : counts) {
                k.count = cnt; k.count_default = false; k.n = cnt;
                if (!run(k)) return r.evaluations;
                if (r.samples.empty() && s == 2 && cnt == ULLONG_MAX - 1) r.samples.push_back(render(k));
            }
            k.count_default = true; k.count = ULLONG_MAX;
            if (!run(k)) return r.evaluations;
        }
        k.start = 0; k.count_default = true;
        for (ull n = 0; n <= 2 * (ull)len + 2; n++) { k.n = n; if (!run(k)) return r.evaluations; }
        for (ull j = 0; j <= 2; j++) { k.n = ULLONG_MAX - j; if (!run(k)) return r.evaluations; }
    }
    // ---- separator-length sweep: every length 1..300 of a ruler / a run of distinct punctuation that occurs nowhere else in
    // ordinary text; twice inside, as prefix and exact suffix, one byte short (absent), one byte long (first and last
    // occurrence one apart), after a look-alike with every byte XOR 0x20
    {
        const std::string A = "The quick brown fox ", B = " jumps over the lazy dog; ", C = " and runs away.\n";
        for (int L = 1 + shard; L <= 300; L += nshards) {
            for (int kind = 0; kind < 2; kind++) {
                gen89::Mix m(0);
                const std::string sep = gen89::make_sep(m, kind == 0 ? gen89::P_RULER : gen89::P_DISTINCT, (size_t)L);
                std::string alike = sep; for (char &ch : alike) ch = (char)(ch ^ 0x20);
                const std::string subj[6] = {A + sep + B + sep + C, sep + B + sep, A + sep.substr(0, sep.size() - 1) + B, A + sep + sep.substr(0, 1) + B,
                                             A + alike + B + sep + C, sep};
                for (int v = 0; v < 6; v++) {
                    SliceCase k; k.s = subj[v]; k.sep = sep; k.set_default = false; k.set = sep.substr(0, 1) + "T\n";
                    k.start = (ll)A.size(); k.count = (ull)L; k.count_default = false; k.n = (ull)L + (ull)v;
                    if (!run(k)) return r.evaluations;
                    if (r.samples.size() < 2 && L == 256 && v == 0) r.samples.push_back(render(k));
                }
            }
        }
    }
    // ---- a long separator AFTER a longer one in the same process (scratch space kept from an earlier call must not be assumed to fit or to
    // be current): pseudo-random letters, the subject holds a letter-case twin first and the separator itself later
    if (shard == 0) {
        static const size_t SEQ[] = {1200, 300, 257, 700, 260, 259, 65, 64, 4000, 513, 290, 289, 33};
        const std::string A = "The quick brown fox #", B = "% jumps over the lazy dog; ", C = " and runs away.\n";
        for (size_t L : SEQ) {
            std::string sep(L, '\0'); uint64_t x = 0x9E3779B97F4A7C15ull ^ (L * 77);
            for (size_t i = 0; i < L; i++) { x = x * 6364136223846793005ull + 1442695040888963407ull; sep[i] = "abcdefghijklmnopqrstuvwxyzABCDEFGHIJKLMNOPQRSTUVWXYZ"[(x >> 33) % 52]; }
            std::string twin = sep; for (char &ch : twin) ch = (char)(ch ^ 0x20);
            SliceCase k; k.s = A + twin + B + sep + C; k.sep = sep; k.set_default = false; k.set = "T\n"; k.prelude = true;
            k.start = 3; k.count = (ull)L; k.count_default = false; k.n = (ull)L;
            if (!run(k)) return r.evaluations;
        }
        r.exhausted.push_back("letter separators of 1200, 300, 257, 700, 260, 259, 65, 64, 4000, 513, 290, 289, 33 bytes used one after the other in one process (subject = case twin ... separator)");
    }
    // ---- positions beyond 255 and beyond 65535: a 70001-byte subject, separator planted around offset 65536 and at the very end
    {
        static const ll STARTS[] = {255, 256, 257, 65535, 65536, 65537, -65536, -65537, 70000, -70001};
        static const ull COUNTS[] = {1, 256, 65536, 65537};
        static const size_t OFFS[] = {65533, 65536, 69998};
        int idx = 0;
        for (size_t off : OFFS) for (ll st : STARTS) for (ull cnt : COUNTS) {
            if (idx++ % nshards != shard) continue;
            SliceCase k; k.s.reserve(70001);
            for (size_t i = 0; i < 70001; i++) k.s += (char)('a' + (i * 7 + i / 61) % 26);
            k.sep = "<#>"; k.s.replace(off, 3, k.sep); if (off != 65536) k.s.replace(300, 3, k.sep);
            k.start = st; k.count = cnt; k.count_default = false; k.n = cnt == 1 ? 70000 : cnt - 1; k.set_default = false; k.set = "abcdefghijklmnopqrstuvwxy";
            if (!run(k)) return r.evaluations;
        }
    }
    // ---- the last (or only) occurrence of a multi-byte separator around a block edge counted from the END of a ~48 KB text,
    // and the first one around a block edge counted from the START: a block-wise / backwards search must not drop it
    {
        static const size_t BL[] = {16, 64, 256, 4096, 16384, 16386};
        static const size_t SL[] = {2, 3, 8, 17};
        int idx = 0;
        for (size_t B : BL) for (size_t mult = 1; mult <= 2; mult++) for (size_t L : SL) for (size_t j = 0; j <= L + 2; j++) for (int side = 0; side < 2; side++) for (int only = 0; only < 2; only++) {
            if (side == 1 && B * mult + 1 < j) continue;
            if (idx++ % nshards != shard) continue;
            const size_t n = 49157;
            SliceCase k; k.s.reserve(n);
            for (size_t i = 0; i < n; i++) k.s += (char)('a' + (i * 11 + i / 53) % 26);
            gen89::Mix m(0);
            k.sep = gen89::make_sep(m, gen89::P_DISTINCT, L); k.sep[0] = 'Q';                  // "Q#+*..." : a letter first, so that case folding takes part
            const size_t at = side == 0 ? n - (B * mult + j - 1) : B * mult + 1 - j;          // END-relative: starts B*mult-1 .. B*mult+L+1 before the end
            k.s.replace(at, L, k.sep);
            if (!only) { const size_t other = side == 0 ? 1000 : n - 1000; std::string lower = k.sep; lower[0] = 'q'; k.s.replace(other, L, lower); }   // an earlier / later occurrence (other letter case)
            k.start = side == 0 ? -(ll)(B * mult) : (ll)(B * mult); k.count = L; k.count_default = false; k.n = B * mult; k.set_default = true; k.set = " \t\r\n";
            if (!run(k)) return r.evaluations;
        }
    }
    // ---- trim runs of every length 0..300, 600, 4096, 70000 on both sides, default and explicit sets, and nothing but the run
    {
        std::vector<size_t> runs; for (size_t R = 0; R <= 300; R++) runs.push_back(R);
        runs.push_back(600); runs.push_back(4096); runs.push_back(70000);
        for (size_t ri = (size_t)shard; ri < runs.size(); ri += (size_t)nshards) {
            const size_t R = runs[ri];
            std::string lrun, rrun; for (size_t i = 0; i < R; i++) { lrun += " \t\r\n"[i % 4]; rrun += "\n \r\t"[(i / 3) % 4]; }
            const std::string bodies[3] = {"x\vy", "", std::string("\0z\f", 3)};
            for (int b = 0; b < (R > 600 ? 2 : 3); b++) for (int t = 0; t < 3; t++) {    // (a NUL body makes the subject's own C view a 70000-byte periodic run: quadratic for the naive oracle)
                SliceCase k; k.s = lrun + bodies[b] + rrun; k.sep = "\r\n"; k.n = R; k.start = (ll)R; k.count_default = true;
                k.set_default = t == 0; k.set = t == 0 ? " \t\r\n" : t == 1 ? "\n\r \t" : gen89::SET_LONG;
                if (!run(k)) return r.evaluations;
            }
        }
    }
    if (shard == 0) {
        r.exhausted.push_back("separators (a ruler of dashes, a run of distinct punctuation) of every length 1..300 in ordinary text: twice inside, as prefix and exact suffix, one byte short, one byte long, after an all-bytes-XOR-0x20 look-alike, equal to the subject; every overload, both case modes");
        r.exhausted.push_back("a 70001-byte subject x start in {+-255..257, +-65535..65537, 70000, -70001} x count in {1, 256, 65536, 65537} x separator at offset 65533 / 65536 / 69998 (end)");
        r.exhausted.push_back("a 49157-byte text whose last / first (or only) occurrence of a 2, 3, 8, 17-byte separator starts at every offset B*m-1 .. B*m+|sep|+1 from the END / B*m-|sep|-1 .. B*m+1 from the START, B in {16, 64, 256, 4096, 16384, 16386}, m in {1, 2}; every overload, both case modes");
        r.exhausted.push_back("whitespace runs of every length 0..300, 600, 4096, 70000 on both sides of {\"x\\vy\", \"\", \"\\0z\\f\"} x trim set in {default, explicit whitespace, 33-byte set}");
        r.exhausted.push_back("strings \"abc...\" of every length 0..18 x start in -(len+2)..len+2, SSIZE_MIN, SSIZE_MIN+1, SSIZE_MAX-1, SSIZE_MAX x count in 0..len+2, SIZE_MAX-0..len+3, SIZE_MAX-start-2..+2, default");
        r.exhausted.push_back("left(n)/right(n) for every n in 0..2*len+2 and SIZE_MAX-0..2, len 0..18");
    }
    return r.evaluations;
}

void verif_corpus(std::vector<std::vector<uint8_t>> &out) {
    SliceCase k; k.s = "abcdef"; k.n = 8; k.sep = "cd"; out.push_back(encode(k));
    k.s = "xx::yy::zz"; k.start = 2; k.count = ULLONG_MAX - 1; k.count_default = false; k.sep = "::"; out.push_back(encode(k));
    k.s = std::string("  \t a\0b \n", 9); k.start = -3; k.count = 2; k.sep = std::string("\0", 1); out.push_back(encode(k));
    out.push_back({1, 2, 3, 4, 5, 6, 7, 8, 9, 10, 11, 12, 13, 14, 15, 16, 17, 18, 19, 20});
    out.push_back({0xE0, 6, 2, 1, 0, 0, 1, 1, 3, 0x11, 0x22, 0x33, 0x44, 0x55, 0x66, 0x77, 0x88, 5, 0, 1, 3, 0, 1, 0, 0, 0, 2, 7, 8, 0x41});   // long layout: 1024-byte text, 255-byte ruler
    out.push_back({0xE1, 0, 90, 0, 4, 3, 12, 4, 7, 9, 8, 7, 6, 5, 4, 3, 2, 11, 44, 1, 9, 17, 0, 2, 33, 0, 3, 9, 10, 0x95});                   // long layout: case-neighbour text, letters+neighbours separator
}
