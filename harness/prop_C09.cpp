// C09: split, tokenize and replace partition the text exactly; joining the pieces with the separator
// reproduces the original.  ST::string::split (char, const char*, ST::string), tokenize, replace (all four
// from/to overload combinations), both case modes, against ref/ref_text.h.  The library has no join();
// "joining" is done by the reference on the pieces the library returned.
// Extended: every overload incl. the char8_t forms (on const and on mutable objects - replace(const char8_t*, const
// ST::string&) is a non-const member), the explicit-validation and deprecated replace overloads, defaulted arguments next to
// explicit ones in every case, self-referential calls, an explicit join by hand, and a second case layout with subjects up to
// ~48 KB, hundreds of separators, separators of 1..300 bytes (255/256/257) and delimiter sets of 0..40 bytes (gen/gen_long89.h).
#include <string_theory/string>

#include <deque>

#include <climits>

#include "common/verif.h"
#include "common/alloc_track.h"
#include "gen/gen_text.h"
#include "gen/gen_long89.h"
#include "ref/ref_text.h"
#include "ref/ref_text_ext89.h"

using verif::Case;

// Local workaround (see prop_C07.cpp) for the ASan stack depot / quarantine growth, plus a cap on single allocations:
// a runaway split() of a <= 66-byte subject produces small-string pieces, so the only allocations are the doublings of
// the result vector; the registry's 1 GiB rule fires only after ~1.5 GiB have been touched (seconds per failing
// execution, minutes of shrinking, OOM risk on the shared machine).  With the cap a request above 64 MiB returns null
// (driver sets allocator_may_return_null=1), alloc_track.h turns that into std::bad_alloc, and a bad_alloc escaping a
// C09 call is reported as a runaway allocation - no legitimate result here exceeds a few MiB (the largest: the pieces vector of
// the enumerated 70000-separator text, ~4 MiB; long-layout replacements are bounded to ~4x a <= 48 KB subject).
extern "C" const char *__asan_default_options() { return "quarantine_size_mb=32:malloc_context_size=4:max_allocation_size_mb=64"; }

const verif::Info verif_info = {
    "C09", 220,
    "one case = subject + pattern (split separator and replace 'from') + max_splits + replacement + delimiter set, run in both case "
    "modes through every overload. Subjects 0..60 bytes, 7/8 well-formed text over {a b A B NUL e-acute euro}, {a b A} or an extended "
    "alphabet (4-byte character, whitespace, separators), 1/8 raw bytes via from_validated; patterns: empty, one byte, 2-3 bytes cut "
    "from the subject, case-flipped, self-overlapping (xx / xyx), equal to or longer than the subject, unrelated, a whole multi-byte "
    "character, a lone lead/continuation byte, the subject's prefix or suffix; replacements empty / one symbol / same length / longer / "
    "8-24 bytes (crossing the small-string limit) / containing the pattern / a raw byte / unrelated; max_splits from {default, 0, 1, 2, "
    "k-1, k, k+1, SIZE_MAX} with k the number of occurrences; delimiter sets default, whitespace, bytes of the pattern, bytes of the "
    "subject, all bytes of the subject, empty. Enumerated: every subject of length <= 5 over {a,b,NUL} x every pattern of length 0..2 "
    "x 4 replacements x max in {0,1,2,SIZE_MAX}. Oracle: left-to-right non-overlapping reference scan: piece list, <= max+1 pieces, "
    "join(pieces,sep)==s case-sensitively (matched occurrences otherwise), tokens = maximal runs of non-delimiter bytes, replace result "
    "and length size+k*(|to|-|from|), empty pattern leaves the text whole; const char* arguments are judged cut at their first NUL; "
    "ST::unicode_error is accepted only where DESIGN 3(c) allows it (re-validated result or C string not structurally valid UTF-8). "
    "Termination: verif::budget_exceeded, a request above 64 MiB (bad_alloc) or the CPU-time watchdog. Non-trivial: the pattern occurs "
    ">= 2 times, or occurrences overlap, or the pattern is empty and the text contains NUL. "
    "EXTENDED - every case additionally: split through const char8_t* on the const subject and on a second, mutable subject object; every "
    "split overload with all arguments defaulted next to the explicit max_splits; replace through (char8_t*,char8_t*), (ST::string,char8_t*), "
    "(char8_t*,ST::string) on the mutable subject (the non-const member) and on the const subject (conversion route), each overload with cs "
    "defaulted and explicit and with validation = check_validity / assume_valid / substitute_invalid (a repaired C string is taken from the "
    "library's own ST::string(cstr, ST_AUTO_SIZE, substitute_invalid)), the deprecated replace(from,to,cs,validation); tokenize() defaulted "
    "next to the explicit set; self-referential s.split(s), s.split(s.c_str()), s.replace(s,s), s.replace(s,to), s.replace(from,s), "
    "s.replace(s.c_str(),s.c_str()), s.tokenize(s.c_str()); join inverts split through an explicit join by hand over the library's pieces. "
    "Long layout (leading byte 0xE0..0xFD, ~12% of the cases): subjects of 17 bytes..~48 KB with 0..700 planted patterns of 1..300 bytes "
    "(255/256/257), look-alikes and block-edge placements exactly as in C08 (gen/gen_long89.h); replacements empty / one byte / same length / "
    "pattern twice / 8-24 bytes / containing the pattern / raw byte / 64 bytes / pattern minus one byte (bounded to 4x the subject); "
    "max_splits from {default, 0, 1, 2, k-1, k, k+1, k/2, 255, 256, 257, 65535, 65536, 2^32, 2^32+1, 2^63, SIZE_MAX(-j)}; delimiter sets of "
    "0..40 bytes (33, 40, 17 with the last >= 0x80, lead/continuation bytes, bytes of the subject, random). Enumerated in addition: patterns "
    "of every length 1..300 x 7 placements x 2 kinds; 70000 separators in one text (all defaults, max 65536); delimiter sets of every size "
    "0..40 over a text with every byte value; first/last/only occurrence of a 2/3/8/17-byte pattern at every offset around block edges "
    "(16..16386 from START and END) of a 49157-byte text.",
    true, "exploration"};

namespace {

typedef long long ll;
typedef unsigned long long ull;

struct TextCase {
    std::string s, pat, to, delims;
    ull max = ULLONG_MAX; bool max_default = true;
    bool delims_default = true;
};

std::string str(const ST::string &x) { return std::string(x.c_str(), x.size()); }
std::string show(const std::vector<std::string> &v) {
    std::string o = "[";
    for (size_t i = 0; i < v.size() && i < 8; i++) { if (i) o += ","; o += verif::quoted(v[i], 16); }
    if (v.size() > 8) o += ",...";
    return o + "](" + verif::unum(v.size()) + ")";
}
std::string smax(ull v) { return v == ULLONG_MAX ? std::string("SIZE_MAX") : verif::unum(v); }

bool all_valid(const std::vector<std::string> &v) { for (const std::string &x : v) if (!ref::utf8_structurally_valid(x)) return false; return true; }

// The model's answers, computed once per distinct (arguments as the overload sees them, case mode) and shared by every
// overload that sees the same bytes.
struct SplitModel { std::string seen; ull max; bool ci; std::vector<std::string> want; bool pieces_valid; };
struct ReplaceModel { std::string from, to; bool ci; std::string want; size_t k; bool valid; };
struct Memo {
    const std::string &S;
    std::deque<SplitModel> splits; std::deque<ReplaceModel> reps;
    explicit Memo(const std::string &s) : S(s) {}
    const SplitModel &split(const std::string &seen, ull max, bool ci) {
        for (const SplitModel &m : splits) if (m.ci == ci && m.max == max && m.seen == seen) return m;
        splits.push_back(SplitModel{seen, max, ci, ref::split(S, seen, max, ci), false});
        splits.back().pieces_valid = all_valid(splits.back().want);
        return splits.back();
    }
    const ReplaceModel &replace(const std::string &from, const std::string &to, bool ci) {
        for (const ReplaceModel &m : reps) if (m.ci == ci && m.from == from && m.to == to) return m;
        reps.push_back(ReplaceModel{from, to, ci, std::string(), 0, false});
        ReplaceModel &m = reps.back();
        m.want = ref::replace(S, from, to, ci, &m.k); m.valid = ref::utf8_structurally_valid(m.want);
        return m;
    }
};

std::string show_lib(const std::vector<ST::string> &v) { std::vector<std::string> g; for (size_t i = 0; i < v.size() && i < 9; i++) g.push_back(str(v[i])); std::string o = show(g); return v.size() > 9 ? o + " of " + verif::unum(v.size()) : o; }

// Judge the pieces returned by one split overload.  m.seen = what that overload can see of the separator.
std::string judge_split(const std::string &S, const SplitModel &m, bool threw, bool may_throw, const std::vector<ST::string> &v, const std::string &tag) {
    const std::string &seen = m.seen; const ull max = m.max; const bool ci = m.ci;
    if (threw) return may_throw ? std::string() : "split" + tag + " threw ST::unicode_error although neither the pieces nor the rule of DESIGN 3(c) allow it";
    const std::vector<std::string> &want = m.want;
    bool same = v.size() == want.size();
    for (size_t i = 0; same && i < v.size(); i++) same = v[i].size() == want[i].size() && memcmp(v[i].c_str(), want[i].data(), want[i].size()) == 0;
    if (!same) return "split" + tag + " returned " + show_lib(v) + ", reference " + show(want);
    if (v.empty() || v.size() - 1 > max) return "split" + tag + " returned " + verif::unum(v.size()) + " pieces for max_splits=" + smax(max);
    if (seen.empty() && (v.size() != 1 || str(v[0]) != S)) return "split" + tag + " with an empty separator does not leave the text whole";
    // the pieces, with the separator between them, reassemble the original (matched occurrences in case-insensitive mode):
    // an explicit join by hand over the library's own pieces
    std::vector<ref89::Piece> views; views.reserve(v.size());
    for (const ST::string &x : v) views.push_back(ref89::Piece{x.c_str(), x.size()});
    if (!ci) { if (ref89::join_by_hand(views, seen.data(), seen.size()) != S) return "split" + tag + ": join(pieces, sep) != original"; }
    else { std::string why = ref89::reassembles_ci(S, views, seen); if (!why.empty()) return "split" + tag + ": " + why; }
    return std::string();
}

std::string judge_replace(const std::string &S, const ReplaceModel &m, bool threw, bool may_throw_args, const ST::string &res, const std::string &tag) {
    const std::string &want = m.want; const size_t k = m.k;
    const bool may_throw = may_throw_args || !m.valid;
    if (threw) return may_throw ? std::string() : "replace" + tag + " threw ST::unicode_error although the result " + verif::quoted(want, 40) + " and its arguments are structurally valid UTF-8";
    if (res.size() != want.size() || memcmp(res.c_str(), want.data(), want.size()) != 0) {
        const std::string got = str(res);
        return "replace" + tag + " returned " + verif::quoted(got, 60) + "[" + verif::unum(got.size()) + "], reference " + verif::quoted(want, 60) + "[" + verif::unum(want.size()) + "]";
    }
    const ll len = (ll)S.size() + (ll)k * ((ll)m.to.size() - (ll)m.from.size());
    if ((ll)res.size() != len) return "replace" + tag + ": length " + verif::unum(res.size()) + " != size + k*(|to|-|from|) = " + verif::num(len) + " for k=" + verif::unum(k);
    if (m.from.empty() && str(res) != S) return "replace" + tag + " with an empty pattern does not leave the text whole";
    return std::string();
}

// calls f() (which returns a vector<ST::string> or an ST::string) as a library call; reports ST::unicode_error as threw
template <class R, class F> bool lib_call(R &out, F f) {
    try { verif::alloc::LibScope ls; out = f(); return false; }
    catch (const ST::unicode_error &) { return true; }
}

const char *vname(int v) { return v == 0 ? "" : v == 1 ? ", check_validity" : v == 2 ? ", assume_valid" : ", substitute_invalid"; }

std::string check_text(const TextCase &k) {
    verif::alloc::reset();
    const std::string &S = k.s, &P = k.pat, &T = k.to;
    verif::Exact<char> sx(S), pz(P, true), tz(T, true), dz(k.delims, true);
    const char *pzp = pz.data(), *tzp = tz.data(), *dzp = dz.data();
    const char8_t *pz8 = reinterpret_cast<const char8_t *>(pzp), *tz8 = reinterpret_cast<const char8_t *>(tzp);
    const std::string Pc = ref::c_view(P), Tc = ref::c_view(T), Sc = ref::c_view(S);
    const size_t smax_ = (size_t)k.max;
    Memo memo(S);
    try {
        ST::string ss_, ps, ts, ms;
        { verif::alloc::LibScope ls; ss_ = ST::string::from_validated(sx.data(), sx.size()); ps = ST::string::from_validated(P.data(), P.size()); ts = ST::string::from_validated(T.data(), T.size());
          ms = ST::string(sx.data(), sx.size(), ST::assume_valid); }   // a second, mutable subject object with its own buffer
        const ST::string &ss = ss_;
        const bool char_form = P.size() == 1 && (unsigned char)P[0] >= 0x01 && (unsigned char)P[0] <= 0x7F;   // split(char) is documented for 0x01..0x7F only
        // split(const char*) re-validates every piece when the splitter has a non-ASCII byte (DESIGN 3(c))
        const bool cstr_pieces_checked = !ref::all_ascii(Pc);
        const bool pbad = !ref::utf8_structurally_valid(Pc), tbad = !ref::utf8_structurally_valid(Tc);
        // what a C string turns into under substitute_invalid is the business of C02; here the sibling constructor of the
        // library supplies it (the overload must agree with replace(ST::string(from, ST_AUTO_SIZE, validation), ...))
        std::string Psub = Pc, Tsub = Tc;
        if (pbad) { verif::alloc::LibScope ls; ST::string t(pzp, ST_AUTO_SIZE, ST::substitute_invalid); Psub = str(t); }
        if (tbad) { verif::alloc::LibScope ls; ST::string t(tzp, ST_AUTO_SIZE, ST::substitute_invalid); Tsub = str(t); }
        static const ST::utf_validation_t VAL[4] = {ST::check_validity, ST::check_validity, ST::assume_valid, ST::substitute_invalid};

        for (int m = 0; m < 2; m++) {
            const bool ci = m != 0;
            const ST::case_sensitivity_t cs = ci ? ST::case_insensitive : ST::case_sensitive;
            const std::string mode = ci ? ", case_insensitive)" : ", case_sensitive)";
            std::vector<ST::string> v; bool threw; std::string why;

            // ---- split.  Each overload: with the case's max_splits, and (case-sensitive round) with every argument defaulted
            const SplitModel &full = memo.split(P, k.max, ci), &cut = memo.split(Pc, k.max, ci);
            const bool cmay = cstr_pieces_checked && !cut.pieces_valid;
            threw = k.max_default && !ci ? lib_call(v, [&] { return ss.split(ps); }) : !ci ? lib_call(v, [&] { return ss.split(ps, smax_); }) : lib_call(v, [&] { return ss.split(ps, smax_, cs); });
            why = judge_split(S, full, threw, false, v, "(ST::string, " + smax(k.max) + mode);
            if (!why.empty()) return why;
            if (!ci) { threw = lib_call(v, [&] { return ss.split(ps, smax_, cs); }); why = judge_split(S, full, threw, false, v, "(ST::string, " + smax(k.max) + ", explicit case_sensitive)"); if (!why.empty()) return why; }

            threw = k.max_default && !ci ? lib_call(v, [&] { return ss.split(pzp); }) : !ci ? lib_call(v, [&] { return ss.split(pzp, smax_); }) : lib_call(v, [&] { return ss.split(pzp, smax_, cs); });
            why = judge_split(S, cut, threw, cmay, v, "(const char*, " + smax(k.max) + mode);
            if (!why.empty()) return why;
            // char8_t: const subject and mutable subject
            threw = k.max_default && !ci ? lib_call(v, [&] { return ss.split(pz8); }) : !ci ? lib_call(v, [&] { return ss.split(pz8, smax_); }) : lib_call(v, [&] { return ss.split(pz8, smax_, cs); });
            why = judge_split(S, cut, threw, cmay, v, "(const char8_t*, " + smax(k.max) + mode);
            if (!why.empty()) return why;
            threw = lib_call(v, [&] { return ms.split(pz8, smax_, cs); });
            why = judge_split(S, cut, threw, cmay, v, "(const char8_t*, " + smax(k.max) + ", mutable subject" + mode);
            if (!why.empty()) return why;

            if (char_form) {
                const char ch = P[0];
                threw = k.max_default && !ci ? lib_call(v, [&] { return ss.split(ch); }) : !ci ? lib_call(v, [&] { return ss.split(ch, smax_); }) : lib_call(v, [&] { return ss.split(ch, smax_, cs); });
                why = judge_split(S, full, threw, false, v, "(char, " + smax(k.max) + mode);
                if (!why.empty()) return why;
            }
            if (!ci && !k.max_default) {     // max_splits defaulted (= no limit), case mode defaulted
                const SplitModel &fulld = memo.split(P, ULLONG_MAX, false), &cutd = memo.split(Pc, ULLONG_MAX, false);
                const bool cmayd = cstr_pieces_checked && !cutd.pieces_valid;
                threw = lib_call(v, [&] { return ss.split(ps); }); why = judge_split(S, fulld, threw, false, v, "(ST::string) [max_splits defaulted]"); if (!why.empty()) return why;
                threw = lib_call(v, [&] { return ss.split(pzp); }); why = judge_split(S, cutd, threw, cmayd, v, "(const char*) [max_splits defaulted]"); if (!why.empty()) return why;
                threw = lib_call(v, [&] { return ms.split(pz8); }); why = judge_split(S, cutd, threw, cmayd, v, "(const char8_t*) [max_splits defaulted]"); if (!why.empty()) return why;
                if (char_form) { const char ch = P[0]; threw = lib_call(v, [&] { return ss.split(ch); }); why = judge_split(S, fulld, threw, false, v, "(char) [max_splits defaulted]"); if (!why.empty()) return why; }
            }
            // self-referential: the subject split by itself (two empty pieces when it is not empty and max allows a cut)
            {
                const SplitModel &self = memo.split(S, k.max, ci), &selfc = memo.split(Sc, k.max, ci);
                threw = lib_call(v, [&] { return ss.split(ss, smax_, cs); }); why = judge_split(S, self, threw, false, v, "(ST::string = the subject itself, " + smax(k.max) + mode); if (!why.empty()) return why;
                threw = lib_call(v, [&] { return ss.split(ss.c_str(), smax_, cs); });
                why = judge_split(S, selfc, threw, !ref::all_ascii(Sc) && !selfc.pieces_valid, v, "(const char* = the subject's own c_str(), " + smax(k.max) + mode); if (!why.empty()) return why;
            }
            { verif::alloc::LibScope ls; v.clear(); v.shrink_to_fit(); }

            // ---- replace: every from/to overload combination; C strings are validated on the way in
            ST::string res;
            auto judge = [&](const std::string &from, const std::string &to, bool may_args, const std::string &tag) {
                return judge_replace(S, memo.replace(from, to, ci), threw, may_args, res, tag);
            };
            threw = ci ? lib_call(res, [&] { return ss.replace(ps, ts, cs); }) : lib_call(res, [&] { return ss.replace(ps, ts); });
            why = judge(P, T, false, "(ST::string, ST::string" + mode); if (!why.empty()) return why;
            if (!ci) { threw = lib_call(res, [&] { return ss.replace(ps, ts, cs); }); why = judge(P, T, false, "(ST::string, ST::string, explicit case_sensitive)"); if (!why.empty()) return why; }
            threw = ci ? lib_call(res, [&] { return ss.replace(pzp, tzp, cs); }) : lib_call(res, [&] { return ss.replace(pzp, tzp); });
            why = judge(Pc, Tc, pbad || tbad, "(const char*, const char*" + mode); if (!why.empty()) return why;
            threw = ci ? lib_call(res, [&] { return ss.replace(ps, tzp, cs); }) : lib_call(res, [&] { return ss.replace(ps, tzp); });
            why = judge(P, Tc, tbad, "(ST::string, const char*" + mode); if (!why.empty()) return why;
            threw = ci ? lib_call(res, [&] { return ss.replace(pzp, ts, cs); }) : lib_call(res, [&] { return ss.replace(pzp, ts); });
            why = judge(Pc, T, pbad, "(const char*, ST::string" + mode); if (!why.empty()) return why;
            // char8_t forms.  (const char8_t*, const ST::string&) is a non-const member: on a mutable subject it is that overload,
            // on a const subject the call goes through ST::string(const char8_t*) and the (ST::string, ST::string) overload
            threw = ci ? lib_call(res, [&] { return ss.replace(pz8, tz8, cs); }) : lib_call(res, [&] { return ss.replace(pz8, tz8); });
            why = judge(Pc, Tc, pbad || tbad, "(const char8_t*, const char8_t*" + mode); if (!why.empty()) return why;
            threw = ci ? lib_call(res, [&] { return ss.replace(ps, tz8, cs); }) : lib_call(res, [&] { return ss.replace(ps, tz8); });
            why = judge(P, Tc, tbad, "(ST::string, const char8_t*" + mode); if (!why.empty()) return why;
            threw = ci ? lib_call(res, [&] { return ms.replace(pz8, ts, cs); }) : lib_call(res, [&] { return ms.replace(pz8, ts); });
            why = judge(Pc, T, pbad, "(const char8_t*, ST::string, mutable subject" + mode); if (!why.empty()) return why;
            threw = ci ? lib_call(res, [&] { return ss.replace(pz8, ts, cs); }) : lib_call(res, [&] { return ss.replace(pz8, ts); });
            why = judge(Pc, T, pbad, "(const char8_t*, ST::string, const subject" + mode); if (!why.empty()) return why;
            // (ms.replace(pz8, tz8, ...) on a mutable subject does not compile: ambiguous between the const (char8_t*, char8_t*) overload
            //  and the non-const (char8_t*, const ST::string&) one - reported, nothing to run)
            threw = lib_call(res, [&] { return ms.replace(ps, tz8, cs); });
            why = judge(P, Tc, tbad, "(ST::string, const char8_t*, mutable subject" + mode); if (!why.empty()) return why;
            // explicit validation argument (1 check_validity = the default, 2 assume_valid: C strings taken as they are,
            // 3 substitute_invalid: C strings repaired first), incl. the deprecated (ST::string, ST::string, cs, validation)
            for (int vi = 1; vi <= 3; vi++) {
                if (S.size() > 1024 && vi != 1 + (int)((S.size() + P.size() + (size_t)m) % 3)) continue;   // long subjects: one validation value per case mode
                const ST::utf_validation_t val = VAL[vi];
                const std::string &Pv = vi == 3 ? Psub : Pc, &Tv = vi == 3 ? Tsub : Tc;
                const bool pb = vi == 1 && pbad, tb = vi == 1 && tbad;
                const std::string vm = std::string(vname(vi)) + ")";
                threw = lib_call(res, [&] { return ss.replace(ps, ts, cs, val); });
                why = judge(P, T, false, "(ST::string, ST::string" + mode.substr(0, mode.size() - 1) + vm + " [deprecated]"); if (!why.empty()) return why;
                threw = lib_call(res, [&] { return ss.replace(pzp, tzp, cs, val); });
                why = judge(Pv, Tv, pb || tb, "(const char*, const char*" + mode.substr(0, mode.size() - 1) + vm); if (!why.empty()) return why;
                threw = lib_call(res, [&] { return ss.replace(ps, tzp, cs, val); });
                why = judge(P, Tv, tb, "(ST::string, const char*" + mode.substr(0, mode.size() - 1) + vm); if (!why.empty()) return why;
                threw = lib_call(res, [&] { return ss.replace(pzp, ts, cs, val); });
                why = judge(Pv, T, pb, "(const char*, ST::string" + mode.substr(0, mode.size() - 1) + vm); if (!why.empty()) return why;
                threw = lib_call(res, [&] { return ss.replace(pz8, tz8, cs, val); });
                why = judge(Pv, Tv, pb || tb, "(const char8_t*, const char8_t*" + mode.substr(0, mode.size() - 1) + vm); if (!why.empty()) return why;
                threw = lib_call(res, [&] { return ss.replace(ps, tz8, cs, val); });
                why = judge(P, Tv, tb, "(ST::string, const char8_t*" + mode.substr(0, mode.size() - 1) + vm); if (!why.empty()) return why;
                threw = lib_call(res, [&] { return ms.replace(pz8, ts, cs, val); });
                why = judge(Pv, T, pb, "(const char8_t*, ST::string, mutable subject" + mode.substr(0, mode.size() - 1) + vm); if (!why.empty()) return why;
                // on a const subject the same spelling converts `from` with the DEFAULT validation and then takes the deprecated
                // overload, which ignores `validation`: judged as a default-validated C string
                // (a library in which that member is const would honour `validation` here: that reading is accepted as well)
                threw = lib_call(res, [&] { return ss.replace(pz8, ts, cs, val); });
                why = judge(Pc, T, pbad, "(const char8_t*, ST::string, const subject" + mode.substr(0, mode.size() - 1) + vm);
                if (!why.empty() && !judge(Pv, T, pb, std::string()).empty()) return why;
            }
            // self-referential: the subject as pattern and / or replacement
            threw = lib_call(res, [&] { return ss.replace(ss, ss, cs); });
            why = judge(S, S, false, "(the subject itself, the subject itself" + mode); if (!why.empty()) return why;
            threw = lib_call(res, [&] { return ss.replace(ss, ts, cs); });
            why = judge(S, T, false, "(the subject itself, ST::string" + mode); if (!why.empty()) return why;
            if (ref89::count_nonoverlapping(S, P, ci) * S.size() <= (1u << 18)) {       // (every occurrence grows into a copy of the subject: keep the result modest)
                threw = lib_call(res, [&] { return ss.replace(ps, ss, cs); });
                why = judge(P, S, false, "(ST::string, the subject itself" + mode); if (!why.empty()) return why;
            }
            threw = lib_call(res, [&] { return ss.replace(ss.c_str(), ss.c_str(), cs); });
            why = judge(Sc, Sc, !ref::utf8_structurally_valid(Sc), "(the subject's own c_str() twice" + mode); if (!why.empty()) return why;
            { verif::alloc::LibScope ls; res = ST::string(); }
        }
        // ---- tokenize: the defaulted delimiter set (documented: blank, tab, CR, LF) in every case, the explicit set, and the
        // subject's own C string as the set
        for (int t = 0; t < 3; t++) {
            if (t == 1 && k.delims_default) continue;
            std::vector<ST::string> v;
            const std::string D = t == 0 ? std::string(" \t\r\n") : t == 1 ? k.delims : Sc;
            const char *what = t == 0 ? "default" : t == 1 ? "explicit set" : "own c_str()";
            bool threw = t == 0 ? lib_call(v, [&] { return ss.tokenize(); }) : t == 1 ? lib_call(v, [&] { return ss.tokenize(dzp); }) : lib_call(v, [&] { return ss.tokenize(ss.c_str()); });
            if (threw) return "tokenize threw ST::unicode_error";
            std::vector<std::string> got; for (const ST::string &x : v) got.push_back(str(x));
            const std::vector<std::string> want = S.size() > 256 || D.size() > 64 ? ref89::tokenize(S, D) : ref::tokenize(S, D);
            if (got != want) return std::string("tokenize(") + what + (t == 2 ? std::string() : " " + verif::quoted(D, 44)) + ") returned " + show(got) + ", reference " + show(want);
            const ref89::ByteSet dset(D);
            for (const std::string &tk : got) { if (tk.empty()) return "tokenize returned an empty token"; for (char ch : tk) if (dset.in[(unsigned char)ch]) return "tokenize returned a token containing a delimiter"; }
            { verif::alloc::LibScope ls; v.clear(); v.shrink_to_fit(); }
        }
        { verif::alloc::LibScope ls; ss_ = ST::string(); ps = ST::string(); ts = ST::string(); ms = ST::string(); }
    } catch (const verif::budget_exceeded &b) {
        return std::string("a call does not terminate in bounded resources: ") + b.what;
    } catch (const std::bad_alloc &) {
        return "a call does not terminate in bounded resources: allocation request above the 64 MiB cap for a subject of " + verif::unum(S.size()) + " bytes (runaway result)";
    } catch (...) {
        return "unexpected " + verif::describe_current_exception();
    }
    return std::string();
}

// ------------------------------------------------------------------------------------------------
struct Cls { bool multi = false, overlap = false, empty_on_nul = false; bool any() const { return multi || overlap || empty_on_nul; } };
Cls classify(const TextCase &k) {
    Cls c;
    for (int m = 0; m < 2; m++) {
        if (ref89::count_nonoverlapping(k.s, k.pat, m != 0) >= 2) c.multi = true;      // (= an unlimited split has >= 3 pieces)
        if (ref::has_overlapping_occurrences(k.s, k.pat, m != 0)) c.overlap = true;
    }
    if (k.pat.empty() && gen::has_nul(k.s)) c.empty_on_nul = true;
    return c;
}

std::string render(const TextCase &k) {
    std::string o = "C09 s=" + verif::quoted(k.s, 40) + "[" + verif::unum(k.s.size()) + "] pat=" + verif::quoted(k.pat, 16) + " max=" + (k.max_default ? std::string("default") : smax(k.max)) +
                    " to=" + verif::quoted(k.to, 24) + " delims=" + (k.delims_default ? std::string("default") : verif::quoted(k.delims, 16));
    o += " -> split(cs) " + show(ref::split(k.s, k.pat, k.max, false)) + " split(ci) " + verif::unum(ref::split(k.s, k.pat, k.max, true).size()) + " pieces";
    size_t kk = 0; std::string rr = ref::replace(k.s, k.pat, k.to, false, &kk);
    o += " replace(cs) k=" + verif::unum(kk) + " " + verif::quoted(rr, 32) + "[" + verif::unum(rr.size()) + "]" + (ref::utf8_structurally_valid(rr) ? "" : " (malformed: unicode_error also accepted)");
    o += " tokens " + show(ref::tokenize(k.s, k.delims_default ? std::string(" \t\r\n") : k.delims)) + " (model)";
    return o;
}

void put64(std::vector<uint8_t> &v, uint64_t x) { for (int i = 0; i < 8; i++) v.push_back((uint8_t)(x >> (8 * i))); }
// directed encoding understood by verif_case (first byte 0xFF)
std::vector<uint8_t> encode(const TextCase &k) {
    std::vector<uint8_t> v;
    v.push_back(0xFF);
    v.push_back((uint8_t)((k.max_default ? 1 : 0) | (k.delims_default ? 2 : 0)));
    put64(v, k.max);
    v.push_back((uint8_t)k.s.size()); v.push_back((uint8_t)k.pat.size()); v.push_back((uint8_t)k.to.size()); v.push_back((uint8_t)k.delims.size());
    v.insert(v.end(), k.s.begin(), k.s.end()); v.insert(v.end(), k.pat.begin(), k.pat.end());
    v.insert(v.end(), k.to.begin(), k.to.end()); v.insert(v.end(), k.delims.begin(), k.delims.end());
    return v;
}

std::string distinct_bytes(const std::string &s) { std::string o; for (char ch : s) if (ch && o.find(ch) == std::string::npos) o += ch; return o; }

// a whole multi-byte character of s (structurally), or an empty string
std::string multibyte_char(const std::string &s, size_t from) {
    for (size_t k = 0; k < s.size(); k++) {
        size_t i = (from + k) % s.size();
        unsigned char c = (unsigned char)s[i];
        size_t len = c >= 0xF0 ? 4 : c >= 0xE0 ? 3 : c >= 0xC0 ? 2 : 0;
        if (len && i + len <= s.size() && ref::utf8_structurally_valid(s.substr(i, len))) return s.substr(i, len);
    }
    return std::string();
}
std::string high_byte(const std::string &s, size_t from) {
    for (size_t k = 0; k < s.size(); k++) { size_t i = (from + k) % s.size(); if ((unsigned char)s[i] >= 0x80) return s.substr(i, 1); }
    return std::string();
}

void put32(std::vector<uint8_t> &v, uint32_t x) { for (int i = 0; i < 4; i++) v.push_back((uint8_t)(x >> (8 * i))); }
// directed encoding for long fields (first bytes 0xFE 0xA5 0x5A): 32-bit lengths
std::vector<uint8_t> encode_long(const TextCase &k) {
    std::vector<uint8_t> v;
    v.push_back(0xFE); v.push_back(0xA5); v.push_back(0x5A);
    v.push_back((uint8_t)((k.max_default ? 1 : 0) | (k.delims_default ? 2 : 0)));
    put64(v, k.max);
    put32(v, (uint32_t)k.s.size()); put32(v, (uint32_t)k.pat.size()); put32(v, (uint32_t)k.to.size()); put32(v, (uint32_t)k.delims.size());
    v.insert(v.end(), k.s.begin(), k.s.end()); v.insert(v.end(), k.pat.begin(), k.pat.end());
    v.insert(v.end(), k.to.begin(), k.to.end()); v.insert(v.end(), k.delims.begin(), k.delims.end());
    return v;
}
std::vector<uint8_t> encode_any(const TextCase &k) { return (k.s.size() > 255 || k.pat.size() > 255 || k.to.size() > 64 || k.delims.size() > 255) ? encode_long(k) : encode(k); }

// keeps replace results modest: at most ~4x the subject for long subjects (every byte could be an occurrence)
void bound_replacement(TextCase &k) {
    if (k.s.size() <= 4096 || k.pat.empty()) { if (k.to.size() > 4096) k.to.resize(4096); return; }
    const size_t lim = 4 * k.pat.size() > 8 ? 4 * k.pat.size() : 8;
    if (k.to.size() > lim) k.to.resize(lim);
}

// the long layout (leading byte 0xE0..0xFD): subject and pattern from gen/gen_long89.h
void decode_long(verif::Reader &r, TextCase &k, Case &c) {
    gen89::LongPlan lp = gen89::plan_long(r);
    unsigned msel = (unsigned)r.range(0, 17); ull mv = r.range(0, 65535);
    unsigned tsel = (unsigned)r.range(0, 9), tv = r.u8();
    unsigned dsel = (unsigned)r.range(0, gen89::NSETS - 1);
    gen89::Long lt = gen89::build_long(lp);
    gen89::Mix m(lp.seed * 0x9E3779B97F4A7C15ull + dsel);
    k.s = lt.s; k.pat = lt.sep;
    const std::string &S = k.s, &P = k.pat;
    switch (tsel) {
        case 0: break;                                                                      // empty: result shrinks
        case 1: k.to = "r"; break;
        case 2: k.to = gen::flip_case(P, tv | 0x100u); if (k.to == P && !P.empty()) k.to = std::string(P.size(), '~'); break;   // same length
        case 3: k.to = P + P; break;                                                        // longer, contains the pattern twice
        case 4: gen89::fill_to(m, k.to, 8 + tv % 17, gen89::F_TEXT); break;                 // 8..24 bytes
        case 5: k.to = "x" + P + "y"; break;                                                // contains the pattern: must not be rescanned
        case 6: k.to = std::string(1, (char)(0x80 | tv)); break;                            // a raw high byte: result not valid UTF-8
        case 7: gen89::fill_to(m, k.to, 2 + tv % 2, gen89::F_TEXT); break;
        case 8: gen89::fill_to(m, k.to, 64, gen89::F_CORE); break;
        default: k.to = P.substr(0, P.size() ? P.size() - 1 : 0); break;                   // the pattern minus its last byte
    }
    bound_replacement(k);
    const ull occ = ref89::count_nonoverlapping(S, P, (mv & 0x8000) != 0);
    k.max_default = false;
    switch (msel) {
        case 0: k.max_default = true; k.max = ULLONG_MAX; break;
        case 1: k.max = 0; break;   case 2: k.max = 1; break;   case 3: k.max = 2; break;
        case 4: k.max = occ; break; case 5: k.max = occ + 1; break; case 6: k.max = occ ? occ - 1 : 0; break;
        case 7: k.max = ULLONG_MAX; break;  case 8: k.max = 255; break; case 9: k.max = 256; break; case 10: k.max = 257; break;
        case 11: k.max = 65535; break; case 12: k.max = 65536; break; case 13: k.max = 1ull << 32; break; case 14: k.max = (1ull << 32) + 1; break;
        case 15: k.max = 1ull << 63; break; case 16: k.max = ULLONG_MAX - 1 - (mv & 0xFF); break;
        default: k.max = occ / 2; break;
    }
    k.delims_default = dsel == 0;
    k.delims = gen89::make_set((int)dsel, S, m);

    const size_t sz = S.size();
    c.label("x:long-layout");
    c.label(sz <= 300 ? "x:size:<=300" : sz <= 1500 ? "x:size:301-1500" : sz <= 4200 ? "x:size:1501-4200" : sz <= 16500 ? "x:size:4201-16500" : "x:size:16501-50000");
    if (lt.aligned_end) c.label("x:last-occurrence-at-block-edge-from-END");
    if (lt.aligned_start) c.label("x:first-occurrence-at-block-edge-from-START");
    c.label(gen89::sep_kind_name(lp.kind));
    { const size_t L = P.size(); c.label(L < 8 ? "x:patlen:1-7" : L <= 64 ? "x:patlen:8-64" : L < 255 ? "x:patlen:65-254" : L <= 257 ? "x:patlen:255-257" : "x:patlen:258-300"); }
    { const ull o2 = ref89::count_nonoverlapping(S, P, true);
      c.label(o2 == 0 ? "x:occ:0" : o2 == 1 ? "x:occ:1" : o2 < 17 ? "x:occ:2-16" : o2 < 200 ? "x:occ:17-199" : "x:occ:200+");
      c.label(k.max_default ? "x:max:default" : k.max == 0 ? "x:max:0" : k.max >= ULLONG_MAX - 300 ? "x:max:SIZE_MAX(-k)" : k.max < o2 ? "x:max:<occ" : k.max == o2 ? "x:max:==occ" : k.max >= 65535 ? "x:max:>=65535" : "x:max:>occ");
      if (o2 != ref89::count_nonoverlapping(S, P, false)) c.label("x:ci-only-occurrences"); }
    c.label(gen89::set_name((int)dsel));
    { size_t nt = ref89::tokenize(S, k.delims).size(); c.label(nt == 0 ? "x:tokens:0" : nt < 17 ? "x:tokens:1-16" : nt < 200 ? "x:tokens:17-199" : "x:tokens:200+"); }
    if (sz <= 6000 && ref89::has_xor20_near_miss(S, P)) c.label("x:ci-xor-0x20-near-miss");
    if (!P.empty() && (ref::starts_with(S, P, false) || ref::ends_with(S, P, false))) c.label("x:pat-is-prefix-or-ends-at-end");
    c.label(gen89::filler_name(lp.filler));
}

}  // namespace

int verif_case(const uint8_t *data, size_t size, Case &c) {
    verif::Reader r(data, size, c);
    TextCase k;
    uint8_t mode = r.u8();
    if (mode == 0xFF) {
        uint8_t fl = r.u8();
        k.max_default = fl & 1; k.delims_default = (fl & 2) != 0;
        k.max = r.bits64(); if (k.max_default) k.max = ULLONG_MAX;
        size_t sl = r.u8(), pl = r.u8(), tl = r.u8(), dl = r.u8();
        for (size_t i = 0; i < sl; i++) k.s += (char)r.u8();
        for (size_t i = 0; i < pl; i++) k.pat += (char)r.u8();
        for (size_t i = 0; i < tl; i++) k.to += (char)r.u8();
        for (size_t i = 0; i < dl; i++) { char ch = (char)r.u8(); if (ch) k.delims += ch; }
        if (k.to.size() > 64) k.to.resize(64);         // keep results modest whatever the fuzzer writes here
        c.label("directed");
    } else if (mode == 0xFE && size >= 3 && data[1] == 0xA5 && data[2] == 0x5A) {
        // directed, long fields (written by the enumerators): 32-bit lengths, capped
        r.u8(); r.u8();
        uint8_t fl = r.u8();
        k.max_default = fl & 1; k.delims_default = (fl & 2) != 0;
        k.max = r.bits64(); if (k.max_default) k.max = ULLONG_MAX;
        size_t sl = r.bits32(), pl = r.bits32(), tl = r.bits32(), dl = r.bits32();
        if (sl > (1u << 18)) sl = 1u << 18;
        if (pl > (1u << 18)) pl = 1u << 18;
        if (tl > 4096) tl = 4096;
        if (dl > 4096) dl = 4096;
        if (sl + pl + tl + dl > size) { sl = sl < size ? sl : size; pl = pl < size ? pl : size; tl = tl < size ? tl : size; dl = dl < size ? dl : size; }   // never longer than the input itself
        k.s.reserve(sl);
        for (size_t i = 0; i < sl; i++) k.s += (char)r.u8();
        for (size_t i = 0; i < pl; i++) k.pat += (char)r.u8();
        for (size_t i = 0; i < tl; i++) k.to += (char)r.u8();
        for (size_t i = 0; i < dl; i++) { char ch = (char)r.u8(); if (ch) k.delims += ch; }
        bound_replacement(k);
        c.label("directed-long");
    } else if (mode >= 0xE0 && mode <= 0xFD) {
        decode_long(r, k, c);
    } else {
        // structural choices first, content afterwards
        gen::Plan sp = gen::plan(r, 60, 1);
        unsigned psel = (unsigned)r.range(0, 11), pv1 = r.u8(), pv2 = r.u8();
        unsigned msel = (unsigned)r.range(0, 7), mv = r.u8();
        unsigned tsel = (unsigned)r.range(0, 7), tv = r.u8();
        unsigned dsel = (unsigned)r.range(0, 5), dv = r.u8();
        gen::Text st = gen::fill_text(r, sp);
        k.s = st.bytes;
        const std::string &S = k.s;
        const size_t sz = S.size();
        switch (psel) {
            case 0: break;                                                                      // empty
            case 1: if (sz) k.pat = S.substr(pv1 % sz, 1); break;                              // one byte (char form when 0x01..0x7F)
            case 2: if (sz) k.pat = S.substr(pv1 % sz, 2 + pv2 % 2); break;
            case 3: if (sz) k.pat = gen::flip_case(S.substr(pv1 % sz, 1 + pv2 % 3), r.bits32() | 1u); break;
            case 4: if (sz) { std::string x = S.substr(pv1 % sz, 1); k.pat = (pv2 & 1) ? x + x : x + S.substr(pv2 % sz, 1) + x; } break;   // self-overlapping: xx / xyx
            case 5: k.pat = S; break;                                                           // equal to the subject
            case 6: k.pat = S; gen::append_sym(r, k.pat, 4, st.alpha); break;                  // longer than the subject
            case 7: k.pat = gen::fill(r, 1 + pv1 % 3, st.alpha); break;                        // unrelated
            case 8: k.pat = multibyte_char(S, pv1); if (k.pat.empty() && sz) k.pat = S.substr(pv1 % sz, 1); break;
            case 9: k.pat = high_byte(S, pv1); if (k.pat.empty() && sz) k.pat = S.substr(pv1 % sz, 2); break;   // lone lead / continuation byte
            case 10: { size_t l = 1 + pv1 % 2; k.pat = sz >= l ? S.substr(sz - l) : S; break; }                 // trailing occurrence
            default: k.pat = S.substr(0, 1 + pv1 % 2); break;                                                    // leading occurrence
        }
        const std::string &P = k.pat;
        switch (tsel) {
            case 0: break;                                                                      // empty: result shrinks
            case 1: gen::append_sym(r, k.to, 4, st.alpha); break;
            case 2: k.to = gen::flip_case(P, tv | 0x100u); if (k.to == P && !P.empty()) k.to = std::string(P.size(), 'b'); break;   // same length
            case 3: k.to = P + P; break;                                                        // longer, contains the pattern twice
            case 4: k.to = gen::fill(r, 8 + tv % 17, st.alpha); break;                         // 8..24 bytes: crosses the small-string limit
            case 5: k.to = "x" + P + "y"; break;                                                // contains the pattern: must not be rescanned
            case 6: k.to = std::string(1, (char)(0x80 | tv)); break;                            // a raw high byte: result not valid UTF-8
            default: k.to = gen::fill(r, 2 + tv % 2, st.alpha); break;
        }
        const ull occ = ref::split(S, P, ULLONG_MAX, (mv & 0x80) != 0).size() - 1;
        k.max_default = false;
        switch (msel) {
            case 0: k.max_default = true; k.max = ULLONG_MAX; break;
            case 1: k.max = 0; break;   case 2: k.max = 1; break;   case 3: k.max = 2; break;
            case 4: k.max = occ; break; case 5: k.max = occ + 1; break; case 6: k.max = occ ? occ - 1 : 0; break;
            default: k.max = (mv & 1) ? ULLONG_MAX : ULLONG_MAX - (mv >> 1); break;
        }
        k.delims_default = false;
        switch (dsel) {
            case 0: k.delims_default = true; break;
            case 1: k.delims = " \t\r\n"; break;
            case 2: k.delims = distinct_bytes(P); break;
            case 3: if (sz) { k.delims += S[dv % sz]; k.delims += S[(dv / 7) % sz]; if (dv & 0x80) k.delims += S[(dv / 3) % sz]; } k.delims = distinct_bytes(k.delims); break;
            case 4: k.delims = distinct_bytes(S); break;
            default: break;                                                                     // empty set
        }

        c.label(gen::size_label(sz));
        if (gen::has_nul(S)) c.label("s:has-NUL");
        if (st.alpha == gen::A_RAW) c.label("s:raw-bytes"); else if (gen::has_high(S)) c.label("s:multibyte");
        c.label(P.empty() ? "pat:empty" : P.size() == 1 ? ((unsigned char)P[0] >= 1 && (unsigned char)P[0] < 0x80 ? "pat:1-byte(char form)" : "pat:1-byte(NUL or non-ASCII)") : P == S ? "pat:==subject" : P.size() > sz ? "pat:longer-than-subject" : "pat:2+bytes");
        if (!ref::all_ascii(ref::c_view(P))) c.label("pat:non-ASCII(cstr pieces re-validated)");
        { ull o2 = ref::split(S, P, ULLONG_MAX, true).size() - 1;
          c.label(o2 == 0 ? "occ:0" : o2 == 1 ? "occ:1" : "occ:2+");
          c.label(k.max_default ? "max:default" : k.max == 0 ? "max:0" : k.max >= ULLONG_MAX - 200 ? "max:SIZE_MAX(-k)" : k.max < o2 ? "max:<occ" : k.max == o2 ? "max:==occ" : "max:>occ"); }
        c.label(k.to.empty() ? "to:empty" : k.to.size() < P.size() ? "to:shorter" : k.to.size() == P.size() ? "to:same-length" : "to:longer");
        { std::string rr = ref::replace(S, P, k.to, true);
          if ((sz < 16) != (rr.size() < 16)) c.label(rr.size() >= 16 ? "replace:crosses-sso-limit-up" : "replace:crosses-sso-limit-down");
          if (!ref::utf8_structurally_valid(rr)) c.label("3c:replace-result-malformed"); }
        { size_t nt = ref::tokenize(S, k.delims_default ? std::string(" \t\r\n") : k.delims).size(); c.label(nt == 0 ? "tokens:0" : nt == 1 ? "tokens:1" : "tokens:2+"); }
    }
    Cls w = classify(k);
    c.nontrivial = w.any();
    if (w.overlap) c.label("nt:overlapping-occurrences");
    if (w.empty_on_nul) c.label("nt:empty-pattern-on-NUL-text");
    if (c.want_text) c.text = render(k);
    std::string why = check_text(k);
    if (!why.empty()) return c.fail(why);
    return verif::CASE_OK;
}

// Bounded-exhaustive part: short subjects over {a,b,NUL}.  Shards split on the subject index.
long verif_enumerate(int shard, int nshards, int tier, verif::EnumReport &r) {
    (void)tier;
    static const char AL[3] = {'a', 'b', '\0'};
    std::vector<std::string> subj, pats;
    for (int len = 0; len <= 5; len++) {
        int total = 1; for (int i = 0; i < len; i++) total *= 3;
        for (int x = 0; x < total; x++) {
            std::string s; int y = x;
            for (int i = 0; i < len; i++) { s += AL[y % 3]; y /= 3; }
            subj.push_back(s);
            if (len <= 2) pats.push_back(s);
        }
    }
    static const char *TOS[4] = {"", "b", "aa", "aba"};
    static const ull MAXS[4] = {0, 1, 2, ULLONG_MAX};
    std::vector<uint8_t> cur;
    for (size_t si = (size_t)shard; si < subj.size(); si += (size_t)nshards) {
        for (const std::string &p : pats) {
            for (int ti = 0; ti < 4; ti++) {
                for (int mi = 0; mi < 4; mi++) {
                    TextCase k; k.s = subj[si]; k.pat = p; k.to = TOS[ti]; k.max = MAXS[mi]; k.max_default = false;
                    k.delims_default = false; k.delims = distinct_bytes(p);
                    cur = encode(k); verif::set_current(cur.data(), cur.size());
                    r.evaluations++;
                    if (classify(k).any()) r.nontrivial++;
                    std::string why = check_text(k);
                    if (!why.empty()) { if (r.failure.empty()) { r.failure = why; r.failing_case = render(k); r.failing_bytes = cur; } return r.evaluations; }
                    if (r.samples.empty() && si % 61 == 47 && p.size() == 2 && ti == 2 && mi == 3 && classify(k).any()) r.samples.push_back(render(k));
                }
            }
        }
    }
    auto run = [&](const TextCase &k) -> bool {
        cur = encode_any(k); verif::set_current(cur.data(), cur.size());
        r.evaluations++;
        if (classify(k).any()) r.nontrivial++;
        std::string why = check_text(k);
        if (!why.empty()) { if (r.failure.empty()) { r.failure = why; r.failing_case = render(k); r.failing_bytes = cur; } return false; }
        return true;
    };
    // ---- pattern-length sweep: every length 1..300 of a ruler / a run of distinct punctuation that occurs nowhere else in
    // ordinary text: twice inside, as prefix and exact suffix, one byte short (absent), one byte long, after a look-alike with
    // every byte XOR 0x20, three in a row, equal to the subject
    {
        const std::string A = "The quick brown fox ", B = " jumps over the lazy dog; ", C = " and runs away.\n";
        for (int L = 1 + shard; L <= 300; L += nshards) {
            for (int kind = 0; kind < 2; kind++) {
                gen89::Mix m(0);
                const std::string sep = gen89::make_sep(m, kind == 0 ? gen89::P_RULER : gen89::P_DISTINCT, (size_t)L);
                std::string alike = sep; for (char &ch : alike) ch = (char)(ch ^ 0x20);
                const std::string subj[7] = {A + sep + B + sep + C, sep + B + sep, A + sep.substr(0, sep.size() - 1) + B, A + sep + sep.substr(0, 1) + B,
                                             A + alike + B + sep + C, sep, A + sep + sep + sep + C};
                for (int v = 0; v < 7; v++) {
                    TextCase k; k.s = subj[v]; k.pat = sep; k.delims_default = false; k.delims = sep.substr(0, 1) + " ";
                    switch ((v + L) % 4) {
                        case 0: k.to = ""; k.max = 1; k.max_default = false; break;
                        case 1: k.to = "r"; break;
                        case 2: k.to = std::string((size_t)L, '~'); k.max = 2; k.max_default = false; break;
                        default: k.to = sep + "!"; k.max = ULLONG_MAX - 1; k.max_default = false; break;
                    }
                    if (!run(k)) return r.evaluations;
                    if (r.samples.size() < 2 && L == 256 && v == 0 && kind == 0) r.samples.push_back(render(k));
                }
            }
        }
    }
    // ---- patterns whose LENGTH does not fit 16 bits (65535, 65536, 65537, 131072, 196609 bytes of pseudo-random letters, so that partial
    // matches stay short): present twice, present once after a near miss (last byte changed) and a letter-case twin, and absent
    {
        static const size_t PL[] = {65535, 65536, 65537, 131072, 196609};
        int idx = 0;
        for (size_t L : PL) for (int v = 0; v < 3; v++) {
            if (idx++ % nshards != shard) continue;
            if (!tier && L > 131072 && v != 1) continue;
            std::string pat(L, '\0'); uint64_t x = 0x9E3779B97F4A7C15ull ^ L;
            for (size_t i = 0; i < L; i++) { x = x * 6364136223846793005ull + 1442695040888963407ull; pat[i] = (char)("abcdefghijklmnopqrstuvwxyzABCDEFGHIJKLMNOPQRSTUVWXYZ0123456789-_"[(x >> 33) & 63]); }
            std::string miss = pat; miss[L - 1] = (char)(miss[L - 1] == '#' ? '%' : '#');
            std::string twin = pat; for (char &ch : twin) if (ch >= 'a' && ch <= 'z') ch = (char)(ch - 32);
            const std::string A = "The quick brown fox #", B = "% jumps over the lazy dog; ", C = " and runs away.\n";
            TextCase k; k.pat = pat; k.delims_default = false; k.delims = "#% ";
            k.s = v == 0 ? A + pat + B + pat + C : v == 1 ? A + miss + B + twin + C + pat + A : A + miss + B + miss.substr(1) + C;
            k.to = v == 0 ? "" : v == 1 ? "<replaced>" : "x"; if (v == 1) { k.max = 1; k.max_default = false; }
            if (!run(k)) return r.evaluations;
        }
    }
    // ---- more occurrences than 16 bits can count: 70000 one-byte / two-byte separators, every argument defaulted
    for (int v = 0; v < 4; v++) {
        if (v % nshards != shard) continue;
        TextCase k; k.s.reserve(210000);
        for (int i = 0; i < 70000; i++) { k.s += (char)('a' + i % 26); k.s += v < 2 ? "," : ", "; }
        k.pat = v < 2 ? "," : ", "; k.to = v % 2 ? "" : ";;"; k.delims_default = false; k.delims = ", ";
        if (v == 3) { k.max = 65536; k.max_default = false; }
        if (!run(k)) return r.evaluations;
    }
    // ---- delimiter sets of every size 0..40 (prefixes of two orderings of a 40-byte list with bytes >= 0x80 at positions 0, 15, 16,
    // 17 and 39) over a subject that contains every byte value
    {
        std::string all; for (int rep = 0; rep < 2; rep++) for (int b = 0; b < 256; b++) { all += (char)((b * 37 + rep * 101) & 0xFF); if (b % 5 == rep) all += 'x'; }
        std::string list = "\xE9 \t,;:-_/|0123456\xA0\x80\xFF" "789abcdefghijklmnopq\xC3";
        std::string rev(list.rbegin(), list.rend());
        int idx = 0;
        for (int o = 0; o < 2; o++) for (size_t d = 0; d <= 40; d++) {
            if (idx++ % nshards != shard) continue;
            TextCase k; k.s = all; k.pat = (o ? rev : list).substr(0, d < 3 ? d : 3); k.to = "="; k.delims_default = false; k.delims = (o ? rev : list).substr(0, d);
            if (!run(k)) return r.evaluations;
        }
    }
    // ---- the first / last / only occurrence of a multi-byte pattern around a block edge counted from the START and from the END
    // of a ~48 KB text: a block-wise search must not drop an occurrence that straddles the edge
    {
        static const size_t BL[] = {16, 64, 256, 4096, 16384, 16386};
        static const size_t SL[] = {2, 3, 8, 17};
        int idx = 0;
        for (size_t B : BL) for (size_t mult = 1; mult <= 2; mult++) for (size_t L : SL) for (size_t j = 0; j <= L + 2; j++) for (int side = 0; side < 2; side++) {
            if (side == 1 && B * mult + 1 < j) continue;
            if (idx++ % nshards != shard) continue;
            const size_t n = 49157;
            TextCase k; k.s.reserve(n);
            for (size_t i = 0; i < n; i++) k.s += (char)('a' + (i * 11 + i / 53) % 26);
            gen89::Mix m(0);
            k.pat = gen89::make_sep(m, gen89::P_DISTINCT, L); k.pat[0] = 'Q';
            const size_t at = side == 0 ? n - (B * mult + j - 1) : B * mult + 1 - j;
            k.s.replace(at, L, k.pat);
            if (j % 2) { std::string lower = k.pat; lower[0] = 'q'; k.s.replace(side == 0 ? 1000 : n - 1000, L, lower); }   // a second occurrence in the other letter case
            k.to = j % 3 == 0 ? "" : j % 3 == 1 ? "<>" : k.pat + k.pat; k.delims_default = false; k.delims = k.pat.substr(0, 2);
            if (j % 4 == 3) { k.max = 1; k.max_default = false; }
            if (!run(k)) return r.evaluations;
        }
    }
    if (shard == 0) {
        r.exhausted.push_back("patterns (a ruler of dashes, a run of distinct punctuation) of every length 1..300 in ordinary text: twice inside, as prefix and exact suffix, one byte short, one byte long, after an all-bytes-XOR-0x20 look-alike, equal to the subject, three in a row; replacements empty / one byte / same length / longer; every overload, both case modes");
        r.exhausted.push_back("patterns of 65535, 65536, 65537, 131072 and 196609 pseudo-random letters: present twice; once after a near miss and a letter-case twin; absent (near misses only)");
        r.exhausted.push_back("70000 separators (one-byte and two-byte) in one text: split with every argument defaulted and with max_splits=65536, replace, tokenize");
        r.exhausted.push_back("tokenize with delimiter sets of every size 0..40 (two orderings, bytes >= 0x80 at positions 0, 15, 16, 17, 39) over a text containing every byte value");
        r.exhausted.push_back("a 49157-byte text whose first / last (or only) occurrence of a 2, 3, 8, 17-byte pattern starts at every offset B*m-|pat|-1 .. B*m+1 from the START / B*m-1 .. B*m+|pat|+1 from the END, B in {16, 64, 256, 4096, 16384, 16386}, m in {1, 2}");
    }
    if (shard == 0)
        r.exhausted.push_back("every subject of length <= 5 over {a,b,NUL} (364) x every pattern of length 0..2 over the same alphabet (13) x replacement in {\"\",\"b\",\"aa\",\"aba\"} x max_splits in {0,1,2,SIZE_MAX}, both case modes, all overloads; delimiters = bytes of the pattern");
    return r.evaluations;
}

void verif_corpus(std::vector<std::vector<uint8_t>> &out) {
    TextCase k; k.s = std::string("a\0b", 3); out.push_back(encode(k));                        // empty separator on text containing NUL
    k.s = "aaa"; k.pat = "aa"; k.to = "b"; out.push_back(encode(k));
    k.s = "one, two,three ,,four"; k.pat = ","; k.to = "::"; k.max = 2; k.max_default = false; k.delims = ", "; k.delims_default = false; out.push_back(encode(k));
    out.push_back({1, 2, 3, 4, 5, 6, 7, 8, 9, 10, 11, 12, 13, 14, 15, 16, 17, 18, 19, 20});
    out.push_back({0xE0, 11, 2, 1, 0, 0, 1, 5, 4, 3, 9, 0x11, 0x22, 0x33, 0x44, 0x55, 0x66, 0x77, 0x88, 0, 0, 0, 3, 7, 2});        // long layout: 1024-byte text, 255-byte ruler, 17 occurrences
    out.push_back({0xE1, 3, 200, 4, 3, 12, 6, 4, 0, 0, 8, 7, 6, 5, 4, 3, 2, 1, 4, 9, 0x80, 2, 33, 9});                             // long layout: case-neighbour text and pattern, 60 occurrences with look-alikes
}
