// C09: split, tokenize and replace partition the text exactly; joining the pieces with the separator
// reproduces the original.  ST::string::split (char, const char*, ST::string), tokenize, replace (all four
// from/to overload combinations), both case modes, against ref/ref_text.h.  The library has no join();
// "joining" is done by the reference on the pieces the library returned.
#include <string_theory/string>

#include <climits>

#include "common/verif.h"
#include "common/alloc_track.h"
#include "gen/gen_text.h"
#include "ref/ref_text.h"

using verif::Case;

// Local workaround (see prop_C07.cpp) for the ASan stack depot / quarantine growth, plus a cap on single allocations:
// a runaway split() of a <= 66-byte subject produces small-string pieces, so the only allocations are the doublings of
// the result vector; the registry's 1 GiB rule fires only after ~1.5 GiB have been touched (seconds per failing
// execution, minutes of shrinking, OOM risk on the shared machine).  With the cap a request above 64 MiB returns null
// (driver sets allocator_may_return_null=1), alloc_track.h turns that into std::bad_alloc, and a bad_alloc escaping a
// C09 call is reported as a runaway allocation - no legitimate result here exceeds a few KiB.
extern "C" const char *__asan_default_options() { return "quarantine_size_mb=32:malloc_context_size=4:max_allocation_size_mb=64"; }

const verif::Info verif_info = {
    "C09", 220,
    "one case = subject + pattern (split separator and replace 'from') + max_splits + replacement + delimiter set, run in both case "
    "modes through every overload. Subjects 0..60 bytes, 7/8 well-formed text over {a b A B NUL e-acute euro}, {a b A} or an extended "
    "alphabet (4-byte character, whitespace, separators), 1/8 raw bytes via from_validated; patterns: empty, one byte, 2-3 bytes cut "
    "from the subject, case-flipped, self-overlapping (xx / xyx), equal to or longer than the subject, unrelated, a whole multi-byte "
    "character, a lone lead/continuation byte, the subject's prefix or suffix; replacements empty / one symbol / same length / longer / "
    "8-24 bytes (crossing the small-string limit) / containing the pattern / a raw byte / unrelated; max_splits from {default, 0, 1, 2, "
    "k-1, k, k+1, SIZE_MAX} with k the number of occurrences; delimiter sets default, whitespace, bytes of the pattern, bytes of the "
    "subject, all bytes of the subject, empty. Enumerated: every subject of length <= 5 over {a,b,NUL} x every pattern of length 0..2 "
    "x 4 replacements x max in {0,1,2,SIZE_MAX}. Oracle: left-to-right non-overlapping reference scan: piece list, <= max+1 pieces, "
    "join(pieces,sep)==s case-sensitively (matched occurrences otherwise), tokens = maximal runs of non-delimiter bytes, replace result "
    "and length size+k*(|to|-|from|), empty pattern leaves the text whole; const char* arguments are judged cut at their first NUL; "
    "ST::unicode_error is accepted only where DESIGN 3(c) allows it (re-validated result or C string not structurally valid UTF-8). "
    "Termination: verif::budget_exceeded, a request above 64 MiB (bad_alloc) or the CPU-time watchdog. Non-trivial: the pattern occurs "
    ">= 2 times, or occurrences overlap, or the pattern is empty and the text contains NUL.",
    true, "exploration"};

namespace {

typedef long long ll;
typedef unsigned long long ull;

struct TextCase {
    std::string s, pat, to, delims;
    ull max = ULLONG_MAX; bool max_default = true;
    bool delims_default = true;
};

std::string str(const ST::string &x) { return std::string(x.c_str(), x.size()); }
std::string show(const std::vector<std::string> &v) {
    std::string o = "[";
    for (size_t i = 0; i < v.size() && i < 8; i++) { if (i) o += ","; o += verif::quoted(v[i], 16); }
    if (v.size() > 8) o += ",...";
    return o + "](" + verif::unum(v.size()) + ")";
}
std::string smax(ull v) { return v == ULLONG_MAX ? std::string("SIZE_MAX") : verif::unum(v); }

bool all_valid(const std::vector<std::string> &v) { for (const std::string &x : v) if (!ref::utf8_structurally_valid(x)) return false; return true; }

// Judge the pieces returned by one split overload.  seen = what that overload can see of the separator.
std::string judge_split(const std::string &S, const std::string &seen, ull max, bool ci, bool threw, bool may_throw,
                        const std::vector<ST::string> &v, const std::string &tag) {
    if (threw) return may_throw ? std::string() : "split" + tag + " threw ST::unicode_error although neither the pieces nor the rule of DESIGN 3(c) allow it";
    std::vector<std::string> got;
    for (const ST::string &x : v) got.push_back(str(x));
    const std::vector<std::string> want = ref::split(S, seen, max, ci);
    if (got != want) return "split" + tag + " returned " + show(got) + ", reference " + show(want);
    if (got.empty() || got.size() - 1 > max) return "split" + tag + " returned " + verif::unum(got.size()) + " pieces for max_splits=" + smax(max);
    if (seen.empty() && (got.size() != 1 || got[0] != S)) return "split" + tag + " with an empty separator does not leave the text whole";
    // the pieces, with the separator between them, reassemble the original (matched occurrences in case-insensitive mode)
    if (!ci) { if (ref::join(got, seen) != S) return "split" + tag + ": join(pieces, sep) != original"; }
    else {
        size_t pos = 0;
        for (size_t i = 0; i < got.size(); i++) {
            if (S.compare(pos, got[i].size(), got[i]) != 0 || got[i].size() > S.size() - pos) return "split" + tag + ": piece " + verif::unum(i) + " is not the next part of the original";
            pos += got[i].size();
            if (i + 1 < got.size()) { if (!ref::occurs_at(S, pos, seen, true)) return "split" + tag + ": no separator occurrence between pieces " + verif::unum(i) + " and " + verif::unum(i + 1); pos += seen.size(); }
        }
        if (pos != S.size()) return "split" + tag + ": pieces and separators do not cover the original";
    }
    return std::string();
}

std::string judge_replace(const std::string &S, const std::string &from, const std::string &to, bool ci, bool threw, bool may_throw_args,
                          const ST::string &res, const std::string &tag) {
    size_t k = 0;
    const std::string want = ref::replace(S, from, to, ci, &k);
    const bool may_throw = may_throw_args || !ref::utf8_structurally_valid(want);
    if (threw) return may_throw ? std::string() : "replace" + tag + " threw ST::unicode_error although the result " + verif::quoted(want, 40) + " and its arguments are structurally valid UTF-8";
    const std::string got = str(res);
    if (got != want) return "replace" + tag + " returned " + verif::quoted(got, 60) + "[" + verif::unum(got.size()) + "], reference " + verif::quoted(want, 60) + "[" + verif::unum(want.size()) + "]";
    const ll len = (ll)S.size() + (ll)k * ((ll)to.size() - (ll)from.size());
    if ((ll)got.size() != len) return "replace" + tag + ": length " + verif::unum(got.size()) + " != size + k*(|to|-|from|) = " + verif::num(len) + " for k=" + verif::unum(k);
    if (from.empty() && got != S) return "replace" + tag + " with an empty pattern does not leave the text whole";
    return std::string();
}

// calls f() (which returns a vector<ST::string> or an ST::string) as a library call; reports ST::unicode_error as threw
template <class R, class F> bool lib_call(R &out, F f) {
    try { verif::alloc::LibScope ls; out = f(); return false; }
    catch (const ST::unicode_error &) { return true; }
}

std::string check_text(const TextCase &k) {
    verif::alloc::reset();
    const std::string &S = k.s, &P = k.pat, &T = k.to;
    verif::Exact<char> sx(S), pz(P, true), tz(T, true), dz(k.delims, true);
    const char *pzp = pz.data(), *tzp = tz.data(), *dzp = dz.data();
    const std::string Pc = ref::c_view(P), Tc = ref::c_view(T);
    const size_t smax_ = (size_t)k.max;
    try {
        ST::string ss, ps, ts;
        { verif::alloc::LibScope ls; ss = ST::string::from_validated(sx.data(), sx.size()); ps = ST::string::from_validated(P.data(), P.size()); ts = ST::string::from_validated(T.data(), T.size()); }
        const bool char_form = P.size() == 1 && (unsigned char)P[0] >= 0x01 && (unsigned char)P[0] <= 0x7F;   // split(char) is documented for 0x01..0x7F only
        // split(const char*) re-validates every piece when the splitter has a non-ASCII byte (DESIGN 3(c))
        const bool cstr_pieces_checked = !ref::all_ascii(Pc);
        for (int m = 0; m < 2; m++) {
            const bool ci = m != 0;
            const ST::case_sensitivity_t cs = ci ? ST::case_insensitive : ST::case_sensitive;
            const std::string mode = ci ? ", case_insensitive)" : ", case_sensitive)";
            std::vector<ST::string> v; bool threw; std::string why;

            // ---- split
            threw = k.max_default && !ci ? lib_call(v, [&] { return ss.split(ps); }) : !ci ? lib_call(v, [&] { return ss.split(ps, smax_); }) : lib_call(v, [&] { return ss.split(ps, smax_, cs); });
            why = judge_split(S, P, k.max, ci, threw, false, v, "(ST::string, " + smax(k.max) + mode);
            if (!why.empty()) return why;
            if (!ci) { threw = lib_call(v, [&] { return ss.split(ps, smax_, cs); }); why = judge_split(S, P, k.max, ci, threw, false, v, "(ST::string, " + smax(k.max) + ", explicit case_sensitive)"); if (!why.empty()) return why; }

            const bool cmay = cstr_pieces_checked && !all_valid(ref::split(S, Pc, k.max, ci));
            threw = k.max_default && !ci ? lib_call(v, [&] { return ss.split(pzp); }) : !ci ? lib_call(v, [&] { return ss.split(pzp, smax_); }) : lib_call(v, [&] { return ss.split(pzp, smax_, cs); });
            why = judge_split(S, Pc, k.max, ci, threw, cmay, v, "(const char*, " + smax(k.max) + mode);
            if (!why.empty()) return why;

            if (char_form) {
                const char ch = P[0];
                threw = k.max_default && !ci ? lib_call(v, [&] { return ss.split(ch); }) : !ci ? lib_call(v, [&] { return ss.split(ch, smax_); }) : lib_call(v, [&] { return ss.split(ch, smax_, cs); });
                why = judge_split(S, P, k.max, ci, threw, false, v, "(char, " + smax(k.max) + mode);
                if (!why.empty()) return why;
            }
            { verif::alloc::LibScope ls; v.clear(); v.shrink_to_fit(); }

            // ---- replace: the four from/to overload combinations; C strings are validated on the way in
            const bool pbad = !ref::utf8_structurally_valid(Pc), tbad = !ref::utf8_structurally_valid(Tc);
            ST::string res;
            threw = ci ? lib_call(res, [&] { return ss.replace(ps, ts, cs); }) : lib_call(res, [&] { return ss.replace(ps, ts); });
            why = judge_replace(S, P, T, ci, threw, false, res, "(ST::string, ST::string" + mode);
            if (!why.empty()) return why;
            threw = ci ? lib_call(res, [&] { return ss.replace(pzp, tzp, cs); }) : lib_call(res, [&] { return ss.replace(pzp, tzp); });
            why = judge_replace(S, Pc, Tc, ci, threw, pbad || tbad, res, "(const char*, const char*" + mode);
            if (!why.empty()) return why;
            threw = lib_call(res, [&] { return ss.replace(ps, tzp, cs); });
            why = judge_replace(S, P, Tc, ci, threw, tbad, res, "(ST::string, const char*" + mode);
            if (!why.empty()) return why;
            threw = lib_call(res, [&] { return ss.replace(pzp, ts, cs); });
            why = judge_replace(S, Pc, T, ci, threw, pbad, res, "(const char*, ST::string" + mode);
            if (!why.empty()) return why;
            { verif::alloc::LibScope ls; res = ST::string(); }
        }
        // ---- tokenize
        {
            std::vector<ST::string> v;
            const std::string D = k.delims_default ? std::string(" \t\r\n") : k.delims;
            bool threw = k.delims_default ? lib_call(v, [&] { return ss.tokenize(); }) : lib_call(v, [&] { return ss.tokenize(dzp); });
            if (threw) return "tokenize threw ST::unicode_error";
            std::vector<std::string> got; for (const ST::string &x : v) got.push_back(str(x));
            const std::vector<std::string> want = ref::tokenize(S, D);
            if (got != want) return "tokenize(" + (k.delims_default ? std::string("default") : verif::quoted(D, 16)) + ") returned " + show(got) + ", reference " + show(want);
            for (const std::string &t : got) { if (t.empty()) return "tokenize returned an empty token"; for (char ch : t) if (ref::in_set(ch, D)) return "tokenize returned a token containing a delimiter"; }
            { verif::alloc::LibScope ls; v.clear(); v.shrink_to_fit(); }
        }
        { verif::alloc::LibScope ls; ss = ST::string(); ps = ST::string(); ts = ST::string(); }
    } catch (const verif::budget_exceeded &b) {
        return std::string("a call does not terminate in bounded resources: ") + b.what;
    } catch (const std::bad_alloc &) {
        return "a call does not terminate in bounded resources: allocation request above the 64 MiB cap for a subject of " + verif::unum(S.size()) + " bytes (runaway result)";
    } catch (...) {
        return "unexpected " + verif::describe_current_exception();
    }
    return std::string();
}

// ------------------------------------------------------------------------------------------------
struct Cls { bool multi = false, overlap = false, empty_on_nul = false; bool any() const { return multi || overlap || empty_on_nul; } };
Cls classify(const TextCase &k) {
    Cls c;
    for (int m = 0; m < 2; m++) {
        if (ref::split(k.s, k.pat, ULLONG_MAX, m != 0).size() >= 3) c.multi = true;
        if (ref::has_overlapping_occurrences(k.s, k.pat, m != 0)) c.overlap = true;
    }
    if (k.pat.empty() && gen::has_nul(k.s)) c.empty_on_nul = true;
    return c;
}

std::string render(const TextCase &k) {
    std::string o = "C09 s=" + verif::quoted(k.s, 40) + "[" + verif::unum(k.s.size()) + "] pat=" + verif::quoted(k.pat, 16) + " max=" + (k.max_default ? std::string("default") : smax(k.max)) +
                    " to=" + verif::quoted(k.to, 24) + " delims=" + (k.delims_default ? std::string("default") : verif::quoted(k.delims, 16));
    o += " -> split(cs) " + show(ref::split(k.s, k.pat, k.max, false)) + " split(ci) " + verif::unum(ref::split(k.s, k.pat, k.max, true).size()) + " pieces";
    size_t kk = 0; std::string rr = ref::replace(k.s, k.pat, k.to, false, &kk);
    o += " replace(cs) k=" + verif::unum(kk) + " " + verif::quoted(rr, 32) + "[" + verif::unum(rr.size()) + "]" + (ref::utf8_structurally_valid(rr) ? "" : " (malformed: unicode_error also accepted)");
    o += " tokens " + show(ref::tokenize(k.s, k.delims_default ? std::string(" \t\r\n") : k.delims)) + " (model)";
    return o;
}

void put64(std::vector<uint8_t> &v, uint64_t x) { for (int i = 0; i < 8; i++) v.push_back((uint8_t)(x >> (8 * i))); }
// directed encoding understood by verif_case (first byte 0xFF)
std::vector<uint8_t> encode(const TextCase &k) {
    std::vector<uint8_t> v;
    v.push_back(0xFF);
    v.push_back((uint8_t)((k.max_default ? 1 : 0) | (k.delims_default ? 2 : 0)));
    put64(v, k.max);
    v.push_back((uint8_t)k.s.size()); v.push_back((uint8_t)k.pat.size()); v.push_back((uint8_t)k.to.size()); v.push_back((uint8_t)k.delims.size());
    v.insert(v.end(), k.s.begin(), k.s.end()); v.insert(v.end(), k.pat.begin(), k.pat.end());
    v.insert(v.end(), k.to.begin(), k.to.end()); v.insert(v.end(), k.delims.begin(), k.delims.end());
    return v;
}

std::string distinct_bytes(const std::string &s) { std::string o; for (char ch : s) if (ch && o.find(ch) == std::string::npos) o += ch; return o; }

// a whole multi-byte character of s (structurally), or an empty string
std::string multibyte_char(const std::string &s, size_t from) {
    for (size_t k = 0; k < s.size(); k++) {
        size_t i = (from + k) % s.size();
        unsigned char c = (unsigned char)s[i];
        size_t len = c >= 0xF0 ? 4 : c >= 0xE0 ? 3 : c >= 0xC0 ? 2 : 0;
        if (len && i + len <= s.size() && ref::utf8_structurally_valid(s.substr(i, len))) return s.substr(i, len);
    }
    return std::string();
}
std::string high_byte(const std::string &s, size_t from) {
    for (size_t k = 0; k < s.size(); k++) { size_t i = (from + k) % s.size(); if ((unsigned char)s[i] >= 0x80) return s.substr(i, 1); }
    return std::string();
}

}  // namespace

int verif_case(const uint8_t *data, size_t size, Case &c) {
    verif::Reader r(data, size, c);
    TextCase k;
    uint8_t mode = r.u8();
    if (mode == 0xFF) {
        uint8_t fl = r.u8();
        k.max_default = fl & 1; k.delims_default = (fl & 2) != 0;
        k.max = r.bits64(); if (k.max_default) k.max = ULLONG_MAX;
        size_t sl = r.u8(), pl = r.u8(), tl = r.u8(), dl = r.u8();
        for (size_t i = 0; i < sl; i++) k.s += (char)r.u8();
        for (size_t i = 0; i < pl; i++) k.pat += (char)r.u8();
        for (size_t i = 0; i < tl; i++) k.to += (char)r.u8();
        for (size_t i = 0; i < dl; i++) { char ch = (char)r.u8(); if (ch) k.delims += ch; }
        if (k.to.size() > 64) k.to.resize(64);         // keep results modest whatever the fuzzer writes here
        c.label("directed");
    } else {
        // structural choices first, content afterwards
        gen::Plan sp = gen::plan(r, 60, 1);
        unsigned psel = (unsigned)r.range(0, 11), pv1 = r.u8(), pv2 = r.u8();
        unsigned msel = (unsigned)r.range(0, 7), mv = r.u8();
        unsigned tsel = (unsigned)r.range(0, 7), tv = r.u8();
        unsigned dsel = (unsigned)r.range(0, 5), dv = r.u8();
        gen::Text st = gen::fill_text(r, sp);
        k.s = st.bytes;
        const std::string &S = k.s;
        const size_t sz = S.size();
        switch (psel) {
            case 0: break;                                                                      // empty
            case 1: if (sz) k.pat = S.substr(pv1 % sz, 1); break;                              // one byte (char form when 0x01..0x7F)
            case 2: if (sz) k.pat = S.substr(pv1 % sz, 2 + pv2 % 2); break;
            case 3: if (sz) k.pat = gen::flip_case(S.substr(pv1 % sz, 1 + pv2 % 3), r.bits32() | 1u); break;
            case 4: if (sz) { std::string x = S.substr(pv1 % sz, 1); k.pat = (pv2 & 1) ? x + x : x + S.substr(pv2 % sz, 1) + x; } break;   // self-overlapping: xx / xyx
            case 5: k.pat = S; break;                                                           // equal to the subject
            case 6: k.pat = S; gen::append_sym(r, k.pat, 4, st.alpha); break;                  // longer than the subject
            case 7: k.pat = gen::fill(r, 1 + pv1 % 3, st.alpha); break;                        // unrelated
            case 8: k.pat = multibyte_char(S, pv1); if (k.pat.empty() && sz) k.pat = S.substr(pv1 % sz, 1); break;
            case 9: k.pat = high_byte(S, pv1); if (k.pat.empty() && sz) k.pat = S.substr(pv1 % sz, 2); break;   // lone lead / continuation byte
            case 10: { size_t l = 1 + pv1 % 2; k.pat = sz >= l ? S.substr(sz - l) : S; break; }                 // trailing occurrence
            default: k.pat = S.substr(0, 1 + pv1 % 2); break;                                                    // leading occurrence
        }
        const std::string &P = k.pat;
        switch (tsel) {
            case 0: break;                                                                      // empty: result shrinks
            case 1: gen::append_sym(r, k.to, 4, st.alpha); break;
            case 2: k.to = gen::flip_case(P, tv | 0x100u); if (k.to == P && !P.empty()) k.to = std::string(P.size(), 'b'); break;   // same length
            case 3: k.to = P + P; break;                                                        // longer, contains the pattern twice
            case 4: k.to = gen::fill(r, 8 + tv % 17, st.alpha); break;                         // 8..24 bytes: crosses the small-string limit
            case 5: k.to = "x" + P + "y"; break;                                                // contains the pattern: must not be rescanned
            case 6: k.to = std::string(1, (char)(0x80 | tv)); break;                            // a raw high byte: result not valid UTF-8
            default: k.to = gen::fill(r, 2 + tv % 2, st.alpha); break;
        }
        const ull occ = ref::split(S, P, ULLONG_MAX, (mv & 0x80) != 0).size() - 1;
        k.max_default = false;
        switch (msel) {
            case 0: k.max_default = true; k.max = ULLONG_MAX; break;
            case 1: k.max = 0; break;   case 2: k.max = 1; break;   case 3: k.max = 2; break;
            case 4: k.max = occ; break; case 5: k.max = occ + 1; break; case 6: k.max = occ ? occ - 1 : 0; break;
            default: k.max = (mv & 1) ? ULLONG_MAX : ULLONG_MAX - (mv >> 1); break;
        }
        k.delims_default = false;
        switch (dsel) {
            case 0: k.delims_default = true; break;
            case 1: k.delims = " \t\r\n"; break;
            case 2: k.delims = distinct_bytes(P); break;
            case 3: if (sz) { k.delims += S[dv % sz]; k.delims += S[(dv / 7) % sz]; if (dv & 0x80) k.delims += S[(dv / 3) % sz]; } k.delims = distinct_bytes(k.delims); break;
            case 4: k.delims = distinct_bytes(S); break;
            default: break;                                                                     // empty set
        }

        c.label(gen::size_label(sz));
        if (gen::has_nul(S)) c.label("s:has-NUL");
        if (st.alpha == gen::A_RAW) c.label("s:raw-bytes"); else if (gen::has_high(S)) c.label("s:multibyte");
        c.label(P.empty() ? "pat:empty" : P.size() == 1 ? ((unsigned char)P[0] >= 1 && (unsigned char)P[0] < 0x80 ? "pat:1-byte(char form)" : "pat:1-byte(NUL or non-ASCII)") : P == S ? "pat:==subject" : P.size() > sz ? "pat:longer-than-subject" : "pat:2+bytes");
        if (!ref::all_ascii(ref::c_view(P))) c.label("pat:non-ASCII(cstr pieces re-validated)");
        { ull o2 = ref::split(S, P, ULLONG_MAX, true).size() - 1;
          c.label(o2 == 0 ? "occ:0" : o2 == 1 ? "occ:1" : "occ:2+");
          c.label(k.max_default ? "max:default" : k.max == 0 ? "max:0" : k.max >= ULLONG_MAX - 200 ? "max:SIZE_MAX(-k)" : k.max < o2 ? "max:<occ" : k.max == o2 ? "max:==occ" : "max:>occ"); }
        c.label(k.to.empty() ? "to:empty" : k.to.size() < P.size() ? "to:shorter" : k.to.size() == P.size() ? "to:same-length" : "to:longer");
        { std::string rr = ref::replace(S, P, k.to, true);
          if ((sz < 16) != (rr.size() < 16)) c.label(rr.size() >= 16 ? "replace:crosses-sso-limit-up" : "replace:crosses-sso-limit-down");
          if (!ref::utf8_structurally_valid(rr)) c.label("3c:replace-result-malformed"); }
        { size_t nt = ref::tokenize(S, k.delims_default ? std::string(" \t\r\n") : k.delims).size(); c.label(nt == 0 ? "tokens:0" : nt == 1 ? "tokens:1" : "tokens:2+"); }
    }
    Cls w = classify(k);
    c.nontrivial = w.any();
    if (w.overlap) c.label("nt:overlapping-occurrences");
    if (w.empty_on_nul) c.label("nt:empty-pattern-on-NUL-text");
    if (c.want_text) c.text = render(k);
    std::string why = check_text(k);
    if (!why.empty()) return c.fail(why);
    return verif::CASE_OK;
}

// Bounded-exhaustive part: short subjects over {a,b,NUL}.  Shards split on the subject index.
long verif_enumerate(int shard, int nshards, int tier, verif::EnumReport &r) {
    (void)tier;
    static const char AL[3] = {'a', 'b', '\0'};
    std::vector<std::string> subj, pats;
    for (int len = 0; len <= 5; len++) {
        int total = 1; for (int i = 0; i < len; i++) total *= 3;
        for (int x = 0; x < total; x++) {
            std::string s; int y = x;
            for (int i = 0; i < len; i++) { s += AL[y % 3]; y /= 3; }
            subj.push_back(s);
            if (len <= 2) pats.push_back(s);
        }
    }
    static const char *TOS[4] = {"", "b", "aa", "aba"};
    static const ull MAXS[4] = {0, 1, 2, ULLONG_MAX};
    std::vector<uint8_t> cur;
    for (size_t si = (size_t)shard; si < subj.size(); si += (size_t)nshards) {
        for (const std::string &p : pats) {
            for (int ti = 0; ti < 4; ti++) {
                for (int mi = 0; mi < 4; mi++) {
                    TextCase k; k.s = subj[si]; k.pat = p; k.to = TOS[ti]; k.max = MAXS[mi]; k.max_default = false;
                    k.delims_default = false; k.delims = distinct_bytes(p);
                    cur = encode(k); verif::set_current(cur.data(), cur.size());
                    r.evaluations++;
                    if (classify(k).any()) r.nontrivial++;
                    std::string why = check_text(k);
                    if (!why.empty()) { if (r.failure.empty()) { r.failure = why; r.failing_case = render(k); r.failing_bytes = cur; } return r.evaluations; }
                    if (r.samples.empty() && si % 61 == 47 && p.size() == 2 && ti == 2 && mi == 3 && classify(k).any()) r.samples.push_back(render(k));
                }
            }
        }
    }
    if (shard == 0)
        r.exhausted.push_back("every subject of length <= 5 over {a,b,NUL} (364) x every pattern of length 0..2 over the same alphabet (13) x replacement in {\"\",\"b\",\"aa\",\"aba\"} x max_splits in {0,1,2,SIZE_MAX}, both case modes, all overloads; delimiters = bytes of the pattern");
    return r.evaluations;
}

void verif_corpus(std::vector<std::vector<uint8_t>> &out) {
    TextCase k; k.s = std::string("a\0b", 3); out.push_back(encode(k));                        // empty separator on text containing NUL
    k.s = "aaa"; k.pat = "aa"; k.to = "b"; out.push_back(encode(k));
    k.s = "one, two,three ,,four"; k.pat = ","; k.to = "::"; k.max = 2; k.max_default = false; k.delims = ", "; k.delims_default = false; out.push_back(encode(k));
    out.push_back({1, 2, 3, 4, 5, 6, 7, 8, 9, 10, 11, 12, 13, 14, 15, 16, 17, 18, 19, 20});
}
