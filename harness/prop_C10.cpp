// C10: the format-string parser is total and memory-safe on every format string.
#include <string_theory/string>
#include <string_theory/format>
#include <string_theory/stdio>
#include <string_theory/iostream>

#include <cmath>
#include <limits>
#include <sstream>

#include <thread>
#include "common/verif.h"
#include "ref/ref_format.h"
#include "gen/gen_format.h"
#include "gen/c10_seed_formats.h"

using verif::Case;

const verif::Info verif_info = {
    "C10", 300,
    "format strings (exact-size NUL-terminated heap copies, <= 280 bytes) x argument lists of 0..4 arguments from {int, unsigned, long long, char, char32_t, wchar_t, bool, double, "
    "float, const char*, null const char*, ST::string, std::string, const wchar_t*, const char32_t*, std::u16string (also with unpaired surrogates)}, doubles incl. 1e100, 1e308, inf, nan. "
    "Generated three ways: grammar (fields built from every item of the mini-language incl. empty/signed/blank numbers, stray bytes, nested '{', missing '}', then cut / delete / insert / "
    "replace at a chosen position), token soup over the dictionary, raw bytes (libFuzzer, seeds = the 221 format strings of test_format.cpp and their prefixes); enumerated: every prefix "
    "of those 221 strings and every single-position edit (cut, delete, insert token, replace by token) of 24 hand-written strings that use every production, x 10 argument lists. "
    "Digit runs whose parsed int exceeds 400 are rewritten to values <= 400 (counted); runs >= 2^31 that narrow to a negative or small int are kept. Oracle: outcome of ST::format (default and assume_valid), ST::printf(FILE*) and ST::writef(ostringstream) is output, "
    "ST::bad_format, std::out_of_range, ST::unicode_error, std::invalid_argument only for a null format; bad_format / out_of_range only where the reference interpreter finds a "
    "malformed field / an unsupplied position; the character-padding contract assertion only where the reference interpreter predicts it for that field; the three sinks agree on "
    "the kind; no other assertion, exception, sanitizer report or hang. Non-trivial: the format contains a '{' that is not part of '{{'.",
    true, "exploration"};

namespace {

// ----- argument pool ------------------------------------------------------------------------
enum { NT = 16, NV = 16 };
const fg::Ty kTypes[NT] = {fg::T_INT, fg::T_UINT, fg::T_LLONG, fg::T_CHAR, fg::T_CHAR32, fg::T_BOOL, fg::T_DOUBLE, fg::T_CSTR, fg::T_STSTRING, fg::T_STDSTRING,
                           fg::T_WCSTR, fg::T_U16STRING, fg::T_U32CSTR, fg::T_FLOAT, fg::T_NULLCSTR, fg::T_WCHAR};
// second page of argument types (selected by the upper part of the count byte): views and STL strings of every width that are
// NOT followed by a terminator in memory (exact-size heap blocks), char8_t text, and the remaining integer widths
const fg::Ty kTypes2[NT] = {fg::T_SV, fg::T_WSV, fg::T_U16SV, fg::T_U32SV, fg::T_U8SV, fg::T_U8CSTR, fg::T_U8STRING, fg::T_WSTRING, fg::T_U32STRING, fg::T_U16CSTR,
                            fg::T_SCHAR, fg::T_USHORT, fg::T_LONG, fg::T_ULLONG, fg::T_CHAR16, fg::T_CHAR8};
const long long kInts[NV] = {0, 42, -1, 1, 255, -255, 'A', 0x7F, 0x80, 0x10FFFF, 0x110000, LLONG_MIN, LLONG_MAX, 0xD800, 0x20AC, 1234567};
double dbl(int i) {
    static const double d[NV] = {0.0, 1.5, -2.25, 1e100, 1e308, -1e100, 1e-300, 5e-324, 0, 0, 0, 123456789.125, 0.1, 1e15, 1e16, -0.0};
    if (i == 8) return std::numeric_limits<double>::infinity();
    if (i == 9) return -std::numeric_limits<double>::infinity();
    if (i == 10) return std::numeric_limits<double>::quiet_NaN();
    return d[i];
}
const char *const kTexts[NV] = {"", "str", "x", "hello world", "\xC3\xA9", "\xE2\x82\xACuro", "\xF0\x9F\x98\x80", "a{b}c", "TEST", "0123456789012345678901234567890123456789",
                                "{}", "%s%n", " ", "\xFF", "ab\xC3", "\xED\xA0\x80"};       // the last three are ill-formed UTF-8 (narrow types only)

struct ArgList { std::vector<fg::Value> v; std::vector<ref::Arg> r; bool bad_wide = false, has_double = false; };

void decode_arg(uint8_t b, fg::Value &v, bool &bad_wide, bool &has_double, int page = 0) {
    fg::Ty t = (page ? kTypes2 : kTypes)[b % NT]; int vi = (b / NT) % NV;
    if (fg::ty_is_int(t)) v.set_int(t, (unsigned long long)kInts[vi]);
    else if (t == fg::T_BOOL) v.set_bool(vi & 1);
    else if (t == fg::T_DOUBLE || t == fg::T_FLOAT) { v.set_double(t, dbl(vi)); has_double = true; }
    else if (t == fg::T_NULLCSTR) v.set_null();
    else {
        std::string raw = kTexts[vi];
        std::vector<uint32_t> cps;
        bool valid = ref::utf8_decode_strict(raw, &cps);
        if (fg::ty_is_wide_text(t)) {
            if (!valid) {
                if (t == fg::T_U16STRING || t == fg::T_U16SV || t == fg::T_U16CSTR) { std::u16string u = vi == 13 ? std::u16string(1, (char16_t)0xD800) : vi == 14 ? std::u16string(u"ab\xDC00") : std::u16string(u"\xD800x"); v.set_units16(t, u); bad_wide = true; return; }
                cps.assign({'w', 0xE9});
            }
            v.set_text(t, cps);
        } else if (valid) v.set_text(t, cps); else v.set_text(t, cps, &raw);
    }
}
// header: one byte count (mod 5), then one byte per argument
void decode_args(verif::Reader &r, ArgList &a) {
    uint8_t cb = r.u8();
    size_t n = cb % 5;
    int pages = (cb / 5) % 4;          // 0: first page only (the original table), 1: second page only, 2/3: alternate per argument
    a.v.resize(n);
    for (size_t i = 0; i < n; i++) { int page = pages == 0 ? 0 : pages == 1 ? 1 : (int)((i + pages) & 1); decode_arg(r.u8(), a.v[i], a.bad_wide, a.has_double, page); a.r.push_back(a.v[i].to_ref()); }
}
uint8_t ab(int type_index, int value_index) { return (uint8_t)(value_index * NT + type_index); }

// ----- format generators --------------------------------------------------------------------
const char *const kTokens[] = {"{", "}", "{{", "}}", "_", ".", "&", "+", "#", "0", "<", ">", "x", "X", "d", "o", "b", "c", "f", "e", "E",
                               "1", "2", "3", "5", "9", "10", "64", "70", "400", "2147483648", "4294967295", "4294967301", " ", "-", "\t", "{}", "{c}", "{_", "{.", "{&", "\x7f", "\x80", "\xff", "a", "{&1", "{.70e}", "{f}", "{5c}", "_}", "_{"};
const int kNumTokens = sizeof kTokens / sizeof kTokens[0];

std::string gen_number(verif::Reader &r) {
    static const char *const nums[] = {"1", "0", "2", "5", "9", "10", "12", "40", "63", "64", "65", "70", "100", "255", "256", "399", "400", "401", "999", "1000", "4294967296", "99999999999999999999", "2147483648", "4294967295", "6442450944", "4294967301", "18446744073709551615",
                                       "", " 5", "+5", "-5", "-0", "007", "\t3", "- 1", "+", "-"};
    return r.pick(nums);
}
void gen_field(verif::Reader &r, std::string &o, int depth) {
    o += '{';
    size_t nparts = r.range(0, 5);
    for (size_t i = 0; i < nparts; i++) {
        uint8_t k = r.u8() % 32;
        switch (k) {
        case 0: o += 'c'; break;
        case 1: o += '<'; break;
        case 2: o += '>'; break;
        case 3: { o += '_'; static const char pc[] = "*}{0 _.&c-9\x7f\x80\xff"; uint8_t b = r.u8(); if (b != 255) o += pc[b % (sizeof pc - 1)]; break; }   // b == 255: '_' with nothing after it
        case 4: o += '0'; break;
        case 5: o += '#'; break;
        case 6: o += '+'; break;
        case 7: o += 'x'; break;
        case 8: o += 'X'; break;
        case 9: o += 'd'; break;
        case 10: o += 'o'; break;
        case 11: o += 'b'; break;
        case 12: o += 'f'; break;
        case 13: o += 'e'; break;
        case 14: o += 'E'; break;
        case 15: case 16: case 17: { std::string n = gen_number(r); if (n.empty() || n[0] < '1' || n[0] > '9') n = "7" + n; o += n; break; }   // width
        case 18: case 19: case 20: o += "." + gen_number(r); break;
        case 21: case 22: case 23: o += "&" + gen_number(r); break;
        case 24: { static const char junk[] = " -z\x7f%\t*,:\x01\xc3\x80"; o += junk[r.idx(sizeof junk - 1)]; break; }
        case 25: if (depth < 2) gen_field(r, o, depth + 1); else o += '{'; break;     // nested
        case 26: o += "{{"; break;
        case 27: o += "}}"; break;
        default: o += "cdxXobfe"[k % 8]; break;
        }
    }
    uint8_t close = r.u8();
    if (close < 224) o += '}'; else if (close < 240) { /* unterminated */ } else o += "}}";
}
void gen_grammar(verif::Reader &r, std::string &o) {
    size_t nitems = 1 + r.range(0, 5);
    for (size_t i = 0; i < nitems; i++) {
        uint8_t k = r.u8();
        if (k < 150) gen_field(r, o, 0);
        else if (k < 190) { static const char lit[] = "abcxyz ,:019-_.&#+<>"; size_t n = 1 + r.range(0, 3); for (size_t j = 0; j < n; j++) o += lit[r.idx(sizeof lit - 1)]; }
        else if (k < 205) o += "{{";
        else if (k < 220) o += "}}";
        else if (k < 235) o += "}";
        else if (k < 245) o += "\xC3\xA9";
        else o += (char)(0x80 + (k & 0x7F));
    }
}
// one edit at one position: 0 none, 1 cut, 2 delete, 3 insert token, 4 replace by token
void apply_edit(std::string &s, int kind, size_t pos, const char *tok) {
    if (pos > s.size()) pos = s.size();
    switch (kind) {
    case 1: s.resize(pos); break;
    case 2: if (pos < s.size()) s.erase(pos, 1); break;
    case 3: s.insert(pos, tok); break;
    case 4: if (pos < s.size()) s.replace(pos, 1, tok); break;
    default: break;
    }
}
// Resource bound: a maximal run of ASCII digits is kept whole when the int the parser ends up with is <= 400 whatever sign
// precedes it (this admits runs >= 2^31 that narrow to a negative or small int: "2147483648", "4294967295", "4294967301",
// "99999999999999999999"); any other run keeps only the digits that leave its value <= 400.
bool cap_digit_runs(std::string &s) {
    std::string o; bool changed = false;
    for (size_t i = 0; i < s.size();) {
        if (s[i] < '0' || s[i] > '9') { o += s[i++]; continue; }
        size_t j = i; unsigned long long acc = 0; bool over = false;
        while (j < s.size() && s[j] >= '0' && s[j] <= '9') { if (acc > (ULLONG_MAX - 9) / 10) over = true; else acc = acc * 10 + (unsigned)(s[j] - '0'); j++; }
        long pos = (over || acc > (unsigned long long)LONG_MAX) ? LONG_MAX : (long)acc;
        long neg = (over || acc > (unsigned long long)LONG_MAX + 1ull) ? LONG_MIN : (long)(0 - acc);
        // (not directly after '_': the pad character would swallow the first digit and the parser would see the rest of the run)
        if ((i == 0 || s[i - 1] != '_') && ref::narrow_int(pos) <= 400 && ref::narrow_int(neg) <= 400) { o.append(s, i, j - i); i = j; continue; }
        long v = 0;
        for (size_t k = i; k < j; k++) { long nv = v * 10 + (s[k] - '0'); if (nv > 400) { changed = true; continue; } v = nv; o += s[k]; }
        i = j;
    }
    if (changed) s = o;
    return changed;
}
bool has_field_brace(const std::string &s) {
    for (size_t i = 0; i < s.size(); i++) {
        if (s[i] == '{') { if (i + 1 < s.size() && s[i + 1] == '{') { i++; continue; } return true; }
    }
    return false;
}

// ----- observation --------------------------------------------------------------------------
enum { K_OUTPUT, K_BAD_FORMAT, K_OUT_OF_RANGE, K_INVALID_ARGUMENT, K_UNICODE_ERROR, K_CHARPAD_ASSERT, K_OTHER };
const char *kname(int k) { static const char *n[] = {"output", "bad_format", "out_of_range", "invalid_argument", "unicode_error", "char-padding assertion", "OTHER"}; return n[k]; }
struct Outcome { int kind = K_OUTPUT; std::string bytes, what; };

template <class F> Outcome observe(F &&f) {
    Outcome o;
    verif::pre_errno();
    try { o.bytes = f(); }
    catch (const ST::bad_format &e) { o.kind = K_BAD_FORMAT; o.what = e.what(); }
    catch (const ST::unicode_error &e) { o.kind = K_UNICODE_ERROR; o.what = e.what(); }
    catch (const std::out_of_range &e) { o.kind = K_OUT_OF_RANGE; o.what = e.what(); }
    catch (const std::invalid_argument &e) { o.kind = K_INVALID_ARGUMENT; o.what = e.what(); }
    catch (const verif::assertion_failure &a) {
        // which assertion this is, is decided by the reference interpreter's prediction for the call (run_and_judge), never by the wording
        o.kind = K_CHARPAD_ASSERT;
        o.what = "ST_ASSERT failed: " + a.message + " (" + a.file + ":" + std::to_string(a.line) + ")";
    }
    catch (...) { o.kind = K_OTHER; o.what = verif::describe_current_exception(); }
    return o;
}
// After a call ended (normally or with an exception) the FILE* must be usable by any other thread: a stdio lock taken inside
// the library and not released would block the next writer forever.
bool g_file_left_locked = false;
void probe_file_lock(FILE *fp) {
    if (!fp) return;
    bool busy = false;
    std::thread t([&] { if (ftrylockfile(fp) == 0) funlockfile(fp); else busy = true; });
    t.join();
    if (busy) g_file_left_locked = true;
}
struct MemFile {           // FILE* whose content can be read back; released on every path
    char *buf = nullptr; size_t len = 0; FILE *fp;
    MemFile() { fp = open_memstream(&buf, &len); }
    std::string finish() { if (fp) { fclose(fp); fp = nullptr; } return std::string(buf ? buf : "", len); }
    ~MemFile() { if (fp) fclose(fp); free(buf); }
};

struct Verdict { std::string why; Outcome def, raw, file, stream, full; ref::Result want; };

// Runs the four calls and applies the oracle.  `fmt` is handed over as an exact-size NUL-terminated heap copy
// (or as a null pointer when `null_format`).
void run_and_judge(const std::string &fmt, bool null_format, const ArgList &a, Verdict &vd) {
    verif::Exact<char> copy(fmt.data(), fmt.size(), true);
    const char *fs = null_format ? nullptr : copy.data();
    vd.want = ref::interpret(fmt, a.r);
    vd.def = observe([&] { ST::string s = fg::call_n(a.v, [&](auto... x) { return ST::format(fs, x...); }); return std::string(s.c_str(), s.size()); });
    vd.raw = observe([&] { ST::string s = fg::call_n(a.v, [&](auto... x) { return ST::format(ST::assume_valid, fs, x...); }); return std::string(s.c_str(), s.size()); });
    g_file_left_locked = false;
    vd.file = observe([&] { MemFile m; if (!m.fp) return std::string(); try { fg::call_n(a.v, [&](auto... x) { ST::printf(m.fp, fs, x...); return 0; }); } catch (...) { probe_file_lock(m.fp); throw; } probe_file_lock(m.fp); return m.finish(); });
    vd.stream = observe([&] { std::ostringstream os; fg::call_n(a.v, [&](auto... x) { ST::writef(os, fs, x...); return 0; }); return os.str(); });

    // a FILE* that accepts nothing (unbuffered /dev/full): the call must end the same way, not spin on the failed writes
    vd.full = observe([&] { FILE *fp = fopen("/dev/full", "w"); if (!fp) return std::string("<no /dev/full>"); setvbuf(fp, nullptr, _IONBF, 0);
                            try { fg::call_n(a.v, [&](auto... x) { ST::printf(fp, fs, x...); return 0; }); } catch (...) { fclose(fp); throw; } fclose(fp); return std::string(); });
    const Outcome *all[4] = {&vd.def, &vd.raw, &vd.file, &vd.stream};
    static const char *const sink[4] = {"ST::format", "ST::format(assume_valid)", "ST::printf(FILE*)", "ST::writef(ostringstream)"};
    for (int i = 0; i < 4 && vd.why.empty(); i++) {
        const Outcome &o = *all[i];
        switch (o.kind) {
        case K_OUTPUT:
            // the statement names the condition of each exception: a call the reference reads as malformed / missing-argument must not come back with output
            if (vd.want.kind == ref::BAD_FORMAT) vd.why = std::string(sink[i]) + " produced output although a specifier is malformed or unterminated (expected ST::bad_format)";
            else if (vd.want.kind == ref::OUT_OF_RANGE) vd.why = std::string(sink[i]) + " produced output although a field selects an argument position that was not supplied (expected std::out_of_range)";
            break;
        case K_OTHER: vd.why = std::string(sink[i]) + ": " + o.what; break;
        case K_INVALID_ARGUMENT: if (!null_format) vd.why = std::string(sink[i]) + " threw std::invalid_argument (" + o.what + ") for a non-null format string"; break;
        case K_BAD_FORMAT:
            if (null_format) vd.why = std::string(sink[i]) + " threw bad_format for a null format string";
            else if (vd.want.kind != ref::BAD_FORMAT) vd.why = std::string(sink[i]) + " threw ST::bad_format (" + o.what + ") but no specifier is malformed or unterminated (reference: " + ref::kind_name(vd.want.kind) + ")";
            break;
        case K_OUT_OF_RANGE:
            if (!(vd.want.kind == ref::OUT_OF_RANGE || (vd.want.kind == ref::BAD_FORMAT && vd.want.alt_out_of_range)))
                vd.why = std::string(sink[i]) + " threw std::out_of_range (" + o.what + ") but every referenced argument position is supplied (reference: " + ref::kind_name(vd.want.kind) + ")";
            break;
        case K_CHARPAD_ASSERT:
            if (vd.want.kind != ref::CHAR_PAD_CONTRACT) vd.why = std::string(sink[i]) + ": " + o.what + " although the reference interpreter finds no padding on a character conversion (reference: " + ref::kind_name(vd.want.kind) + ")";
            break;
        case K_UNICODE_ERROR:
            // arguments: only an ill-formed wide-string argument; result: only the validating sink, and only for a result that is not well-formed UTF-8
            if (a.bad_wide) break;
            if (i != 0) vd.why = std::string(sink[i]) + " threw ST::unicode_error (" + o.what + ") although it does not validate and no wide argument is ill-formed";
            else if (vd.raw.kind == K_OUTPUT && ref::utf8_valid_strict(vd.raw.bytes)) vd.why = "ST::format threw ST::unicode_error (" + o.what + ") for the well-formed result " + verif::quoted(vd.raw.bytes, 120);
            break;
        }
        if (null_format && o.kind != K_INVALID_ARGUMENT && vd.why.empty()) vd.why = std::string(sink[i]) + " did not throw std::invalid_argument for a null format string (" + kname(o.kind) + ")";
    }
    if (vd.why.empty() && g_file_left_locked) vd.why = std::string("ST::printf(FILE*) ended (") + kname(vd.file.kind) + ") and left the FILE* locked: another thread that writes to it would block forever";
    if (!vd.why.empty()) return;
    // the sinks agree on the kind of outcome (the validating call may add unicode_error for the finished result)
    if (vd.raw.kind != vd.file.kind || vd.raw.kind != vd.stream.kind)
        vd.why = std::string("sinks disagree on the outcome: string ") + kname(vd.raw.kind) + ", FILE* " + kname(vd.file.kind) + ", ostream " + kname(vd.stream.kind);
    else if (vd.full.kind != vd.file.kind)
        vd.why = std::string("ST::printf to a FILE* that rejects every write ends with ") + kname(vd.full.kind) + " (" + vd.full.what + "), to a working FILE* with " + kname(vd.file.kind);
    else if (vd.def.kind != vd.raw.kind && !(vd.def.kind == K_UNICODE_ERROR && vd.raw.kind == K_OUTPUT))
        vd.why = std::string("ST::format with default validation ends with ") + kname(vd.def.kind) + " but with assume_valid with " + kname(vd.raw.kind);
}

std::string render(const std::string &fmt, bool null_format, const ArgList &a, const Verdict *vd) {
    std::string t = "C10 fmt=" + (null_format ? std::string("nullptr") : verif::quoted(fmt, 160)) + " args=[";
    for (size_t i = 0; i < a.v.size(); i++) { if (i) t += ", "; t += a.v[i].show(); }
    t += "]";
    if (vd) t += std::string(" -> format:") + kname(vd->def.kind) + " assume_valid:" + kname(vd->raw.kind) + " FILE*:" + kname(vd->file.kind) + " ostream:" + kname(vd->stream.kind) +
                 " (reference: " + ref::kind_name(vd->want.kind) + ")";
    return t;
}

// hand-written strings that together use every production of the mini-language
const char *const kHandFormats[] = {
    "{}", "a{}b{}c", "{{}}", "{{{}}}", "}{}{", "{<10}", "{>10_*}", "{_}5}", "{_{5}", "{05}", "{+#08x}", "{&1}{&2}{}", "{.3}", "{10.4}", "{.70e}", "{f}{.10f}{E}",
    "{c}", "{&1c}{5c}", "{_*c}", "{0c}", "{X#b o d}", "{&2<_-12.5+#0x}", "{. 5}{&+1}{.-3}", "\xC3\xA9{_\xC3 3}\xE2\x82\xAC{&1}"};
const int kNumHand = sizeof kHandFormats / sizeof kHandFormats[0];

// the fixed argument lists of the enumerator, in the header encoding of decode_args
std::vector<std::vector<uint8_t>> enum_arglists() {
    return {
        {0},
        {1, ab(0, 1)},                                          // int 42
        {3, ab(7, 1), ab(2, 2), ab(5, 1)},                      // "str", -1LL, true
        {4, ab(8, 3), ab(1, 4), ab(3, 6), ab(4, 14)},           // ST::string, 255u, 'A', U+20AC
        {3, ab(6, 3), ab(9, 8), ab(0, 5)},                      // 1e100, std::string, -255
        {4, ab(11, 4), ab(10, 2), ab(13, 1), ab(1, 4)},         // u16string, L"x", 1.5f, 255u
        {1, ab(3, 6)},                                          // char 'A'
        {2, ab(6, 4), ab(6, 10)},                               // 1e308, nan
        {2, ab(14, 0), ab(11, 13)},                             // null const char*, u16string with an unpaired surrogate
        {4, ab(4, 10), ab(15, 9), ab(12, 5), ab(7, 13)},        // char32_t 0x110000, wchar_t 0x10FFFF, U"..." , "\xFF"
    };
}

int label_and_finish(Case &c, const Verdict &vd, const std::string &fmt, bool capped) {
    c.nontrivial = has_field_brace(fmt);
    c.label(vd.want.kind == ref::OK ? "ref:output" : vd.want.kind == ref::BAD_FORMAT ? "ref:malformed" : vd.want.kind == ref::OUT_OF_RANGE ? "ref:unsupplied-position" : "ref:char-padding");
    c.label(vd.raw.kind == K_OUTPUT ? "lib:output" : vd.raw.kind == K_BAD_FORMAT ? "lib:bad_format" : vd.raw.kind == K_OUT_OF_RANGE ? "lib:out_of_range" : vd.raw.kind == K_UNICODE_ERROR ? "lib:unicode_error(argument)"
            : vd.raw.kind == K_CHARPAD_ASSERT ? "lib:char-padding-assertion" : vd.raw.kind == K_INVALID_ARGUMENT ? "lib:invalid_argument" : "lib:other");
    if (vd.def.kind == K_UNICODE_ERROR && vd.raw.kind == K_OUTPUT) c.label("lib:unicode_error(result)");
    if (capped) c.label("digit-run-capped");
    if (!vd.why.empty()) return c.fail(vd.why);
    return verif::CASE_OK;
}

}  // namespace

int verif_case(const uint8_t *data, size_t size, Case &c) {
    verif::Reader r(data, size, c);
    const uint8_t mode = r.u8();
    ArgList a;
    decode_args(r, a);
    std::string fmt;
    bool null_format = false;
    if (mode >= 0xE0) {                                   // raw bytes up to the first NUL (libFuzzer, seeds, enumerator)
        while (!r.exhausted() && fmt.size() < 280) { uint8_t b = r.u8(); if (!b) break; fmt += (char)b; }
        c.label("mode:raw-bytes");
    } else if (mode >= 0x90) {                            // token soup
        size_t n = r.range(0, 24);
        for (size_t i = 0; i < n; i++) fmt += kTokens[r.u8() % kNumTokens];
        c.label("mode:token-soup");
    } else {                                              // grammar + one positional edit
        gen_grammar(r, fmt);
        int edit = (int)r.range(0, 5);
        if (edit >= 1 && edit <= 4) {
            size_t pos = r.range(0, fmt.size());
            apply_edit(fmt, edit, pos, kTokens[r.u8() % kNumTokens]);
            c.label(edit == 1 ? "grammar:cut" : edit == 2 ? "grammar:delete" : edit == 3 ? "grammar:insert" : "grammar:replace");
        } else c.label("grammar:unedited");
        if (mode == 0x8F) { null_format = true; fmt.clear(); c.label("null-format"); }
    }
    if (fmt.size() > 280) fmt.resize(280);
    { size_t z = fmt.find('\0'); if (z != std::string::npos) fmt.resize(z); }
    bool capped = cap_digit_runs(fmt);
    c.label(a.v.empty() ? "args:0" : a.v.size() <= 2 ? "args:1-2" : "args:3-4");
    if (a.has_double) c.label("arg:floating-point");
    Verdict vd;
    run_and_judge(fmt, null_format, a, vd);
    if (c.want_text) c.text = render(fmt, null_format, a, &vd);
    return label_and_finish(c, vd, fmt, capped);
}

long verif_enumerate(int shard, int nshards, int tier, verif::EnumReport &r) {
    (void)tier;
    const std::vector<std::vector<uint8_t>> lists = enum_arglists();
    std::vector<uint8_t> cur;
    auto run = [&](const std::string &fmt0, const std::vector<uint8_t> &hdr, bool sample) -> bool {
        std::string fmt = fmt0;
        cap_digit_runs(fmt);
        cur.assign(1, 0xFF); cur.insert(cur.end(), hdr.begin(), hdr.end()); cur.insert(cur.end(), fmt.begin(), fmt.end());
        verif::set_current(cur.data(), cur.size());
        Case cs; verif::Reader rd(hdr.data(), hdr.size(), cs);
        ArgList a; decode_args(rd, a);
        Verdict vd;
        run_and_judge(fmt, false, a, vd);
        r.evaluations++;
        if (has_field_brace(fmt)) r.nontrivial++;
        if (!vd.why.empty()) { r.failure = vd.why; r.failing_case = render(fmt, false, a, &vd); r.failing_bytes = cur; return false; }
        if (sample && r.want_sample()) r.samples.push_back(render(fmt, false, a, &vd));
        return true;
    };
    // (1) every prefix of every format string of test_format.cpp
    for (int i = shard; i < c10seeds::kNumTestFormats; i += nshards) {
        std::string f = c10seeds::kTestFormats[i];
        for (size_t len = 0; len <= f.size(); len++)
            for (size_t l = 0; l < lists.size(); l++)
                if (!run(f.substr(0, len), lists[l], len == f.size() && l == (size_t)((i / 16) % 10) && i / 16 % 3 == 0)) return r.evaluations;
    }
    // (2) every single-position edit of the hand-written strings
    for (int i = shard; i < kNumHand * kNumTokens; i += nshards) {
        std::string base = kHandFormats[i / kNumTokens];
        const char *tok = kTokens[i % kNumTokens];
        for (size_t pos = 0; pos <= base.size(); pos++)
            for (int edit = (i % kNumTokens == 0 ? 0 : 3); edit <= 4; edit++) {     // none / cut / delete do not depend on the token: once per string
                std::string f = base;
                apply_edit(f, edit, pos, tok);
                if (edit == 0 && pos) continue;
                for (size_t l = 0; l < lists.size(); l++)
                    if (!run(f, lists[l], false)) return r.evaluations;
            }
    }
    // (3) one long specifier: '{' + 18..250 bytes of legal flag characters (alignment / sign / prefix flags, pad pairs with control and high
    // pad bytes, class letters, blanks) ending in an offending byte, in a NUL (unterminated) or in '}' - whatever the parser says about it
    // must not depend on how long the specifier is
    {
        static const size_t LEN[] = {18, 40, 62, 63, 64, 65, 86, 87, 88, 89, 100, 126, 127, 128, 129, 130, 200, 250};
        static const char *const RUN[] = {"<>+#", "_\x01_\xFF_\x7F_*", "x Xd ob", "<_\x80+ #_\x02", "+", "_."};
        static const char *const END[] = {"\x01", "\x7F", "\x80", "\xFF", "q", "{", "", "}", "\x1B}", "\xC3\xA9}"};
        int idx = 0;
        for (size_t L : LEN) for (const char *fr : RUN) for (const char *end : END) {
            if (idx++ % nshards != shard) continue;
            std::string f = "ab{"; const size_t rl = strlen(fr);
            for (size_t i = 0; i < L; i++) f += fr[i % rl];
            f += end; f += "cd";
            if (f.size() > 255) continue;
            for (size_t l = 0; l < lists.size(); l += 4)
                if (!run(f, lists[l], false)) return r.evaluations;
        }
    }
    if (shard == 0) {
        r.exhausted.push_back("one specifier of 18..250 flag bytes (six kinds of flag runs incl. pad pairs with control / high pad bytes) x ten endings (offending control / DEL / high byte, letter, '{', NUL, '}') x 3 argument lists");
        r.exhausted.push_back("every prefix of the 221 distinct format strings of test/test_format.cpp x 10 argument lists (over all shards)");
        r.exhausted.push_back("24 hand-written format strings covering every production: cut at every position, every single byte deleted, every dictionary token (48) inserted at / substituted for every position, x 10 argument lists");
    }
    return r.evaluations;
}

void verif_corpus(std::vector<std::vector<uint8_t>> &out) {
    const std::vector<std::vector<uint8_t>> lists = enum_arglists();
    auto add = [&](const std::string &f, const std::vector<uint8_t> &hdr) {
        std::vector<uint8_t> b(1, 0xFF); b.insert(b.end(), hdr.begin(), hdr.end()); b.insert(b.end(), f.begin(), f.end());
        out.push_back(b);
    };
    for (int i = 0; i < c10seeds::kNumTestFormats; i++) {
        std::string f = c10seeds::kTestFormats[i];
        add(f, lists[1 + i % 7]);
        add(f, lists[(i * 3) % 10]);
        if (i % 4 == 0 || f.size() < 8) for (size_t len = 0; len < f.size(); len++) add(f.substr(0, len), lists[2 + (i + len) % 6]);
    }
    for (int i = 0; i < kNumHand; i++) for (size_t l = 0; l < lists.size(); l += 3) add(kHandFormats[i], lists[l]);
}
