// C11: formatted output equals the specified rendering of literals, fields and padding
// (integers, strings, booleans, characters; floats belong to C13).
#include <string_theory/string>
#include <string_theory/format>
#include <string_theory/stdio>
#include <string_theory/iostream>

#include <filesystem>
#include <sstream>

#include "common/verif.h"
#include "ref/ref_format.h"
#include "ref/ref_format_ext.h"
#include "gen/gen_format.h"

using verif::Case;

const verif::Info verif_info = {
    "C11", 400,
    "enumerated: padding runs of B-1, B, B+1 characters for B in {32,64,256,1024,4096,8192,16384} x 8 layouts (numbers default/left/zero flag with sign and prefix/64 binary digits, text left/right, bool, "
    "user type with right default and precision) x 3 pad modes through every entry point; alignment {none,<,>} x pad {none,_*,0 flag,_0} x width {0,natural-1,natural,natural+1,natural+5,40} x '#' x '+' x class {none,d,x,X,o,b} x part order "
    "{canonical,reversed} over 0, +-1, +-9, +-10, +-255, radix boundaries, min, max (+-1) of all 15 integer and character types, one typed ST::format call each; "
    "generated: 1..5 fields in random part order (never two digit-bearing parts glued, no contradictory flags), sequential and &N selection mixed, literals with {{ }} and lone }, "
    "non-ASCII scalars, 1..5 arguments of 32 types (all integer widths, char types, bool, narrow/wide C strings, ST::string, std strings and views), widths and precisions in "
    "every relation to the natural length (<= 400), {c} on integer values inside and outside 0..10FFFF (incl. 64-bit values that do not fit 32 bits; not on char8_t, which is a UTF-8 code unit copied verbatim); 1 case in 16 deliberately produces ill-formed UTF-8 (checked through "
    "ST::format(assume_valid,..)). Oracle: ref/ref_format.h interpreter (std::to_chars digits). Non-trivial: a field in which >= 2 of {sign, prefix, padding, precision cut} "
    "interact, or >= 2 fields of which one is selected by &N; distinct by decoded-case hash. "
    "Extended calls (first byte E0..FC, ~11% of the generated cases; FD = one enumerated pad-run point): 0..12 arguments and 0..16 fields with &N up to 12 and one argument referenced by several "
    "fields with different specifications; fixed typed signatures of 6, 7 and 12 arguments passed as lvalues and as rvalues; text with embedded U+0000 in all 16 text forms and ST::string (C-string "
    "forms end at it, every pointer+length form keeps it; views are exact-size unterminated heap blocks); ST::char_buffer / wchar_buffer / utf16_buffer / utf32_buffer / ST::null; "
    "std::filesystem::path (repeated separators kept); user-defined format_type overloads that call ST::format_string with the default alignment omitted, left, right (char and char8_t overloads), that "
    "chain two library formatters, that write a literal through format_writer::append(const char(&)[N]), and that are written with the deprecated ST_DECL_FORMAT_TYPE / ST_FORMAT_TYPE / "
    "ST_FORMAT_FORWARD / ST_INVOKE_FORMATTER macros; {c} on char8_t values below 0x80; precision on numbers and on {c}; '#', '+', digit-class and float-class letters on text, booleans and {c} "
    "(no effect); padding runs of 31..16385 characters (at and one off 32/64/256/1024/4096/8192/16384), literal runs of 255..20000 bytes with brace escapes, text arguments of 255..4097 characters, "
    "precision cuts at 255..4096; calls without any field and without arguments. Each extended call goes through ST::format(fmt,..), ST::format(assume_valid|check_validity|substitute_invalid, fmt,..), "
    "operator\"\"_stfmt(fmt)(..) (also six real literals), ST::format_latin_1 (all-ASCII renderings only), the byte sinks ST::printf(FILE*) and ST::writef(std::ostream&), and - single argument or fixed signature - through the call with the real C++ types. "
    "Oracle for these: ref/ref_format_ext.h on top of ref_format.h.",
    true, "exploration"};

// ----- user-defined types formatted through the documented extension point (a format_type overload found by ADL) ---------
namespace cx {
struct Left { const char *p; size_t n; };          // ST::format_string(format, output, p, n)                 default_alignment omitted (= left)
struct LeftX { const char *p; size_t n; };         // ST::format_string(format, output, p, n, ST::align_left)
struct Right { const char *p; size_t n; };         // ST::format_string(format, output, p, n, ST::align_right)
struct U8Left { const char8_t *p; size_t n; };     // the char8_t overload of format_string, default_alignment omitted
struct U8Right { const char8_t *p; size_t n; };    // the char8_t overload, ST::align_right
struct Pair { long long a; unsigned b; };          // two library formatters with the same specification: a '+' b "i" (the shape of the std::complex formatter)
struct Fixed { int unused; };                      // ignores the specification, writes a literal through format_writer::append(const char (&)[N])
struct MacroInt { short n; };                      // declared/defined with the deprecated ST_DECL_FORMAT_TYPE / ST_FORMAT_TYPE / ST_FORMAT_FORWARD macros
struct MacroText { const char *s; };               // ... forwarding with ST_INVOKE_FORMATTER
inline void format_type(const ST::format_spec &format, ST::format_writer &output, const Left &v) { ST::format_string(format, output, v.p, v.n); }
inline void format_type(const ST::format_spec &format, ST::format_writer &output, const LeftX &v) { ST::format_string(format, output, v.p, v.n, ST::align_left); }
inline void format_type(const ST::format_spec &format, ST::format_writer &output, const Right &v) { ST::format_string(format, output, v.p, v.n, ST::align_right); }
inline void format_type(const ST::format_spec &format, ST::format_writer &output, const U8Left &v) { ST::format_string(format, output, v.p, v.n); }
inline void format_type(const ST::format_spec &format, ST::format_writer &output, const U8Right &v) { ST::format_string(format, output, v.p, v.n, ST::align_right); }
inline void format_type(const ST::format_spec &format, ST::format_writer &output, const Pair &v) {
    ST::format_type(format, output, v.a); output.append_char('+'); ST::format_type(format, output, v.b); output.append("i");
}
inline void format_type(const ST::format_spec &, ST::format_writer &output, const Fixed &) { output.append("<fixed>"); }
ST_DECL_FORMAT_TYPE(const MacroInt &);
ST_FORMAT_TYPE(const MacroInt &) { ST_FORMAT_FORWARD(value.n); }
ST_DECL_FORMAT_TYPE(MacroText);
ST_FORMAT_TYPE(MacroText) { ST_INVOKE_FORMATTER(format, output, value.s); }
}  // namespace cx

namespace {

struct Outcome {
    int kind = 0;            // 0 output, 1 bad_format, 2 out_of_range, 3 invalid_argument, 4 unicode_error, 5 assertion, 6 other
    std::string bytes, what;
};
const char *okind(int k) { static const char *n[] = {"output", "ST::bad_format", "std::out_of_range", "std::invalid_argument", "ST::unicode_error", "ST_ASSERT", "other exception"}; return n[k]; }

template <class F> Outcome observe(F &&f) {
    Outcome o;
    verif::pre_errno();
    try {
        ST::string s = f();
        o.bytes.assign(s.c_str(), s.size());
        if (s.c_str()[s.size()] != 0) { o.kind = 6; o.what = "result not NUL-terminated"; }
    } catch (const ST::bad_format &e) { o.kind = 1; o.what = e.what(); }
    catch (const ST::unicode_error &e) { o.kind = 4; o.what = e.what(); }
    catch (const std::out_of_range &e) { o.kind = 2; o.what = e.what(); }
    catch (const std::invalid_argument &e) { o.kind = 3; o.what = e.what(); }
    catch (const verif::assertion_failure &a) { o.kind = 5; o.what = a.message; }
    catch (...) { o.kind = 6; o.what = verif::describe_current_exception(); }
    return o;
}

bool nontrivial_of(const ref::Result &r) {
    bool byref = false;
    for (const ref::Field &f : r.fields) {
        int n = (f.sign ? 1 : 0) + (f.prefix ? 1 : 0) + (f.padding ? 1 : 0) + (f.cut ? 1 : 0);
        if (n >= 2) return true;
        if (f.spec.index >= 0) byref = true;
    }
    return r.fields.size() >= 2 && byref;
}

// The oracle for one call.  Returns "" when the property holds.  `direct`: one argument, passed in its own C++ type.
std::string check_call(const std::string &fmt, const std::vector<fg::Value> &args, const ref::Result &want, bool direct, bool also_assume_valid) {
    verif::Exact<char> f(fmt.data(), fmt.size(), true);          // exact-size NUL-terminated heap copy
    const char *fs = f.data();
    const bool strict = ref::utf8_valid_strict(want.out);
    Outcome a = direct ? observe([&] { return fg::visit(args[0], [&](const auto &x) { return ST::format(fs, x); }); })
                       : observe([&] { return fg::call_n(args, [&](auto... x) { return ST::format(fs, x...); }); });
    if (a.kind == 0) {
        if (a.bytes != want.out) return "ST::format gives " + verif::quoted(a.bytes, 200) + ", specified rendering is " + verif::quoted(want.out, 200);
    } else if (a.kind == 4) {
        if (strict) return "ST::format threw unicode_error (" + a.what + ") although the specified rendering " + verif::quoted(want.out, 200) + " is well-formed UTF-8";
    } else {
        return std::string("ST::format ended with ") + okind(a.kind) + " (" + a.what + "), specified rendering is " + verif::quoted(want.out, 200);
    }
    if (also_assume_valid) {
        Outcome b = direct ? observe([&] { return fg::visit(args[0], [&](const auto &x) { return ST::format(ST::assume_valid, fs, x); }); })
                           : observe([&] { return fg::call_n(args, [&](auto... x) { return ST::format(ST::assume_valid, fs, x...); }); });
        if (b.kind != 0) return std::string("ST::format(assume_valid, ..) ended with ") + okind(b.kind) + " (" + b.what + ")";
        if (b.bytes != want.out) return "ST::format(assume_valid, ..) gives " + verif::quoted(b.bytes, 200) + ", specified rendering is " + verif::quoted(want.out, 200);
    }
    return std::string();
}

// ----- the bounded-exhaustive integer sweep ------------------------------------------------
const fg::Ty kSweepTypes[] = {fg::T_SCHAR, fg::T_UCHAR, fg::T_SHORT, fg::T_USHORT, fg::T_INT, fg::T_UINT, fg::T_LONG, fg::T_ULONG, fg::T_LLONG, fg::T_ULLONG,
                              fg::T_CHAR, fg::T_WCHAR, fg::T_CHAR16, fg::T_CHAR32, fg::T_CHAR8};
const int kNumSweepTypes = 15;
// value selectors: small magnitudes (negated for signed types where listed) and the type's limits
const long long kSweepSmall[] = {0, 1, -1, 9, -9, 10, -10, 255, -255, 7, 8, -8, 15, 16, -16, 100};
const int kNumSmall = 16, kNumValues = 16 + 4;   // + min, min+1, max-1, max

bool sweep_value(fg::Ty t, int vi, fg::Value &v) {
    int w = fg::ty_bits(t); bool sg = fg::ty_signed(t);
    unsigned long long m = w == 64 ? ~0ull : ((1ull << w) - 1), smin = 1ull << (w - 1);
    if (vi < kNumSmall) {
        long long x = kSweepSmall[vi];
        if (x < 0 && !sg) return false;                                  // unsigned types: only the non-negative ones
        if (sg ? (x > (long long)(smin - 1) || (w < 64 && x < -(long long)smin)) : ((unsigned long long)x > m)) return false;   // does not fit the type
        v.set_int(t, (unsigned long long)x);
        return true;
    }
    switch (vi - kNumSmall) {
    case 0: if (!sg) return false; v.set_int(t, smin); return true;        // min
    case 1: if (!sg) return false; v.set_int(t, smin + 1); return true;    // min + 1
    case 2: v.set_int(t, sg ? smin - 2 : m - 1); return true;              // max - 1
    default: v.set_int(t, sg ? smin - 1 : m); return true;                 // max
    }
}

struct SweepPoint { int ty, vi, align, padmode, widthmode, hash, plus, cls, order; };
const int kSweepDims[9] = {kNumSweepTypes, kNumValues, 3, 4, 6, 2, 2, 6, 2};

// Builds the call for a sweep point; false when the point does not exist (value not in the type).
bool sweep_build(const SweepPoint &p, std::string &fmt, std::vector<fg::Value> &args, std::vector<ref::Arg> &rargs) {
    args.resize(1);
    if (!sweep_value(kSweepTypes[p.ty], p.vi, args[0])) return false;
    rargs.assign(1, args[0].to_ref());
    fg::PSpec sp;
    sp.align = p.align;
    if (p.padmode == 1) sp.pad = '*'; else if (p.padmode == 2) sp.zero = true; else if (p.padmode == 3) sp.pad = '0';
    sp.hash = p.hash != 0; sp.plus = p.plus != 0; sp.cls = "\0dxXob"[p.cls];
    ref::Spec rs; rs.hash = sp.hash; rs.plus = sp.plus; rs.cls = sp.cls;
    std::string nat; ref::Field fi; bool um = false;
    ref::render_field(rs, rargs[0], nat, fi, um);
    int n = (int)nat.size();
    static const int delta[] = {0, -1, 0, 1, 5, 0};
    sp.width = p.widthmode == 0 ? 0 : p.widthmode == 5 ? 40 : n + delta[p.widthmode];
    fmt = "[" + fg::print_spec(sp, nullptr, p.order) + "]";
    return true;
}

// ===========================================================================================================================
// Extension (first byte 0xE0..0xFD): argument kinds, arities, entry points and sizes the base generator does not reach.
// ===========================================================================================================================
enum XKind { XK_VALUE, XK_CHARBUF, XK_WBUF, XK_U16BUF, XK_U32BUF, XK_NULL, XK_PATH, XK_LEFT, XK_LEFTX, XK_RIGHT, XK_U8LEFT, XK_U8RIGHT,
             XK_PAIR, XK_FIXED, XK_MACROINT, XK_MACROTEXT };
const char *xkind_name(int k) {
    static const char *n[] = {"", "ST::char_buffer", "ST::wchar_buffer", "ST::utf16_buffer", "ST::utf32_buffer", "ST::null", "std::filesystem::path",
                              "user type{format_string(p,n)}", "user type{format_string(p,n,align_left)}", "user type{format_string(p,n,align_right)}",
                              "user type{format_string(char8_t*,n)}", "user type{format_string(char8_t*,n,align_right)}", "user type{a '+' b \"i\"}",
                              "user type{append(\"<fixed>\")}", "user type{ST_FORMAT_FORWARD(short)}", "user type{ST_INVOKE_FORMATTER(const char*)}"};
    return n[k];
}

struct XArg {
    int kind = XK_VALUE;
    fg::Value v;                    // XK_VALUE; for the other kinds: the exact-size storage the argument points into
    ST::char_buffer cb; ST::wchar_buffer wb; ST::utf16_buffer b16; ST::utf32_buffer b32;
    std::filesystem::path path;
    long long pa = 0; unsigned pb = 0; short ms = 0;
    refx::Arg ra;                   // what the reference interpreter is told
    bool unusable = false;          // the platform did not keep the bytes (path): case discarded
    bool intlike() const { return ra.kind == refx::Arg::PAIR || (ra.kind == refx::Arg::PLAIN && ra.a.is_integer()); }
    std::string show() const {
        if (kind == XK_VALUE) return v.show();
        std::string o = xkind_name(kind);
        if (kind == XK_PAIR) return o + " " + verif::num(pa) + "," + verif::unum(pb);
        if (kind == XK_MACROINT) return o + " " + verif::num(ms);
        if (kind == XK_FIXED || kind == XK_NULL) return o;
        return o + " " + verif::quoted(v.utf8, 40);
    }
};

// f(x) with x the argument in its real C++ type
template <class F> auto xvisit(const XArg &a, F &&f) -> decltype(f(0)) {
    switch (a.kind) {
    case XK_CHARBUF: return f(a.cb);
    case XK_WBUF: return f(a.wb);
    case XK_U16BUF: return f(a.b16);
    case XK_U32BUF: return f(a.b32);
    case XK_NULL: return f(ST::null);
    case XK_PATH: return f(a.path);
    case XK_LEFT: return f(cx::Left{a.v.xc->data(), a.v.xc->size()});
    case XK_LEFTX: return f(cx::LeftX{a.v.xc->data(), a.v.xc->size()});
    case XK_RIGHT: return f(cx::Right{a.v.xc->data(), a.v.xc->size()});
    case XK_U8LEFT: return f(cx::U8Left{reinterpret_cast<const char8_t *>(a.v.xc->data()), a.v.xc->size()});
    case XK_U8RIGHT: return f(cx::U8Right{reinterpret_cast<const char8_t *>(a.v.xc->data()), a.v.xc->size()});
    case XK_PAIR: return f(cx::Pair{a.pa, a.pb});
    case XK_FIXED: return f(cx::Fixed{0});
    case XK_MACROINT: return f(cx::MacroInt{a.ms});
    case XK_MACROTEXT: return f(cx::MacroText{a.v.xc->data()});
    default: return fg::visit(a.v, f);
    }
}

// Run-time typed argument for lists of 0..12 entries: the extension point forwards to the formatter of the real type,
// looked up the way the library's own make_formatter_ref does it (unqualified call, argument-dependent lookup).
struct XLibArg { const XArg *a; };
inline void format_type(const ST::format_spec &format, ST::format_writer &output, const XLibArg &a) {
    xvisit(*a.a, [&](const auto &x) -> int { format_type(format, output, x); return 0; });
}
template <class F> auto xcall_n(const std::vector<XArg> &a, F &&f) -> decltype(f()) {
#define XL(i) XLibArg{&a[i]}
    switch (a.size()) {
    case 0: return f();
    case 1: return f(XL(0));
    case 2: return f(XL(0), XL(1));
    case 3: return f(XL(0), XL(1), XL(2));
    case 4: return f(XL(0), XL(1), XL(2), XL(3));
    case 5: return f(XL(0), XL(1), XL(2), XL(3), XL(4));
    case 6: return f(XL(0), XL(1), XL(2), XL(3), XL(4), XL(5));
    case 7: return f(XL(0), XL(1), XL(2), XL(3), XL(4), XL(5), XL(6));
    case 8: return f(XL(0), XL(1), XL(2), XL(3), XL(4), XL(5), XL(6), XL(7));
    case 9: return f(XL(0), XL(1), XL(2), XL(3), XL(4), XL(5), XL(6), XL(7), XL(8));
    case 10: return f(XL(0), XL(1), XL(2), XL(3), XL(4), XL(5), XL(6), XL(7), XL(8), XL(9));
    case 11: return f(XL(0), XL(1), XL(2), XL(3), XL(4), XL(5), XL(6), XL(7), XL(8), XL(9), XL(10));
    default: return f(XL(0), XL(1), XL(2), XL(3), XL(4), XL(5), XL(6), XL(7), XL(8), XL(9), XL(10), XL(11));
    }
#undef XL
}

// The public ways to obtain an ST::string from a format call
enum { E_FORMAT, E_ASSUME, E_CHECK, E_SUBST, E_UDL, E_LATIN1, E_PRINTF, E_WRITEF, E_COUNT };
const char *entry_name(int e) {
    static const char *n[] = {"ST::format(fmt, ..)", "ST::format(assume_valid, fmt, ..)", "ST::format(check_validity, fmt, ..)", "ST::format(substitute_invalid, fmt, ..)",
                              "operator\"\"_stfmt(fmt)(..)", "ST::format_latin_1(fmt, ..)", "ST::printf(FILE*, fmt, ..)", "ST::writef(std::ostream&, fmt, ..)"};
    return n[e];
}
// the byte sinks: what a FILE* / a narrow std::ostream received
template <class F> Outcome observe_sink(F &&f) {
    Outcome o;
    verif::pre_errno();
    try { f(o.bytes); }
    catch (const ST::bad_format &e) { o.kind = 1; o.what = e.what(); }
    catch (const ST::unicode_error &e) { o.kind = 4; o.what = e.what(); }
    catch (const std::out_of_range &e) { o.kind = 2; o.what = e.what(); }
    catch (const std::invalid_argument &e) { o.kind = 3; o.what = e.what(); }
    catch (const verif::assertion_failure &a) { o.kind = 5; o.what = a.message; }
    catch (...) { o.kind = 6; o.what = verif::describe_current_exception(); }
    return o;
}
struct MemFile {
    char *buf = nullptr; size_t len = 0; FILE *f;
    MemFile() { f = open_memstream(&buf, &len); }
    ~MemFile() { if (f) fclose(f); free(buf); }
    void finish(std::string &out) { fclose(f); f = nullptr; out.assign(buf, len); }
};
template <class... A> Outcome call_entry(int e, const char *fs, size_t n, A &&...a) {
    switch (e) {
    case E_FORMAT: return observe([&] { return ST::format(fs, a...); });
    case E_ASSUME: return observe([&] { return ST::format(ST::assume_valid, fs, a...); });
    case E_CHECK: return observe([&] { return ST::format(ST::check_validity, fs, a...); });
    case E_SUBST: return observe([&] { return ST::format(ST::substitute_invalid, fs, a...); });
    case E_UDL: return observe([&] { return ST::literals::operator""_stfmt(fs, n)(a...); });
    case E_LATIN1: return observe([&] { return ST::format_latin_1(fs, a...); });
    case E_PRINTF: return observe_sink([&](std::string &out) { MemFile m; if (!m.f) throw std::runtime_error("open_memstream failed"); ST::printf(m.f, fs, a...); m.finish(out); });
    default: return observe_sink([&](std::string &out) { std::ostringstream os; ST::writef(os, fs, a...); if (!os.good()) throw std::runtime_error("ostringstream not good()"); out = os.str(); });
    }
}
template <class... A> Outcome call_entry_typed(int e, const char *fs, size_t n, A &&...a) {      // typed calls: two entry points (compile time)
    if (e == E_UDL) return observe([&] { return ST::literals::operator""_stfmt(fs, n)(a...); });
    return observe([&] { return ST::format(fs, a...); });
}

// What the property demands of one entry point, given the specified rendering.
std::string judge(int e, const Outcome &o, const std::string &want, bool strict, const char *how) {
    std::string who = std::string(entry_name(e)) + " [" + how + "]";
    bool must_equal = true;
    switch (e) {
    case E_ASSUME: case E_LATIN1: case E_PRINTF: case E_WRITEF:     // never validate (format_latin_1 is only called for an all-ASCII rendering)
        if (o.kind != 0) return who + " ended with " + okind(o.kind) + " (" + o.what + "), specified rendering is " + verif::quoted(want, 200);
        break;
    case E_SUBST:                                // never throws; the repaired text of an ill-formed rendering belongs to C02
        if (o.kind != 0) return who + " ended with " + okind(o.kind) + " (" + o.what + "), specified rendering is " + verif::quoted(want, 200);
        must_equal = strict;
        break;
    default:                                     // validating entry points: unicode_error only for a rendering that is not well-formed UTF-8
        if (o.kind == 4) {
            if (strict) return who + " threw unicode_error (" + o.what + ") although the specified rendering " + verif::quoted(want, 200) + " is well-formed UTF-8";
            return std::string();
        }
        if (o.kind != 0) return who + " ended with " + okind(o.kind) + " (" + o.what + "), specified rendering is " + verif::quoted(want, 200);
        break;
    }
    if (must_equal && o.bytes != want) {
        size_t k = 0; while (k < o.bytes.size() && k < want.size() && o.bytes[k] == want[k]) k++;
        return who + " gives " + verif::unum(o.bytes.size()) + " bytes, the specified rendering has " + verif::unum(want.size()) + "; first difference at byte " + verif::unum(k) +
               ": got " + verif::quoted(o.bytes.substr(k > 20 ? k - 20 : 0, 60), 60) + ", specified " + verif::quoted(want.substr(k > 20 ? k - 20 : 0, 60), 60);
    }
    return std::string();
}

struct XCtx {      // classification of an extended call (labels)
    bool nul = false, long_text = false, bigpad = false, longlit = false, ignored = false, prec_num = false, char8c = false, buffer = false, path = false,
         custom = false, right_default = false, macro = false, manyargs = false, bigindex = false, multiref = false, nofields = false, typedsig = false,
         udl_literal = false, invalid_mode = false;
    int bigruns = 0, longlits = 0;
};
struct XCall {
    std::string fmt;
    std::vector<XArg> args;
    int sig = -1;          // >= 0: additionally called with the fixed C++ signature `sig`
    int sub = 0;
    XCtx c;
    std::vector<refx::Arg> rargs() const { std::vector<refx::Arg> r; for (const XArg &a : args) r.push_back(a.ra); return r; }
};

bool ty_is_cstring(fg::Ty t) { return t == fg::T_CSTR || t == fg::T_WCSTR || t == fg::T_U16CSTR || t == fg::T_U32CSTR || t == fg::T_U8CSTR; }
std::string cut_at_nul(const std::string &s) { size_t p = s.find('\0'); return p == std::string::npos ? s : s.substr(0, p); }

// scalar values of a text argument: short (one input byte each), or long (a cycled palette; lengths at and around 256/1024/4096),
// optionally with embedded U+0000
void xscalars(verif::Reader &r, XCtx &c, bool allow_nul, bool allow_long, bool force_nul, std::vector<uint32_t> &cps) {
    unsigned m = (unsigned)r.range(0, 7);
    if (allow_long && m == 7) {
        static const uint16_t lens[] = {256, 255, 257, 1023, 1024, 1025, 4095, 4096, 4097, 300, 2000};
        static const uint32_t pal[] = {'a', 'b', 'c', 0xE9, 'd', 0x20AC, 'e', 'f', 0x1F600, 'g'};
        size_t n = r.pick(lens); uint8_t style = r.u8();
        for (size_t i = 0; i < n; i++) cps.push_back((style & 1) ? pal[(i + style / 2) % 10] : (uint32_t)('a' + (i + style / 2) % 26));
        c.long_text = true;
    } else {
        static const uint16_t lens[] = {0, 1, 2, 3, 4, 5, 6, 8, 11, 15, 16, 17, 31, 40, 64, 120};
        size_t n = m < 4 ? r.range(0, 8) : r.pick(lens);
        fg::gen_scalars(r, n, false, cps);
    }
    if (force_nul || (allow_nul && r.chance(64))) {
        cps.insert(cps.begin() + (long)r.idx(cps.size() + 1), 0u);
        if (r.flag()) cps.insert(cps.begin() + (long)r.idx(cps.size() + 1), 0u);
        c.nul = true;
    }
}

void xset_value(verif::Reader &r, XCtx &c, XArg &x, fg::Ty t, bool allow_long, bool force_nul = false) {
    x.kind = XK_VALUE;
    if (fg::ty_is_int(t)) { x.v.set_int(t, t == fg::T_CHAR8 && r.flag() ? r.range(0, 127) : fg::gen_int_bits(r, t)); x.ra = refx::Arg::plain(x.v.to_ref()); }
    else if (t == fg::T_BOOL) { x.v.set_bool(r.flag()); x.ra = refx::Arg::plain(x.v.to_ref()); }
    else {
        std::vector<uint32_t> cps; xscalars(r, c, true, allow_long, force_nul, cps);
        x.v.set_text(t, cps);
        // a C-string overload sees the text up to its first NUL; every (pointer, length) form keeps the whole text
        x.ra = refx::Arg::plain(ref::Arg::str(ty_is_cstring(t) ? cut_at_nul(x.v.utf8) : x.v.utf8));
    }
}
void xset_kind(verif::Reader &r, XCtx &c, XArg &x, int kind, bool allow_long) {
    x.kind = kind;
    std::vector<uint32_t> cps;
    switch (kind) {
    case XK_CHARBUF: xscalars(r, c, true, allow_long, false, cps); x.v.set_text(fg::T_SV, cps); x.cb = ST::char_buffer(x.v.xc->data(), x.v.xc->size()); break;
    case XK_WBUF: xscalars(r, c, true, allow_long, false, cps); x.v.set_text(fg::T_WSV, cps); x.wb = ST::wchar_buffer(x.v.xw->data(), x.v.xw->size()); break;
    case XK_U16BUF: xscalars(r, c, true, allow_long, false, cps); x.v.set_text(fg::T_U16SV, cps); x.b16 = ST::utf16_buffer(x.v.x16->data(), x.v.x16->size()); break;
    case XK_U32BUF: xscalars(r, c, true, allow_long, false, cps); x.v.set_text(fg::T_U32SV, cps); x.b32 = ST::utf32_buffer(x.v.x32->data(), x.v.x32->size()); break;
    case XK_NULL: x.v.utf8.clear(); break;
    case XK_PATH: {
        static const char *shapes[] = {"a//b", "//server/x", "/", "", "a/", "./a/../b", "///", "dir/sub//file.txt", "a/./b", ".."};
        if (r.flag()) { for (const char *p = r.pick(shapes); *p; p++) cps.push_back((unsigned char)*p); }
        else { xscalars(r, c, false, allow_long, false, cps); if (!cps.empty() && r.flag()) { cps.insert(cps.begin() + (long)r.idx(cps.size() + 1), (uint32_t)'/'); cps.insert(cps.begin() + (long)r.idx(cps.size() + 1), (uint32_t)'/'); } }
        x.v.set_text(fg::T_STDSTRING, cps);
        x.path = std::filesystem::path(x.v.ss);
        std::u8string back = x.path.u8string();
        if (std::string(reinterpret_cast<const char *>(back.data()), back.size()) != x.v.utf8) x.unusable = true;
        break; }
    case XK_PAIR: x.pa = (long long)fg::gen_int_bits(r, fg::T_LLONG); x.pb = (unsigned)fg::gen_int_bits(r, fg::T_UINT); break;
    case XK_FIXED: break;
    case XK_MACROINT: x.ms = (short)fg::gen_int_bits(r, fg::T_SHORT); break;
    case XK_MACROTEXT: xscalars(r, c, true, allow_long, false, cps); x.v.set_text(fg::T_CSTR, cps); break;
    default: xscalars(r, c, true, allow_long, false, cps); x.v.set_text(fg::T_SV, cps); break;      // XK_LEFT .. XK_U8RIGHT: (pointer, length) into an exact-size block
    }
    switch (kind) {
    case XK_RIGHT: case XK_U8RIGHT: x.ra = refx::Arg::text_right(x.v.utf8); c.right_default = true; c.custom = true; break;
    case XK_PAIR: x.ra = refx::Arg::pair(ref::Arg::sint(x.pa), "+", ref::Arg::uint(x.pb), "i"); c.custom = true; break;
    case XK_FIXED: x.ra = refx::Arg::verbatim("<fixed>"); c.custom = true; break;
    case XK_MACROINT: x.ra = refx::Arg::plain(ref::Arg::sint(x.ms)); c.macro = true; break;
    case XK_MACROTEXT: x.ra = refx::Arg::plain(ref::Arg::str(cut_at_nul(x.v.utf8))); c.macro = true; break;
    case XK_PATH: x.ra = refx::Arg::plain(ref::Arg::str(x.v.utf8)); c.path = true; break;
    case XK_LEFT: case XK_LEFTX: case XK_U8LEFT: x.ra = refx::Arg::plain(ref::Arg::str(x.v.utf8)); c.custom = true; break;
    default: x.ra = refx::Arg::plain(ref::Arg::str(x.v.utf8)); c.buffer = true; break;
    }
}
const fg::Ty kIntTypes[] = {fg::T_INT, fg::T_UINT, fg::T_LLONG, fg::T_ULLONG, fg::T_SCHAR, fg::T_UCHAR, fg::T_SHORT, fg::T_USHORT, fg::T_LONG, fg::T_ULONG,
                            fg::T_CHAR, fg::T_WCHAR, fg::T_CHAR16, fg::T_CHAR32, fg::T_CHAR8};
const fg::Ty kTextTypes[] = {fg::T_CSTR, fg::T_STSTRING, fg::T_STDSTRING, fg::T_SV, fg::T_WCSTR, fg::T_U16CSTR, fg::T_U32CSTR, fg::T_U8CSTR,
                             fg::T_WSTRING, fg::T_U16STRING, fg::T_U32STRING, fg::T_U8STRING, fg::T_WSV, fg::T_U16SV, fg::T_U32SV, fg::T_U8SV};
// any argument; new_only: only the kinds the base generator does not have
void xgen_arg(verif::Reader &r, XCtx &c, XArg &x, bool allow_long, bool new_only) {
    unsigned k = new_only ? 10 + (unsigned)r.range(0, 5) : (unsigned)r.range(0, 15);
    if (k <= 4) xset_value(r, c, x, r.pick(kIntTypes), allow_long);
    else if (k <= 8) xset_value(r, c, x, r.pick(kTextTypes), allow_long);
    else if (k == 9) xset_value(r, c, x, fg::T_BOOL, allow_long);
    else if (k == 10) { static const int b[] = {XK_CHARBUF, XK_WBUF, XK_U16BUF, XK_U32BUF, XK_NULL}; xset_kind(r, c, x, r.pick(b), allow_long); }
    else if (k == 11) xset_kind(r, c, x, XK_PATH, allow_long);
    else if (k == 12) { static const int b[] = {XK_LEFT, XK_LEFTX, XK_RIGHT, XK_U8LEFT, XK_U8RIGHT}; xset_kind(r, c, x, r.pick(b), allow_long); }
    else if (k == 13) xset_kind(r, c, x, r.flag() ? XK_PAIR : XK_MACROINT, allow_long);
    else if (k == 14) xset_kind(r, c, x, r.flag() ? XK_FIXED : XK_MACROTEXT, allow_long);
    else xset_value(r, c, x, r.pick(kTextTypes), allow_long, true);        // text with an embedded U+0000, every form
}

const int kPadRuns[] = {31, 32, 33, 63, 64, 65, 255, 256, 257, 1023, 1024, 1025, 4095, 4096, 4097, 8191, 8192, 8193, 16383, 16384, 16385};

// One "{...}" field for argument x; index 0 = sequential, else &index.
std::string xgen_field(verif::Reader &r, XCtx &c, const XArg &x, int index) {
    fg::PSpec sp; sp.index = index;
    char fcls = 0;
    auto pick_pad = [&]() {
        unsigned pm = (unsigned)r.range(0, 3);
        if (pm == 1) { sp.pad = (unsigned char)fg::kPadChars[r.idx(sizeof fg::kPadChars - 1)]; if (c.invalid_mode && r.chance(60)) sp.pad = 0x80 + (int)r.range(0, 127); }
        else if (pm == 2) sp.zero = true;
    };
    auto pick_width = [&](size_t natural) {
        switch (r.range(0, 10)) {
        case 0: sp.width = 0; break;
        case 1: sp.width = (int)natural - 1; break;
        case 2: sp.width = (int)natural; break;
        case 3: sp.width = (int)natural + 1; break;
        case 4: sp.width = (int)natural + 5; break;
        case 5: sp.width = 40; break;
        case 6: sp.width = (int)r.range(1, 24); break;
        case 7: sp.width = (int)r.range(1, 400); break;
        case 8: sp.width = (int)natural + (int)r.range(0, 300); break;
        default:
            if (c.bigruns < 2) { int run = r.pick(kPadRuns); sp.width = (int)natural + run; c.bigruns++; c.bigpad = true; }
            else sp.width = (int)natural + 2;
            break;
        }
        if (sp.width < 0) sp.width = 0;
    };
    auto ignored_letters = [&]() { if (r.chance(24)) { fcls = "feE"[r.range(0, 2)]; c.ignored = true; } };
    if (x.intlike()) {
        const ref::Arg &ia = x.ra.a;
        const bool char8 = x.kind == XK_VALUE && x.v.ty == fg::T_CHAR8;
        bool as_char = r.chance(char8 && x.v.u < 0x80 ? 128 : 40);
        if (as_char && char8 && x.v.u >= 0x80) as_char = false;      // a char8_t is a UTF-8 code unit copied verbatim: only values whose encoding is that one byte
        if (as_char) {
            sp.cls = 'c'; if (char8) c.char8c = true;
            if (r.chance(40)) sp.align = 1 + (int)r.range(0, 1);                       // alignment without width: no padding requested
            if (r.chance(40)) { sp.precision = (int)r.range(0, 12); c.prec_num = true; }  // precision is for text only
            if (r.chance(40)) { sp.hash = r.flag(); sp.plus = r.flag(); c.ignored = true; }
        } else {
            sp.align = (int)r.range(0, 2);
            pick_pad();
            sp.hash = r.flag(); sp.plus = r.flag();
            sp.cls = "\0dxXob"[r.range(0, 5)];
            if (r.chance(40)) { sp.precision = (int)r.range(0, 12); c.prec_num = true; }
            ignored_letters();
            ref::Spec rs; rs.hash = sp.hash; rs.plus = sp.plus; rs.cls = sp.cls;
            std::string nat; ref::Field fi; bool um = false;
            ref::render_field(rs, ia, nat, fi, um);
            pick_width(nat.size());
        }
    } else {
        const std::string text = x.ra.kind == refx::Arg::VERBATIM ? x.ra.sep : x.ra.a.kind == ref::Arg::BOOL ? (x.ra.a.b ? "true" : "false") : x.ra.a.text;
        sp.align = (int)r.range(0, 2);
        pick_pad();
        size_t shown = text.size();
        switch (r.range(0, 7)) {
        case 0: case 1: break;
        case 2: sp.precision = 0; break;
        case 3: sp.precision = (int)(text.size() ? text.size() - 1 : 0); break;
        case 4: sp.precision = (int)text.size(); break;
        case 5: sp.precision = (int)text.size() + 1; break;
        case 6: sp.precision = (int)r.range(0, text.size() + 2); break;
        default: { static const int cuts[] = {255, 256, 257, 1023, 1024, 1025, 4095, 4096}; sp.precision = r.pick(cuts); break; }
        }
        if (sp.precision >= 0) {
            if (!c.invalid_mode)      // cut only at character boundaries
                while (sp.precision > 0 && (size_t)sp.precision < text.size() && ((unsigned char)text[(size_t)sp.precision] & 0xC0) == 0x80) sp.precision--;
            if ((size_t)sp.precision < shown) shown = (size_t)sp.precision;
        }
        if (r.chance(30)) {          // items that mean nothing for text: the rendering is still the text
            sp.hash = r.flag(); sp.plus = r.flag();
            if (r.flag()) sp.cls = "dxXobc"[r.range(0, 5)];
            c.ignored = true;
        }
        ignored_letters();
        pick_width(shown);
    }
    std::string f = fg::print_spec(sp, &r);
    if (fcls) { if (r.flag()) f.insert(f.size() - 1, 1, fcls); else f.insert(1, 1, fcls); }
    return f;
}

// Literal text between fields: short items as in the base generator, plus runs of several KB with exact output sizes.
void xgen_literal(verif::Reader &r, XCtx &c, std::string &fmt, size_t maxitems, bool allow_long) {
    size_t n = r.range(0, maxitems);
    for (size_t i = 0; i < n; i++) {
        uint8_t b = r.u8();
        if (b < 110) { static const char asc[] = "abcxyz ,:=|019XQ-_.&#+<>"; fmt += asc[b % (sizeof asc - 1)]; }
        else if (b < 140) fmt += "{{";
        else if (b < 170) fmt += "}}";
        else if (b < 190) fmt += "}";
        else if (b < 236 || !allow_long || c.longlits >= 2) fmt += ref::utf8_of(fg::kScalars[b % (sizeof fg::kScalars / sizeof fg::kScalars[0])]);
        else {
            struct Pat { const char *src; size_t outlen; };
            static const Pat pats[] = {{"a", 1}, {"abcdefghij", 10}, {"xy{{", 3}, {"}}z", 2}, {"\xC3\xA9", 2}, {"-\xE2\x82\xAC", 4}, {"\xF0\x9F\x98\x80", 4}, {"0123456789ABCDEF", 16}, {"q}}{{", 3}};
            static const uint16_t targets[] = {4096, 255, 256, 257, 1023, 1024, 1025, 4095, 4097, 8191, 8192, 8193, 3000, 20000};
            const Pat &p = r.pick(pats); size_t target = r.pick(targets), out = 0;
            while (out + p.outlen <= target) { fmt += p.src; out += p.outlen; }
            while (out < target) { fmt += 'q'; out++; }
            c.longlits++; c.longlit = true;
        }
    }
}

// fixed C++ signatures for typed multi-argument calls (every argument in its own type, copied by the library's formatter table)
struct SigSlot { int kind; fg::Ty ty; };
const SigSlot kSigA[] = {{XK_VALUE, fg::T_INT}, {XK_VALUE, fg::T_CSTR}, {XK_VALUE, fg::T_STSTRING}, {XK_VALUE, fg::T_BOOL}, {XK_VALUE, fg::T_CHAR}, {XK_VALUE, fg::T_ULLONG},
                         {XK_VALUE, fg::T_SV}, {XK_VALUE, fg::T_WCSTR}, {XK_VALUE, fg::T_U16STRING}, {XK_VALUE, fg::T_CHAR32}, {XK_VALUE, fg::T_LONG}, {XK_VALUE, fg::T_SHORT}};
const SigSlot kSigB[] = {{XK_VALUE, fg::T_STDSTRING}, {XK_VALUE, fg::T_LLONG}, {XK_VALUE, fg::T_UCHAR}, {XK_VALUE, fg::T_U16CSTR}, {XK_VALUE, fg::T_U32SV}, {XK_VALUE, fg::T_WCHAR},
                         {XK_VALUE, fg::T_U8STRING}};
const SigSlot kSigC[] = {{XK_CHARBUF, fg::T_INT}, {XK_PATH, fg::T_INT}, {XK_RIGHT, fg::T_INT}, {XK_VALUE, fg::T_SCHAR}, {XK_VALUE, fg::T_UINT}, {XK_VALUE, fg::T_U8CSTR}};
const char *kSigNames[] = {"(int, const char*, ST::string, bool, char, unsigned long long, std::string_view, const wchar_t*, std::u16string, char32_t, long, short) lvalues",
                           "(std::string, long long, unsigned char, const char16_t*, std::u32string_view, wchar_t, std::u8string) rvalues",
                           "(ST::char_buffer, std::filesystem::path, user type, signed char, unsigned, const char8_t*) lvalues"};

Outcome call_sig(int sig, int e, const char *fs, size_t n, const std::vector<XArg> &a) {
    auto V = [&](size_t i) -> const fg::Value & { return a[i].v; };
    if (sig == 0) {
        int a0 = (int)V(0).s; const char *a1 = V(1).xc->data(); const ST::string &a2 = V(2).st; bool a3 = V(3).b;
        char a4 = std::is_signed<char>::value ? (char)V(4).s : (char)V(4).u; unsigned long long a5 = V(5).u; std::string_view a6(V(6).xc->data(), V(6).xc->size());
        const wchar_t *a7 = V(7).xw->data(); const std::u16string &a8 = V(8).s16; char32_t a9 = (char32_t)V(9).u; long a10 = (long)V(10).s; short a11 = (short)V(11).s;
        return call_entry_typed(e, fs, n, a0, a1, a2, a3, a4, a5, a6, a7, a8, a9, a10, a11);
    }
    if (sig == 1) {
        const wchar_t w = std::is_signed<wchar_t>::value ? (wchar_t)V(5).s : (wchar_t)V(5).u;
        if (e == E_UDL)
            return observe([&] { return ST::literals::operator""_stfmt(fs, n)(std::string(V(0).ss), (long long)V(1).s, (unsigned char)V(2).u, (const char16_t *)V(3).x16->data(),
                                                                              std::u32string_view(V(4).x32->data(), V(4).x32->size()), wchar_t(w), std::u8string(V(6).s8)); });
        return observe([&] { return ST::format(fs, std::string(V(0).ss), (long long)V(1).s, (unsigned char)V(2).u, (const char16_t *)V(3).x16->data(),
                                               std::u32string_view(V(4).x32->data(), V(4).x32->size()), wchar_t(w), std::u8string(V(6).s8)); });
    }
    cx::Right a2{V(2).xc->data(), V(2).xc->size()}; signed char a3 = (signed char)V(3).s; unsigned a4 = (unsigned)V(4).u; const char8_t *a5 = reinterpret_cast<const char8_t *>(V(5).xc->data());
    return call_entry_typed(e, fs, n, a[0].cb, a[1].path, a2, a3, a4, a5);
}

// real user-defined literals (the format text is part of the program); arguments (int, const char*)
#define C11_UDL_TABLE(X) X(0, "v={} s={}") X(1, "[{>12_*}|{<6}]") X(2, "{&2}{{{&1}}}{&2.2}") X(3, "{+#012x}/{_.>9.3}/{&1c}") X(4, "") X(5, "}}{{ no field")
const char *udl_text(int i) {
    switch (i) {
#define X(i, s) case i: return s;
    C11_UDL_TABLE(X)
#undef X
    default: return "";
    }
}
Outcome udl_call(int i, int a0, const char *a1) {
    using namespace ST::literals;
    switch (i) {
#define X(i, s) case i: return observe([&] { return s##_stfmt(a0, a1); });
    C11_UDL_TABLE(X)
#undef X
    default: return Outcome();
    }
}
const int kNumUdl = 6;

// Decodes one extended call.  Every choice is read from r; exhausted input gives the simplest call of sub-mode 0.
void decode_xcall(verif::Reader &r, XCall &k) {
    XCtx &c = k.c;
    k.sub = (int)r.range(0, 6);
    c.invalid_mode = r.chance(16);
    std::vector<int> sel;      // per field: 0 sequential, else &N
    size_t nargs = 0;
    auto plan_fields = [&](size_t nfields, bool want_multiref) {
        size_t seq = 0, hot = r.idx(nargs);
        int hotrefs = 0;
        for (size_t i = 0; i < nfields; i++) {
            unsigned ch = (unsigned)r.range(0, 3);
            if (ch <= 1 && seq < nargs) { sel.push_back(0); seq++; }
            else if (ch == 2 && want_multiref) { sel.push_back((int)hot + 1); hotrefs++; }
            else { size_t a = nargs >= 10 && r.flag() ? nargs - 1 - r.idx(nargs - 8) : r.idx(nargs); sel.push_back((int)a + 1); }
            if (sel.back() >= 10) c.bigindex = true;
        }
        if (hotrefs >= 2) c.multiref = true;
    };
    bool allow_long = false;
    switch (k.sub) {
    case 0: {     // 6..12 arguments of every kind, 6..16 fields, one argument referenced several times
        nargs = 6 + r.range(0, 6);
        k.args.resize(nargs);
        for (XArg &x : k.args) xgen_arg(r, c, x, false, false);
        plan_fields(6 + r.range(0, 10), true);
        c.manyargs = true;
        break; }
    case 1: {     // fixed C++ signature, all arguments in their own types
        k.sig = (int)r.range(0, 2);
        const SigSlot *s = k.sig == 0 ? kSigA : k.sig == 1 ? kSigB : kSigC;
        nargs = k.sig == 0 ? 12 : k.sig == 1 ? 7 : 6;
        k.args.resize(nargs);
        for (size_t i = 0; i < nargs; i++) { if (s[i].kind == XK_VALUE) xset_value(r, c, k.args[i], s[i].ty, false); else xset_kind(r, c, k.args[i], s[i].kind, false); }
        plan_fields(1 + r.range(0, 13), true);
        c.typedsig = true; c.manyargs = true;
        break; }
    case 2: {     // one argument of a kind the base generator does not have, passed in its own type
        nargs = 1; k.args.resize(1);
        xgen_arg(r, c, k.args[0], true, true);
        size_t nf = 1 + r.range(0, 2);
        sel.push_back(0); for (size_t i = 1; i < nf; i++) sel.push_back(1);
        if (nf >= 3) c.multiref = true;
        allow_long = true;
        break; }
    case 3: {     // long: literal runs of several KB, padding runs up to 16 K, text arguments of several K characters
        nargs = 1 + r.range(0, 2); k.args.resize(nargs);
        for (XArg &x : k.args) xgen_arg(r, c, x, true, false);
        plan_fields(1 + r.range(0, 3), false);
        allow_long = true;
        break; }
    case 4: {     // no field at all (0..2 unused arguments)
        nargs = r.range(0, 2); k.args.resize(nargs);
        for (XArg &x : k.args) xgen_arg(r, c, x, false, false);
        allow_long = true; c.nofields = true;
        break; }
    case 5: {     // 1..5 arguments of every kind
        nargs = 1 + r.range(0, 4); k.args.resize(nargs);
        for (XArg &x : k.args) xgen_arg(r, c, x, false, false);
        plan_fields(1 + r.range(0, 4), true);
        break; }
    default: {    // a real "..."_stfmt literal with (int, const char*)
        nargs = 2; k.args.resize(2);
        xset_value(r, c, k.args[0], fg::T_INT, false);
        xset_value(r, c, k.args[1], fg::T_CSTR, false);
        k.sig = 100 + (int)r.idx(kNumUdl);
        k.fmt = udl_text(k.sig - 100);
        c.udl_literal = true;
        return; }
    }
    for (size_t i = 0; i < sel.size(); i++) {
        xgen_literal(r, c, k.fmt, i == 0 ? 3 : 4, allow_long);
        size_t a;
        if (sel[i] == 0) { a = 0; for (size_t j = 0; j < i; j++) if (sel[j] == 0) a++; } else a = (size_t)sel[i] - 1;
        k.fmt += xgen_field(r, c, k.args[a], sel[i]);
    }
    xgen_literal(r, c, k.fmt, k.sub == 4 ? 6 : 3, allow_long);
}

void label_xcall(const XCall &k, verif::Case &c) {
    const XCtx &x = k.c;
    c.label("extended-call");
    if (x.udl_literal) c.label("x:real-_stfmt-literal");
    if (x.typedsig) c.label("x:typed-multi-argument-signature");
    if (x.bigindex) c.label("x:&N>=10");
    else if (x.manyargs) c.label("x:6..12-arguments");
    if (x.multiref) c.label("x:one-argument-several-fields");
    if (x.nul) c.label("x:text-with-embedded-NUL");
    if (x.buffer) c.label("x:ST-buffer-or-null-argument");
    if (x.path) c.label("x:filesystem-path-argument");
    if (x.right_default) c.label("x:user-type-format_string-right-default");
    else if (x.custom) c.label("x:user-type-format_type");
    if (x.macro) c.label("x:user-type-deprecated-macros");
    if (x.char8c) c.label("x:char8_t-class-c-ascii");
    if (x.bigpad) c.label("x:pad-run-32..16385");
    if (x.longlit) c.label("x:literal-run-255..20000");
    if (x.long_text) c.label("x:text-argument-255..4097-chars");
    if (x.nofields) c.label("x:no-field");
    if (x.ignored) c.label("x:items-without-effect");
    if (x.prec_num) c.label("x:precision-on-number-or-char");
}

std::string show_xcall(const XCall &k, const ref::Result &want) {
    std::string t = "C11x[" + verif::num(k.sub) + "] ";
    if (k.sig >= 100) t += "real literal "; else if (k.sig >= 0) t += std::string("signature ") + kSigNames[k.sig] + " ";
    t += "fmt=" + verif::quoted(k.fmt, 200) + " args=(";
    for (size_t i = 0; i < k.args.size(); i++) { if (i) t += ", "; t += k.args[i].show(); }
    t += ") -> " + (want.kind == ref::OK ? verif::quoted(want.out, 160) : std::string(ref::kind_name(want.kind)));
    return t;
}

// All entry points for one extended call.  Returns "" when the property holds.
std::string check_xcall(const XCall &k, const ref::Result &want) {
    verif::Exact<char> f(k.fmt.data(), k.fmt.size(), true);
    const char *fs = f.data(); const size_t n = k.fmt.size();
    const bool strict = ref::utf8_valid_strict(want.out);
    bool ascii = true; for (unsigned char ch : want.out) if (ch >= 0x80) { ascii = false; break; }
    for (int e = 0; e < E_COUNT; e++) {
        if (e == E_LATIN1 && !ascii) continue;
        Outcome o = xcall_n(k.args, [&](auto... x) { return call_entry(e, fs, n, x...); });
        std::string why = judge(e, o, want.out, strict, "argument list");
        if (!why.empty()) return why;
    }
    if (k.args.size() == 1)
        for (int e : {E_FORMAT, E_UDL}) {
            Outcome o = xvisit(k.args[0], [&](const auto &x) { return call_entry_typed(e, fs, n, x); });
            std::string why = judge(e, o, want.out, strict, "argument in its own type");
            if (!why.empty()) return why;
        }
    if (k.sig >= 0 && k.sig < 100)
        for (int e : {E_FORMAT, E_UDL}) {
            std::string why = judge(e, call_sig(k.sig, e, fs, n, k.args), want.out, strict, "typed signature");
            if (!why.empty()) return why;
        }
    if (k.sig >= 100) {
        std::string why = judge(E_UDL, udl_call(k.sig - 100, (int)k.args[0].v.s, k.args[1].v.xc->data()), want.out, strict, "real literal");
        if (!why.empty()) return why;
    }
    return std::string();
}

// ----- directed pad-run points (first byte 0xFD): a padding run of exactly B-1, B, B+1 characters in every layout ----------
const int kRunBlocks[] = {32, 64, 256, 1024, 4096, 8192, 16384};
const int kPadRunDims[4] = {7, 3, 8, 3};
void padrun_build(int bi, int di, int layout, int pm, XCall &k) {
    const int run = kRunBlocks[bi] + di - 1;
    k.args.resize(1); XArg &x = k.args[0];
    fg::PSpec sp;
    if (pm == 1) sp.pad = '*'; else if (pm == 2) sp.pad = '0';
    auto text = [&](fg::Ty t, const char *s) { std::vector<uint32_t> cps; for (; *s; s++) cps.push_back((unsigned char)*s); x.kind = XK_VALUE; x.v.set_text(t, cps); x.ra = refx::Arg::plain(ref::Arg::str(x.v.utf8)); };
    switch (layout) {
    case 0: x.v.set_int(fg::T_INT, (unsigned long long)-1234ll); x.ra = refx::Arg::plain(x.v.to_ref()); break;                             // number, default (right)
    case 1: x.v.set_int(fg::T_INT, (unsigned long long)-1234ll); x.ra = refx::Arg::plain(x.v.to_ref()); sp.align = 1; break;               // number, left
    case 2: x.v.set_int(fg::T_ULONG, pm == 0 ? 255 : pm == 1 ? 0 : ~0ull); x.ra = refx::Arg::plain(x.v.to_ref()); sp.pad = -1; sp.zero = true; sp.plus = true; sp.hash = true; sp.cls = 'x'; break;
    case 3: x.v.set_int(fg::T_LLONG, 1ull << 63); x.ra = refx::Arg::plain(x.v.to_ref()); sp.align = 2; sp.hash = true; sp.cls = 'b'; break;   // 64 binary digits + sign + prefix
    case 4: text(fg::T_CSTR, "ab"); break;                                                                                               // text, default (left)
    case 5: x.kind = XK_VALUE; x.v.set_text(fg::T_STSTRING, {'a', 'b', 0x20AC}); x.ra = refx::Arg::plain(ref::Arg::str(x.v.utf8)); sp.align = 2; break;      // text, right
    case 6: x.v.set_bool(true); x.ra = refx::Arg::plain(x.v.to_ref()); break;
    default: { std::vector<uint32_t> cps = {'x', 'y', 'z'}; x.kind = XK_RIGHT; x.v.set_text(fg::T_SV, cps); x.ra = refx::Arg::text_right(x.v.utf8); sp.precision = 2; break; }
    }
    std::vector<refx::Arg> ra(1, x.ra);
    size_t natural = refx::interpret(fg::print_spec(sp, nullptr, 0), ra).out.size();
    sp.width = (int)natural + run;
    k.fmt = "<" + fg::print_spec(sp, nullptr, 0) + ">";
    k.sub = 9; k.c.bigpad = true;
}

}  // namespace

int verif_case(const uint8_t *data, size_t size, Case &c) {
    verif::Reader r(data, size, c);
    std::string fmt; std::vector<fg::Value> args; std::vector<ref::Arg> rargs;
    bool direct = false;
    uint8_t first = size ? data[0] : 0;
    if (first == 0xFF) {                              // directed: one point of the integer sweep
        r.u8();
        int q[9];
        for (int i = 0; i < 9; i++) q[i] = (int)(r.u8() % kSweepDims[i]);
        SweepPoint p = {q[0], q[1], q[2], q[3], q[4], q[5], q[6], q[7], q[8]};
        c.label("directed-sweep-point");
        if (!sweep_build(p, fmt, args, rargs)) return verif::CASE_DISCARD;
        direct = true;
    } else if (first == 0xFE) {                       // directed: "{c}" of one integer, no exclusions (regression inputs)
        r.u8();
        fg::Ty t = kSweepTypes[r.u8() % kNumSweepTypes];
        if (t == fg::T_CHAR8) t = fg::T_UCHAR;
        args.resize(1); args[0].set_int(t, r.bits64());
        rargs.assign(1, args[0].to_ref());
        fmt = "{c}";
        direct = true;
        c.label("directed-char-class");
    } else if (first >= 0xE0) {                       // 0xFD: directed pad-run point; 0xE0..0xFC: extended call
        r.u8();
        XCall k;
        if (first == 0xFD) {
            int q[4]; for (int i = 0; i < 4; i++) q[i] = (int)(r.u8() % kPadRunDims[i]);
            padrun_build(q[0], q[1], q[2], q[3], k);
            c.label("directed-pad-run-point");
        } else {
            decode_xcall(r, k);
            label_xcall(k, c);
        }
        for (const XArg &a : k.args) if (a.unusable) return verif::CASE_DISCARD;
        ref::Result want = refx::interpret(k.fmt, k.rargs());
        if (c.want_text) c.text = show_xcall(k, want);
        if (want.kind != ref::OK || want.unmodelled) { c.label("generator-produced-non-output"); return verif::CASE_DISCARD; }
        c.nontrivial = nontrivial_of(want);
        if (!ref::utf8_valid_strict(want.out)) c.label("result-not-strict-utf8");
        std::string why = check_xcall(k, want);
        if (!why.empty()) return c.fail(why);
        return verif::CASE_OK;
    } else {
        fg::Call k;
        fg::Options opt;
        fg::decode_call(r, k, opt);
        fg::label_call(k, c);
        c.excluded_known += k.excluded_known;
        fmt = k.fmt; args = std::move(k.args); rargs = std::move(k.rargs);
        direct = args.size() == 1;
        c.label(direct ? "typed-single-argument" : "argument-list");
    }
    ref::Result want = ref::interpret(fmt, rargs);
    if (c.want_text) {
        c.text = "C11 ST::format(" + verif::quoted(fmt, 160) + (args.empty() ? "" : ", ");
        for (size_t i = 0; i < args.size(); i++) { if (i) c.text += ", "; c.text += args[i].show(); }
        c.text += ") -> " + (want.kind == ref::OK ? verif::quoted(want.out, 160) : std::string(ref::kind_name(want.kind)));
    }
    if (want.kind != ref::OK || want.unmodelled) { c.label("generator-produced-non-output"); return verif::CASE_DISCARD; }
    c.nontrivial = nontrivial_of(want);
    if (!ref::utf8_valid_strict(want.out)) c.label("result-not-strict-utf8");
    std::string why = check_call(fmt, args, want, direct, true);
    if (!why.empty()) return c.fail(why);
    return verif::CASE_OK;
}

long verif_enumerate(int shard, int nshards, int tier, verif::EnumReport &r) {
    (void)tier;     // the sweep is complete in both tiers
    std::string fmt; std::vector<fg::Value> args; std::vector<ref::Arg> rargs;
    uint8_t cur[10];
    // shard on the outermost index: the 3*4*6 = 72 (align, pad, width) combinations
    for (int outer = shard; outer < 72; outer += nshards) {
        SweepPoint p;
        p.align = outer % 3; p.padmode = (outer / 3) % 4; p.widthmode = outer / 12;
        for (p.ty = 0; p.ty < kNumSweepTypes; p.ty++)
        for (p.vi = 0; p.vi < kNumValues; p.vi++)
        for (p.hash = 0; p.hash < 2; p.hash++)
        for (p.plus = 0; p.plus < 2; p.plus++)
        for (p.cls = 0; p.cls < 6; p.cls++)
        for (p.order = 0; p.order < 2; p.order++) {
            if (!sweep_build(p, fmt, args, rargs)) continue;
            const int q[9] = {p.ty, p.vi, p.align, p.padmode, p.widthmode, p.hash, p.plus, p.cls, p.order};
            cur[0] = 0xFF; for (int i = 0; i < 9; i++) cur[1 + i] = (uint8_t)q[i];
            verif::set_current(cur, sizeof cur);
            ref::Result want = ref::interpret(fmt, rargs);
            if (want.kind != ref::OK) continue;
            r.evaluations++;
            if (nontrivial_of(want)) r.nontrivial++;
            std::string why = check_call(fmt, args, want, true, false);
            bool sample = r.want_sample() && p.ty == (outer * 5) % kNumSweepTypes && p.vi == 8 && p.hash == 1 && p.plus == (outer & 1) && p.cls == 2 + outer % 4 && p.order == (outer / 2) % 2;
            if (!why.empty() || sample) {
                std::string text = "C11 ST::format(" + verif::quoted(fmt) + ", " + args[0].show() + ") -> " + verif::quoted(want.out);
                if (!why.empty()) { r.failure = why; r.failing_case = text; r.failing_bytes.assign(cur, cur + sizeof cur); return r.evaluations; }
                r.samples.push_back(text);
            }
        }
    }
    // pad-run points: a padding run of exactly B-1, B, B+1 characters for B in {32,64,256,1024,4096,8192,16384} x 8 layouts x 3 pad modes,
    // through every entry point (ST::format with and without validation argument, _stfmt, format_latin_1) and the typed call
    {
        const int total = kPadRunDims[0] * kPadRunDims[1] * kPadRunDims[2] * kPadRunDims[3];
        uint8_t pc[5];
        for (int idx = shard; idx < total; idx += nshards) {
            int q[4], t = idx; for (int i = 3; i >= 0; i--) { q[i] = t % kPadRunDims[i]; t /= kPadRunDims[i]; }
            pc[0] = 0xFD; for (int i = 0; i < 4; i++) pc[1 + i] = (uint8_t)q[i];
            verif::set_current(pc, sizeof pc);
            XCall k; padrun_build(q[0], q[1], q[2], q[3], k);
            ref::Result want = refx::interpret(k.fmt, k.rargs());
            if (want.kind != ref::OK) continue;
            r.evaluations++;
            if (nontrivial_of(want)) r.nontrivial++;
            std::string why = check_xcall(k, want);
            if (!why.empty()) { r.failure = why; r.failing_case = show_xcall(k, want); r.failing_bytes.assign(pc, pc + sizeof pc); return r.evaluations; }
        }
    }
    if (shard == 0)
        r.exhausted.push_back("pad-run points: padding runs of B-1, B, B+1 characters, B in {32,64,256,1024,4096,8192,16384} x {int default/left, '+#0' hex of 255/0/max, 64-digit binary min, "
                              "const char* default, ST::string right, bool, user type with right default and precision} x pad {space,'*','0'}, all six entry points plus the typed call");
    if (shard == 0)
        r.exhausted.push_back("integer sweep: 15 integer/character types x {0,+-1,+-9,+-10,+-255,7,8,-8,15,+-16,100,min,min+1,max-1,max} (values the type holds) x alignment {none,<,>} x "
                              "pad {none,_*,0 flag,_0} x width {0,natural-1,natural,natural+1,natural+5,40} x '#' x '+' x class {none,d,x,X,o,b} x 2 part orders (over all shards)");
    return r.evaluations;
}

void verif_corpus(std::vector<std::vector<uint8_t>> &out) {
    out.push_back({0xFF, 4, 8, 1, 2, 3, 1, 1, 2, 0});
    out.push_back({0, 2, 0, 200, 0, 0, 1, 3, 5, 9, 1, 1, 2, 2, 2, 3, 3, 3});
    out.push_back({0xFD, 4, 1, 2, 0});
    for (uint8_t sub = 0; sub <= 6; sub++) out.push_back({0xE0, sub, 0, 3, 10, 1, 12, 2, 13, 0, 15, 4, 11, 0, 5, 1, 2, 200, 2, 1, 9, 250, 3, 7, 1, 1, 2, 3, 4, 5, 6, 7, 8, 9});
}
