// C11: formatted output equals the specified rendering of literals, fields and padding
// (integers, strings, booleans, characters; floats belong to C13).
#include <string_theory/string>
#include <string_theory/format>

#include "common/verif.h"
#include "ref/ref_format.h"
#include "gen/gen_format.h"

using verif::Case;

const verif::Info verif_info = {
    "C11", 400,
    "enumerated: alignment {none,<,>} x pad {none,_*,0 flag,_0} x width {0,natural-1,natural,natural+1,natural+5,40} x '#' x '+' x class {none,d,x,X,o,b} x part order "
    "{canonical,reversed} over 0, +-1, +-9, +-10, +-255, radix boundaries, min, max (+-1) of all 15 integer and character types, one typed ST::format call each; "
    "generated: 1..5 fields in random part order (never two digit-bearing parts glued, no contradictory flags), sequential and &N selection mixed, literals with {{ }} and lone }, "
    "non-ASCII scalars, 1..5 arguments of 32 types (all integer widths, char types, bool, narrow/wide C strings, ST::string, std strings and views), widths and precisions in "
    "every relation to the natural length (<= 400), {c} on integer values inside and outside 0..10FFFF (incl. 64-bit values that do not fit 32 bits; not on char8_t, which is a UTF-8 code unit copied verbatim); 1 case in 16 deliberately produces ill-formed UTF-8 (checked through "
    "ST::format(assume_valid,..)). Oracle: ref/ref_format.h interpreter (std::to_chars digits). Non-trivial: a field in which >= 2 of {sign, prefix, padding, precision cut} "
    "interact, or >= 2 fields of which one is selected by &N; distinct by decoded-case hash.",
    true, "exploration"};

namespace {

struct Outcome {
    int kind = 0;            // 0 output, 1 bad_format, 2 out_of_range, 3 invalid_argument, 4 unicode_error, 5 assertion, 6 other
    std::string bytes, what;
};
const char *okind(int k) { static const char *n[] = {"output", "ST::bad_format", "std::out_of_range", "std::invalid_argument", "ST::unicode_error", "ST_ASSERT", "other exception"}; return n[k]; }

template <class F> Outcome observe(F &&f) {
    Outcome o;
    try {
        ST::string s = f();
        o.bytes.assign(s.c_str(), s.size());
        if (s.c_str()[s.size()] != 0) { o.kind = 6; o.what = "result not NUL-terminated"; }
    } catch (const ST::bad_format &e) { o.kind = 1; o.what = e.what(); }
    catch (const ST::unicode_error &e) { o.kind = 4; o.what = e.what(); }
    catch (const std::out_of_range &e) { o.kind = 2; o.what = e.what(); }
    catch (const std::invalid_argument &e) { o.kind = 3; o.what = e.what(); }
    catch (const verif::assertion_failure &a) { o.kind = 5; o.what = a.message; }
    catch (...) { o.kind = 6; o.what = verif::describe_current_exception(); }
    return o;
}

bool nontrivial_of(const ref::Result &r) {
    bool byref = false;
    for (const ref::Field &f : r.fields) {
        int n = (f.sign ? 1 : 0) + (f.prefix ? 1 : 0) + (f.padding ? 1 : 0) + (f.cut ? 1 : 0);
        if (n >= 2) return true;
        if (f.spec.index >= 0) byref = true;
    }
    return r.fields.size() >= 2 && byref;
}

// The oracle for one call.  Returns "" when the property holds.  `direct`: one argument, passed in its own C++ type.
std::string check_call(const std::string &fmt, const std::vector<fg::Value> &args, const ref::Result &want, bool direct, bool also_assume_valid) {
    verif::Exact<char> f(fmt.data(), fmt.size(), true);          // exact-size NUL-terminated heap copy
    const char *fs = f.data();
    const bool strict = ref::utf8_valid_strict(want.out);
    Outcome a = direct ? observe([&] { return fg::visit(args[0], [&](const auto &x) { return ST::format(fs, x); }); })
                       : observe([&] { return fg::call_n(args, [&](auto... x) { return ST::format(fs, x...); }); });
    if (a.kind == 0) {
        if (a.bytes != want.out) return "ST::format gives " + verif::quoted(a.bytes, 200) + ", specified rendering is " + verif::quoted(want.out, 200);
    } else if (a.kind == 4) {
        if (strict) return "ST::format threw unicode_error (" + a.what + ") although the specified rendering " + verif::quoted(want.out, 200) + " is well-formed UTF-8";
    } else {
        return std::string("ST::format ended with ") + okind(a.kind) + " (" + a.what + "), specified rendering is " + verif::quoted(want.out, 200);
    }
    if (also_assume_valid) {
        Outcome b = direct ? observe([&] { return fg::visit(args[0], [&](const auto &x) { return ST::format(ST::assume_valid, fs, x); }); })
                           : observe([&] { return fg::call_n(args, [&](auto... x) { return ST::format(ST::assume_valid, fs, x...); }); });
        if (b.kind != 0) return std::string("ST::format(assume_valid, ..) ended with ") + okind(b.kind) + " (" + b.what + ")";
        if (b.bytes != want.out) return "ST::format(assume_valid, ..) gives " + verif::quoted(b.bytes, 200) + ", specified rendering is " + verif::quoted(want.out, 200);
    }
    return std::string();
}

// ----- the bounded-exhaustive integer sweep ------------------------------------------------
const fg::Ty kSweepTypes[] = {fg::T_SCHAR, fg::T_UCHAR, fg::T_SHORT, fg::T_USHORT, fg::T_INT, fg::T_UINT, fg::T_LONG, fg::T_ULONG, fg::T_LLONG, fg::T_ULLONG,
                              fg::T_CHAR, fg::T_WCHAR, fg::T_CHAR16, fg::T_CHAR32, fg::T_CHAR8};
const int kNumSweepTypes = 15;
// value selectors: small magnitudes (negated for signed types where listed) and the type's limits
const long long kSweepSmall[] = {0, 1, -1, 9, -9, 10, -10, 255, -255, 7, 8, -8, 15, 16, -16, 100};
const int kNumSmall = 16, kNumValues = 16 + 4;   // + min, min+1, max-1, max

bool sweep_value(fg::Ty t, int vi, fg::Value &v) {
    int w = fg::ty_bits(t); bool sg = fg::ty_signed(t);
    unsigned long long m = w == 64 ? ~0ull : ((1ull << w) - 1), smin = 1ull << (w - 1);
    if (vi < kNumSmall) {
        long long x = kSweepSmall[vi];
        if (x < 0 && !sg) return false;                                  // unsigned types: only the non-negative ones
        if (sg ? (x > (long long)(smin - 1) || (w < 64 && x < -(long long)smin)) : ((unsigned long long)x > m)) return false;   // does not fit the type
        v.set_int(t, (unsigned long long)x);
        return true;
    }
    switch (vi - kNumSmall) {
    case 0: if (!sg) return false; v.set_int(t, smin); return true;        // min
    case 1: if (!sg) return false; v.set_int(t, smin + 1); return true;    // min + 1
    case 2: v.set_int(t, sg ? smin - 2 : m - 1); return true;              // max - 1
    default: v.set_int(t, sg ? smin - 1 : m); return true;                 // max
    }
}

struct SweepPoint { int ty, vi, align, padmode, widthmode, hash, plus, cls, order; };
const int kSweepDims[9] = {kNumSweepTypes, kNumValues, 3, 4, 6, 2, 2, 6, 2};

// Builds the call for a sweep point; false when the point does not exist (value not in the type).
bool sweep_build(const SweepPoint &p, std::string &fmt, std::vector<fg::Value> &args, std::vector<ref::Arg> &rargs) {
    args.resize(1);
    if (!sweep_value(kSweepTypes[p.ty], p.vi, args[0])) return false;
    rargs.assign(1, args[0].to_ref());
    fg::PSpec sp;
    sp.align = p.align;
    if (p.padmode == 1) sp.pad = '*'; else if (p.padmode == 2) sp.zero = true; else if (p.padmode == 3) sp.pad = '0';
    sp.hash = p.hash != 0; sp.plus = p.plus != 0; sp.cls = "\0dxXob"[p.cls];
    ref::Spec rs; rs.hash = sp.hash; rs.plus = sp.plus; rs.cls = sp.cls;
    std::string nat; ref::Field fi; bool um = false;
    ref::render_field(rs, rargs[0], nat, fi, um);
    int n = (int)nat.size();
    static const int delta[] = {0, -1, 0, 1, 5, 0};
    sp.width = p.widthmode == 0 ? 0 : p.widthmode == 5 ? 40 : n + delta[p.widthmode];
    fmt = "[" + fg::print_spec(sp, nullptr, p.order) + "]";
    return true;
}

}  // namespace

int verif_case(const uint8_t *data, size_t size, Case &c) {
    verif::Reader r(data, size, c);
    std::string fmt; std::vector<fg::Value> args; std::vector<ref::Arg> rargs;
    bool direct = false;
    uint8_t first = size ? data[0] : 0;
    if (first == 0xFF) {                              // directed: one point of the integer sweep
        r.u8();
        int q[9];
        for (int i = 0; i < 9; i++) q[i] = (int)(r.u8() % kSweepDims[i]);
        SweepPoint p = {q[0], q[1], q[2], q[3], q[4], q[5], q[6], q[7], q[8]};
        c.label("directed-sweep-point");
        if (!sweep_build(p, fmt, args, rargs)) return verif::CASE_DISCARD;
        direct = true;
    } else if (first == 0xFE) {                       // directed: "{c}" of one integer, no exclusions (regression inputs)
        r.u8();
        fg::Ty t = kSweepTypes[r.u8() % kNumSweepTypes];
        if (t == fg::T_CHAR8) t = fg::T_UCHAR;
        args.resize(1); args[0].set_int(t, r.bits64());
        rargs.assign(1, args[0].to_ref());
        fmt = "{c}";
        direct = true;
        c.label("directed-char-class");
    } else {
        fg::Call k;
        fg::Options opt;
        fg::decode_call(r, k, opt);
        fg::label_call(k, c);
        c.excluded_known += k.excluded_known;
        fmt = k.fmt; args = std::move(k.args); rargs = std::move(k.rargs);
        direct = args.size() == 1;
        c.label(direct ? "typed-single-argument" : "argument-list");
    }
    ref::Result want = ref::interpret(fmt, rargs);
    if (c.want_text) {
        c.text = "C11 ST::format(" + verif::quoted(fmt, 160) + (args.empty() ? "" : ", ");
        for (size_t i = 0; i < args.size(); i++) { if (i) c.text += ", "; c.text += args[i].show(); }
        c.text += ") -> " + (want.kind == ref::OK ? verif::quoted(want.out, 160) : std::string(ref::kind_name(want.kind)));
    }
    if (want.kind != ref::OK || want.unmodelled) { c.label("generator-produced-non-output"); return verif::CASE_DISCARD; }
    c.nontrivial = nontrivial_of(want);
    if (!ref::utf8_valid_strict(want.out)) c.label("result-not-strict-utf8");
    std::string why = check_call(fmt, args, want, direct, true);
    if (!why.empty()) return c.fail(why);
    return verif::CASE_OK;
}

long verif_enumerate(int shard, int nshards, int tier, verif::EnumReport &r) {
    (void)tier;     // the sweep is complete in both tiers
    std::string fmt; std::vector<fg::Value> args; std::vector<ref::Arg> rargs;
    uint8_t cur[10];
    // shard on the outermost index: the 3*4*6 = 72 (align, pad, width) combinations
    for (int outer = shard; outer < 72; outer += nshards) {
        SweepPoint p;
        p.align = outer % 3; p.padmode = (outer / 3) % 4; p.widthmode = outer / 12;
        for (p.ty = 0; p.ty < kNumSweepTypes; p.ty++)
        for (p.vi = 0; p.vi < kNumValues; p.vi++)
        for (p.hash = 0; p.hash < 2; p.hash++)
        for (p.plus = 0; p.plus < 2; p.plus++)
        for (p.cls = 0; p.cls < 6; p.cls++)
        for (p.order = 0; p.order < 2; p.order++) {
            if (!sweep_build(p, fmt, args, rargs)) continue;
            const int q[9] = {p.ty, p.vi, p.align, p.padmode, p.widthmode, p.hash, p.plus, p.cls, p.order};
            cur[0] = 0xFF; for (int i = 0; i < 9; i++) cur[1 + i] = (uint8_t)q[i];
            verif::set_current(cur, sizeof cur);
            ref::Result want = ref::interpret(fmt, rargs);
            if (want.kind != ref::OK) continue;
            r.evaluations++;
            if (nontrivial_of(want)) r.nontrivial++;
            std::string why = check_call(fmt, args, want, true, false);
            bool sample = r.want_sample() && p.ty == (outer * 5) % kNumSweepTypes && p.vi == 8 && p.hash == 1 && p.plus == (outer & 1) && p.cls == 2 + outer % 4 && p.order == (outer / 2) % 2;
            if (!why.empty() || sample) {
                std::string text = "C11 ST::format(" + verif::quoted(fmt) + ", " + args[0].show() + ") -> " + verif::quoted(want.out);
                if (!why.empty()) { r.failure = why; r.failing_case = text; r.failing_bytes.assign(cur, cur + sizeof cur); return r.evaluations; }
                r.samples.push_back(text);
            }
        }
    }
    if (shard == 0)
        r.exhausted.push_back("integer sweep: 15 integer/character types x {0,+-1,+-9,+-10,+-255,7,8,-8,15,+-16,100,min,min+1,max-1,max} (values the type holds) x alignment {none,<,>} x "
                              "pad {none,_*,0 flag,_0} x width {0,natural-1,natural,natural+1,natural+5,40} x '#' x '+' x class {none,d,x,X,o,b} x 2 part orders (over all shards)");
    return r.evaluations;
}

void verif_corpus(std::vector<std::vector<uint8_t>> &out) {
    out.push_back({0xFF, 4, 8, 1, 2, 3, 1, 1, 2, 0});
    out.push_back({0, 2, 0, 200, 0, 0, 1, 3, 5, 9, 1, 1, 2, 2, 2, 3, 3, 3});
}
