// C12: integer -> text -> integer is exact for every value, width and base; to_* on arbitrary
// text agrees with the C library's strtol family and the ok/full_match flag rule.
//
// Every standard header the library uses is included first, so that the `abs` shim below is
// seen by the string_theory headers only.
#include <algorithm>
#include <cmath>
#include <complex>
#include <cstddef>
#include <cstdint>
#include <cstdio>
#include <cstdlib>
#include <filesystem>
#include <functional>
#include <istream>
#include <iterator>
#include <limits>
#include <optional>
#include <ostream>
#include <stdexcept>
#include <string>
#include <string_view>
#include <type_traits>
#include <utility>
#include <vector>

#include "common/verif.h"
#include "ref/ref_inttext.h"

// "... is computed without undefined behaviour": abs/labs/llabs of the most negative value is
// undefined, but clang 14 expands them as builtins that -fsanitize=undefined does not instrument
// (checked with a probe: std::abs(INT_MIN) runs silently).  While the library headers are being
// read, `abs` therefore names a plain C++ definition with the same meaning - the operand after
// integral promotion, negated if negative - whose negation UBSan does instrument.  For every
// operand abs is defined for, the result is the same.
namespace std {
template <class T> constexpr auto c12_visible_abs(T v) -> decltype(+v) { auto p = +v; return p < 0 ? -p : p; }
}
using std::c12_visible_abs;
#define abs c12_visible_abs
#include <string_theory/format>
#include <string_theory/string>
#include <string_theory/string_stream>
#undef abs

using verif::Case;

// Defaults for this binary only (ASAN_OPTIONS from the driver still wins for the options it names): with the stock 256 MB
// quarantine and 30-frame allocation stacks a rapidcheck process grows by ~4 KB per case (0.9 GB after 200k cases, measured);
// with these it stays near 50 MB and runs twice as fast.  Error reports keep their full stack.
extern "C" const char *__asan_default_options() { return "quarantine_size_mb=16:malloc_context_size=3"; }

const verif::Info verif_info = {
    "C12", 64,
    "print direction: every short and unsigned short value (2 x 65536) x bases 2..36 x both letter cases enumerated; for int, long, long long and "
    "their unsigned counterparts a boundary table (0, +-1, min, min+1, max, max-1, 2^k-1/2^k/2^k+1, b^k-1/b^k/b^k+1 for every base b, both signs) "
    "x all 35 bases x both cases enumerated, plus generated values (small, table, random 64-bit patterns, powers of the chosen base +-2). "
    "Oracle: std::to_chars (+ upper-casing); from_int/from_uint must equal it; ST::format {}/{d}/{x}/{X}/{o}/{b} and string_stream<< must give the same "
    "text for bases 10/16/8/2; every to_* member wide enough for the value must parse it back in the same base with ok and full_match. "
    "parse direction: byte strings (length 0..40; structured whitespace/sign/prefix/digits/tail, near-limit magnitudes, raw biased alphabet with NUL and "
    "high bytes; every string of length <= 5 (quick) or 6 (thorough) over a 16-symbol alphabet enumerated) x bases {0,2..36}: all 8 to_* members, with "
    "and without conversion_result, against strtol/strtoll/strtoul/strtoull called by the harness on its own NUL-terminated copy, narrowed with "
    "static_cast; ok <=> consumed>0, full_match <=> consumed==size. Non-trivial: printed value negative or >= base (two or more digits); parse input "
    "with a partial match (consumed>0 and consumed<size) or a magnitude the C library reports as out of range. "
    "Extension: every printed value also goes through from_int/from_uint with defaulted arguments, the deprecated from_int64/from_uint64 and back through "
    "to_int64/to_uint64, through ST::uint_formatter<U> used directly (format/text/size, one object re-used for a long, the tested and a one-digit value, also "
    "uint_formatter<unsigned char>), through ST::format(validation, ...), ST::format_latin_1, the _stfmt literal, two fields in one call and the argument "
    "types signed/unsigned char, char, char8_t, char16_t, char32_t, wchar_t whenever the value fits; and is parsed with a conversion_result object that was "
    "first used on a text producing each of the four flag combinations (\"\", \"1\", \" \", \"1 \") and is used on that text again afterwards. Parse "
    "direction additionally: to_int64/to_uint64, every overload with the default base when base is 0, to_bool (base-0 cases: whole-text \"true\"/\"false\" "
    "in any letter case are true/false with both flags, otherwise strtol's reading != 0 after narrowing to int - where narrowing long to int changes "
    "zero-ness both answers are accepted), shared conversion_result objects (every member x every earlier state for texts <= 256 bytes, one hashed pair in "
    "the enumerator and for long texts; a chain through all members with one object), subjects built through 10 construction routes (char8_t, std::u8string, "
    "string_view, UTF-16, substr of a longer string, move, +=, default-constructed), texts of several KB (runs of 255..5000 blanks / zeros / digits, NUL "
    "followed by a long continuation), a to_bool word class. Stream class: string_stream << {int, unsigned, long, unsigned long, long long, unsigned long "
    "long, short, unsigned short} and ST::format of the same after 0..5000 bytes of earlier output reached in 7 ways (one append, many small appends, grown "
    "then truncated, overfilled then erased, move-constructed, move-assigned over a grown stream, emptied and refilled), followed by 5 kinds of further "
    "appends, compared byte for byte with a model; every fill level is enumerated. Non-trivial for the stream class: the number straddles or ends on a "
    "capacity step (256 x 2^k), or the fill is beyond the in-object capacity.",
    true, "exploration"};

namespace {

// ---------------------------------------------------------------------------------------------
// The overload set under test, indexed by result type.
template <class R> struct Conv;
#define C12_CONV(TYPE, MEMBER, NAME)                                                                             \
    template <> struct Conv<TYPE> {                                                                              \
        static TYPE get(const ST::string &s, ST::conversion_result &r, int base) { return s.MEMBER(r, base); }   \
        static TYPE get(const ST::string &s, int base) { return s.MEMBER(base); }                                \
        static const char *name() { return NAME; }                                                               \
    };
C12_CONV(short, to_short, "to_short")
C12_CONV(int, to_int, "to_int")
C12_CONV(long, to_long, "to_long")
C12_CONV(long long, to_long_long, "to_long_long")
C12_CONV(unsigned short, to_ushort, "to_ushort")
C12_CONV(unsigned int, to_uint, "to_uint")
C12_CONV(unsigned long, to_ulong, "to_ulong")
C12_CONV(unsigned long long, to_ulong_long, "to_ulong_long")
#undef C12_CONV

template <class T> const char *type_name();
template <> const char *type_name<short>() { return "short"; }
template <> const char *type_name<int>() { return "int"; }
template <> const char *type_name<long>() { return "long"; }
template <> const char *type_name<long long>() { return "long long"; }
template <> const char *type_name<unsigned short>() { return "unsigned short"; }
template <> const char *type_name<unsigned int>() { return "unsigned int"; }
template <> const char *type_name<unsigned long>() { return "unsigned long"; }
template <> const char *type_name<unsigned long long>() { return "unsigned long long"; }

template <class F> auto with_type(int t, F &&f) {
    switch (t & 7) {
    case 0: return f(int{});
    case 1: return f(short{});
    case 2: return f(long{});
    case 3: return f((long long){});
    case 4: return f((unsigned int){});
    case 5: return f((unsigned short){});
    case 6: return f((unsigned long){});
    default: return f((unsigned long long){});
    }
}
template <class T> constexpr int type_index() {
    return std::is_same<T, int>::value ? 0 : std::is_same<T, short>::value ? 1 : std::is_same<T, long>::value ? 2 : std::is_same<T, long long>::value ? 3
         : std::is_same<T, unsigned int>::value ? 4 : std::is_same<T, unsigned short>::value ? 5 : std::is_same<T, unsigned long>::value ? 6 : 7;
}

std::string str_of(const ST::string &s) { return std::string(s.c_str(), s.size()); }
template <class T> std::string vstr(T v) { return std::is_signed<T>::value ? verif::num((long long)v) : verif::unum((unsigned long long)v); }

// ---------------------------------------------------------------------------------------------
// Print direction

template <class T> ST::string lib_print(T v, int base, bool upper) {
    if constexpr (std::is_signed<T>::value) return ST::string::from_int(v, base, upper);
    else return ST::string::from_uint(v, base, upper);
}

template <class T> ST::string lib_print_default_case(T v, int base) {
    if constexpr (std::is_signed<T>::value) return ST::string::from_int(v, base);
    else return ST::string::from_uint(v, base);
}
template <class T> ST::string lib_print_default_base(T v) {
    if constexpr (std::is_signed<T>::value) return ST::string::from_int(v);
    else return ST::string::from_uint(v);
}

// parse the printed text back through member R; must give `v` with both flags
template <class R, class T> bool parse_back(const ST::string &s, int base, T v, std::string &why) {
    ST::conversion_result cr;
    R got = Conv<R>::get(s, cr, base);
    if (got != static_cast<R>(v) || !cr.ok() || !cr.full_match()) {
        why = std::string(Conv<R>::name()) + "(result, " + verif::num(base) + ") of " + verif::quoted(str_of(s)) + " gives " + vstr(got) + " ok=" +
              (cr.ok() ? "1" : "0") + " full_match=" + (cr.full_match() ? "1" : "0") + ", expected " + vstr(v) + " with ok and full_match";
        return false;
    }
    R got2 = Conv<R>::get(s, base);
    if (got2 != static_cast<R>(v)) {
        why = std::string(Conv<R>::name()) + "(" + verif::num(base) + ") of " + verif::quoted(str_of(s)) + " gives " + vstr(got2) + ", expected " + vstr(v);
        return false;
    }
    return true;
}

// ---------------------------------------------------------------------------------------------
// Further public routes of the print direction (added with the extension of this harness).

template <class X, class T> bool fits_in(T v) {
    const __int128 w = (__int128)v;
    return w >= (__int128)std::numeric_limits<X>::min() && w <= (__int128)std::numeric_limits<X>::max();
}

// Four tiny texts whose parse (in any base) yields each of the four flag combinations: used to put a
// conversion_result object into a known state before it is handed to another call ("re-use").
struct Primer { const char *text; size_t n; bool ok, full; };
const Primer kPrimers[4] = {{"", 0, false, true}, {"1", 1, true, true}, {" ", 1, false, false}, {"1 ", 2, true, false}};
const ST::string &primer_string(int p) {
    static const ST::string tab[4] = {ST::string::from_validated(kPrimers[0].text, kPrimers[0].n), ST::string::from_validated(kPrimers[1].text, kPrimers[1].n),
                                      ST::string::from_validated(kPrimers[2].text, kPrimers[2].n), ST::string::from_validated(kPrimers[3].text, kPrimers[3].n)};
    return tab[p & 3];
}
// bring `cr` into the state of primer p through a real library call; false if that call itself is wrong
bool prime(ST::conversion_result &cr, int p, std::string &why) {
    long got = primer_string(p).to_long(cr, 10);
    const Primer &pr = kPrimers[p & 3];
    if (cr.ok() != pr.ok || cr.full_match() != pr.full || got != (pr.ok ? 1 : 0)) {
        why = std::string("to_long(result, 10) of ") + verif::quoted(std::string(pr.text, pr.n)) + " gives " + verif::num(got) + " ok=" + (cr.ok() ? "1" : "0") +
              " full_match=" + (cr.full_match() ? "1" : "0") + ", expected " + (pr.ok ? "1" : "0") + " ok=" + (pr.ok ? "1" : "0") + " full_match=" + (pr.full ? "1" : "0");
        return false;
    }
    return true;
}

// ST::uint_formatter<U> used directly: format()/text()/size(), one object re-used for several values
template <class U> std::string check_uint_formatter(U mag, int base, bool upper, const std::string &digits) {
    ST::uint_formatter<U> fm;
    // first a value with the longest possible rendering and the other letter case, then the value under test: the second
    // format() call must start afresh
    fm.format(std::numeric_limits<U>::max(), 2, !upper);
    if (fm.size() != (size_t)std::numeric_limits<U>::digits || std::string(fm.text(), fm.size()) != std::string((size_t)std::numeric_limits<U>::digits, '1'))
        return "uint_formatter::format(max, 2) gives " + verif::quoted(std::string(fm.text(), fm.size())) + ", expected " + verif::num(std::numeric_limits<U>::digits) + " ones";
    fm.format(mag, base, upper);
    std::string got(fm.text(), fm.size());
    if (got != digits)
        return "uint_formatter<" + verif::num((long long)sizeof(U) * 8) + "-bit>::format(" + verif::unum((unsigned long long)mag) + ", " + verif::num(base) + (upper ? ", upper" : "") +
               ") on a re-used formatter: text()/size() give " + verif::quoted(got) + ", canonical digits are " + verif::quoted(digits);
    if (fm.text()[fm.size()] != 0) return "uint_formatter::text() is not NUL-terminated at size()";
    if (!upper) {                                         // default upper_case argument, fresh object
        ST::uint_formatter<U> f2;
        f2.format(mag, base);
        if (std::string(f2.text(), f2.size()) != digits)
            return "uint_formatter::format(" + verif::unum((unsigned long long)mag) + ", " + verif::num(base) + ") gives " + verif::quoted(std::string(f2.text(), f2.size())) +
                   ", canonical digits are " + verif::quoted(digits);
        // and a third value on the first object: a short one after a long one
        fm.format(U(mag % (unsigned)base), base);
        if (fm.size() != 1 || fm.text()[0] != digits[digits.size() - 1] || fm.text()[1] != 0)
            return "uint_formatter::format(last digit of " + verif::unum((unsigned long long)mag) + ", " + verif::num(base) + ") after a longer value gives " +
                   verif::quoted(std::string(fm.text(), fm.size()));
    }
    return std::string();
}

// one alternate ST::format entry point / argument type; `what` names it in the message
bool format_matches(const ST::string &got, const std::string &want, const char *what, const std::string &value, std::string &why) {
    if (got.size() == want.size() && memcmp(got.c_str(), want.data(), want.size()) == 0 && got.c_str()[got.size()] == 0) return true;
    why = std::string(what) + " of " + value + " gives " + verif::quoted(str_of(got)) + ", canonical text is " + verif::quoted(want);
    return false;
}
bool text_matches(const ST::string &got, const std::string &want, const char *fn, const std::string &value, int base, int nargs, bool upper, std::string &why) {
    if (got.size() == want.size() && memcmp(got.c_str(), want.data(), want.size()) == 0 && got.c_str()[got.size()] == 0) return true;
    why = std::string(fn) + "(" + value + (nargs >= 2 ? ", " + verif::num(base) : std::string()) + (nargs >= 3 ? (upper ? ", true" : ", false") : "") + ") gives " + verif::quoted(str_of(got)) +
          ", canonical text is " + verif::quoted(want);
    return false;
}
std::string alias_back_message(const char *fn, bool with_cr, int base, const std::string &text, const std::string &got, bool ok, bool full, const std::string &expected) {
    return std::string(fn) + (with_cr ? "(result, " : "(") + verif::num(base) + ") of " + verif::quoted(text) + " gives " + got + (with_cr ? std::string(" ok=") + (ok ? "1" : "0") + " full_match=" + (full ? "1" : "0") : std::string()) +
           ", expected " + expected + (with_cr ? " with ok and full_match" : "");
}
std::string reuse_message(const char *fn, int base, const std::string &text, int p, const std::string &got, bool ok, bool full, const std::string &expected) {
    return std::string(fn) + "(result, " + verif::num(base) + ") of " + verif::quoted(text) + " with a conversion_result last used on " + verif::quoted(std::string(kPrimers[p].text, kPrimers[p].n)) + " gives " + got +
           " ok=" + (ok ? "1" : "0") + " full_match=" + (full ? "1" : "0") + ", expected " + expected;
}
#define C12_EXPECT_FORMAT(EXPR, WHAT) do { if (!format_matches((EXPR), want, WHAT, vs, why)) return why; } while (0)

// the character-like integer types as numbers (not a template: the argument types are fixed)
std::string check_format_char_types(__int128 v, const char *fmt, const std::string &want, const std::string &vs) {
    std::string why;
    if (fits_in<signed char>(v)) C12_EXPECT_FORMAT(ST::format(fmt, (signed char)v), "ST::format(fmt, signed char)");
    if (fits_in<unsigned char>(v)) C12_EXPECT_FORMAT(ST::format(fmt, (unsigned char)v), "ST::format(fmt, unsigned char)");
    if (fits_in<char>(v)) C12_EXPECT_FORMAT(ST::format(fmt, (char)v), "ST::format(fmt, char)");
    if (fits_in<char8_t>(v)) C12_EXPECT_FORMAT(ST::format(fmt, (char8_t)v), "ST::format(fmt, char8_t)");
    if (fits_in<char16_t>(v)) C12_EXPECT_FORMAT(ST::format(fmt, (char16_t)v), "ST::format(fmt, char16_t)");
    if (fits_in<char32_t>(v)) C12_EXPECT_FORMAT(ST::format(fmt, (char32_t)v), "ST::format(fmt, char32_t)");
    if (fits_in<wchar_t>(v)) C12_EXPECT_FORMAT(ST::format(fmt, (wchar_t)v), "ST::format(fmt, wchar_t)");
    return std::string();
}

template <class T> std::string check_print_extras(T v, int base, bool upper, const std::string &want, const ST::string &printed, int level) {
    using namespace ST::literals;
    typedef typename std::make_unsigned<T>::type U;
    const bool neg = v < 0;
    const U mag = neg ? U(U(0) - U(v)) : U(v);
    const std::string digits = neg ? want.substr(1) : want;
    const std::string vs = std::string(type_name<T>()) + " " + vstr(v);
    std::string why = check_uint_formatter<U>(mag, base, upper, digits);
    if (!why.empty()) return why;
    if (mag <= 0xFF) { why = check_uint_formatter<unsigned char>((unsigned char)mag, base, upper, digits); if (!why.empty()) return why; }

    // default arguments
    const char *fn = std::is_signed<T>::value ? "from_int" : "from_uint";
    if (!upper) {
        if (!text_matches(lib_print_default_case<T>(v, base), want, fn, vs, base, 2, false, why)) return why;
        if (base == 10 && !text_matches(lib_print_default_base<T>(v), want, fn, vs, base, 1, false, why)) return why;
    }

    if (level < 2) return std::string();                  // the exhaustive 16-bit sweep runs the remaining routes on every fourth (value, base) pair

    // the fixed-width aliases: from_int64 / from_uint64 print, to_int64 / to_uint64 read back
    if (fits_in<int64_t>(v)) {
        const int64_t w = (int64_t)v;
        if (!text_matches(ST::string::from_int64(w, base, upper), want, "from_int64", vs, base, 3, upper, why)) return why;
        if (!upper && !text_matches(ST::string::from_int64(w, base), want, "from_int64", vs, base, 2, false, why)) return why;
        if (!upper && base == 10 && !text_matches(ST::string::from_int64(w), want, "from_int64", vs, base, 1, false, why)) return why;
        ST::conversion_result cr;
        int64_t g = printed.to_int64(cr, base);
        if (g != w || !cr.ok() || !cr.full_match()) return alias_back_message("to_int64", true, base, want, verif::num(g), cr.ok(), cr.full_match(), vs);
        g = printed.to_int64(base);
        if (g != w) return alias_back_message("to_int64", false, base, want, verif::num(g), false, false, vs);
    }
    if (fits_in<uint64_t>(v)) {
        const uint64_t w = (uint64_t)v;
        if (!text_matches(ST::string::from_uint64(w, base, upper), want, "from_uint64", vs, base, 3, upper, why)) return why;
        if (!upper && !text_matches(ST::string::from_uint64(w, base), want, "from_uint64", vs, base, 2, false, why)) return why;
        if (!upper && base == 10 && !text_matches(ST::string::from_uint64(w), want, "from_uint64", vs, base, 1, false, why)) return why;
        ST::conversion_result cr;
        uint64_t g = printed.to_uint64(cr, base);
        if (g != w || !cr.ok() || !cr.full_match()) return alias_back_message("to_uint64", true, base, want, verif::unum(g), cr.ok(), cr.full_match(), vs);
        g = printed.to_uint64(base);
        if (g != w) return alias_back_message("to_uint64", false, base, want, verif::unum(g), false, false, vs);
    }

    // a conversion_result that already went through another call: every one of the four earlier states must be overwritten
    for (int p = 0; p < 4; p++) {
        ST::conversion_result cr;
        if (!prime(cr, p, why)) return why;
        T got;
        if constexpr (std::is_signed<T>::value) got = static_cast<T>(Conv<long long>::get(printed, cr, base)); else got = static_cast<T>(Conv<unsigned long long>::get(printed, cr, base));
        if (got != v || !cr.ok() || !cr.full_match())
            return reuse_message(std::is_signed<T>::value ? "to_long_long" : "to_ulong_long", base, want, p, vstr(got), cr.ok(), cr.full_match(), vs + " with ok and full_match");
        // ... and the other way round: the flags of the good parse must not survive a later call on the primer text
        long back = primer_string(p).to_long(cr, base);
        if (cr.ok() != kPrimers[p].ok || cr.full_match() != kPrimers[p].full || back != (kPrimers[p].ok ? 1 : 0))
            return "to_long(result, " + verif::num(base) + ") of " + verif::quoted(std::string(kPrimers[p].text, kPrimers[p].n)) + " with a conversion_result last used on " + verif::quoted(want) +
                   " gives " + verif::num(back) + " ok=" + (cr.ok() ? "1" : "0") + " full_match=" + (cr.full_match() ? "1" : "0");
    }

    // the other ST::format entry points and the character-like integer types, same digits for bases 10/16/8/2
    const int fk = base == 10 ? 0 : base == 16 ? (upper ? 2 : 1) : base == 8 ? 3 : base == 2 ? 4 : -1;
    if (fk >= 0) {
        static const char *const fmts[5] = {"{}", "{x}", "{X}", "{o}", "{b}"};
        const char *fmt = fmts[fk];
        C12_EXPECT_FORMAT(ST::format(ST::check_validity, fmt, v), "ST::format(check_validity, fmt, v)");
        C12_EXPECT_FORMAT(ST::format(ST::assume_valid, fmt, v), "ST::format(assume_valid, fmt, v)");
        C12_EXPECT_FORMAT(ST::format_latin_1(fmt, v), "ST::format_latin_1(fmt, v)");
        switch (fk) {
        case 0: C12_EXPECT_FORMAT("{}"_stfmt(v), "\"{}\"_stfmt(v)"); C12_EXPECT_FORMAT("{d}"_stfmt(v), "\"{d}\"_stfmt(v)"); break;
        case 1: C12_EXPECT_FORMAT("{x}"_stfmt(v), "\"{x}\"_stfmt(v)"); break;
        case 2: C12_EXPECT_FORMAT("{X}"_stfmt(v), "\"{X}\"_stfmt(v)"); break;
        case 3: C12_EXPECT_FORMAT("{o}"_stfmt(v), "\"{o}\"_stfmt(v)"); break;
        default: C12_EXPECT_FORMAT("{b}"_stfmt(v), "\"{b}\"_stfmt(v)"); break;
        }
        why = check_format_char_types((__int128)v, fmt, want, vs);
        if (!why.empty()) return why;
        // several numbers in one call, explicit positions
        static const char *const fmts2[5] = {"{}|{}", "{x}|{x}", "{X}|{X}", "{o}|{o}", "{b}|{b}"};
        if (!format_matches(ST::format(fmts2[fk], v, v), want + "|" + want, "ST::format with two fields", vs, why)) return why;
    }
    return std::string();
}
#undef C12_EXPECT_FORMAT

template <class T> std::string check_print(T v, int base, bool upper, int level = 2) {
    try {
        const std::string want = ref::int_text(v, base, upper);
        ST::string s = lib_print<T>(v, base, upper);
        const char *fn = std::is_signed<T>::value ? "from_int" : "from_uint";
        if (str_of(s) != want)
            return std::string(fn) + "(" + type_name<T>() + " " + vstr(v) + ", " + verif::num(base) + (upper ? ", upper" : "") + ") gives " +
                   verif::quoted(str_of(s)) + ", canonical text is " + verif::quoted(want);
        if (s.c_str()[s.size()] != 0) return std::string(fn) + " result is not NUL-terminated";

        // every member wide enough for the value reads it back
        std::string why;
        if constexpr (std::is_signed<T>::value) {
            if constexpr (sizeof(short) >= sizeof(T)) if (!parse_back<short>(s, base, v, why)) return why;
            if constexpr (sizeof(int) >= sizeof(T)) if (!parse_back<int>(s, base, v, why)) return why;
            if constexpr (sizeof(long) >= sizeof(T)) if (!parse_back<long>(s, base, v, why)) return why;
            if constexpr (sizeof(long long) >= sizeof(T)) if (!parse_back<long long>(s, base, v, why)) return why;
        } else {
            if constexpr (sizeof(unsigned short) >= sizeof(T)) if (!parse_back<unsigned short>(s, base, v, why)) return why;
            if constexpr (sizeof(unsigned int) >= sizeof(T)) if (!parse_back<unsigned int>(s, base, v, why)) return why;
            if constexpr (sizeof(unsigned long) >= sizeof(T)) if (!parse_back<unsigned long>(s, base, v, why)) return why;
            if constexpr (sizeof(unsigned long long) >= sizeof(T)) if (!parse_back<unsigned long long>(s, base, v, why)) return why;
            // a signed member strictly wider than the value is wide enough too
            if constexpr (sizeof(int) > sizeof(T)) if (!parse_back<int>(s, base, v, why)) return why;
            if constexpr (sizeof(long) > sizeof(T)) if (!parse_back<long>(s, base, v, why)) return why;
            if constexpr (sizeof(long long) > sizeof(T)) if (!parse_back<long long>(s, base, v, why)) return why;
        }

        why = check_print_extras<T>(v, base, upper, want, s, level);
        if (!why.empty()) return why;

        // the other two printers give the same digits for bases 10, 16, 8, 2
        const char *fmt = nullptr, *fmt2 = nullptr;
        if (base == 10) { fmt = "{}"; fmt2 = "{d}"; }
        else if (base == 16) fmt = upper ? "{X}" : "{x}";
        else if (base == 8) fmt = "{o}";
        else if (base == 2) fmt = "{b}";
        if (fmt) {
            ST::string f = ST::format(fmt, v);
            if (str_of(f) != want)
                return std::string("ST::format(\"") + fmt + "\", " + type_name<T>() + " " + vstr(v) + ") gives " + verif::quoted(str_of(f)) +
                       ", from_int/from_uint and the canonical text are " + verif::quoted(want);
            if (fmt2) {
                ST::string f2 = ST::format(fmt2, v);
                if (str_of(f2) != want)
                    return std::string("ST::format(\"") + fmt2 + "\", " + type_name<T>() + " " + vstr(v) + ") gives " + verif::quoted(str_of(f2)) +
                           ", canonical text is " + verif::quoted(want);
            }
        }
        if (base == 10) {
            ST::string_stream ss;
            ss << v;
            std::string got(ss.raw_buffer(), ss.size());
            if (got != want)
                return std::string("string_stream << ") + type_name<T>() + " " + vstr(v) + " gives " + verif::quoted(got) + ", canonical text is " + verif::quoted(want);
            // and in the middle of other content
            ST::string_stream s2;
            s2 << "[" << v << "]";
            std::string got2(s2.raw_buffer(), s2.size());
            if (got2 != "[" + want + "]")
                return std::string("string_stream << \"[\" << ") + vstr(v) + " << \"]\" gives " + verif::quoted(got2);
        }
    } catch (...) {
        return "unexpected " + verif::describe_current_exception();
    }
    return std::string();
}

template <class T> std::string render_print(T v, int base, bool upper) {
    return std::string("C12 print ") + type_name<T>() + " " + vstr(v) + " base=" + verif::num(base) + (upper ? " upper" : " lower") + " -> " +
           verif::quoted(ref::int_text(v, base, upper)) + "; from_int/from_uint, format, string_stream and to_* round trip checked";
}

// boundary table of a type (both tiers enumerate it completely; the generator indexes into it)
template <class T> const std::vector<T> &boundaries() {
    static const std::vector<T> tab = [] {
        typedef typename std::make_unsigned<T>::type U;
        std::vector<T> o;
        auto add = [&](U mag) {
            o.push_back(static_cast<T>(mag));
            if (std::is_signed<T>::value) o.push_back(static_cast<T>(U(0) - mag));
        };
        add(0); add(1);
        o.push_back(std::numeric_limits<T>::min()); o.push_back(T(std::numeric_limits<T>::min() + 1));
        o.push_back(std::numeric_limits<T>::max()); o.push_back(T(std::numeric_limits<T>::max() - 1));
        for (int k = 0; k < std::numeric_limits<U>::digits; k++) { U p = U(U(1) << k); add(U(p - 1)); add(p); add(U(p + 1)); }
        for (unsigned b = 3; b <= 36; b++) {
            U p = 1;
            while (p <= std::numeric_limits<U>::max() / b) { p = U(p * b); add(U(p - 1)); add(p); add(U(p + 1)); }
        }
        std::sort(o.begin(), o.end());
        o.erase(std::unique(o.begin(), o.end()), o.end());
        return o;
    }();
    return tab;
}

void directed_print_bytes(uint8_t *out, int tindex, int base, bool upper, uint64_t bits) {
    out[0] = 0xFF; out[1] = (uint8_t)tindex; out[2] = (uint8_t)base; out[3] = upper ? 1 : 0;
    for (int i = 0; i < 8; i++) out[4 + i] = (uint8_t)(bits >> (8 * i));
}

// ---------------------------------------------------------------------------------------------
// Parse direction

struct ParseFacts { size_t consumed; bool range; };

template <class R, class V>
bool parse_one(const ST::string &s, int base, const ref::Parsed<V> &p, size_t size, std::string &why) {
    const R want = static_cast<R>(p.value);          // "narrowed to the result type"
    const bool want_ok = p.ok(size), want_full = p.full_match(size);
    ST::conversion_result cr;
    R got = Conv<R>::get(s, cr, base);
    if (got != want || cr.ok() != want_ok || cr.full_match() != want_full) {
        why = std::string(Conv<R>::name()) + "(result, " + verif::num(base) + ") gives " + vstr(got) + " ok=" + (cr.ok() ? "1" : "0") + " full_match=" +
              (cr.full_match() ? "1" : "0") + "; the C library returns " + vstr(p.value) + " (narrowed " + vstr(want) + ") consuming " +
              verif::unum(p.consumed) + " of " + verif::unum(size) + " bytes, so ok=" + (want_ok ? "1" : "0") + " full_match=" + (want_full ? "1" : "0");
        return false;
    }
    R got2 = Conv<R>::get(s, base);
    if (got2 != want) {
        why = std::string(Conv<R>::name()) + "(" + verif::num(base) + ") gives " + vstr(got2) + "; the C library returns " + vstr(p.value) + " (narrowed " + vstr(want) + ")";
        return false;
    }
    return true;
}

// --- all eleven conversion_result overloads behind one index (0..9 integers, 10 to_bool), value widened to 64 bits
const char *const kMemberNames[11] = {"to_short", "to_int", "to_long", "to_long_long", "to_ushort", "to_uint", "to_ulong", "to_ulong_long", "to_int64", "to_uint64", "to_bool"};
uint64_t call_member(int k, const ST::string &s, ST::conversion_result &cr, int base) {
    switch (k) {
    case 0: return (uint64_t)(int64_t)s.to_short(cr, base);
    case 1: verif::pre_errno(); return (uint64_t)(int64_t)s.to_int(cr, base);
    case 2: verif::pre_errno(); return (uint64_t)(int64_t)s.to_long(cr, base);
    case 3: return (uint64_t)(int64_t)s.to_long_long(cr, base);
    case 4: return (uint64_t)s.to_ushort(cr, base);
    case 5: return (uint64_t)s.to_uint(cr, base);
    case 6: return (uint64_t)s.to_ulong(cr, base);
    case 7: return (uint64_t)s.to_ulong_long(cr, base);
    case 8: return (uint64_t)s.to_int64(cr, base);
    case 9: return (uint64_t)s.to_uint64(cr, base);
    default: return (uint64_t)s.to_bool(cr);              // base 0 only
    }
}

struct ParseWant {                                       // what the C library says, per member
    uint64_t value[11]; bool ok[11], full[11];
    bool bool_open = false;                              // to_bool: long value non-zero but zero after narrowing to int (either answer accepted)
};

bool ci_word(const uint8_t *b, size_t n, const char *w) {
    if (n != strlen(w)) return false;
    for (size_t i = 0; i < n; i++) { uint8_t ch = b[i]; if (ch >= 'A' && ch <= 'Z') ch = uint8_t(ch + 32); if (ch != (uint8_t)w[i]) return false; }
    return true;
}

enum { kRoutes = 10 };
const char *const kRouteNames[kRoutes] = {"route:from_validated", "route:from_validated(char8_t)", "route:ctor(char8_t*)", "route:ctor(std::u8string)", "route:ctor(string_view)",
                                          "route:from_utf16(ASCII)", "route:substr-of-longer", "route:moved-into", "route:default-constructed", "route:operator+="};
// The subject string, built through different public constructors (all hold exactly the bytes given).
ST::string make_subject(const char *p, size_t n, int route, int *used) {
    *used = route;
    switch (route) {
    case 1: return ST::string::from_validated(reinterpret_cast<const char8_t *>(p), n);
    case 2: return ST::string(reinterpret_cast<const char8_t *>(p), n, ST::assume_valid);
    case 3: return ST::string(std::u8string(reinterpret_cast<const char8_t *>(p), n), ST::assume_valid);
    case 4: return ST::string(std::string_view(p, n), ST::assume_valid);
    case 5: {
        bool ascii = true; for (size_t i = 0; i < n; i++) if ((unsigned char)p[i] >= 0x80) ascii = false;
        if (!ascii) break;
        std::u16string w(n, u'\0'); for (size_t i = 0; i < n; i++) w[i] = (char16_t)(unsigned char)p[i];
        return ST::string::from_utf16(w.data(), n);
    }
    case 6: {
        ST::string big = ST::string::from_validated("9", 1) + ST::string::from_validated(p, n) + ST::string::from_validated("9x", 2);
        return big.substr(1, n);
    }
    case 7: { ST::string tmp = ST::string::from_validated(p, n); ST::string moved(std::move(tmp)); return moved; }
    case 8: if (n == 0) return ST::string(); break;
    case 9: { ST::string acc; size_t half = n / 2; acc += ST::string::from_validated(p, half); acc += ST::string::from_validated(p + half, n - half); return acc; }
    default: break;
    }
    *used = 0;
    return ST::string::from_validated(p, n);
}

std::string flags_text(bool ok, bool full) { return std::string("ok=") + (ok ? "1" : "0") + " full_match=" + (full ? "1" : "0"); }

// reuse: 0 = one (member, primer) pair chosen by a hash of the case; 1 = every member x every primer
std::string check_parse(const uint8_t *bytes, size_t n, int base, ParseFacts *facts, int route = 0, int reuse = 0, int *route_used = nullptr) {
    // what the library gets: a string built from an exact-size block (no terminator to lean on)
    verif::Exact<char> src(reinterpret_cast<const char *>(bytes), n);
    // what the C library gets from the harness: the same bytes followed by a NUL
    verif::Exact<char> z(reinterpret_cast<const char *>(bytes), n, true);
    try {
        const ref::Parsed<long> pl = ref::c_strtol(z.data(), base);
        const ref::Parsed<long long> pll = ref::c_strtoll(z.data(), base);
        const ref::Parsed<unsigned long> pul = ref::c_strtoul(z.data(), base);
        const ref::Parsed<unsigned long long> pull = ref::c_strtoull(z.data(), base);
        if (facts) { facts->consumed = pl.consumed; facts->range = pl.range || pll.range || pul.range || pull.range; }
        int used = 0;
        ST::string s = make_subject(src.data(), n, route, &used);
        if (route_used) *route_used = used;
        if (s.size() != n || (n && memcmp(s.c_str(), src.data(), n) != 0)) return std::string("subject built by ") + kRouteNames[used] + " does not hold the given bytes";
        std::string why;
        if (!parse_one<short>(s, base, pl, n, why)) return why;
        if (!parse_one<int>(s, base, pl, n, why)) return why;
        if (!parse_one<long>(s, base, pl, n, why)) return why;
        if (!parse_one<long long>(s, base, pll, n, why)) return why;
        if (!parse_one<unsigned short>(s, base, pul, n, why)) return why;
        if (!parse_one<unsigned int>(s, base, pul, n, why)) return why;
        if (!parse_one<unsigned long>(s, base, pul, n, why)) return why;
        if (!parse_one<unsigned long long>(s, base, pull, n, why)) return why;

        // ---- per-member expectations for the index-driven checks below
        ParseWant w;
        auto put = [&](int k, uint64_t v, size_t consumed) { w.value[k] = v; w.ok[k] = consumed != 0; w.full[k] = consumed == n; };
        put(0, (uint64_t)(int64_t) static_cast<short>(pl.value), pl.consumed);
        put(1, (uint64_t)(int64_t) static_cast<int>(pl.value), pl.consumed);
        put(2, (uint64_t)(int64_t)pl.value, pl.consumed);
        put(3, (uint64_t)(int64_t)pll.value, pll.consumed);
        put(4, (uint64_t) static_cast<unsigned short>(pul.value), pul.consumed);
        put(5, (uint64_t) static_cast<unsigned int>(pul.value), pul.consumed);
        put(6, (uint64_t)pul.value, pul.consumed);
        put(7, (uint64_t)pull.value, pull.consumed);
        put(8, (uint64_t) static_cast<int64_t>(pll.value), pll.consumed);
        put(9, (uint64_t) static_cast<uint64_t>(pull.value), pull.consumed);
        const int nmembers = base == 0 ? 11 : 10;         // to_bool has no base argument: it belongs to the base-0 cases
        if (base == 0) {
            // to_bool: the words "true"/"false" (any letter case, whole text) are values of their own with both flags; everything
            // else is the integer reading, non-zero <=> true.
            if (ci_word(bytes, n, "true")) { w.value[10] = 1; w.ok[10] = w.full[10] = true; }
            else if (ci_word(bytes, n, "false")) { w.value[10] = 0; w.ok[10] = w.full[10] = true; }
            else { put(10, static_cast<int>(pl.value) != 0, pl.consumed); w.bool_open = (pl.value != 0) != (static_cast<int>(pl.value) != 0); }
        }
        auto value_ok = [&](int k, uint64_t got) { return got == w.value[k] || (k == 10 && w.bool_open); };

        // ---- the fixed-width aliases and to_bool: fresh conversion_result, and the overloads without one
        for (int k = 8; k < nmembers; k++) {
            ST::conversion_result cr;
            uint64_t got = call_member(k, s, cr, base);
            if (!value_ok(k, got) || cr.ok() != w.ok[k] || cr.full_match() != w.full[k])
                return std::string(kMemberNames[k]) + "(result" + (k == 10 ? "" : ", " + verif::num(base)) + ") gives " + (k == 8 ? verif::num((int64_t)got) : verif::unum(got)) + " " +
                       flags_text(cr.ok(), cr.full_match()) + "; from the C library's reading the expected result is " + (k == 8 ? verif::num((int64_t)w.value[k]) : verif::unum(w.value[k])) + " " + flags_text(w.ok[k], w.full[k]);
            uint64_t got2 = k == 8 ? (uint64_t)s.to_int64(base) : k == 9 ? (uint64_t)s.to_uint64(base) : (uint64_t)s.to_bool();
            if (!value_ok(k, got2))
                return std::string(kMemberNames[k]) + "(" + (k == 10 ? "" : verif::num(base)) + ") gives " + (k == 8 ? verif::num((int64_t)got2) : verif::unum(got2)) + ", expected " +
                       (k == 8 ? verif::num((int64_t)w.value[k]) : verif::unum(w.value[k]));
        }

        // ---- default base argument (= 0) of every overload
        if (base == 0) {
            ST::conversion_result c0, c1, c2, c3, c4, c5, c6, c7, c8, c9;
            verif::pre_errno();
            const uint64_t with_cr[10] = {(uint64_t)(int64_t)s.to_short(c0), (uint64_t)(int64_t)s.to_int(c1), (uint64_t)(int64_t)s.to_long(c2), (uint64_t)(int64_t)s.to_long_long(c3), (uint64_t)s.to_ushort(c4),
                                          (uint64_t)s.to_uint(c5), (uint64_t)s.to_ulong(c6), (uint64_t)s.to_ulong_long(c7), (uint64_t)s.to_int64(c8), (uint64_t)s.to_uint64(c9)};
            const uint64_t without[10] = {(uint64_t)(int64_t)s.to_short(), (uint64_t)(int64_t)s.to_int(), (uint64_t)(int64_t)s.to_long(), (uint64_t)(int64_t)s.to_long_long(), (uint64_t)s.to_ushort(),
                                          (uint64_t)s.to_uint(), (uint64_t)s.to_ulong(), (uint64_t)s.to_ulong_long(), (uint64_t)s.to_int64(), (uint64_t)s.to_uint64()};
            const ST::conversion_result *crs[10] = {&c0, &c1, &c2, &c3, &c4, &c5, &c6, &c7, &c8, &c9};
            for (int k = 0; k < 10; k++) {
                if (with_cr[k] != w.value[k] || crs[k]->ok() != w.ok[k] || crs[k]->full_match() != w.full[k])
                    return std::string(kMemberNames[k]) + "(result) with the default base gives " + verif::unum(with_cr[k]) + " " + flags_text(crs[k]->ok(), crs[k]->full_match()) +
                           "; the C library with base 0 gives " + verif::unum(w.value[k]) + " " + flags_text(w.ok[k], w.full[k]);
                if (without[k] != w.value[k])
                    return std::string(kMemberNames[k]) + "() with the default base gives " + verif::unum(without[k]) + "; the C library with base 0 gives " + verif::unum(w.value[k]);
            }
        }

        // ---- one conversion_result object used for several calls: each call sets the flags afresh
        auto reuse_pair = [&](int k, int p) -> bool {
            ST::conversion_result cr;
            if (!prime(cr, p, why)) return false;
            uint64_t got = call_member(k, s, cr, base);
            if (!value_ok(k, got) || cr.ok() != w.ok[k] || cr.full_match() != w.full[k]) {
                why = std::string(kMemberNames[k]) + "(result" + (k == 10 ? "" : ", " + verif::num(base)) + ") with a conversion_result last used on " + verif::quoted(std::string(kPrimers[p].text, kPrimers[p].n)) +
                      " (" + flags_text(kPrimers[p].ok, kPrimers[p].full) + ") gives " + verif::unum(got) + " " + flags_text(cr.ok(), cr.full_match()) + "; expected " + verif::unum(w.value[k]) + " " + flags_text(w.ok[k], w.full[k]);
                return false;
            }
            return true;
        };
        if (reuse) {
            for (int k = 0; k < nmembers; k++) for (int p = 0; p < 4; p++) if (!reuse_pair(k, p)) return why;
            // a chain through all members with one object, in an order that alternates between this text and the primers
            ST::conversion_result chain;
            for (int k = 0; k < nmembers; k++) {
                uint64_t got = call_member(k, s, chain, base);
                if (!value_ok(k, got) || chain.ok() != w.ok[k] || chain.full_match() != w.full[k])
                    return std::string(kMemberNames[k]) + " in a chain of calls sharing one conversion_result gives " + verif::unum(got) + " " + flags_text(chain.ok(), chain.full_match()) + "; expected " +
                           verif::unum(w.value[k]) + " " + flags_text(w.ok[k], w.full[k]);
                const int p = (k + (int)n) & 3;
                long b = primer_string(p).to_long(chain, 10);
                if (chain.ok() != kPrimers[p].ok || chain.full_match() != kPrimers[p].full || b != (kPrimers[p].ok ? 1 : 0))
                    return "to_long(result, 10) of " + verif::quoted(std::string(kPrimers[p].text, kPrimers[p].n)) + " after " + kMemberNames[k] + " on the same conversion_result gives " + verif::num(b) + " " + flags_text(chain.ok(), chain.full_match());
            }
        } else {
            uint32_t h = 2166136261u;
            for (size_t i = 0; i < n; i++) h = (h ^ bytes[i]) * 16777619u;
            h = (h ^ (uint32_t)base) * 16777619u; h ^= h >> 15;
            if (!reuse_pair((int)(h % (uint32_t)nmembers), (int)((h / 16) & 3))) return why;
        }
    } catch (...) {
        return "unexpected " + verif::describe_current_exception();
    }
    return std::string();
}

std::string render_parse(const uint8_t *bytes, size_t n, int base) {
    verif::Exact<char> z(reinterpret_cast<const char *>(bytes), n, true);
    ref::Parsed<long long> p = ref::c_strtoll(z.data(), base);
    ref::Parsed<unsigned long long> pu = ref::c_strtoull(z.data(), base);
    return "C12 parse base=" + verif::num(base) + " text=" + verif::quoted(std::string((const char *)bytes, n)) + " (" + verif::unum(n) + " bytes) -> strtoll " +
           verif::num(p.value) + (p.range ? " (ERANGE)" : "") + ", strtoull " + verif::unum(pu.value) + (pu.range ? " (ERANGE)" : "") + ", consumed " +
           verif::unum(p.consumed) + " => ok=" + (p.consumed ? "1" : "0") + " full_match=" + (p.consumed == n ? "1" : "0") +
           "; all to_* members (to_int64/to_uint64 too" + (base == 0 ? ", to_bool, default-base overloads" : "") + ") compared, also with re-used conversion_result objects";
}

int base_from_code(unsigned code) { unsigned k = code % 36; return k == 0 ? 0 : int(k + 1); }   // 0 -> base 0, 1..35 -> 2..36
uint8_t code_from_base(int base) { return base == 0 ? 0 : uint8_t(base - 1); }

char digit_char(unsigned d, bool upper) { return d < 10 ? char('0' + d) : char((upper ? 'A' : 'a') + (d - 10)); }

// magnitude (up to 2^65) in a base, for the near-limit generator
std::string mag_text(unsigned __int128 m, int base, bool upper) {
    std::string s;
    if (m == 0) s = "0";
    while (m) { s.insert(s.begin(), digit_char(unsigned(m % base), upper)); m /= base; }
    return s;
}

void label_base(Case &c, int base) {
    c.label(base == 0 ? "base:0" : base == 10 ? "base:10" : base == 16 ? "base:16" : base == 8 ? "base:8" : base == 2 ? "base:2" : base < 10 ? "base:3..9" : "base:11..36");
}

int run_parse_case(Case &c, const std::vector<uint8_t> &text, int base, int route = 0) {
    ParseFacts pf{0, false};
    if (c.want_text) c.text = render_parse(text.data(), text.size(), base);
    const size_t n = text.size();
    int used = 0;
    // every (member, earlier state) pair of the shared-conversion_result check for ordinary sizes; one hashed pair for long texts
    std::string why = check_parse(text.data(), n, base, &pf, route, n <= 256 ? 1 : 0, &used);
    c.label(n == 0 ? "parse:empty" : pf.consumed == 0 ? "parse:nothing-consumed" : pf.consumed == n ? "parse:full-match" : "parse:partial-match");
    if (pf.range) c.label("parse:out-of-range");
    if (std::find(text.begin(), text.end(), 0) != text.end()) c.label("parse:embedded-NUL");
    if (n > 256) c.label(n >= 4096 ? "parse:text>=4096 bytes" : "parse:text 257..4095 bytes");
    if (used) c.label(kRouteNames[used]);
    if (base == 0) {
        if (ci_word(text.data(), n, "true") || ci_word(text.data(), n, "false")) c.label("to_bool:word");
        else c.label("to_bool:numeric-reading");
    }
    label_base(c, base);
    c.nontrivial = (pf.consumed > 0 && pf.consumed < n) || pf.range;
    if (c.want_text && used) c.text += std::string("; subject ") + kRouteNames[used];
    if (!why.empty()) return c.fail(why);
    return verif::CASE_OK;
}

// ---------------------------------------------------------------------------------------------
// string_stream << integer / ST::format of an integer when the output already holds `fill` bytes: every fill level relative to
// the in-object capacity (ST_STACK_STRING_SIZE) and its doublings, so that the digits are written across a capacity boundary;
// further appends follow; everything is compared with a byte model.
struct StreamCase {
    int kind = 0;        // 0 int, 1 unsigned, 2 long, 3 unsigned long, 4 long long, 5 unsigned long long, 6 short, 7 unsigned short (both promote to int)
    size_t fill = 0;     // 0..5000
    int pre = 0;         // how the stream reached `fill` bytes (see prefill_names)
    uint64_t bits = 0;   // the value
    int tail = 0;        // what follows the number
};
const size_t kMaxFill = 5000;
const char *const kPreNames[7] = {"pre:one-append", "pre:many-small-appends", "pre:grown-then-truncated", "pre:overfilled-then-erased", "pre:move-constructed", "pre:move-assigned-over-grown",
                                  "pre:grown-then-emptied-then-refilled"};
const char *const kKindNames[8] = {"int", "unsigned int", "long", "unsigned long", "long long", "unsigned long long", "short", "unsigned short"};
inline char pattern_byte(size_t i) { return "abcdefghijklmnopqrstuvwxyzABCDEFGHIJKLMNOPQRSTUVWXYZ_-.,:;!?*/~@"[(i * 7 + i / 64) & 63]; }

template <class F> auto with_stream_kind(int k, F &&f) {
    switch (k & 7) {
    case 0: return f(int{});
    case 1: return f((unsigned int){});
    case 2: return f(long{});
    case 3: return f((unsigned long){});
    case 4: return f((long long){});
    case 5: return f((unsigned long long){});
    case 6: return f(short{});
    default: return f((unsigned short){});
    }
}
std::string stream_number(int kind, uint64_t bits) {
    return with_stream_kind(kind, [&](auto tag) { typedef decltype(tag) T; return ref::int_text(static_cast<T>(bits), 10, false); });
}

void build_prefill(ST::string_stream &a, const std::string &prefix, int pre) {
    const size_t fill = prefix.size();
    switch (pre) {
    case 1: {                                             // many small appends through different entry points
        size_t pos = 0; unsigned step = 1;
        while (pos < fill) {
            size_t len = std::min<size_t>(1 + (step * 37) % 97, fill - pos);
            switch (step & 3) {
            case 0: a.append(prefix.data() + pos, len); break;
            case 1: { std::string piece(prefix, pos, len); a << piece.c_str(); break; }
            case 2: a << ST::string::from_validated(prefix.data() + pos, len); break;
            default: for (size_t i = 0; i < len; i++) a << prefix[pos + i]; break;
            }
            pos += len; step++;
        }
        break;
    }
    case 2: a.append(prefix.data(), fill); a.append_char('J', fill / 2 + 300); a.truncate(fill); break;
    case 3: a.append(prefix.data(), fill); a.append_char('J', 77); a.erase(77); break;
    case 6: a.append_char('J', 5000); a.truncate(); a.append(prefix.data(), fill); break;
    default: a.append(prefix.data(), fill); break;
    }
}

std::string check_stream(const StreamCase &sc) {
    try {
        std::string prefix(sc.fill, ' ');
        for (size_t i = 0; i < sc.fill; i++) prefix[i] = pattern_byte(i);
        const std::string num = stream_number(sc.kind, sc.bits);
        ST::string_stream a;
        build_prefill(a, prefix, sc.pre);
        std::optional<ST::string_stream> other;
        ST::string_stream *ss = &a;
        if (sc.pre == 4) { other.emplace(std::move(a)); ss = &*other; }
        else if (sc.pre == 5) { other.emplace(); other->append_char('J', 3000); *other = std::move(a); ss = &*other; }
        if (ss->size() != sc.fill || (sc.fill && memcmp(ss->raw_buffer(), prefix.data(), sc.fill) != 0))
            return std::string("string_stream does not hold the ") + verif::unum(sc.fill) + " bytes appended before the number (" + kPreNames[sc.pre] + ")";
        std::string expect = prefix + num;
        with_stream_kind(sc.kind, [&](auto tag) { typedef decltype(tag) T; *ss << static_cast<T>(sc.bits); return 0; });
        const uint64_t second = ~sc.bits * 0x9E3779B97F4A7C15ull;
        switch (sc.tail) {
        case 1: *ss << "]"; expect += "]"; break;
        case 2: with_stream_kind(sc.kind + 3, [&](auto tag) { typedef decltype(tag) T; *ss << '|' << static_cast<T>(second) << '.'; return 0; });
                expect += "|" + stream_number(sc.kind + 3, second) + "."; break;
        case 3: ss->append_char('#', 300); expect += std::string(300, '#'); break;
        case 4: for (int i = 0; i < 3; i++) { with_stream_kind(sc.kind, [&](auto tag) { typedef decltype(tag) T; *ss << static_cast<T>(sc.bits); return 0; }); expect += num; } break;
        default: break;
        }
        if (ss->size() != expect.size() || memcmp(ss->raw_buffer(), expect.data(), expect.size()) != 0) {
            size_t d = 0; const size_t m = std::min(ss->size(), expect.size());
            while (d < m && ss->raw_buffer()[d] == expect[d]) d++;
            return std::string("string_stream holding ") + verif::unum(sc.fill) + " bytes (" + kPreNames[sc.pre] + ") << " + kKindNames[sc.kind & 7] + " " + num + " + tail " + verif::num(sc.tail) + ": size " +
                   verif::unum(ss->size()) + ", expected " + verif::unum(expect.size()) + "; first difference at byte " + verif::unum(d) + ": stream has " +
                   verif::quoted(std::string(ss->raw_buffer() + d, std::min<size_t>(24, ss->size() - d))) + ", model has " + verif::quoted(expect.substr(d, 24));
        }
        ST::string out = ss->to_string();
        if (str_of(out) != expect) return "string_stream::to_string() differs from the stream's own bytes after << " + num + " at fill " + verif::unum(sc.fill);

        // ST::format writes through the same kind of buffer: literal text of `fill` bytes, then the number, then more text
        const std::string fmt = prefix + (sc.tail == 2 ? "{}|{}." : sc.tail == 4 ? "{}{}{}{}" : "{}") + (sc.tail == 1 ? "]" : "");
        ST::string f = with_stream_kind(sc.kind, [&](auto tag) {
            typedef decltype(tag) T; const T v = static_cast<T>(sc.bits);
            if (sc.tail == 2) return with_stream_kind(sc.kind + 3, [&](auto tag2) { typedef decltype(tag2) T2; return ST::format(fmt.c_str(), v, static_cast<T2>(second)); });
            if (sc.tail == 4) return ST::format(fmt.c_str(), v, v, v, v);
            return ST::format(fmt.c_str(), v);
        });
        std::string fexpect = expect;
        if (sc.tail == 3) fexpect.resize(fexpect.size() - 300);
        if (str_of(f) != fexpect) {
            size_t d = 0; const size_t m = std::min(f.size(), fexpect.size());
            while (d < m && f.c_str()[d] == fexpect[d]) d++;
            return std::string("ST::format(<") + verif::unum(sc.fill) + " literal bytes>{}..., " + kKindNames[sc.kind & 7] + " " + num + ") gives " + verif::unum(f.size()) + " bytes, expected " +
                   verif::unum(fexpect.size()) + "; first difference at byte " + verif::unum(d) + ": " + verif::quoted(std::string(f.c_str() + d, std::min<size_t>(24, f.size() - d))) + " vs " + verif::quoted(fexpect.substr(d, 24));
        }
    } catch (...) {
        return "unexpected " + verif::describe_current_exception();
    }
    return std::string();
}

std::string render_stream(const StreamCase &sc) {
    return std::string("C12 stream: string_stream with ") + verif::unum(sc.fill) + " bytes (" + kPreNames[sc.pre] + ") << " + kKindNames[sc.kind & 7] + " " + stream_number(sc.kind, sc.bits) +
           ", tail " + verif::num(sc.tail) + "; bytes compared with a model, same through ST::format with " + verif::unum(sc.fill) + " literal bytes before {}";
}
const size_t kStreamBytes = 14;
void encode_stream(const StreamCase &sc, uint8_t *o) {
    o[0] = 0xFD; o[1] = (uint8_t)sc.kind; o[2] = (uint8_t)sc.fill; o[3] = (uint8_t)(sc.fill >> 8); o[4] = (uint8_t)sc.pre;
    for (int i = 0; i < 8; i++) o[5 + i] = (uint8_t)(sc.bits >> (8 * i));
    o[13] = (uint8_t)sc.tail;
}
// does the number start before a capacity step (in-object capacity and its doublings) and end after it / exactly on it?
void stream_boundary(const StreamCase &sc, bool &straddles, bool &ends_on) {
    const size_t len = stream_number(sc.kind, sc.bits).size();
    straddles = ends_on = false;
    for (size_t cap = ST_STACK_STRING_SIZE; cap <= 16384; cap *= 2) {
        if (sc.fill < cap && sc.fill + len > cap) straddles = true;
        if (sc.fill + len == cap) ends_on = true;
    }
}
int run_stream_case(Case &c, const StreamCase &sc) {
    if (c.want_text) c.text = render_stream(sc);
    bool straddles, ends_on; stream_boundary(sc, straddles, ends_on);
    c.label("stream:prefilled");
    c.label(kPreNames[sc.pre]);
    c.label(sc.fill == 0 ? "fill:0" : sc.fill < ST_STACK_STRING_SIZE ? "fill:in-object" : sc.fill < 1024 ? "fill:256..1023" : "fill:1024..5000");
    if (straddles) c.label("stream:number-straddles-capacity-step");
    if (ends_on) c.label("stream:number-ends-on-capacity-step");
    c.nontrivial = straddles || ends_on || sc.fill >= ST_STACK_STRING_SIZE;
    std::string why = check_stream(sc);
    return why.empty() ? verif::CASE_OK : c.fail(why);
}

const int kPrintBases[] = {10, 16, 8, 2, 10, 16, 8, 2, 2, 3, 4, 5, 6, 7, 8, 9, 10, 11, 12, 13, 14, 15, 16, 17, 18, 19,
                           20, 21, 22, 23, 24, 25, 26, 27, 28, 29, 30, 31, 32, 33, 34, 35, 36};
const int kParseBases[] = {0, 10, 16, 8, 2, 36, 0, 10, 16, 2, 3, 4, 5, 6, 7, 8, 9, 10, 11, 12, 13, 14, 15, 16, 17, 18, 19,
                           20, 21, 22, 23, 24, 25, 26, 27, 28, 29, 30, 31, 32, 33, 34, 35, 36};
const char kAlphabet[] = {'0', '1', '2', '3', '4', '5', '6', '7', '8', '9', '0', '1', '7', '9', 'a', 'b', 'c', 'd', 'e', 'f', 'A', 'B', 'F', 'x', 'X',
                          'z', 'Z', 'g', 'o', '-', '+', ' ', ' ', '\t', '\n', '\0', (char)0x80, (char)0xFF, '.', '_'};
const char kSpaces[] = {' ', '\t', '\n', '\v', '\f', '\r'};
const uint8_t kTails[] = {0, ' ', 'z', '.', 0x80, 0xFF, '-', 'x', 'g', '_', '+', '9', '\n', 'Z', 'e', ','};

}  // namespace

int verif_case(const uint8_t *data, size_t size, Case &c) {
    verif::Reader r(data, size, c);
    const uint8_t mode = r.u8();

    if (mode == 0xFF) {                                   // directed print (enumerator failures, seeds)
        int t = r.u8() & 7; int base = 2 + r.u8() % 35; bool upper = r.u8() & 1; uint64_t bits = r.bits64();
        c.label("directed-print");
        return with_type(t, [&](auto tag) -> int {
            typedef decltype(tag) T;
            T v = static_cast<T>(bits);
            c.nontrivial = v < 0 || (unsigned long long)v >= (unsigned long long)base;
            if (c.want_text) c.text = render_print<T>(v, base, upper);
            std::string why = check_print<T>(v, base, upper);
            return why.empty() ? verif::CASE_OK : c.fail(why);
        });
    }
    if (mode == 0xFE) {                                   // directed parse: base code, then the text itself
        int base = base_from_code(r.u8());
        std::vector<uint8_t> text;
        while (!r.exhausted()) text.push_back(r.u8());
        c.label("directed-parse");
        return run_parse_case(c, text, base);
    }

    if (mode == 0xFD) {                                   // directed stream case
        StreamCase sc;
        sc.kind = r.u8() & 7; unsigned f = r.u8(); f |= (unsigned)r.u8() << 8; sc.fill = f > kMaxFill ? kMaxFill : f; sc.pre = r.u8() % 7; sc.bits = r.bits64(); sc.tail = r.u8() % 5;
        c.label("directed-stream");
        return run_stream_case(c, sc);
    }

    // The upper five bits of the mode byte select the classes added later; 0..21 and 31 keep the original two directions.
    const unsigned cls = mode >> 3;
    if (cls >= 22 && cls <= 25) {
        // ------------------------------------------------------------------ number into a pre-filled stream
        StreamCase sc;
        sc.kind = (int)r.idx(8);
        sc.pre = (int)r.idx(7);
        sc.tail = (int)r.idx(5);
        switch (r.idx(4)) {                                // the value
        case 0: sc.bits = r.range(0, 1300); if (r.flag()) sc.bits = 0 - sc.bits; break;
        case 1: { static const uint64_t ends[] = {0x8000000000000000ull, 0x7FFFFFFFFFFFFFFFull, 0xFFFFFFFFFFFFFFFFull, 0x80000000ull, 0x7FFFFFFFull, 0xFFFFFFFFull, 0x8000ull, 0x7FFFull, 0xFFFFull,
                                                 0xFFFFFFFF80000000ull, 0xFFFFFFFFFFFF8000ull, 0}; sc.bits = r.pick(ends); break; }
        default: sc.bits = r.bits64(); break;
        }
        const size_t len = stream_number(sc.kind, sc.bits).size();
        if (r.chance(64)) sc.fill = (size_t)r.range(0, kMaxFill);
        else {                                             // next to a capacity step: the number starts 0..len+1 bytes before it, or just after it
            static const uint16_t steps[] = {256, 512, 1024, 2048, 4096, 256, 256, 512};
            const size_t cap = r.pick(steps);
            const size_t back = (size_t)r.range(0, len + 3);
            sc.fill = cap + 2 - std::min(back, cap + 2);
        }
        return run_stream_case(c, sc);
    }
    if (cls >= 26 && cls <= 27) {
        // ------------------------------------------------------------------ long texts (several KB), parse direction
        const int base = r.pick(kParseBases);
        static const uint16_t runs[] = {0, 1, 255, 256, 257, 1000, 4095, 4096, 5000, 64, 300, 2048};
        std::vector<uint8_t> text;
        c.label("text:long");
        const int db = base ? base : 10;
        const unsigned shape = (unsigned)r.range(0, 3);
        if (shape != 3) { size_t nws = r.pick(runs); for (size_t i = 0; i < nws; i++) text.push_back((uint8_t)kSpaces[(i * 5 + nws) % sizeof kSpaces]); }
        switch (r.range(0, 2)) { case 1: text.push_back('-'); break; case 2: text.push_back('+'); break; default: break; }
        if ((base == 0 || base == 16) && r.flag()) { text.push_back('0'); text.push_back('x'); }
        if (shape == 0 || shape == 3) { size_t nz = r.pick(runs); text.insert(text.end(), nz, (uint8_t)'0'); }
        if (shape == 1) {                                  // a digit run far beyond every result type
            size_t nd = r.pick(runs); uint8_t seed = r.u8();
            for (size_t i = 0; i < nd; i++) text.push_back((uint8_t)digit_char((unsigned)((i * 7 + seed) % (unsigned)db), (i & 8) != 0));
        }
        unsigned ndig = (unsigned)r.range(0, 20);
        for (unsigned i = 0; i < ndig; i++) { uint8_t b = r.u8(); text.push_back((uint8_t)digit_char(b % (unsigned)db, (b & 0x80) != 0)); }
        if (shape == 2) {                                  // an embedded NUL (or other stopper) with a long continuation behind it
            text.push_back(r.pick(kTails)); size_t nd = r.pick(runs);
            for (size_t i = 0; i < nd; i++) text.push_back((uint8_t)('0' + (i % 10)));
        }
        if (r.flag()) text.push_back(r.pick(kTails));
        return run_parse_case(c, text, base, (int)r.idx(kRoutes));
    }
    if (cls >= 28 && cls <= 30) {
        // ------------------------------------------------------------------ to_bool: the two words, near misses, numbers (base 0)
        std::vector<uint8_t> text;
        c.label("text:bool-words");
        static const char *const words[] = {"true", "false", "true", "false", "true", "false", "true", "false", "tru", "truee", "fals", "falsee", "t", "f", "yes", "no", "on", "1", "0", "-1", "0x10", "010", "4294967296", "-4294967296",
                                            "8589934592", "9223372036854775807", "9223372036854775808", "-9223372036854775808", "-9223372036854775809", "18446744073709551616", "00", "0x0", "+0", " 1", "2147483648"};
        const char *wd = r.pick(words);
        const unsigned deco = (unsigned)r.range(0, 15);             // 0 and 8..15: the bare word
        if (deco == 1) text.push_back(' '); else if (deco == 2) text.push_back('\t'); else if (deco == 3) text.push_back('+');
        uint8_t casebits = r.u8();
        for (size_t i = 0; wd[i]; i++) { uint8_t ch = (uint8_t)wd[i]; if (ch >= 'a' && ch <= 'z' && (casebits >> (i & 7) & 1)) ch = uint8_t(ch - 32); text.push_back(ch); }
        if (deco == 4) text.push_back(' '); else if (deco == 5) text.push_back(0); else if (deco == 6) { text.push_back(0); text.push_back('1'); } else if (deco == 7) text.push_back('e');
        return run_parse_case(c, text, 0, (int)r.idx(kRoutes));
    }

    if ((mode & 1) == 0) {
        // ------------------------------------------------------------------ print direction
        const int t = (int)r.idx(8);
        const int base = r.pick(kPrintBases);
        const bool upper = r.flag();
        const unsigned src = (mode >> 1) & 3;
        return with_type(t, [&](auto tag) -> int {
            typedef decltype(tag) T;
            typedef typename std::make_unsigned<T>::type U;
            T v;
            if (src == 0) {                               // small magnitudes around the digit-count steps of small bases
                U m = (U)r.range(0, 1300);
                v = (std::is_signed<T>::value && r.flag()) ? static_cast<T>(U(0) - m) : static_cast<T>(m);
                c.label("value:small");
            } else if (src == 1) {
                const std::vector<T> &tab = boundaries<T>();
                v = tab[r.idx(tab.size())];
                c.label("value:boundary-table");
            } else if (src == 2) {
                v = static_cast<T>(r.bits64());
                c.label("value:random-bits");
            } else {                                      // power of the chosen base +- 2
                unsigned k = (unsigned)r.range(0, 64);
                int delta = (int)r.range(0, 4) - 2;
                U p = 1;
                for (unsigned i = 0; i < k && p <= std::numeric_limits<U>::max() / (unsigned)base; i++) p = U(p * (unsigned)base);
                U m = U(p + (U)delta);
                v = (std::is_signed<T>::value && r.flag()) ? static_cast<T>(U(0) - m) : static_cast<T>(m);
                c.label("value:base-power+-2");
            }
            static const char *const tl[] = {"type:int", "type:short", "type:long", "type:long long", "type:unsigned int", "type:unsigned short",
                                             "type:unsigned long", "type:unsigned long long"};
            c.label(tl[type_index<T>()]);
            label_base(c, base);
            c.label(upper ? "case:upper" : "case:lower");
            if (v < 0) c.label("value:negative");
            if (std::is_signed<T>::value && v == std::numeric_limits<T>::min()) c.label("value:most-negative");
            if (v == std::numeric_limits<T>::max()) c.label("value:max");
            c.nontrivial = v < 0 || (unsigned long long)v >= (unsigned long long)base;
            if (c.want_text) c.text = render_print<T>(v, base, upper);
            std::string why = check_print<T>(v, base, upper);
            return why.empty() ? verif::CASE_OK : c.fail(why);
        });
    }

    // ---------------------------------------------------------------------- parse direction
    const int base = r.pick(kParseBases);
    const unsigned sub = (mode >> 1) & 3;
    std::vector<uint8_t> text;
    if (sub == 0 || sub == 1) {
        // structured: whitespace, sign, prefix, digits, tail
        c.label("text:structured");
        unsigned nsp = (unsigned)r.range(0, 3); if (nsp == 3) nsp = 0;
        for (unsigned i = 0; i < nsp; i++) text.push_back((uint8_t)r.pick(kSpaces));
        switch (r.range(0, 5)) { case 1: text.push_back('-'); break; case 2: text.push_back('+'); break; case 3: text.push_back('-'); text.push_back('-'); break;
                                 case 4: text.push_back('+'); text.push_back('-'); break; case 5: text.push_back('-'); text.push_back(' '); break; default: break; }
        int db = base ? base : 10;                        // the base the digits are drawn from
        switch (r.range(0, 7)) {
        case 1: text.push_back('0'); text.push_back('x'); if (!base) db = 16; break;
        case 2: text.push_back('0'); text.push_back('X'); if (!base) db = 16; break;
        case 3: text.push_back('0'); if (!base) db = 8; break;
        case 4: text.push_back('0'); text.push_back('b'); if (!base) db = 2; break;
        case 5: text.push_back('0'); text.push_back('0'); text.push_back('0'); break;
        default: break;
        }
        if (r.chance(48)) db = (int)r.range(2, 36);       // digits that may not belong to the base
        static const uint8_t nd[] = {1, 0, 2, 3, 4, 5, 8, 9, 10, 11, 13, 14, 15, 16, 17, 19, 20, 21, 22, 31, 32, 33, 34};
        unsigned ndig = r.pick(nd);
        for (unsigned i = 0; i < ndig; i++) { uint8_t b = r.u8(); text.push_back((uint8_t)digit_char(b % (unsigned)db, (b & 0x80) != 0)); }
        unsigned ntail = (unsigned)r.range(0, 3); if (ntail == 3) ntail = 0;
        for (unsigned i = 0; i < ntail; i++) text.push_back(r.pick(kTails));
        if (ntail && r.flag()) text.push_back((uint8_t)digit_char((unsigned)r.range(0, 35), false));
    } else if (sub == 2) {
        // near the limits of the result types: 2^k + delta in the parse base, optional sign
        c.label("text:near-limit");
        static const uint8_t ks[] = {63, 64, 31, 32, 15, 16, 7, 8, 62, 65};
        unsigned k = r.pick(ks);
        int delta = (int)r.range(0, 4) - 2;
        unsigned __int128 m = ((unsigned __int128)1 << k) + (unsigned __int128)(__int128)delta;
        unsigned sgn = (unsigned)r.range(0, 2);
        if (sgn == 1) text.push_back('-'); else if (sgn == 2) text.push_back('+');
        int db = base ? base : 10;
        bool hexpfx = (base == 0 || base == 16) && r.flag();
        if (hexpfx) { text.push_back('0'); text.push_back(r.flag() ? 'X' : 'x'); db = 16; }
        std::string digits = mag_text(m, db, r.flag());
        text.insert(text.end(), digits.begin(), digits.end());
        if (r.chance(40)) text.push_back(r.pick(kTails));
    } else {
        c.label("text:raw-alphabet");
        static const uint8_t lens[] = {0, 1, 2, 3, 4, 5, 6, 7, 8, 10, 12, 16, 20, 24, 32, 40};
        size_t n = r.pick(lens);
        for (size_t i = 0; i < n; i++) {
            uint8_t b = r.u8();
            text.push_back(b < 224 ? (uint8_t)kAlphabet[b % sizeof kAlphabet] : r.u8());
        }
    }
    return run_parse_case(c, text, base, (int)r.idx(kRoutes));
}

// ---------------------------------------------------------------------------------------------
// Enumerations.
namespace {

struct EnumCtx {
    verif::EnumReport &r; uint8_t cur[64];
    explicit EnumCtx(verif::EnumReport &rep) : r(rep) {}
    template <class T> bool print(T v, int base, bool upper, int level = 2) {
        typedef typename std::make_unsigned<T>::type U;
        directed_print_bytes(cur, type_index<T>(), base - 2, upper, (uint64_t)(U)v);
        verif::set_current(cur, 12);
        r.evaluations++;
        if (v < 0 || (unsigned long long)v >= (unsigned long long)base) r.nontrivial++;
        std::string why = check_print<T>(v, base, upper, level);
        if (!why.empty()) {
            if (r.failure.empty()) { r.failure = why; r.failing_case = render_print<T>(v, base, upper); r.failing_bytes.assign(cur, cur + 12); }
            return false;
        }
        return true;
    }
    bool parse(const uint8_t *text, size_t n, int base) {
        cur[0] = 0xFE; cur[1] = code_from_base(base); if (n) memcpy(cur + 2, text, n);
        verif::set_current(cur, n + 2);
        r.evaluations++;
        ParseFacts pf{0, false};
        std::string why = check_parse(text, n, base, &pf);
        if ((pf.consumed > 0 && pf.consumed < n) || pf.range) r.nontrivial++;
        if (!why.empty()) {
            if (r.failure.empty()) { r.failure = why; r.failing_case = render_parse(text, n, base); r.failing_bytes.assign(cur, cur + n + 2); }
            return false;
        }
        return true;
    }
    template <class T> bool table(int shard, int nshards) {
        const std::vector<T> &tab = boundaries<T>();
        for (size_t i = (size_t)shard; i < tab.size(); i += (size_t)nshards)
            for (int base = 2; base <= 36; base++)
                for (int up = 0; up < 2; up++)
                    if (!print<T>(tab[i], base, up != 0)) return false;
        if (shard == 0 && r.want_sample() && !tab.empty()) r.samples.push_back(render_print<T>(tab[0], 16, true));
        return true;
    }
};

const uint8_t kEnumAlphabet[16] = {'0', '1', '7', '9', 'a', 'F', 'z', 'x', 'X', '-', '+', ' ', '\t', 0x00, 0xFF, 'b'};

}  // namespace

long verif_enumerate(int shard, int nshards, int tier, verif::EnumReport &r) {
    EnumCtx e(r);
    // (a) every 16-bit value, signed and unsigned, x 35 bases x both cases
    for (int a = shard; a < 65536; a += nshards) {
        for (int base = 2; base <= 36; base++)
            for (int up = 0; up < 2; up++) {
                const int level = (((a / nshards) + base) & 3) == 0 ? 2 : 1;
                if (!e.print<short>(static_cast<short>(static_cast<unsigned short>(a)), base, up != 0, level)) return r.evaluations;
                if (!e.print<unsigned short>(static_cast<unsigned short>(a), base, up != 0, level)) return r.evaluations;
            }
    }
    if (shard == 0) {
        r.samples.push_back(render_print<short>(std::numeric_limits<short>::min(), 2, false));
        r.samples.push_back(render_print<unsigned short>(65535, 36, true));
    }
    // (b) boundary tables of the wider types x 35 bases x both cases
    if (!e.table<int>(shard, nshards) || !e.table<unsigned int>(shard, nshards) || !e.table<long>(shard, nshards) || !e.table<unsigned long>(shard, nshards) ||
        !e.table<long long>(shard, nshards) || !e.table<unsigned long long>(shard, nshards))
        return r.evaluations;
    // (c) parse direction: every string of length <= L over a 16-symbol alphabet x every base
    const int L = tier == 0 ? 5 : 6;
    uint8_t s[8];
    if (shard == 0)
        for (unsigned code = 0; code < 36; code++) if (!e.parse(s, 0, base_from_code(code))) return r.evaluations;
    for (int first = shard; first < 16; first += nshards) {
        s[0] = kEnumAlphabet[first];
        for (int len = 1; len <= L; len++) {
            long count = 1; for (int i = 1; i < len; i++) count *= 16;
            for (long idx = 0; idx < count; idx++) {
                long v = idx; for (int i = 1; i < len; i++) { s[i] = kEnumAlphabet[v & 15]; v >>= 4; }
                for (unsigned code = 0; code < 36; code++) if (!e.parse(s, (size_t)len, base_from_code(code))) return r.evaluations;
            }
        }
        if (r.want_sample()) {            // one differently shaped sample per shard
            static const char *const shapes[16] = {"x7Fz", "7\0" "19", "-0x1Fz", " +019", "z-1", "\t-zz ", "0b101", "F\xFF", "Xx7", " -0X", "+ 7", "  7 ", "\t9a", "\0" "77", "\xFF" "1", "b0b1"};
            const char *sh = shapes[first]; size_t sn = first == 1 || first == 13 ? 4 : strlen(sh);
            r.samples.push_back(render_parse((const uint8_t *)sh, sn, first % 3 == 0 ? 0 : first % 3 == 1 ? 16 : 36));
        }
    }
    // (d) to_bool (and every other member, base 0): every letter-case variant of the two words, bare and with one byte before / after
    {
        static const char *const wordsE[2] = {"true", "false"};
        static const uint8_t extra[] = {' ', 0x00, '1', 'e', '\t', '+', 0xFF};
        long idx = 0;
        for (int wi = 0; wi < 2; wi++) {
            const size_t wl = strlen(wordsE[wi]);
            for (unsigned mask = 0; mask < (1u << wl); mask++) {
                if ((idx++ % nshards) != shard) continue;
                uint8_t w[8];
                for (size_t i = 0; i < wl; i++) w[i] = (mask >> i & 1) ? uint8_t(wordsE[wi][i] - 32) : (uint8_t)wordsE[wi][i];
                if (!e.parse(w, wl, 0) || !e.parse(w, wl, 36) || !e.parse(w, wl - 1, 0)) return r.evaluations;
                for (uint8_t x : extra) {
                    uint8_t t[8];
                    memcpy(t, w, wl); t[wl] = x; if (!e.parse(t, wl + 1, 0)) return r.evaluations;
                    t[0] = x; memcpy(t + 1, w, wl); if (!e.parse(t, wl + 1, 0)) return r.evaluations;
                }
            }
        }
    }
    // (e) a number streamed / formatted into output that already holds `fill` bytes: every fill level 0..5000 x 8 argument types x
    //     {most negative or largest, largest, a mid-size value}, pre-state and tail rotating
    for (size_t fill = (size_t)shard; fill <= kMaxFill; fill += (size_t)nshards) {
        for (int kind = 0; kind < 8; kind++) {
            static const uint64_t vals[3] = {0x8000000000000000ull, 0x7FFFFFFFFFFFFFFFull, 1234567};
            for (int vi = 0; vi < 3; vi++) {
                StreamCase sc; sc.kind = kind; sc.fill = fill; sc.bits = vals[vi];
                if (kind == 0 || kind == 1) sc.bits = vi == 0 ? 0x80000000ull : vi == 1 ? 0x7FFFFFFFull : 1234567;
                if (kind == 6 || kind == 7) sc.bits = vi == 0 ? 0x8000ull : vi == 1 ? 0x7FFFull : 12345;
                if ((kind & 1) && kind < 6 && vi == 0) sc.bits = ~0ull;          // unsigned: all ones
                sc.pre = (int)((fill + (size_t)kind * 3 + (size_t)vi) % 7); sc.tail = (int)((fill / 7 + (size_t)kind + (size_t)vi * 2) % 5);
                encode_stream(sc, e.cur);
                verif::set_current(e.cur, kStreamBytes);
                r.evaluations++;
                bool straddles, ends_on; stream_boundary(sc, straddles, ends_on);
                if (straddles || ends_on || fill >= ST_STACK_STRING_SIZE) r.nontrivial++;
                std::string why = check_stream(sc);
                if (!why.empty()) {
                    if (r.failure.empty()) { r.failure = why; r.failing_case = render_stream(sc); r.failing_bytes.assign(e.cur, e.cur + kStreamBytes); }
                    return r.evaluations;
                }
                if (shard == 1 && fill == 241 && kind == 4 && vi == 0 && r.want_sample()) r.samples.push_back(render_stream(sc));
            }
        }
    }
    if (shard == 0) {
        r.exhausted.push_back("to_bool and all integer members, base 0: all 16 + 32 letter-case variants of \"true\" / \"false\", bare, shortened by one, and with one of {space NUL 1 e tab + 0xFF} before or after");
        r.exhausted.push_back("stream: every fill level 0..5000 of a string_stream / ST::format output x 8 integer argument types x 3 values (extremes, mid-size), pre-state (7) and tail (5) rotating");
        r.exhausted.push_back("print: all 65536 short and all 65536 unsigned short values x bases 2..36 x both letter cases (9,175,040 values x printers x parse-back)");
        r.exhausted.push_back("print: boundary tables of int/long/long long and unsigned counterparts (0, +-1, min, min+1, max, max-1, 2^k+-1, b^k+-1 for b=3..36) x bases 2..36 x both cases");
        r.exhausted.push_back(std::string("parse: every byte string of length 0..") + (tier == 0 ? "5" : "6") +
                              " over {0 1 7 9 a F z x X - + space tab NUL 0xFF b} x bases {0,2..36} x 8 to_* members x 2 overloads");
    }
    return r.evaluations;
}

void verif_corpus(std::vector<std::vector<uint8_t>> &out) {
    auto parse_seed = [&](int base, const char *t, size_t n) { std::vector<uint8_t> v{0xFE, code_from_base(base)}; v.insert(v.end(), t, t + n); out.push_back(v); };
    parse_seed(0, "0x7fffffff", 10);
    parse_seed(10, "  -80000 ", 9);
    parse_seed(16, "-8000000000000000", 17);
    parse_seed(0, "0777", 4);
    parse_seed(36, "zz\0zz", 5);
    parse_seed(0, "18446744073709551616", 20);
    uint8_t b[12];
    directed_print_bytes(b, 3, 16 - 2, true, 0x8000000000000000ull); out.push_back(std::vector<uint8_t>(b, b + 12));
    directed_print_bytes(b, 0, 10 - 2, false, 0x80000000ull); out.push_back(std::vector<uint8_t>(b, b + 12));
    out.push_back({0, 0, 0, 0});
    out.push_back({1, 0, 0, 0, 0, 1, '7'});
    parse_seed(0, "TrUe", 4); parse_seed(0, "false\0", 6); parse_seed(0, "4294967296", 10);
    uint8_t sb[kStreamBytes];
    StreamCase sc; sc.kind = 4; sc.fill = 250; sc.bits = 0x8000000000000000ull; sc.tail = 2; encode_stream(sc, sb); out.push_back(std::vector<uint8_t>(sb, sb + kStreamBytes));
    sc.kind = 1; sc.fill = 1020; sc.pre = 4; sc.bits = 0xFFFFFFFFull; sc.tail = 3; encode_stream(sc, sb); out.push_back(std::vector<uint8_t>(sb, sb + kStreamBytes));
    out.push_back({22 << 3, 0, 0, 0, 0, 0, 0, 0, 0});
    out.push_back({26 << 3, 0, 0, 0, 0, 0, 0, 0, 0});
    out.push_back({28 << 3, 0, 0, 0, 0, 0, 0, 0, 0});
}
